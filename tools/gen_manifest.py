#!/usr/bin/env python3
"""Regenerates MANIFEST.json from tools/propcfg.py (claimed checks) — keeps the manifest consistent with the code."""
import json, os, sys
ROOT = os.path.join(os.path.dirname(os.path.abspath(__file__)), "..")
sys.path.insert(0, os.path.dirname(os.path.abspath(__file__)))
import propcfg

all_ids = [json.loads(l)["id"] for l in open(os.path.join(ROOT, "properties.jsonl"))]
checks = []
for pid in sorted(propcfg.PROPS):
    c = propcfg.PROPS[pid]
    checks.append({
        "property_id": pid,
        "quick_cmd": "./check %s --tier quick" % pid,
        "thorough_cmd": "./check %s --tier thorough" % pid,
        "evidence_file": "/verif/evidence/%s.json" % pid,
        "replay_cmd_template": "./check %s --replay {path}" % pid,
        "engine": "lean4-proof+correspondence",
        "level_claimed": {"category": "proof", "text": c["level_text"], "design_ref": c.get("design_ref", "DESIGN.md section 4, " + pid)},
        "level_note": c["level_note"],
        "technique": c.get("technique", "Lean 4 theorems about a hand-written executable model; model tied to /repo by a differential correspondence run and a source extractor"),
    })
na = [{"property_id": p, "reason": propcfg.NOT_APPLICABLE.get(p, "check not built yet in this session (work in progress; see DESIGN.md section 4 for the plan)")}
      for p in all_ids if p not in propcfg.PROPS]
m = {
    "version": 1,
    "setup_cmd": "./check --setup",
    "hooks": {
        "guard": "--cfg kolibrie_verif",
        "enable": "harness/.cargo/config.toml sets rustflags = [\"--cfg\", \"kolibrie_verif\"] for the harness build of /repo's crates",
        "baseline_off_cmd": "cd /repo && cargo test --workspace --no-fail-fast --offline",
        "source_commits": propcfg.HOOK_COMMITS,
        "add_only": True,
    },
    "engines": [{"name": "lean4-proof+correspondence", "path": "/verif/check", "serves_properties": sorted(propcfg.PROPS),
                 "kind_free_text": "Lean 4 (kernel-checked theorems over executable models, lean/), Rust differential harness (harness/) speaking a line protocol to the compiled Lean driver, Python orchestration (check, tools/)"}],
    "checks": checks,
    "not_applicable": na,
    "notes": "See DESIGN.md. known_findings.json lists recorded defects; seeded/ holds validated breaking changes.",
}
json.dump(m, open(os.path.join(ROOT, "MANIFEST.json"), "w"), indent=1)
print("claimed:", sorted(propcfg.PROPS), "not claimed:", [x["property_id"] for x in na])
