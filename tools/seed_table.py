#!/usr/bin/env python3
"""
seed_table.py — regenerates the table of seeded breaking changes in DESIGN.md (between the markers
<!-- SEEDED-TABLE-BEGIN --> and <!-- SEEDED-TABLE-END -->) from /verif/seeded/*/meta.json.
"""
import glob, json, os, re

ROOT = os.path.join(os.path.dirname(os.path.abspath(__file__)), "..")
rows = []
STR = json.load(open(os.path.join(ROOT, "seeded", "strengthening.json"))) if os.path.exists(os.path.join(ROOT, "seeded", "strengthening.json")) else {}
for mf in sorted(glob.glob(os.path.join(ROOT, "seeded", "*", "meta.json"))):
    m = json.load(open(mf))
    seed = m["seed"]
    readme = m.get("readme", "")
    title = ""
    for line in readme.splitlines():
        line = line.strip()
        if line.startswith("#"):
            title = re.sub(r"^#+\s*", "", line)
            break
    title = m.get("title") or title or "(see README.md)"
    chk = m.get("check") or {}
    how = m.get("caught_by") or ""
    if not how and chk.get("detected"):
        rp = chk.get("replay") or {}
        kind = rp.get("kind") or rp.get("verdict") or ""
        how = "quick differential run: impl ≠ spec on a generated request" if chk.get("concrete_failing_input", True) else "proof/correspondence break, no failing input found"
        if kind:
            how += " (%s)" % kind
    rows.append("| `%s` | %s | %s | %s | %s | %s |" % (
        seed, title.replace("|", "/")[:110], ", ".join(m.get("touched_crates", [])),
        "yes" if m.get("confirmed") else "NO",
        ("yes (%s)" % chk.get("cmd", "").replace("./check ", "")) if chk.get("detected") else ("not run" if not chk else "**missed**"),
        (STR.get(seed) or m.get("strengthening") or how).replace("|", "/")))
hdr = ["| seed | change | crates | confirmed (demo fails with / passes without, existing tests pass) | detected | how / what was strengthened |",
       "|---|---|---|---|---|---|"]
table = "\n".join(hdr + rows)
p = os.path.join(ROOT, "DESIGN.md")
s = open(p).read()
b, e = "<!-- SEEDED-TABLE-BEGIN -->", "<!-- SEEDED-TABLE-END -->"
if b in s:
    s = s[:s.index(b) + len(b)] + "\n" + table + "\n" + s[s.index(e):]
    open(p, "w").write(s)
print(table)
