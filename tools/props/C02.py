def _nontrivial(req, impl):
    return impl not in ("{}", "") and not impl.startswith("panic") and not impl.startswith("parse")


CFG = {
    "kw": "plan", "header_len": 2, "no_shrink": True,
    "rule": "three streams: (p) random explicit physical plans (all operators, all three join executors, star joins, graph scopes, filters, "
            "sub-selects, binds) executed by ExecutionEngine and by the model — exact multiset equality; (q) random group patterns lowered by the real "
            "lowering, optimised by the real optimizer under {fresh, stale, empty, adversarial} statistics injected through "
            "Streamertail::with_cached_stats_and_dataset, with every BGP randomly permuted, join nodes kept / all-bind / all-hash / all-nested-loop / "
            "randomly reassigned (star joins expanded), executed in rayon pools of 1, 2, 7, 16 threads; the answer must equal the algebra's bag of "
            "solutions of the *unpermuted* pattern. non-trivial = non-empty bag; distinct = distinct request lines",
    "nontrivial": _nontrivial,
    "level_text": "Theorems: the hash join equals the nested-loop join as a multiset on every pair of solution sequences; the executor distributes over "
                  "concatenation of its input (chunking / thread count irrelevant); on well-scoped plans feeding bindings in equals joining afterwards, so the "
                  "three join executors and every scan order agree with the algebra. The correspondence run ties the model to ExecutionEngine and checks the "
                  "real optimizer's plans under injected statistics, permutations, join rewrites and pool sizes against the algebra.",
    "level_note": "Trusted: Lean kernel; hand-written model tied to the code by the differential run; the cost model/statistics are *not* modelled (oracle); real "
                  "thread interleavings are exercised (rayon pools) not proved: the model proves order-of-chunks independence only.",
    "trusted": ["rayon par_chunks/collect assumed order-preserving; their use is modelled as chunk -> map -> concat"],
    "assumptions": ["statistics only influence which of the candidate plans is chosen (checked by running, not proved)"],
}
