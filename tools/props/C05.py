import re


def _nontrivial(req, impl):
    # the run derived at least one fact
    m = re.search(r" n=(\d+) ", impl)
    return bool(m) and int(m.group(1)) > 0


CFG = {
    "kw": "dl", "header_len": 3,
    "rule": "a request is one program (rules R:… with 1-4 premises, constants and repeated variables in every position, "
            "variable predicates, several conclusions, numeric/variable filters, optionally NOT-atoms), one fact set and one of the four "
            "strategies (naive, semi-naive, semi-naive parallel, provenance/Boolean); rules and facts are inserted in a random interleaved "
            "order; the observable is the final fact set, the number of facts the run returned and the number a second run returned. "
            "Exhaustive part: every one-premise rule shape over {v0,v1,c0,c1}x{c2,v2,v0}x{v0,v1,c0,c1} with safe single conclusions "
            "(thorough: all of them and every pair of premise shapes) on a fixed fact set under all four strategies. "
            "non-trivial = the run derived at least one fact; distinct = distinct request lines",
    "nontrivial": _nontrivial,
    "level_text": "Proof about an executable transcription of the fixpoint driver (infer_with_strategy), the naive and semi-naive rounds, "
                  "the parallel strategy as written and the Boolean-provenance stratified driver. Proved for every safe program, fact list and numeric reading: "
                  "each round only adds derivable facts; a reported fixpoint contains every derivable fact (the delta lemma for the semi-naive window); hence "
                  "naive, semi-naive and provenance runs end with exactly the textbook least model (inductive definition over total valuations), agree after every "
                  "number of rounds, do not depend on rule/fact order nor on the iteration order of the per-round HashSet, a second run derives nothing, and "
                  "the loop terminates within k^3+1 rounds over k ids; with negation the provenance driver yields the stratified model when NOT-rule heads feed no "
                  "premise; the parallel strategy is exact on the fragment it implements (1-2 premises, constant predicates, no filters/negation) and provably "
                  "incomplete/unsound outside it (recorded findings). The model is tied to the Rust code by running both on generated and enumerated programs.",
    "level_note": "Trusted: Lean kernel; hand-written model tied to the code by the differential run only; perform_hash_join_for_rules is modelled by its "
                  "observable nested-loop behaviour on the homogeneous binding sets rule evaluation produces (its hash-table partition is not transcribed); "
                  "Boolean provenance without probability seeds (all tags = one); thread-level parallelism (rayon) is only exercised. "
                  "Known findings: the parallel strategy outside its fragment, negation outside the provenance strategy, single negative pass.",
    "trusted": ["perform_hash_join_for_rules modelled by its observable nested-loop behaviour", "HashSet/Vec order abstracted (membership theorems)",
                "u32 ids as Nat, f64 filter comparison on small integers as Int"],
    "assumptions": ["facts and rule constants are dictionary ids below the declared universe size k (termination bound k^3+1 rounds)", "rules are safe (>= 1 premise; head, filter and negated variables occur in a premise)", "ids < 2^32-1 (rule_index WILDCARD)",
                    "no probability seeds (plain facts)", "variable names do not start with __const_"],
}
