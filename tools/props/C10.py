def _nontrivial(req, impl):
    # at least two firings and some firing emitted a row
    return impl.count("{") >= 2 and "[v" in impl


CFG = {
    "kw": "rsp", "header_len": 7,
    "rule": "a request is a whole single-window continuous query run: mode {single, multi}-thread x {R,I,D}STREAM x window width/slide "
            "(tumbling, sliding, hopping with holes) x BGP window query (1-3 patterns, constants, repeated and predicate variables) x 0-3 Datalog rules "
            "(1-2 premises, 1-2 conclusions, recursive ones included) x an in-order stream of timestamped triples over a 4-entity/3-predicate "
            "vocabulary (so raw, derived and queried triples collide), optionally ended by stop() (flush firing); 5% malformed out-of-order streams. "
            "The engine is built from RSP-QL text, fed through RSPEngine::add, and the rows handed to the ResultConsumer are grouped per firing "
            "(a transparent R2R wrapper marks each window-query execution); an independent probe CSPARQLWindow with the same parameters records "
            "the window contents. Multi-thread runs are joined deterministically (engine dropped, then wait until every worker has released "
            "the consumer closure). Exhaustive part: tumbling window, rule p=>q, query on q, every sequence of 3 (quick) / 4 (thorough) slots each "
            "holding any subset (<=2) of {a p b, a q c, b q c}, x 3 operators, alternating modes. "
            "non-trivial = at least two firings and at least one emitted row; distinct = distinct request lines",
    "nontrivial": _nontrivial,
    "level_text": "Proof by invariant over all histories of fired window contents: after every firing the store holds exactly the current "
                  "content plus what the rules derive from it (no raw or derived triple of an earlier firing), so the rows equal the query "
                  "answers over content + derive(content), and the emitted rows are RSTREAM/ISTREAM/DSTREAM of these relative to the previous "
                  "firing's answers (as multisets per firing). Proved in full for SimpleR2R::add that forgets re-added triples from derived_triples "
                  "(fixes/C10_raw_equals_derived.patch); for the code without that line under the forced hypothesis NoRawDerivedClash, with an "
                  "evaluated counterexample outside it. The producer/FIFO/worker pipeline of register_window!(MultiThread) is proved to emit the "
                  "single-threaded sequence under every schedule (model level).",
    "level_note": "Partial: real thread interleavings are exercised (multi-thread runs, OS scheduling), not proved; the reasoner is a parameter of the "
                  "state theorems (any function of the store that returns new, duplicate-free facts and respects permutation) and is instantiated with a "
                  "naive Datalog fixpoint whose equality with infer_new_facts_semi_naive is only checked by the differential run (C05's subject); "
                  "window contents come from an own transcription of CSPARQLWindow compared with a probe window on every case (C09's subject).",
    "trusted": ["HashMap/HashSet iteration order abstracted: per-firing row multisets (List.Perm)",
                "window plans are BGPs produced by the optimizer; the model evaluates the BGP directly (bag semantics)"],
    "assumptions": ["single-window queries, OnWindowClose/TimeDriven, SimpleR2R without hybrid/probabilistic configuration",
                    "rules are safe (head variables occur in the body), no filters/negation"],
}
