def _nontrivial(req, impl):
    # at least one firing handed a non-empty content to the consumer
    return any(not t.endswith(":[]") for t in impl.split(" ") if ":" in t)


CFG = {
    "kw": "win", "header_len": 5,
    "rule": "requests are whole timestamped streams `win <width> <slide> <consumer> <tick>/<strategies> <ts>:<item> ...` fed item by item into a fresh "
            "CSPARQLWindow (`cb`: add_to_window + register_callback; `pb`: add_probabilistic_to_window + callback) or WindowRunner (`rx`: start_receiver/push/drain after every push); the reply is the "
            "list of firings `<trigger>:[sorted items]`. exhaustive part: every in-order stream of length <= 5 (thorough 7) with timestamps <= 9 (12) for every "
            "width, slide <= 4 (6), distinct items, all three entry points (thorough: rx / pb on every third stream); random part: streams of length <= 60 (thorough 300) with dense gaps (<= slide), gaps up to "
            "width, gaps up to 5*width, bursts of equal timestamps, repeated items, origins far from 0, width a multiple / not a multiple of slide, slide > width, "
            "tumbling; 20% of the random requests use other report strategies / ticks or out-of-order streams (correspondence only, no specification output). "
            "non-trivial = some firing carries a non-empty content; distinct = distinct request lines",
    "nontrivial": _nontrivial,
    "level_text": "Invariant proof by induction over the stream, for every width, every slide >= 1 and every in-order stream (duplicates, arbitrary gaps): "
                  "every active window is an aligned interval [c - width, c) (clipped at 0) containing the current time whose content is exactly the set of "
                  "earlier items with a timestamp in it, and all such intervals are active; every content handed to the consumer is exactly the items of one "
                  "aligned interval closing at or before the trigger (none missing, none foreign); triggers strictly increase and reported intervals advance; "
                  "with consecutive timestamps at most one slide apart every closing non-empty aligned interval (every closing interval when width >= slide) is reported exactly once; and the list of reports equals, for every in-order stream, the window-state-free reference of the specification (the latest aligned interval closing in (previous timestamp, t] that contains the previous item or closes at t). The model calls the "
                  "three comparison guards and the max_by direction regenerated from s2r.rs on every run, and is tied to the Rust code by running both on "
                  "exhaustively enumerated and generated streams.",
    "level_note": "Claimed for report strategy OnWindowClose with Tick::TimeDriven (the default and the combination RSP uses); other strategies/ticks and "
                  "out-of-order streams are only run through the correspondence. Trusted: f64 ceil/multiply/cast in CSPARQLWindow::scope equal the integer "
                  "computation for timestamps < 2^53; HashMap keyed by Window modelled as a key-unique list; items as Nat; add_probabilistic_to_window is run against the same model (its own copy of the guards is not extracted); "
                  "flush and OnContentChange are not modelled.",
    "trusted": ["f64 arithmetic of CSPARQLWindow::scope is exact for timestamps < 2^53 (modelled over Nat with truncated subtraction for the saturating `as usize` cast)",
                "HashMap<Window, ContentContainer> modelled as a key-unique list; ContentContainer as the set of its items"],
    "assumptions": ["slide >= 1 (slide = 0 does not terminate in scope)", "timestamps non-decreasing (in-order stream)", "timestamps < 2^53",
                    "report strategies = [OnWindowClose], tick = TimeDriven"],
}
