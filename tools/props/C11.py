import re


def _rows(s, tag):
    m = re.search(r" %s \[([^\]]*)\]" % tag, " " + s)
    if not m:
        return None
    return set(x for x in m.group(1).split(";") if x)


def _equal(impl, ref):
    """single-thread replies are compared verbatim; a multi-thread reply `… R [rows]` is accepted iff its window
    contents equal the reference's and every emitted row is among the reference's allowed rows `… A [rows]`"""
    if " A [" in (" " + ref):
        if " R [" not in (" " + impl):
            return False
        if impl.split(" R [")[0] != ref.split(" A [")[0]:
            return False
        return _rows(impl, "R") <= _rows(ref, "A")
    return impl == ref


def _nontrivial(req, impl):
    return "[v" in impl


CFG = {
    "kw": "rspm", "header_len": 7, "equal": _equal,
    "rule": "a request is a whole two-window continuous query run: {single, multi}-thread x policy {wait, steal, timeout-steal, timeout-drop} "
            "x two windows (width/slide 1-5, own or common stream) with BGP blocks of 1-2 patterns whose predicate vocabularies are either "
            "disjoint or shared across the streams, sharing 0/1/all variables x optional static pattern + static triples (some over window "
            "predicates) x interleaved in-order streams, optionally ended by stop(). Built from RSP-QL text, fed through add_to_stream; "
            "single-thread: every non-empty emission (rows handed to the ResultConsumer between two API calls) is compared with the model of "
            "the shared store (M) and with the same coordinator over per-window stores (S); an independent probe window per WINDOW clause "
            "records what that window itself reported. multi-thread (seeded perturbation, threads joined deterministically): the set of "
            "emitted rows must be contained in the rows that joins of answers over contents each window itself reported (+ static data) "
            "allow. Exhaustive part: class-sharing witness shape, every sequence of 2 (quick) / 3 (thorough) rounds x {wait, steal}. "
            "non-trivial = at least one emitted row; distinct = distinct request lines",
    "nontrivial": _nontrivial,
    "level_text": "Proved for all inputs: every row of a natural join (and of the fold over any number of windows) extends one row of each "
                  "operand (natural_join_proj); static bindings are answers over static_db only and window stores only ever contain stream "
                  "items (static_isolated); with per-window stores every emitted solution extends, for every participating WINDOW block, an "
                  "answer of that block over a content this very window reported (blocks_isolated). The model of the code that exists (one "
                  "shared store) violates this: evaluated witness (shared_store_leak), and agrees with the per-window model under the forced "
                  "hypothesis VocabDisjoint (shared_eq_isolated_partial).",
    "level_note": "Partial: the multi-thread coordinator (timing-dependent batching, timeouts) is only exercised and judged by the allowed-rows "
                  "oracle; no rules inside multi-window models (C10 covers materialisation); RSTREAM only.",
    "trusted": ["HashMap iteration order of last_materialized abstracted: emissions compared as sorted multisets",
                "window plans are BGPs produced by the optimizer; the model evaluates the BGP directly (bag semantics)"],
    "assumptions": ["two WINDOW clauses, OnWindowClose/TimeDriven windows, SimpleR2R, no rules, RSTREAM",
                    "single-thread emissions are observed between API calls (an empty emission is indistinguishable from none)"],
}
