"""C08 — hybrid probability results never certify a wrong decision (protocol: lean/Kolibrie/Driver/C08.lean)."""
from fractions import Fraction

TOL = Fraction(1, 10 ** 9)


def _num(s, T=None):
    """a number of a result token: the implementation prints f64, the model prints a mass (integer over T)"""
    if s == "-":
        return None
    if T is not None:
        return Fraction(int(s), T)
    return Fraction(s) if ("e" not in s and "E" not in s and "inf" not in s and "NaN" not in s) else Fraction(float(s))


def _parse_result(tok, T=None):
    """`status/decision/reason/lo/hi/k/flags/gain/width` -> tuple (tags, numbers)"""
    p = tok.split("/")
    if len(p) != 9:
        return (tok,), ()
    return (p[0], p[1], p[2], p[5], p[6]), (_num(p[3], T), _num(p[4], T), _num(p[7], T), _num(p[8], T))


def _close(a, b):
    if a is None or b is None:
        return a is None and b is None
    return abs(a - b) <= TOL


def _same(r1, r2):
    return r1[0] == r2[0] and len(r1[1]) == len(r2[1]) and all(_close(a, b) for a, b in zip(r1[1], r2[1]))


def _expand_impl(sec):
    """`J 3*res 1*res …` -> list of (result, count)"""
    out = []
    for tok in sec.split()[1:]:
        n, r = tok.split("*", 1)
        out.append([_parse_result(r), int(n), False])
    return out


def _expand_model(sec, T):
    out = []
    for tok in sec.split()[1:]:
        n, r = tok.split("*", 1)
        out.append([_parse_result(r[1:], T), int(n), r[0] == "+"])
    return out


def _merge(runs):
    out = []
    for r, n, stretch in runs:
        if out and _same(out[-1][0], r):
            out[-1][1] += n
            out[-1][2] = out[-1][2] or stretch
        else:
            out.append([r, n, stretch])
    return out


def _match_family(impl_sec, model_sec, T):
    a = _merge(_expand_impl(impl_sec))
    b = _merge(_expand_model(model_sec, T))
    if len(a) != len(b):
        return False
    for (ra, na, _), (rb, nb, stretch) in zip(a, b):
        if not _same(ra, rb):
            return False
        if (na < nb) if stretch else (na != nb):
            return False
    return True


def _equal_model(impl, m):
    ms = [s.strip() for s in m.split(";")]
    is_ = [s.strip() for s in impl.split(";")]
    if len(ms) < 2 or not ms[0].startswith("T "):
        return False
    T = int(ms[0].split()[1])
    ms = ms[1:]
    if len(ms) != len(is_) or ms[0] != is_[0]:
        return False
    for x, y in zip(is_[1:], ms[1:]):
        if x.split()[0] != y.split()[0]:
            return False
        if x.startswith("topk"):
            xi, yi = x.split()[1].split("/"), y.split()[1].split("/")
            if xi[0] != yi[0] or len(xi) != len(yi):
                return False
            if xi[0] == "err":
                if xi != yi:
                    return False
            else:
                for k in (1, 2, 3, 6):
                    if not _close(_num(xi[k]), _num(yi[k], T)):
                        return False
                if xi[4] != yi[4] or xi[5] != yi[5]:
                    return False
        elif not _match_family(x, y, T):
            return False
    return True


def _sound(res, P, thr):
    """one implementation result judged against the exact probability P (possible-world sum) and the threshold"""
    tags, nums = res
    if len(tags) == 1:
        return False                      # panic / unparsable
    status, decision = tags[0], tags[1]
    lo, hi = nums[0], nums[1]
    if status == "Exact":
        if lo is None or abs(lo - P) > TOL:
            return False
    elif status == "Bounded":
        if lo is None or hi is None or not (lo - TOL <= P <= hi + TOL):
            return False
    elif status == "NeedsExact":
        if decision != "Indeterminate":
            return False
        if lo is not None and lo - TOL > P:
            return False
        if hi is not None and hi + TOL < P:
            return False
        return True
    else:
        return False                      # LowerBound / UnsafeApproximation are never returned by the controller
    if decision == "Alert":
        return P >= thr                   # P = threshold exactly: probabilities and thresholds are dyadic, so f64 is exact
    if decision == "NoAlert":
        return P < thr
    return False                          # Exact/Bounded always carry a decision


def _equal_spec(impl, s):
    p = s.split()
    P, thr = Fraction(p[1]), Fraction(p[3])
    secs = [x.strip() for x in impl.split(";")]
    if len(secs) < 2:
        return False
    for sec in secs[1:]:
        if sec.startswith("topk"):
            t = sec.split()[1].split("/")
            if t[0] == "err":
                continue                  # a refusal certifies nothing
            lower, lo, hi = _num(t[1]), _num(t[2]), _num(t[3])
            if lower - TOL > P or not (lo - TOL <= P <= hi + TOL):
                return False
            if t[5][0] == "1" and not (abs(lo - P) <= TOL and abs(hi - P) <= TOL):
                return False              # frontier exhausted: the bound is the exact value
        else:
            for r, _n, _s in _expand_impl(sec):
                if not _sound(r, P, thr):
                    return False
    return True


def _equal(impl, other):
    try:
        if other.startswith("spec "):
            return _equal_spec(impl, other)
        return _equal_model(impl, other)
    except Exception:
        return False


def _nontrivial(req, impl):
    # the sweep produced at least two different results (some expiry point changed the outcome), or a top-k evaluation succeeded
    secs = [x.strip() for x in impl.split(";")]
    for sec in secs[1:]:
        if sec.startswith("topk"):
            if sec.startswith("topk ok"):
                return True
            continue
        if len(set(t.split("*", 1)[1] for t in sec.split()[1:])) >= 2:
            return True
    return False


CFG = {
    "kw": "hyb", "header_len": 2, "no_shrink": True, "equal": _equal,
    "rule": "exhaustive part: every OR-of-ANDs over three seeds (128 formulas) x thresholds x (k_initial,k_max) pairs, each swept over every clock reading; corpus: witnesses of four caught mutations; random part: each request builds a lineage DAG through LineageStore::{literal,not,and,or} (random monotone / non-monotone DAGs and OR-of-AND "
            "shapes over <= 12 seeds with dyadic probabilities, independent seeds and exclusive groups that sum to 1, occasional missing seeds), "
            "picks a configuration (threshold — half of the time within 3/64 of the true probability —, band, gain floor, k_initial/k_max/k_growth, budgets, node budget 2 or large; 1 in 30 invalid) and runs "
            "evaluate_hybrid_with_clock once with a clock that never expires and then, for EVERY clock reading j of that run, with a clock that jumps "
            "past the current deadline at reading j (family J) and with a clock that also kills every later deadline (family R); 1 in 8 requests "
            "call evaluate_topk instead. Compared with the model: canonical root id, arena dump hash, metadata, and per expiry point status / "
            "decision / reason / bounds / k_used / flags / marginal gain (f64 within 1e-9 of the model's exact rationals); readings inside an SDD "
            "invocation are matched as a stretch of unknown positive length. Judged against the possible-world sum of the *un-canonicalised* formula. "
            "non-trivial = at least two different results along a sweep, or a successful top-k evaluation; distinct = distinct request lines",
    "nontrivial": _nontrivial,
    "level_text": "Proof over exact arithmetic: the lineage store's canonicalisation preserves meaning; the best-first proof enumeration keeps the cover "
                  "invariant at every step, for every clock; hence lower = P(retained proofs) <= P(phi) <= lower + probe + frontier mass, exhausted "
                  "enumeration gives the exact value, and every result of the escalation controller is sound for every configuration, every clock "
                  "(every expiry point) and every SDD budget outcome: Exact = P(phi), Bounded contains P(phi), Alert => P(phi) >= threshold, NoAlert => "
                  "P(phi) < threshold, budget exhaustion => NeedsExact (with sound partial bounds) or a sound Exact. The model is tied to hybrid.rs by "
                  "running both at every clock reading of generated cases.",
    "level_note": "The SDD library is a black box here (C07): a completed compilation is assumed to return the exact weighted model count, including the "
                  "exactly-one encoding of exclusive groups; its checkpoint counts are matched as stretches. f64 is compared with tolerance 1e-9 and "
                  "generated probabilities/thresholds are dyadic so that float arithmetic is exact (rounding exactly at p = threshold is outside the claim). "
                  "hybrid_materialisation.rs (rule-driven lineage construction) is not modelled; it reaches the controller only through evaluate_hybrid.",
    "trusted": ["SDD compilation (shared/src/sdd.rs) returns the exact weighted model count when it completes (property C07)",
                "f64 modelled as exact rationals (masses over a common denominator); BinaryHeap modelled as select-maximum (ordering is total: unique sequence numbers)"],
    "assumptions": ["seed ids are distinct; every exclusive group's probabilities sum to 1 (annotated-disjunction encoding)",
                    "probabilities and thresholds are finite f64 in [0,1]; the lineage arena is built through the public LineageStore API (acyclic)"],
}
