def _nontrivial(req, impl):
    # at least one mutator changed the store and one observer returned a non-empty answer
    toks = impl.split(" ")
    return "t" in toks and any(t.startswith("[") and len(t) > 2 for t in toks) or (toks and toks[-1].isdigit() and "t" in toks)


CFG = {
    "kw": "store", "header_len": 3,
    "rule": "requests are operation histories over the store API (insert/delete/create/clear/drop/clear-all/rebuild "
            "interleaved with every observer); exhaustive part: one history per distinct abstract state reachable "
            "within the tier's depth over 4 triples x 3 graphs, followed by every operation and a full observation "
            "(all 27 lookup shapes x 4 graphs, named/merged/quads variants, membership of all universe quads, graph "
            "listing); random part: histories of length <= 60 (quick) / 400 (thorough) over <= 6 terms x <= 4 graphs. "
            "non-trivial = some mutator returned true and some observer returned a non-empty answer; distinct = distinct request lines",
    "nontrivial": _nontrivial,
    "level_text": "Refinement proof: for every finite operation history the four indexes stay consistent (invariant by induction), "
                  "the denoted quad set and graph catalog equal the abstract specification's, every call returns the specified Boolean, and every "
                  "read path (8 lookup shapes per graph, named-graph lookup with/without visibility set, all-graph lookup, merged lookup, membership, "
                  "graphs-for-triple, graph listing, full dump, rebuild) returns exactly the matching quads, each once. The model is tied to the Rust code by "
                  "running both on generated and exhaustively enumerated histories and comparing every return value and observation.",
    "level_note": "Trusted: Lean kernel; the hand-written model (Model/Store.lean) corresponds to dataset_index.rs only as far as the differential run shows; "
                  "HashMap/HashSet modelled as duplicate-free lists, u32 as Nat; serde-deserialised legacy indexes are outside the model.",
    "trusted": ["HashMap/HashSet modelled as duplicate-free lists; u32 ids as Nat (no overflow)"],
    "assumptions": ["ids < 2^32", "the store is used through DatasetIndex's public API and SparqlDatabase::build_all_indexes only (no deserialised legacy index)"],
}
