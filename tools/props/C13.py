def _nontrivial(req, impl):
    # a load that left at least one quad in the database / a cross-format comparison
    return (impl.startswith("n=") and not impl.startswith("n=0")) or impl.startswith("nt=")


CFG = {
    "kw": "load", "header_len": 4,
    "rule": "requests `load <nt|nq|ttl|n3> <threads> <document> <prior quads>`: the prior quads are stored through the dictionary / "
            "quoted-triple store, then the document is loaded with parse_ntriples_and_add | parse_nquads_and_add | parse_turtle | parse_n3 "
            "(threads > 0: in a child process whose rayon pool has that size); compared: the sorted lexical quad set of the final database "
            "(ids without dictionary entry print `?`) with the model's and with `prior ∪ triples of the document read chunk-free`. "
            "Deterministic part: documents of 0, 1, 999, 1000, 1001, 2500 statements x formats x prior contents (empty / overlapping / disjoint "
            "vocabulary), a second @prefix declared mid-document. Random part: documents of 0-12 statements (comments, blank lines, `a`, "
            "language tags, datatypes, escapes, `;`/`,` lists, multi-line N3 statements, named graphs) x prior contents incl. quoted triples; "
            "every 6th document damaged by 1-3 character edits; every 10th request `load cross <triples>`: the same triples written as "
            "N-Triples, N-Quads, Turtle and N3 by the harness' own writer, each loaded into an empty database, the four quad sets hashed. "
            "Long statements: documents with one 64 KiB+ literal or IRI. Term content: literals and IRIs containing the line syntax's own "
            "punctuation (`. #`, `;`, `,`, `<>`, `@`, `^^`). RDF/XML: `load xml <n> <extra> <layout> <prior>` - a generated family of n "
            "rdf:Description resources (text and rdf:resource properties, two layouts) is loaded with parse_rdf, then the (n+extra)-resource "
            "document into the same database, with empty / half-preloaded / unrelated prior contents, n around the 8192-triple batch and "
            "beyond (worker threads x batch); compared by cardinality and an order-independent checksum with `prior ∪ family`. "
            "non-trivial = at least one quad in the final database; distinct = distinct request lines",
    "nontrivial": _nontrivial,
    "level_text": "Proof that chunked parsing followed by sequential encoding equals chunk-free loading for every positive chunk size, and that "
                  "sequential encoding into ANY well-formed prior dictionary yields prior quads ++ document triples (dictionary invariant by "
                  "induction over encode); N3: the per-chunk private dictionary + or_insert merge is modelled as written, correct only for an "
                  "empty target and a single chunk (proved), clash witnesses proved by evaluation.",
    "level_note": "Partial: the RDF/XML reader (quick-xml tokenisation) is not modelled - its loads are judged by the specification only (generated document families); thread counts are exercised (rayon pool sizes) but not "
                  "modelled; the specification side reads the document with the model's own tokenisers. Trusted: Lean kernel; hand-written "
                  "model Model/Load.lean + Model/Lines.lean tied to the code by the differential run and the extracted chunk sizes.",
    "trusted": ["rayon par_iter().map().collect() assumed order-preserving (its use is modelled: chunk -> map -> concat)",
                "HashMap/HashSet modelled as association lists / lists; u32 ids as Nat"],
    "assumptions": ["documents in the line-oriented subset; RDF/XML: generated rdf:Description families only", "ids < 2^31"],
}
