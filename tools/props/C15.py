def _nontrivial(req, impl):
    # seq: at least one identifier was handed out and something decoded; union: the result holds at least one quad or
    # graph or seed and at least one term; mrg: always (two dictionaries are merged and probed)
    toks = req.split(" ")
    if len(toks) < 2 or impl.startswith("panic") or impl == "bad-request":
        return False
    if toks[1] == "seq":
        outs = impl.split(" ")
        return any(o.isdigit() for o in outs) and "D[]" not in outs[-1]
    if toks[1] in ("union", "uid"):
        return "T[]" not in impl and "D[]" not in impl and not ("Q[]" in impl and "G[]" in impl and "A[]" in impl)
    return True


CFG = {
    "kw": "dict", "header_len": 2,
    "rule": "four request kinds. seq: histories of Dictionary::encode/decode, QuotedTripleStore::encode/decode, decode_term, "
            "is_quoted_triple_id over small string pools (incl. empty, whitespace, '<< >>', non-ASCII strings), identifiers compared "
            "exactly, full dump of both maps of both stores at the end; counters optionally preset next to the end of the plain / quoted range; "
            "exhaustive part: every history of length <= 4 (quick) / 5 (thorough) over 9 ops. union: two databases built independently through the "
            "public API (raw encode / quoted encode / add_quad / create_graph / probability_seeds plus add_triple_parts / add_tagged_triple / "
            "add_quad_parts / encode_term_star with nesting depth <= 3), shared or disjoint vocabularies, empty named graphs, quoted graph names, "
            "dangling identifiers (malformed stream), self's id space nearly exhausted; SparqlDatabase::union; observed: decode_any over every "
            "identifier, named graph, quad and seed of the result (duplicates kept) and over every identifier self had before; exhaustive part: all "
            "ordered pairs of 14 hand-shaped databases. uid: same inputs, exact identifiers of the union. mrg: Dictionary::merge of two dictionaries "
            "then decode(encode(s)) for probe strings. non-trivial = identifiers were handed out and the result is non-empty; distinct = distinct request lines",
    "nontrivial": _nontrivial,
    "level_text": "Invariant and refinement proofs over all histories: the two maps of the dictionary (and of the quoted-triple store) stay mutually inverse "
                  "with unique keys and ids below the counter; identifiers never change once handed out; encode is idempotent and injective; decode inverts encode; "
                  "plain ids stay below and quoted ids at or above the extracted QUOTED_TRIPLE_ID_BIT (the bit test is proved equivalent to the range test for u32); "
                  "quoted ids are structural and well-founded; the dictionary refines the first-appearance specification; re-encoding through the translation cache "
                  "preserves lexical denotation and the union of two databases denotes the set union of their lexical datasets. The model is tied to the Rust code by "
                  "running both on generated and exhaustively enumerated histories / database pairs and comparing identifiers and lexical datasets.",
    "level_note": "Trusted: Lean kernel; the hand-written model (Model/Dict.lean) corresponds to dictionary.rs / quoted_triple_store.rs / reencode_term_id / union only as far as "
                  "the differential run shows; HashMap as association list; u32 as Nat with the two id-exhaustion panics modelled; dataset_index read paths "
                  "(named_graphs, all_quads) abstracted to the quad set / graph set that C04 proves they return; the string parsing inside encode_term_star is not modelled.",
    "trusted": ["HashMap modelled as association list with insert / or_insert semantics; u32 ids as Nat (exhaustion panics modelled, wrap-around without overflow checks not)",
                "DatasetIndex::named_graphs/all_quads/insert_quad/create_graph abstracted to sets (justified by C04)"],
    "assumptions": ["QuotedTripleStore::encode is only called with quoted component ids that are already allocated (no forward references; "
                    "SparqlDatabase::encode_term_star guarantees it, the raw API does not)",
                    "overflow checks on (as in the repository's test profile) for the quoted-id counter"],
}
