from fractions import Fraction

TOL = 1e-9


def _val(s):
    if "/" in s:
        return float(Fraction(s))
    return float(s)


def _parse(line):
    """`<entry>… [# <new facts>]` with entry `s.p.o=<value>[@<tag>]` -> (entries, facts-part or None)"""
    if " # " in line or line.endswith(" #") or line.startswith("# "):
        body, _, rest = line.partition("#")
        rest = rest.strip()
    else:
        body, rest = line, None
    ent = {}
    for tok in body.split():
        if "=" not in tok:
            raise ValueError(tok)
        key, v = tok.split("=", 1)
        tag = None
        if "@" in v:
            v, tag = v.split("@", 1)
        ent[key] = (_val(v), tag)
    return ent, rest


def _equal(a, b):
    """impl line vs model/spec line.  Values are compared with tolerance 1e-9 (f64 vs exact rational); a fact that
    one side does not list counts as value 0 on that side (the specification lists only facts of non-zero value);
    when both sides carry the fact-list part (implementation and model) the listed fact sets and the new-fact
    lists must be identical, and DNF tags, where both sides print them, must be syntactically equal."""
    if a == b:
        return True
    try:
        ea, ra = _parse(a)
        eb, rb = _parse(b)
    except Exception:
        return False
    if ra is not None and rb is not None:
        if ra != rb or set(ea) != set(eb):
            return False
    for k in set(ea) | set(eb):
        va, ta = ea.get(k, (0.0, None))
        vb, tb = eb.get(k, (0.0, None))
        if abs(va - vb) > TOL:
            return False
        if ta is not None and tb is not None and ta != tb:
            return False
    return True


def _nontrivial(req, impl):
    # some fact was derived and some value is strictly between 0 and 1, or a derived fact exists in bool mode
    try:
        ent, rest = _parse(impl)
    except Exception:
        return False
    derived = bool(rest)
    if " bool " in req:
        return derived
    return derived and any(0.0 < v < 1.0 for v, _ in ent.values())


CFG = {
    "kw": "prov", "header_len": 3,
    "equal": _equal,
    "rule": "requests are whole probabilistic programs: distinct input triples, each certain or with probability k/D "
            "(D in {2,4,10,16}; 0, 1 and all-equal assignments over-represented), 1-4 rules drawn from recursive (transitive closure, "
            "symmetry, variable predicate), joining (shared evidence), constant / repeated-variable and multi-conclusion shapes, "
            "optionally NOT rules (isolated heads, or heads that feed other rules as a separate stream), run through "
            "Reasoner::infer_new_facts_with_provenance in the four modes dnf / sdd / minmax / bool; up to 12 uncertain facts "
            "(2^12 worlds enumerated by the specification); exhaustive part: all probability triples on a grid for a shared-evidence "
            "and a cyclic program in every mode. non-trivial = a fact was derived and (except bool) some value lies strictly between 0 and 1; "
            "distinct = distinct request lines",
    "nontrivial": _nontrivial,
    "level_text": "Proof that the tag-propagating semi-naive engine is exact for every program, every input and every reachable tag store: "
                  "DNF operations (union with subsumption pruning, product with contradiction and subsumption pruning, De Morgan negation) preserve meaning; "
                  "Shannon expansion equals the weighted sum over all worlds; every tag in every reachable store is sound for derivability "
                  "and, once the driver loop reports its fixpoint, complete; hence the reported probability equals the possible-worlds probability. "
                  "The same generic theorem instantiated at the (max,min) and Boolean semirings gives the min-max cut characterisation and plain derivability. "
                  "The model is tied to the Rust code by running both on generated programs and comparing facts, DNF tags (syntactically) and probabilities, "
                  "and the code is judged directly against world enumeration.",
    "level_note": "Partial: f64 arithmetic is modelled by exact numerators over a fixed denominator (tolerance 1e-9 in the comparison); SddProvenance is "
                  "not modelled (compared against the specification only); rule filters and unbound head variables (ml placeholders) are outside the model; "
                  "the NOT pass is proved only for programs whose NOT-rule heads feed no other rule.",
    "trusted": ["f64 probabilities modelled as exact numerators k/D (comparison tolerance 1e-9)",
                "HashMap/HashSet/BTreeSet modelled as lists read through membership; u32/u64 as Nat",
                "SddProvenance compared against the specification only (no model)"],
    "assumptions": ["input probabilities lie on a grid k/D, so that MinMaxProbability::is_saturated (|old-new| < 1e-9) coincides with equality",
                    "rules have no filters; every head variable and every variable of a NOT atom occurs in a positive premise",
                    "input triples are distinct; seeds are triples of the dataset (add_tagged_triple)"],
}
