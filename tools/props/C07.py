from fractions import Fraction


def _num(s):
    if "/" in s:
        return float(Fraction(s))
    return float(s)


def _tok_equal(a, b):
    if a == b:
        return True
    if len(a) > 2 and len(b) > 2 and a[:2] == b[:2] and a[:2] in ("r:", "g:"):
        xa, xb = a[2:].split(","), b[2:].split(",")
        if len(xa) != len(xb):
            return False
        try:
            return all(abs(_num(x) - _num(y)) <= 1e-9 for x, y in zip(xa, xb))
        except Exception:
            return False
    return False


def _equal(a, b):
    ta, tb = a.split(" "), b.split(" ")
    return len(ta) == len(tb) and all(_tok_equal(x, y) for x, y in zip(ta, tb))


def _nontrivial(req, impl):
    # at least one stored decision node was needed (node count > constants + literals is not visible here, so:
    # some apply/negate produced a non-constant function) and one observer ran
    toks = req.split(" ")
    ops = [t for t in toks if t[:2] in ("a:", "o:", "n:", "e:", "f:", "ta", "to", "tn", "te")]
    obs = [t for t in toks if t[:2] in ("W:", "G:", "M:", "K:")]
    return len(ops) >= 2 and len(obs) >= 1 and "P" not in impl.split(" ")


CFG = {
    "kw": "sdd", "header_len": 2,
    "equal": _equal,
    "rule": "requests are operation histories on one SddManager over variables 0..n-1 (n <= 8) registered in any order and at any time "
            "(ensure_variable / ensure_variable_weights incl. exclusive groups, re-registration, out-of-range probabilities): literal, apply And/Or, "
            "negate, exactly_one, functions built from truth tables, the try_* twins with a deadline that becomes unavailable at the k-th checkpoint and/or a "
            "node budget, each followed by further use of the manager, interleaved with wmc, wmc_gradient, enumerate_models and node_count. Handles are compared "
            "through truth tables (from enumerate_models, cross-checked against point-weight wmc), 'first slot holding the same handle' (canonicity), exact node counts, "
            "wmc/gradient as exact rationals vs f64 within 1e-9; at the end every slot is re-evaluated (old handles keep their meaning). Exhaustive part: operand pairs over "
            "3 variables (quick: every 16th block of 16 pairs x 2 operators; thorough: all 256x256x2) under the 6 registration orders, and for sampled scenarios every "
            "checkpoint index k and every node budget between 'one below the current count' and 'one above what the operation needs'. "
            "non-trivial = at least two combining operations and one observer, no panic; distinct = distinct request lines",
    "nontrivial": _nontrivial,
    "level_text": "Proof about a Lean transcription of SddManager (arena, unique table, apply/negate caches, right-linear vtree growth; every operation and its try_* twin is "
                  "one body threaded through a checkpoint oracle Nat->Bool and a node budget). Proved for all managers satisfying the invariant, all operands, all oracles "
                  "(= every interruption point), all node budgets, all fuel: apply/negate/literal/exactly_one return a handle denoting exactly op(den a, den b) / not / the "
                  "literal / 'exactly one of vs' (apply_outcome, apply_den, negate_outcome, negate_den, literal_outcome, exactly_one_outcome, exactly_one_den); on ANY error outcome "
                  "(deadline at any checkpoint, node budget) the manager stays well-formed and every old handle keeps its denotation (try_safe, try_safe_negate, "
                  "try_safe_exactly_one; caches hold only sound entries); a succeeding budgeted apply denotes the same function as the unbudgeted one (try_refines); the semantic "
                  "invariant holds for every history of API calls (wf_reachable_sem); wmc equals the truth-table sum when every variable has pos+neg=1 or is determined by the "
                  "function, which covers exclusive groups under their exactly_one constraint (wmc_exact, determined_of_exactly_one); wmc_gradient equals the derivative of the "
                  "truth-table sum (grad_exact). PARTIAL / MISSING: wf_reachable_partial (the ordering discipline ordOk, hypothesis of wmc_exact/grad_exact, is not proved to be "
                  "preserved by apply/negate; it is a decidable predicate checked by the driver on the final manager of every request); canonicity (equal functions => equal "
                  "handles) is NOT proved, only checked by the correspondence run (first-equal-slot comparison, exhaustive over all 256x256x2 operand pairs of 3 variables in the thorough tier).",
    "level_note": "Trusted: Lean kernel; the hand-written model (Model/Sdd.lean) corresponds to sdd.rs / diff_sdd.rs only as far as the differential run shows; "
                  "HashMap iteration order in compress modelled as first-occurrence order; f64 weights modelled as exact rationals (tolerance 1e-9); wmc/enumerate_models "
                  "recursions modelled as bottom-up tables over the arena; u32 ids as Nat.",
    "trusted": ["HashMap modelled as association lists, compress iteration order fixed", "f64 as exact rationals (1e-9)", "u32 as Nat (no overflow)"],
    "assumptions": ["literal / exactly_one are only called for registered variables (API contract stated in sdd.rs); other calls are exercised as a malformed stream",
                    "weighted counts are claimed for weights with pos+neg = 1, or variables the function determines (exclusive groups under their exactly_one constraint)"],
}
