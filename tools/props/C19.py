def _equal(impl, expected):
    # `final=*` in the expected line: the outcome of the materialisation legitimately depends on hash iteration
    # order (two derivable facts exclude each other); everything before `final=` must still be equal.
    if expected.endswith(" final=*") and " final=" in impl:
        return impl[:impl.rindex(" final=")] == expected[:-len(" final=*")]
    return impl == expected


def _nontrivial(req, impl):
    # the fact set is inconsistent (several repairs / a proper repair) or a non-empty answer came back
    return "|" in impl or ("=" in impl and "[]" not in impl.split(" ")[0]) or len(impl) > 2


CFG = {
    "kw": "rep", "header_len": 2, "no_shrink": True, "equal": _equal,
    "rule": "requests are (mode, fact set <= 8, denial-constraint set <= 3, rule set, goal pattern); every request is executed 5 times on "
            "fresh Reasoner instances (fresh hash seeds) and must give one and the same canonical output; mode q compares "
            "query_with_repairs with the model and with the answers-in-every-repair specification (all subsets enumerated), mode r compares "
            "the repair list (hook verif_compute_repairs) including its order, mode i compares the chosen base repair, the final fact set when it is "
            "order-independent, and consistency/closure/soundness of the final set; exhaustive part: every subset of a 6-fact universe with two "
            "independent conflicts; non-trivial = non-empty output; distinct = distinct request lines",
    "nontrivial": _nontrivial,
    "level_text": "Proof that the (repaired) compute_repairs returns exactly the subset-maximal consistent subsets for every iteration order of the fact set and "
                  "every consistency test that only depends on the set (any fuel that lets the search finish), that query_with_repairs over that list returns exactly the "
                  "answers true in every repair, that conflict-free facts are in every repair, that the pre-fix search keeps non-maximal sets for some orders, and that "
                  "repair-aware materialisation ends in a consistent set for every processing order. The model is tied to the Rust code by differential runs "
                  "(answers, repair lists through a cfg-guarded hook, materialisation outcome), each repeated on fresh hash seeds.",
    "level_note": "Trusted: Lean kernel; hand-written model (Model/Repairs.lean) tied to reasoning.rs/rules.rs/repairs.rs/semi_naive_with_repairs.rs by the differential run; "
                  "HashSet modelled as duplicate-free list whose iteration order survives clone/remove; constraint filters and negative premises are ignored by the code and out of scope; "
                  "for materialisation runs whose outcome depends on hash order only consistency, closure and soundness flags (computed by an independent brute-force checker in the harness) are compared. "
                  "The check expects fixes/C19_maximal_repairs.patch and hooks/C19_compute_repairs.patch to be applied.",
    "trusted": ["HashSet<Triple> modelled as a duplicate-free list; clone/remove keep the relative iteration order",
                "independent brute-force consistency/closure checker in harness/src/props/c19.rs for order-dependent materialisation outcomes"],
    "assumptions": ["constraints and rules without filters and negative premises; rules safe (conclusion variables occur in the premises)",
                    "fact sets small enough for the exponential subset search to finish"],
}
