def _nontrivial(req, impl):
    # at least one accepted update changed the dataset
    import re
    return any(m.group(1) != "0" or m.group(2) != "0" for m in re.finditer(r"ok:(\d+),(\d+):", impl))


CFG = {
    "kw": "update", "header_len": 1, "no_shrink": True,
    "rule": "requests = an initial dataset and a history (1-8 quick / 1-40 thorough) of the six update forms over default and named graphs, templates with "
            "variables, constants, blank nodes, variable graph names; about 1 in 8 operations is made malformed/rejected on purpose (variables in DATA, blank "
            "nodes in DELETE); WHERE clauses are generated well-scoped group patterns. After every step the harness compares the UpdateSummary counts and a "
            "hash of the whole canonical dataset (all graphs + graph catalog; blank nodes allocated by updates erased and summarised by count and degree), "
            "and the final dataset in full. non-trivial = some accepted update inserted or deleted a quad; distinct = distinct request lines",
    "nontrivial": _nontrivial,
    "level_text": "Theorems about the Lean transcription of apply_mutations / instantiate_templates / request validation against the W3C set formula "
                  "D' = (D \\ Del) U Ins with both sets taken from the pre-state, exact change counts, and rejected-means-unchanged, lifted to every history "
                  "by induction; the correspondence run ties the transcription to SparqlDatabase::execute_update on generated histories.",
    "level_note": "Trusted: Lean kernel; hand-written model tied to the code by the differential run; the WHERE clause is evaluated by the algebra (its agreement "
                  "with the executor is C01/C02); blank-node identity is compared up to renaming via count and degree summary; quoted-triple templates are outside the model.",
    "trusted": ["update text is produced by the harness' pretty-printer", "blank nodes compared by count/degree, not by full graph isomorphism"],
    "assumptions": ["literals never look like IRIs (legality guessing uses `scheme:`)"],
}
