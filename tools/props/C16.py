def _nontrivial(req, impl):
    t = req.split(" ")
    mode = t[1]
    if mode == "text":
        return impl != "err"
    if mode == "rt":
        return "err" not in impl.split(" ")      # every layout parsed back to a tree
    if mode == "scan":
        return impl.startswith("ok") or impl.startswith("err")
    if mode in ("nest", "nestseq"):
        return True
    if mode == "arith":
        return "err" not in impl
    # fuzz: the text is not plain ASCII or is long enough to have got past the first keyword
    return len(t[2]) > 40


CFG = {
    "kw": "parse", "header_len": 2, "no_shrink": True,
    "rule": "four request kinds. scan: one hand-written token scanner (skip_ws, variable, IRI, blank node, prefixed name, numeric, "
            "quoted literal) on valid tokens of its kind followed by a tail and mutated - a multi-byte character inserted at EVERY byte "
            "offset in turn (deterministic sweep) and random edits; compared: consumed length, token position and length, error kind and "
            "error-slice position against the byte-level Lean model (character classes of non-ASCII code points supplied by Rust). "
            "rt: a generated syntax tree (nested groups, UNION, GRAPH, FILTER with and/or/not, sub-select, DISTINCT, projection, GROUP BY, "
            "ORDER BY, LIMIT; terms with multi-byte characters) printed under 8 layouts (whitespace kinds, comments, keyword case, "
            "optional dots, tight punctuation) by a Rust printer and, independently, by the Lean printer (FNV hash of the text compared); "
            "the real parse_sparql_query and parse_combined_query results, canonicalised to a prefix code, must equal the source tree and "
            "the Lean lexer+parser result; chains of 1..140 nested groups around the nesting limit. fuzz: character- and byte-level "
            "mutations (repaired to valid UTF-8) of SELECT / six update forms / RULE / REGISTER / MODEL / NEURAL RELATION / ML.PREDICT texts "
            "through 15 public parser entry points, each under catch_unwind; Ok must mean the whole input was consumed for the three "
            "whole-request parsers. nest: 8 recursive constructs nested 1..100000 deep, parsed in a child process on a 2 MiB thread stack "
            "(a stack overflow aborts the child and is reported). arith: FILTER arithmetic trees (all two-operator shapes, random deeper trees) printed with minimal or redundant parentheses and random whitespace, parsed by parse_arithmetic_expression and compared with the source tree (chains group to the left). fuzz also carries numbers at and beyond 2^64 in every numeric position. nestseq: histories of such texts parsed one after the other on ONE thread (1..200 rejected over-deep texts followed by probes at depths 1..128): each outcome must depend on its own text only. non-trivial: rt = every layout parsed to a tree; scan = any result; "
            "fuzz = text longer than 20 bytes; distinct = distinct request lines",
    "nontrivial": _nontrivial,
    "level_text": "Proofs about (1) a byte-level transcription of the seven hand-written token scanners: for every character "
                  "classification and every well-formed byte string no slice is taken off a char boundary or out of range, results and "
                  "error slices lie on boundaries inside the input, successful scans return non-empty tokens, skip_ws is idempotent; "
                  "(3) a token-level model of the FILTER arithmetic parser: parse(print(e)) = e for every expression tree and both parenthesisation styles (arith_parse_print); "
                  "(2) a token-level transcription of the recursive SELECT parser with the extracted nesting limit: lex(print(t, layout)) "
                  "parses back to exactly t for every well-formed tree of the fragment (arbitrarily nested groups, UNION, GRAPH, FILTER with "
                  "&&, ||, !, sub-selects, DISTINCT, GROUP BY, ORDER BY, LIMIT), every dot style and every separator-complete layout "
                  "(whitespace kinds, comments, keyword case); tokens are layout independent; acceptance consumes every token; more than "
                  "SPARQL_MAX_NESTING_DEPTH nested braces are rejected with any fuel; the extracted operator list is longest-match-first. "
                  "Tied to the Rust code by scanner-level, tree-level (two independent printers, 8 layouts per tree) and totality runs.",
    "level_note": "PARTIAL: 'never crashes' is a runtime fact - it is proved only for the scanners' index arithmetic (Model/Scan.lean) and "
                  "observed elsewhere (catch_unwind over mutated inputs through 15 parser entry points; child process on a 2 MiB stack for deep "
                  "nesting). The faithfulness theorems speak about the Lean transcription; layouts that print punctuation with no separator at "
                  "all, BIND / VALUES / aggregates / dataset clauses / updates / extension grammars are covered by the differential run only. "
                  "The check expects fixes/C16_nesting_depth_limit.patch, fixes/C16_subselect_in_group.patch (apply after the nesting patch), fixes/C16_ml_predict_slice.patch and hooks/C16_scanners.patch "
                  "to be applied to /repo (without them it reports the stack-overflow witness `parse nest group 20000`).",
    "trusted": ["Rust char::is_alphabetic / is_numeric / is_whitespace are an oracle of the scanner model (quantified over in the theorems)",
                "the token-level parser model covers SELECT with nested groups, UNION, GRAPH, FILTER (comparison, &&, ||, !), sub-select, DISTINCT, "
                "GROUP BY, ORDER BY, LIMIT; BIND, VALUES, aggregates, dataset clauses, updates and extension grammars are exercised by the fuzz stream only"],
    "assumptions": ["fixes/C16_nesting_depth_limit.patch, fixes/C16_subselect_in_group.patch, fixes/C16_ml_predict_slice.patch, hooks/C16_scanners.patch applied to /repo",
                    "inputs are Rust &str (valid UTF-8)"],
}
