def _nontrivial(req, impl):
    # a non-empty answer
    return not impl.startswith("{}") and not impl.startswith("error") and not impl.startswith("panic")


CFG = {
    "kw": "select", "header_len": 1, "no_shrink": True,
    "rule": "requests = a generated dataset (default + named graphs, empty graphs, the same triple in several graphs) and a generated "
            "SELECT query AST (nested groups, UNION, GRAPH <iri>/?g, group-scoped FILTER with and/or/not, BIND(CONCAT), VALUES with UNDEF, "
            "sub-SELECT with projection/DISTINCT/GROUP BY+SUM/MIN/MAX/AVG/ORDER BY/LIMIT, FROM/FROM NAMED) printed to SPARQL text and run "
            "through execute_sparql_query; 80% of queries keep FILTER/BIND variables certainly bound (the proved fragment), 20% allow "
            "maybe-bound variables (judged by the algebra; deviations there are the recorded finding). ORDER BY: the real row sequence is "
            "checked for sortedness; LIMIT: the real answer is checked to be a legal cut of the unlimited answer. non-trivial = non-empty answer; "
            "distinct = distinct request lines",
    "nontrivial": _nontrivial,
    "level_text": "Theorems about the Lean transcription of the executor (exec), the lowering (lower) and the SELECT modifiers, stated against the "
                  "bottom-up SPARQL algebra (sem); the correspondence run ties the transcription to the real pipeline (parser -> lowering -> optimizer "
                  "-> executor -> finalize) on generated datasets x queries, and judges the real answers by the algebra directly. Main theorem "
                  "where_clause_correct: for every WHERE clause of the decidable fragment okPat (BGPs, nested groups with group-scoped FILTERs, UNION, "
                  "GRAPH <iri>/?g, VALUES/UNDEF, sub-selects with arbitrary modifiers over one triple pattern), every dataset clause and every plan "
                  "the optimizer may pick, the executor's solutions are the algebra's multiset.",
    "level_note": "Trusted: Lean kernel; hand-written model (Model/Engine.lean) tied to the code only by the differential run; values are lexical strings "
                  "(dictionary bijection is C15); numeric literals restricted to canonical integers (f64 parsing of other spellings, NaN/inf are outside the model); "
                  "the cost model is an oracle: the model answers for every assignment of join algorithms and the real answer must be one of them.",
    "trusted": ["f64 comparison/aggregation modelled over integers (generated literals are canonical integers)",
                "HashMap rows modelled as sorted association lists"],
    "assumptions": ["query text is produced by the harness' pretty-printer (parser faithfulness is C16)",
                    "literals are never spelled like IRIs (term-kind guessing is C14's side condition)"],
}
