def _nontrivial(req, impl):
    # at least two evaluation steps, some derived fact in an output component, and some fact carried over
    toks = impl.split(" ")
    steps = [t for t in toks if t.startswith("I=")]
    return len(steps) >= 2 and any("out/" in t for t in steps) and any(t != "I=-" for t in steps[1:])


CFG = {
    "kw": "xwin", "header_len": 1,
    "rule": "requests are whole stream histories: 2-3 sliding windows (widths 2-9) fed from a generated event stream over a small "
            "entity domain (so triples re-arrive: renewal), an optional static graph, an output component, 1-4 rules over "
            "window-annotated predicates (cross-window joins, chains through derived facts, recursion inside the output component, "
            "heads written into window predicates, static joins), and 2-9 increasing evaluation times; at each time the window "
            "content lists every triple once with its latest arrival while alive (window-consistent by construction). Separate streams: "
            "histories made inconsistent on purpose (dropped/stale/duplicate listing), rules with an un-annotated intermediate head, "
            "component IRIs where one extends another. After every step incremental_sds_plus (state threaded) and naive_sds_plus are "
            "compared with the model and with the specification (expiry = largest threshold at which the fact is derivable from the alive facts). "
            "non-trivial = at least two steps, a derived output fact and a non-empty carried state; distinct = distinct request lines",
    "nontrivial": _nontrivial,
    "level_text": "Proof that, for every window-consistent history, every rule set over annotated predicates and every increasing sequence of "
                  "evaluation times, the incrementally maintained state holds exactly the facts derivable from the currently alive facts and that "
                  "the expiry kept for each fact is the largest threshold at which it is derivable (latest time until which some derivation "
                  "stays fully supported): the expiry semiring has a threshold reading, the generic engine theorem of C06 gives the from-scratch "
                  "characterisation, and the carried-over state satisfies the engine's loop invariant with the new/renewed facts as delta. "
                  "Model and Rust code are compared step by step on generated histories.",
    "level_note": "Partial: plain semi-naive strategy used by naive_sds_plus is modelled by the engine at the Boolean semiring (its own correctness is C05); "
                  "u64 saturating arithmetic and dictionary injectivity are assumed; NOT rules are outside the model.",
    "trusted": ["u64 times as Nat (no saturation); Dictionary as an injective encoding of predicate strings",
                "HashMap state modelled as a list read through membership"],
    "assumptions": ["window-consistent history: each window content lists a triple once with its latest arrival time; facts stay listed until they expire; static graphs and widths do not change",
                    "rule heads carry constant predicates annotated with a component IRI; no component IRI extends another one into a local name",
                    "rules are positive, without filters, head variables bound"],
}
