def _equal(impl, other):
    # the specification does not constrain the exported text, only the re-imported quads: `*` matches the text hash
    if " || " in other:
        # the model is a relation where the store's hash-set order shows through (Turtle object lists)
        return any(_equal(impl, alt) for alt in other.split(" || "))
    a, b = impl.split(" "), other.split(" ")
    if b and b[0] == "*":
        if impl == "panic":
            return False
        return a[1:] == b[1:]
    return impl == other


def _nontrivial(req, impl):
    # a round trip that produced at least one quad, or a parsed document with at least one quad
    toks = impl.split(" ")
    return len(toks) >= 2 and impl != "panic"


CFG = {
    "kw": "export", "header_len": 3,
    "equal": _equal,
    "rule": "requests `export rt <fmt> <quads>`: a dataset (<= 5 quads; IRIs, blank nodes, quoted triples nested <= 3, named graphs, "
            "literals assembled from hostile pieces: quotes, backslashes, \\n \\r \\t, empty, astral/NBSP/U+2028 characters, `_:` `<<` `x:` `http://` "
            "`{|` `^^` `@en` prefixes, a small share of invalid IRIs/blank labels that lie outside the property's quantifier) is stored through the "
            "dictionary / quoted-triple store, exported with generate_nquads|generate_ntriples|generate_turtle, re-imported into a fresh "
            "SparqlDatabase with parse_nquads_and_add|parse_ntriples_and_add|parse_turtle; compared: a hash of the exported text "
            "(order-insensitive) with the model's text, the lexical quad set with the model's and with the identity specification. "
            "Exhaustive part: every literal made of <= 2 of 24 special pieces x 3 formats. Every 5th generated request is "
            "`export parse <fmt> <text>`: exported text damaged by 1-3 character edits (readers' correspondence on malformed input; no "
            "specification). non-trivial = the reply contains at least one quad; distinct = distinct request lines",
    "nontrivial": _nontrivial,
    "level_text": "Proof by induction over arbitrary Unicode strings that decoding an escaped literal returns it (tables extracted from the source), "
                  "symbolic execution of the transcribed parse_ntriples_parts state machine on every generated line, and document-level "
                  "round-trip theorems parseNQ (genNQ D) = D / parseNT (genNT D) = D for every list of well-formed quads over plain terms; "
                  "quoted-triple terms and the Turtle reader are covered by the model + differential run only (partial).",
    "level_note": "Trusted: Lean kernel; hand-written model Model/Lines.lean tied to sparql_database.rs by the differential run and the extracted "
                  "escape/decode tables; Rust str::trim/lines/char::is_whitespace modelled by hand; char::is_alphanumeric approximated above ASCII "
                  "(only reachable after a language tag). The check expects fixes/C14_escape_nt_ttl.patch to be applied.",
    "trusted": ["Rust std str::trim / str::lines / char::is_whitespace modelled by hand (White_Space table)",
                "char::is_alphanumeric approximated above ASCII (language-tag scanner only)",
                "HashMap/BTreeMap iteration order abstracted: quads compared as sorted sets, exported text as a multiset of chunks"],
    "assumptions": ["fixes/C14_escape_nt_ttl.patch applied (generate_ntriples / generate_turtle escape, clean_turtle_term unescapes)",
                    "database prefix map empty on export (generate_turtle re-declares prefixes and parse_turtle would then expand literals such as `ex:foo`)"],
}
