def _nontrivial(req, impl):
    # the request reached a decision beyond "unparsable": a query ran, an update ran or was refused, or an
    # error was rendered at a position inside multi-byte text
    toks = req.split(" ")
    multibyte = any(int(toks[8][i:i + 2], 16) >= 0x80 for i in range(0, len(toks[8]), 2)) if toks[8] != "-" else False
    return not impl.startswith("parse-error") or multibyte


CFG = {
    "kw": "entry", "header_len": 8, "no_shrink": True,
    "rule": "requests are (entry point, database state, request text): entry points execute_sparql_query, the HTTP "
            "query adapter (POST application/sparql-query through handle_http_request), SparqlDatabase::execute_update and "
            "SparqlDatabase::handle_update; states empty / populated (default graph, two named graphs, an empty named graph, "
            "multi-byte literals) / with a registered neural relation / with a trained neural relation; texts: generated SELECTs "
            "(nested groups, GRAPH, UNION, FILTER, sub-select, modifiers, random keyword case, comments), all six Update forms, "
            "the two legacy aliases, extension forms (MODEL + NEURAL RELATION, RULE, REGISTER, MODEL), token garbage, and "
            "character-level mutations of valid requests with multi-byte insertions and trailing multi-byte text. Exhaustive "
            "part: every request kind x every entry x states 0..2. Compared: which path was taken "
            "(parse-error / refused / not-update / select / update / update-alias / ext-ok / failed), whether all_quads + named_graphs "
            "(decoded to lexical form) changed, and the line:column at which the error was rendered. non-trivial = not a plain "
            "ASCII parse error; distinct = distinct request lines",
    "nontrivial": _nontrivial,
    "level_text": "Proof about a transcription of the entry points: the decision table (dispatch_table, dispatch_meets_spec) for all "
                  "parser results x entries x alias flag; update syntax is refused at the query entry with the database untouched; "
                  "the query-only entry leaves stored quads and graph catalog unchanged for every request, state and behaviour of the "
                  "un-modelled evaluation/ML components, under the forced hypothesis that the query does not mention a trained neural "
                  "relation (counterexample proved and replayed); malformed requests give an error value and change nothing at every "
                  "entry; the byte-offset arithmetic of error rendering stays on char boundaries for every byte string and error length.",
    "level_note": "PARTIAL: 'never crashes' is proved only for the index arithmetic of format_parse_error (as repaired by "
                  "fixes/C17_error_span_char_boundary.patch); panics elsewhere (parser, evaluation, annotate-snippets internals), stack depth and "
                  "allocation are observed by the correspondence run, not proved. The parser, the evaluation engine and the ML code are oracles "
                  "of the model (quantified over in the theorems, supplied by the real code in the run).",
    "trusted": ["parser result kinds and error lengths are oracle inputs of the model (taken from parse_combined_query_with_options at generation time)",
                "annotate-snippets, candle/ML training and the evaluation engine are not modelled"],
    "assumptions": ["fixes/C17_error_span_char_boundary.patch, fixes/C16_nesting_depth_limit.patch and fixes/C16_ml_predict_slice.patch are applied to /repo",
                    "requests reach the entry points as &str (valid UTF-8)"],
}
