def _nontrivial(req, impl):
    # at least one answer came back
    return impl not in ("[]", "") and not impl.startswith("panic")


CFG = {
    "kw": "bc", "header_len": 1, "no_shrink": True,
    "rule": "requests are (fact set <= 6, rule set of 1-4 positive filter-free safe rules incl. joins, constants and repeated variables in every "
            "position, variable predicates, several conclusions, linear recursion, goal pattern); goals use every variable-naming scheme "
            "(X/Y, the engine's own v0/v1/v2 in several orders, the rules' own names, v00/v10, repeated variables, constants in any position, "
            "variable predicate); the distinct bindings of the goal's variables returned by Reasoner::backward_chaining (+resolve_term) are "
            "compared with the model and with the facts of the least model of derivation height <= MAX_DEPTH matching the goal; exhaustive part: "
            "one recursive program against all 7x4x7 goals over a vocabulary of names and constants; non-trivial = at least one answer; distinct = distinct request lines",
    "nontrivial": _nontrivial,
    "level_text": "Proof about the transcribed depth-limited SLD search (unification with binding resolution, renaming apart, threading of the name counter): "
                  "every ground solution of a returned answer maps the goal into the least model (soundness), and every fact of the least model with a "
                  "derivation of height <= the depth limit that matches the goal is an instance of a returned answer (completeness) - for all fact sets, rule sets, "
                  "goals and goal variable names, any depth limit, instantiated at the MAX_DEPTH extracted from the source; the renaming lemma shows generated names "
                  "are new, pairwise distinct and never a goal variable; the pre-fix code provably loses an answer for the goal (?v0 q ?v1). Tied to the Rust code by differential runs.",
    "level_note": "Trusted: Lean kernel; hand-written model (Model/Sld.lean) tied to backward_chaining.rs by the differential run and the extracted MAX_DEPTH; "
                  "HashMap modelled as association list; quoted-triple terms, rule filters (ignored by the code) and negative premises out of scope. Partial: soundness is stated "
                  "for every solution of the returned bindings (the resolve_term form needs a solved-form invariant not proved), completeness says the fact is an instance of "
                  "a returned answer (equality needs groundness under rule safety, not proved). The check expects fixes/C18_rename_apart_from_goal.patch to be applied.",
    "trusted": ["HashMap<String, Term> modelled as an association list (a key is only inserted when unbound)",
                "resolve_term modelled with fuel = number of bindings + 1 (the driver reports `fuel` if a chain is longer)"],
    "assumptions": ["rules without filters, negative premises and quoted-triple terms", "u32 ids as Nat"],
}
