"""extractor items contributed with C09 (helpers are private to this file); `src`, `fail`, `defs`, `re`, `os`, `sys`, `REPO` are injected by tools/extract.py"""

_GUARD_TOK = re.compile(r"\s*(<=|>=|==|!=|&&|\|\||<|>|\(|\)|\.min\(|\.max\(|[A-Za-z_][A-Za-z_0-9]*(?:\.[A-Za-z_][A-Za-z_0-9]*)*|\d+)")


def _guard_tokens(e):
    toks, i = [], 0
    e = e.strip()
    while i < len(e):
        m = _GUARD_TOK.match(e, i)
        if not m:
            raise ValueError("cannot tokenise guard at: " + e[i:i + 20])
        toks.append(m.group(1))
        i = m.end()
    return toks


def _guard_to_lean(expr, names):
    """Rust boolean expression over usize identifiers -> Lean Bool term.
    grammar: or := and ('||' and)* ; and := cmp ('&&' cmp)* ; cmp := arith (relop arith)? | '(' or ')' ;
    arith := atom ('.min(' arith ')' | '.max(' arith ')')* ; atom := identifier | literal"""
    toks = _guard_tokens(expr)
    pos = [0]

    def peek():
        return toks[pos[0]] if pos[0] < len(toks) else None

    def take(t=None):
        x = peek()
        if x is None or (t is not None and x != t):
            raise ValueError("expected %s, found %s" % (t, x))
        pos[0] += 1
        return x

    def atom():
        x = take()
        if x.isdigit():
            r = x
        elif x in names:
            r = names[x]
        else:
            raise ValueError("unknown identifier in guard: " + x)
        while peek() in (".min(", ".max("):
            f = take()
            a = atom()
            take(")")
            r = "(%s %s %s)" % ("Nat.min" if f == ".min(" else "Nat.max", r, a)
        return r

    rel = {"<=": "≤", "<": "<", ">=": "≥", ">": ">", "==": "=", "!=": "≠"}

    def cmp_():
        if peek() == "(":
            take("(")
            r = or_()
            take(")")
            return "(" + r + ")"
        a = atom()
        op = take()
        if op not in rel:
            raise ValueError("expected comparison, found " + op)
        b = atom()
        return "decide (%s %s %s)" % (a, rel[op], b)

    def and_():
        r = cmp_()
        while peek() == "&&":
            take()
            r = "(%s && %s)" % (r, cmp_())
        return r

    def or_():
        r = and_()
        while peek() == "||":
            take()
            r = "(%s || %s)" % (r, and_())
        return r

    r = or_()
    if peek() is not None:
        raise ValueError("trailing tokens in guard: " + " ".join(toks[pos[0]:]))
    return r


def _fn_body(s, header_re):
    """text of the brace-delimited body following the first match of header_re"""
    m = re.search(header_re, s)
    if not m:
        return None
    i = s.find("{", m.end() - 1)
    depth, j = 0, i
    while j < len(s):
        if s[j] == "{":
            depth += 1
        elif s[j] == "}":
            depth -= 1
            if depth == 0:
                return s[i + 1:j]
        j += 1
    return None


def ex_window_guards():
    s = src("kolibrie/src/rsp/s2r.rs")
    body = _fn_body(s, r"pub fn add_to_window\s*\([^)]*\)\s*\{")
    rep = _fn_body(s, r"pub fn report\s*\([^)]*\)\s*->\s*bool\s*\{")
    out = []
    # (1) membership: the `if` inside the filter_map closure over (window, mut content)
    mg = None
    if body is not None:
        m = re.search(r"filter_map\(\|\(window,\s*mut content\)\|\s*\{(.*?)content\.add\(", body, flags=re.S)
        if m:
            ifs = re.findall(r"\bif\s+([^{}]*?)\s*\{", m.group(1))
            ifs = [x for x in ifs if "window" in x]
            if len(ifs) == 1:
                mg = ifs[0]
    if mg is None:
        fail("memberGuard", "membership test of add_to_window not found")
    else:
        try:
            e = _guard_to_lean(mg, {"window.open": "wopen", "window.close": "wclose", "event_time": "eventTime", "ts": "eventTime"})
            out.append("/-- `s2r.rs` `add_to_window`: `%s` -/\ndef memberGuard (wopen wclose eventTime : Nat) : Bool := %s\n" % (mg, e))
        except ValueError as ex:
            fail("memberGuard", str(ex))
    # (2) report: arm of ReportStrategy::OnWindowClose
    rg = None
    if rep is not None:
        m = re.search(r"ReportStrategy::OnWindowClose\s*=>\s*([^,{}]+),", rep)
        if m:
            rg = m.group(1).strip()
    if rg is None:
        fail("reportGuard", "arm ReportStrategy::OnWindowClose of Report::report not found")
    else:
        try:
            e = _guard_to_lean(rg, {"window.open": "wopen", "window.close": "wclose", "ts": "ts"})
            out.append("set_option linter.unusedVariables false in\n/-- `s2r.rs` `Report::report`, arm `OnWindowClose`: `%s` -/\ndef reportGuard (wopen wclose ts : Nat) : Bool := %s\n" % (rg, e))
        except ValueError as ex:
            fail("reportGuard", str(ex))
    # (3) fire: the `if` directly inside the Tick::TimeDriven arm
    fg = None
    if body is not None:
        m = re.search(r"Tick::TimeDriven\s*=>\s*\{\s*if\s+([^{}]*?)\s*\{", body)
        if m:
            fg = m.group(1).strip()
    if fg is None:
        fail("fireGuard", "`if` under Tick::TimeDriven in add_to_window not found")
    else:
        try:
            e = _guard_to_lean(fg, {"ts": "ts", "event_time": "ts", "self.app_time": "appTime"})
            out.append("/-- `s2r.rs` `add_to_window`, arm `Tick::TimeDriven`: `%s` -/\ndef fireGuard (ts appTime : Nat) : Bool := %s\n" % (fg, e))
        except ValueError as ex:
            fail("fireGuard", str(ex))
    # (4) which windows the report filter and the reported content are taken from, and the selection
    if body is not None:
        m = re.search(r"let max = self\s*\.active_windows\s*\.iter\(\)\s*\.filter\(.*?\)\s*\.(max_by|min_by)\(\|\(w1, _\), \(w2, _\)\| (w1\.close\.cmp\(&w2\.close\)|w2\.close\.cmp\(&w1\.close\))\)", body, flags=re.S)
        if not m:
            fail("pickLatest", "selection `self.active_windows.iter().filter(..).max_by(close)` not found")
        else:
            latest = (m.group(1) == "max_by") == (m.group(2).startswith("w1"))
            out.append("/-- `s2r.rs` `add_to_window`: `.%s(|(w1, _), (w2, _)| %s)` — true = the largest close is selected -/\ndef pickLatest : Bool := %s\n" % (m.group(1), m.group(2), "true" if latest else "false"))
    else:
        fail("pickLatest", "add_to_window not found")
    defs.extend(out)
