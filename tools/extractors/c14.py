"""extractor items contributed with C14 (helpers are private to this file); `src`, `fail`, `defs`, `re`, `os`, `sys`, `REPO` are injected by tools/extract.py"""

def _fn_body(s, name):
    """text of `fn <name>(...) ... { body }` by brace matching (string/char literals skipped)"""
    m = re.search(r"\bfn\s+%s\s*(<[^>]*>)?\s*\(" % re.escape(name), s)
    if not m:
        return None
    i = s.find("{", m.end())
    depth, j, n = 0, i, len(s)
    while j < n:
        c = s[j]
        if c == '"':
            j += 1
            while j < n and s[j] != '"':
                j += 2 if s[j] == "\\" else 1
        elif c == "'" :
            mm = re.match(r"'(\\u\{[0-9a-fA-F]+\}|\\.|[^\\'])'", s[j:])
            if mm:
                j += mm.end() - 1
        elif c == "/" and s.startswith("//", j):
            j = s.find("\n", j)
        elif c == "{":
            depth += 1
        elif c == "}":
            depth -= 1
            if depth == 0:
                return s[i:j + 1]
        j += 1
    return None


def _rust_unescape(lit):
    """contents of a Rust char/string literal -> list of code points"""
    out, i = [], 0
    simple = {"n": 10, "r": 13, "t": 9, "\\": 92, "0": 0, "'": 39, '"': 34}
    while i < len(lit):
        if lit[i] == "\\":
            e = lit[i + 1]
            if e == "u":
                k = lit.index("}", i)
                out.append(int(lit[i + 3:k].replace("_", ""), 16))
                i = k + 1
            elif e == "x":
                out.append(int(lit[i + 2:i + 4], 16))
                i += 4
            else:
                out.append(simple[e])
                i += 2
        else:
            out.append(ord(lit[i]))
            i += 1
    return out


def _lean_char(n):
    return "Char.ofNat %d" % n


CHAR_LIT = r"'((?:\\u\{[0-9a-fA-F_]+\}|\\x[0-9a-fA-F]{2}|\\.|[^\\'])+?)'"


def ex_escape_table():
    s = src("kolibrie/src/sparql_database.rs")
    body = _fn_body(s, "escape_ntriples_literal")
    if body is None:
        return fail("escape_ntriples_literal", "function not found")
    arms = re.findall(CHAR_LIT + r'\s*=>\s*"((?:\\.|[^"\\])*)"\s*\.chars\(\)', body)
    if not arms or not re.search(r"\bother\s*=>\s*vec!\[other\]", body):
        return fail("escape_ntriples_literal", "match arms not in the expected shape")
    rows = []
    for ch, rep in arms:
        c = _rust_unescape(ch)
        if len(c) != 1:
            return fail("escape_ntriples_literal", "bad char literal " + ch)
        rows.append("(%s, [%s])" % (_lean_char(c[0]), ", ".join(_lean_char(x) for x in _rust_unescape(rep))))
    defs.append("/-- `sparql_database.rs`: arms of `escape_ntriples_literal` (character ↦ replacement); any other character is copied -/\n"
                "def escapeTable : List (Char × List Char) :=\n  [%s]\n" % ",\n   ".join(rows))


def ex_decode_table():
    s = src("kolibrie/src/sparql_database.rs")
    body = _fn_body(s, "decode_ntriples_literal")
    if body is None:
        return fail("decode_ntriples_literal", "function not found")
    arms = re.findall(CHAR_LIT + r"\s*=>\s*value\.push\(" + CHAR_LIT + r"\)", body)
    if not arms:
        return fail("decode_ntriples_literal", "no `'x' => value.push('y')` arms found")
    # the shape the model relies on: closing quote arm, backslash arm, \u/\U arm with 4/8 digits, reject arm
    shape = [r"'\"'\s*=>\s*return Some\(\(value,", r"'\\\\'\s*=>\s*\{", r"'u'\s*\|\s*'U'\s*=>", r"if escaped == 'u' \{ 4 \} else \{ 8 \}",
             r"_\s*=>\s*return None", r"character\s*=>\s*value\.push\(character\)"]
    for pat in shape:
        if not re.search(pat, body):
            return fail("decode_ntriples_literal", "expected shape missing: " + pat)
    rows = []
    for a, b in arms:
        x, y = _rust_unescape(a), _rust_unescape(b)
        if len(x) != 1 or len(y) != 1:
            return fail("decode_ntriples_literal", "bad arm %s => %s" % (a, b))
        rows.append("(%s, %s)" % (_lean_char(x[0]), _lean_char(y[0])))
    defs.append("/-- `sparql_database.rs`: single-character escape arms of `decode_ntriples_literal` (escape letter ↦ character);\n"
                "    `u`/`U` (4/8 hex digits) are handled by the model, every other letter is rejected -/\n"
                "def decodeTable : List (Char × Char) :=\n  [%s]\n" % ",\n   ".join(rows))


def _chunk_size(fn, lean_name):
    s = src("kolibrie/src/sparql_database.rs")
    body = _fn_body(s, fn)
    if body is None:
        return fail(fn, "function not found")
    m = re.search(r"let\s+chunk_size\s*=\s*([0-9_]+)\s*;", body)
    if not m or not re.search(r"\.chunks\(chunk_size\)", body):
        return fail(fn, "`let chunk_size = <n>;` / `.chunks(chunk_size)` not found")
    defs.append("/-- `sparql_database.rs`: `chunk_size` in `%s` -/\ndef %s : Nat := %d\n" % (fn, lean_name, int(m.group(1).replace("_", ""))))


def ex_chunk_nt():
    _chunk_size("parse_ntriples", "chunkSizeNT")


def ex_chunk_n3():
    _chunk_size("parse_n3", "chunkSizeN3")
