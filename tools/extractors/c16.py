"""extractor items contributed with C16; `src`, `fail`, `defs`, `re`, `os`, `sys`, `REPO` are injected by tools/extract.py"""

def ex_max_nesting_depth():
    """C16/C17: nesting limit of the recursive-descent SPARQL parser (added by fixes/C16_nesting_depth_limit.patch)"""
    s = src("kolibrie/src/parser.rs")
    m = re.search(r"const SPARQL_MAX_NESTING_DEPTH\s*:\s*usize\s*=\s*([0-9_]+)\s*;", s)
    if not m:
        # The unrepaired parser has no nesting limit at all. Do not break every other property's build over it:
        # emit the placeholder 0 ("nothing may nest"), with which C16's own obligations and nesting cases fail.
        print("EXTRACT-MISSING SPARQL_MAX_NESTING_DEPTH: constant not found in kolibrie/src/parser.rs "
              "(fixes/C16_nesting_depth_limit.patch not applied) - placeholder 0 emitted, C16 will report it")
        defs.append("/-- `kolibrie/src/parser.rs`: `SPARQL_MAX_NESTING_DEPTH` NOT FOUND (unbounded recursion); placeholder -/\ndef maxNestingDepth : Nat := 0\n")
        return
    v = int(m.group(1).replace("_", ""))
    defs.append("/-- `kolibrie/src/parser.rs`: `SPARQL_MAX_NESTING_DEPTH` -/\ndef maxNestingDepth : Nat := %d\n" % v)


def ex_filter_operators():
    """C16: operator list of `sparql_filter_operator`, in source order (first match wins)"""
    s = src("kolibrie/src/parser.rs")
    m = re.search(r"fn sparql_filter_operator\(.*?for operator in \[([^\]]*)\]", s, flags=re.S)
    if not m:
        return fail("sparql_filter_operator", "operator list not found")
    ops = re.findall(r'"([^"]*)"', m.group(1))
    if not ops:
        return fail("sparql_filter_operator", "empty operator list")
    defs.append("/-- `kolibrie/src/parser.rs`: operator list of `sparql_filter_operator` (tried in this order) -/\ndef filterOperators : List String := [%s]\n"
                % ", ".join('"%s"' % o for o in ops))


# ---- C16: character tables of the hand-written SPARQL token scanners (kolibrie/src/parser.rs)


_CHAR_LIT = r"'(\\u\{[0-9A-Fa-f]+\}|\\.|[^'\\])'"


def _char_val(tok):
    """code point of the inside of a Rust char literal"""
    if tok.startswith("\\u{"):
        return int(tok[3:-1], 16)
    if tok.startswith("\\"):
        esc = {"n": 10, "r": 13, "t": 9, "0": 0, "\\": 92, "'": 39, '"': 34}
        return esc[tok[1]]
    return ord(tok)


def _fn_body(text, name):
    m = re.search(r"\nfn %s\b[^\n]*\{\n" % re.escape(name), text)
    if not m:
        raise ValueError("fn %s not found" % name)
    end = text.index("\n}\n", m.end())
    return text[m.end():end]


def _alternatives(expr):
    """`a | b..=c | …` (char literals) -> [(lo, hi)]"""
    out = []
    pat = re.compile(_CHAR_LIT + r"(?:\s*\.\.=\s*" + _CHAR_LIT + r")?")
    rest = pat.sub("", expr)
    if rest.replace("|", "").strip():
        raise ValueError("unsupported pattern %r" % expr)
    for m in pat.finditer(expr):
        lo = _char_val(m.group(1))
        out.append((lo, _char_val(m.group(2)) if m.group(2) else lo))
    return out


def _matches_arg(body, scrutinee, which=0):
    """alternatives of the `which`-th `matches!(<scrutinee>, …)` in a function body"""
    ms = list(re.finditer(r"matches!\(\s*%s\s*,((?:\s*\|?\s*%s(?:\s*\.\.=\s*%s)?)+)\s*\)" % (re.escape(scrutinee), _CHAR_LIT, _CHAR_LIT),
                          body, re.S))
    if len(ms) <= which:
        raise ValueError("matches!(%s, …) #%d not found" % (scrutinee, which))
    return _alternatives(ms[which].group(1))


def _lean_ranges(name, doc, rs):
    return "/-- %s -/\ndef %s : List (Nat × Nat) :=\n  [%s]\n" % (
        doc, name, ", ".join("(0x%X, 0x%X)" % r for r in rs))


def _lean_points(name, doc, rs):
    if any(lo != hi for lo, hi in rs):
        raise ValueError("%s: range where single characters were expected" % name)
    return "/-- %s -/\ndef %s : List Nat :=\n  [%s]\n" % (doc, name, ", ".join("0x%X" % lo for lo, _ in rs))


def ex_pn_chars_ranges():
    s = src("kolibrie/src/parser.rs")
    base = _fn_body(s, "sparql_pn_chars_base")
    if "character.is_alphabetic()" not in base:
        return fail("pn_chars_ranges", "sparql_pn_chars_base no longer tests is_alphabetic()")
    defs.append(_lean_ranges("pnBaseRanges", "`parser.rs`: the `matches!` ranges of `sparql_pn_chars_base`",
                             _matches_arg(base, "character")))
    chars = _fn_body(s, "sparql_pn_chars")
    if "sparql_pn_chars_u(character)" not in chars or "character.is_ascii_digit()" not in chars:
        return fail("pn_chars_ranges", "sparql_pn_chars changed shape")
    defs.append(_lean_ranges("pnExtraRanges", "`parser.rs`: the `matches!` alternatives of `sparql_pn_chars`",
                             _matches_arg(chars, "character")))
    defs.append(_lean_points("iriForbidden", "`parser.rs`: characters `sparql_iri` rejects (besides `<= U+0020`)",
                             _matches_arg(_fn_body(s, "sparql_iri"), "character")))
    defs.append(_lean_points("localEscapes", "`parser.rs`: characters allowed after a backslash in a local name",
                             _matches_arg(_fn_body(s, "sparql_prefixed_name"), "escaped")))
    lit = _fn_body(s, "sparql_quoted_literal")
    m = re.search(r"((?:%s\s*\|\s*)+%s)\s*=>\s*escaped\.len_utf8\(\)" % (_CHAR_LIT, _CHAR_LIT), lit)
    if not m:
        return fail("pn_chars_ranges", "simple-escape arm of sparql_quoted_literal not found")
    defs.append(_lean_points("simpleEscapes", "`parser.rs`: one-character escapes of `sparql_quoted_literal`",
                             _alternatives(m.group(1))))
