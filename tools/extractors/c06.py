"""extractor items contributed with C06 (helpers are private to this file); `src`, `fail`, `defs`, `re`, `os`, `sys`, `REPO` are injected by tools/extract.py"""

class _Tx:
    TOK = re.compile(r"\s*(\|\||&&|<=|>=|==|!=|[A-Za-z_][A-Za-z0-9_]*|\d+|[()<>{}.*&!,])")

    def __init__(self, text):
        self.toks = []
        pos = 0
        text = text.strip()
        while pos < len(text):
            m = self.TOK.match(text, pos)
            if not m:
                raise ValueError("cannot tokenise %r at %d" % (text, pos))
            self.toks.append(m.group(1))
            pos = m.end()
        self.i = 0

    def peek(self):
        return self.toks[self.i] if self.i < len(self.toks) else None

    def eat(self, t=None):
        tok = self.peek()
        if tok is None or (t is not None and tok != t):
            raise ValueError("expected %r, found %r" % (t, tok))
        self.i += 1
        return tok

    def expr(self):
        l = self.and_()
        while self.peek() == "||":
            self.eat()
            l = "(%s || %s)" % (l, self.and_())
        return l

    def and_(self):
        l = self.cmp()
        while self.peek() == "&&":
            self.eat()
            l = "(%s && %s)" % (l, self.cmp())
        return l

    def cmp(self):
        l = self.postfix()
        ops = {"<=": "≤", "<": "<", ">=": "≥", ">": ">", "==": "=", "!=": "≠"}
        if self.peek() in ops:
            o = ops[self.eat()]
            l = "(decide (%s %s %s))" % (l, o, self.postfix())
        return l

    def postfix(self):
        e = self.primary()
        while self.peek() == ".":
            self.eat()
            f = self.eat()
            if f not in ("min", "max"):
                raise ValueError("unsupported method ." + f)
            self.eat("(")
            a = self.expr()
            self.eat(")")
            e = "(%s %s %s)" % (f, e, a)
        return e

    def primary(self):
        t = self.peek()
        if t in ("*", "&"):
            self.eat()
            return self.primary()
        if t == "!":
            self.eat()
            return "(!%s)" % self.primary()
        if t == "(":
            self.eat()
            e = self.expr()
            self.eat(")")
            return e
        if t == "if":
            self.eat()
            c = self.expr()
            self.eat("{"); a = self.expr(); self.eat("}")
            self.eat("else")
            self.eat("{"); b = self.expr(); self.eat("}")
            return "(if %s then %s else %s)" % (c, a, b)
        if t is not None and re.fullmatch(r"[A-Za-z_][A-Za-z0-9_]*|\d+", t):
            return self.eat()
        raise ValueError("unexpected token %r" % t)


def translate_expr(text):
    t = _Tx(text)
    e = t.expr()
    if t.peek() is not None:
        raise ValueError("trailing tokens after expression: %r" % t.toks[t.i:])
    return e


def _block(s, start):
    """text between the brace at/after `start` and its matching close"""
    i = s.index("{", start)
    depth, j = 0, i
    while True:
        if s[j] == "{":
            depth += 1
        elif s[j] == "}":
            depth -= 1
            if depth == 0:
                return s[i + 1:j], j
        j += 1


def _semiring_op(s, impl_ty, fn, lean_name, lean_ty, doc):
    m = re.search(r"impl\s+Provenance\s+for\s+%s\s*\{" % impl_ty, s)
    if not m:
        return fail(lean_name, "impl Provenance for %s not found" % impl_ty)
    body, _ = _block(s, m.start())
    m2 = re.search(r"fn\s+%s\s*\(\s*&self\s*,\s*([a-z_]+)\s*:\s*&\w+\s*,\s*([a-z_]+)\s*:\s*&\w+\s*\)\s*->\s*\w+\s*\{" % fn, body)
    if not m2:
        return fail(lean_name, "fn %s of %s not found" % (fn, impl_ty))
    fbody, _ = _block(body, m2.end() - 1)
    fbody = re.sub(r"//[^\n]*", "", fbody).strip()
    try:
        e = translate_expr(fbody)
    except Exception as ex:  # noqa
        return fail(lean_name, "cannot translate `%s`: %s" % (fbody, ex))
    defs.append("/-- `shared/src/provenance.rs`: `%s::%s` = `%s` (%s) -/\ndef %s (%s %s : %s) : %s := %s\n" % (
        impl_ty, fn, fbody, doc, lean_name, m2.group(1), m2.group(2), lean_ty, lean_ty, e))


def ex_semiring_ops():
    s = src("shared/src/provenance.rs")
    _semiring_op(s, "MinMaxProbability", "disjunction", "minmaxDisj", "Nat", "f64 read as numerator over a fixed denominator")
    _semiring_op(s, "MinMaxProbability", "conjunction", "minmaxConj", "Nat", "f64 read as numerator over a fixed denominator")
    _semiring_op(s, "BooleanProvenance", "disjunction", "boolDisj", "Bool", "bool")
    _semiring_op(s, "BooleanProvenance", "conjunction", "boolConj", "Bool", "bool")
    _semiring_op(s, "ExpirationProvenance", "disjunction", "expDisj", "Nat", "u64 read as Nat")
    _semiring_op(s, "ExpirationProvenance", "conjunction", "expConj", "Nat", "u64 read as Nat")
