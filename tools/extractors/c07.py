"""extractor items contributed with C07; `src`, `fail`, `defs`, `re`, `os`, `sys`, `REPO` are injected by tools/extract.py"""

def ex_sdd_constants():
    """C07: the reserved handles `SddId::FALSE` / `SddId::TRUE` and the weight defaults of `wmc_inner`"""
    s = src("shared/src/sdd.rs")
    mf = re.search(r"pub const FALSE\s*:\s*SddId\s*=\s*SddId\((\d+)\);", s)
    mt = re.search(r"pub const TRUE\s*:\s*SddId\s*=\s*SddId\((\d+)\);", s)
    if not mf or not mt:
        return fail("SddId::FALSE/TRUE", "constants not found")
    mp = re.search(r"\*self\.pos_weight\.get\(idx\)\.unwrap_or\(&(\d+)\.0\)", s)
    mn = re.search(r"\*self\.neg_weight\.get\(idx\)\.unwrap_or\(&(\d+)\.0\)", s)
    if not mp or not mn:
        return fail("wmc_inner weight defaults", "unwrap_or defaults not found")
    defs.append("/-- `shared/src/sdd.rs`: `SddId::FALSE`, `SddId::TRUE`, defaults of `wmc_inner` for a missing weight slot -/\n"
                "def sddFalseId : Nat := %s\ndef sddTrueId : Nat := %s\ndef sddDefaultPos : Nat := %s\ndef sddDefaultNeg : Nat := %s\n"
                % (mf.group(1), mt.group(1), mp.group(1), mn.group(1)))
