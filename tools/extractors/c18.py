"""extractor items contributed with C18; `src`, `fail`, `defs`, `re`, `os`, `sys`, `REPO` are injected by tools/extract.py"""

def ex_bc_max_depth():
    s = src("datalog/src/reasoning/backward_chaining.rs")
    m = re.search(r"fn backward_chaining_helper\b.*?const MAX_DEPTH\s*:\s*usize\s*=\s*(\d[\d_]*)\s*;\s*if depth > MAX_DEPTH \{\s*return Vec::new\(\);", s, flags=re.S)
    if not m:
        return fail("MAX_DEPTH", "`const MAX_DEPTH: usize = N; if depth > MAX_DEPTH { return Vec::new(); }` not found in backward_chaining_helper")
    defs.append("/-- `datalog/src/reasoning/backward_chaining.rs`: `MAX_DEPTH` of `backward_chaining_helper` (guard `depth > MAX_DEPTH`) -/\ndef bcMaxDepth : Nat := %d\n" % int(m.group(1).replace("_", "")))
