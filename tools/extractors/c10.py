"""extractor items contributed with C10; `src`, `fail`, `defs`, `re`, `os`, `sys`, `REPO` are injected by tools/extract.py"""

def _fn_body(text, header_re):
    """body (between the matching braces) of the first fn whose header matches"""
    m = re.search(header_re, text)
    if not m:
        return None
    i = text.find("{", m.end() - 1)
    depth, j = 0, i
    while j < len(text):
        if text[j] == "{":
            depth += 1
        elif text[j] == "}":
            depth -= 1
            if depth == 0:
                return text[i + 1:j]
        j += 1
    return None


def ex_r2r_add_drops_derived():
    """C10: does `SimpleR2R::add` forget a (re-)added raw triple from `derived_triples`?  (true = repaired code:
    `materialize` can then no longer evict a raw triple of the current window as "derived last cycle")"""
    s = src("kolibrie/src/rsp/simple_r2r.rs")
    body = _fn_body(s, r"fn\s+add\s*\(\s*&mut\s+self\s*,\s*data\s*:\s*Triple\s*\)\s*\{")
    if body is None:
        return fail("SimpleR2R::add", "function not found")
    code = re.sub(r"//[^\n]*", "", body)
    if "add_triple" not in code:
        return fail("SimpleR2R::add", "no add_triple call in body")
    drops = bool(re.search(r"derived_triples\s*\.\s*(retain|remove|swap_remove)", code))
    mat = _fn_body(s, r"fn\s+materialize\s*\(\s*&mut\s+self\s*\)\s*->\s*Vec<Triple>\s*\{")
    if mat is None or "derived_triples" not in mat:
        return fail("SimpleR2R::materialize", "function or derived_triples eviction not found")
    defs.append("/-- `kolibrie/src/rsp/simple_r2r.rs`: `SimpleR2R::add` removes the added triple from `derived_triples` -/\n"
                "def r2rAddDropsDerived : Bool := %s\n" % ("true" if drops else "false"))
