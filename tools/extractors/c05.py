"""extractor items contributed with C05 (helpers are private to this file); `src`, `fail`, `defs`, `re`, `os`, `sys`, `REPO` are injected by tools/extract.py"""

def ex_parallel_arities():
    """arms of `match rule.premise.len() { 1 => …, 2 => …, _ => {} }` in infer_new_facts_semi_naive_parallel"""
    s = src("datalog/src/reasoning/materialisation/semi_naive_parallel.rs")
    k = s.find("match rule.premise.len()")
    if k < 0:
        return fail("parallelArities", "`match rule.premise.len()` not found")
    i = s.find("{", k)
    depth, j, arms, default_empty = 0, i, [], None
    while j < len(s):
        ch = s[j]
        if ch == "{":
            depth += 1
        elif ch == "}":
            depth -= 1
            if depth == 0:
                break
        elif depth == 1:
            m = re.match(r"(\d+|_)\s*=>\s*", s[j:])
            if m and (s[j - 1].isspace() or s[j - 1] in "{,"):
                if m.group(1) == "_":
                    default_empty = bool(re.match(r"\{\s*\}", s[j + m.end():]))
                else:
                    arms.append(int(m.group(1)))
                j += m.end() - 1
        j += 1
    if not arms or default_empty is None:
        return fail("parallelArities", "could not parse the match arms")
    if not default_empty:
        # a non-empty default arm means other arities are handled somehow: the model no longer applies
        return fail("parallelArities", "default arm `_ =>` is no longer empty")
    defs.append("/-- `semi_naive_parallel.rs`: premise counts handled by `match rule.premise.len()` (default arm is empty) -/\n"
                "def parallelArities : List Nat := [%s]\n" % ", ".join(str(a) for a in arms))
