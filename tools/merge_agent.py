#!/usr/bin/env python3
"""merge_agent.py <workspace> <ID> [<ID>…] — copy one builder workspace's per-property files into /verif, merge its new
`ex_*` extractor items and its known_findings entries."""
import json, os, re, shutil, sys
W = sys.argv[1]
ids = sys.argv[2:]
ROOT = os.path.join(os.path.dirname(os.path.abspath(__file__)), "..")

def cp(rel):
    src = os.path.join(W, rel)
    if os.path.exists(src):
        os.makedirs(os.path.dirname(os.path.join(ROOT, rel)), exist_ok=True)
        shutil.copy(src, os.path.join(ROOT, rel))
        print("copied", rel)

# per-property files
for i in ids:
    for rel in ["lean/Kolibrie/Props/%s.lean" % i, "lean/Kolibrie/Driver/%s.lean" % i, "harness/src/props/%s.rs" % i.lower(), "tools/props/%s.py" % i]:
        cp(rel)
    cd = os.path.join(W, "corpus", i)
    if os.path.isdir(cd):
        os.makedirs(os.path.join(ROOT, "corpus", i), exist_ok=True)
        for f in os.listdir(cd):
            shutil.copy(os.path.join(cd, f), os.path.join(ROOT, "corpus", i, f))
            print("copied corpus", i, f)
# new model/spec/lemma/driver-support files (anything not present in /verif)
for sub in ["lean/Kolibrie/Model", "lean/Kolibrie/Spec", "lean/Kolibrie/Lemmas", "lean/Kolibrie/Core", "lean/Kolibrie/Driver", "harness/src", "fixes", "hooks"]:
    d = os.path.join(W, sub)
    if not os.path.isdir(d):
        continue
    for f in os.listdir(d):
        rel = os.path.join(sub, f)
        if os.path.isfile(os.path.join(W, rel)) and not os.path.exists(os.path.join(ROOT, rel)) and not re.fullmatch(r"C\d\d\.lean", f):
            cp(rel)
# extractor items: the agent's own blocks become tools/extractors/<first id>.py (private helpers, no name clashes)
BASE_NAMES = {"REPO", "OUT", "fails", "defs", "src", "fail", "main", "ex_quoted_bit"}
theirs = open(os.path.join(W, "tools/extract.py")).read()
def top_blocks(text):
    lines = text.split("\n")
    starts = [i for i, l in enumerate(lines) if re.match(r"(def |class |[A-Za-z_][A-Za-z_0-9]* = )", l)]
    out = []
    for k, i in enumerate(starts):
        j = starts[k + 1] if k + 1 < len(starts) else len(lines)
        body = []
        for l in lines[i:j]:
            if l.startswith("if __name__"):
                break
            body.append(l)
        while body and body[-1].strip() == "":
            body.pop()
        name = re.match(r"(?:def |class )?([A-Za-z_][A-Za-z_0-9]*)", lines[i]).group(1)
        out.append((name, "\n".join(body)))
    return out
seen, uniq = set(), []
for n, b in top_blocks(theirs):
    if n in BASE_NAMES or n in seen:
        continue
    seen.add(n)
    uniq.append(b)
if uniq:
    tag = ids[0].lower()
    os.makedirs(os.path.join(ROOT, "tools", "extractors"), exist_ok=True)
    open(os.path.join(ROOT, "tools", "extractors", tag + ".py"), "w").write(
        '"""extractor items contributed with %s; `src`, `fail`, `defs`, `re`, `os`, `sys`, `REPO` are injected by tools/extract.py"""\n\n' % ids[0]
        + "\n\n\n".join(uniq) + "\n")
    print("extractors/%s.py:" % tag, sorted(seen))
# known findings
kf = json.load(open(os.path.join(ROOT, "known_findings.json")))
tk = json.load(open(os.path.join(W, "known_findings.json")))
have = {f["id"] for f in kf["findings"]}
for f in tk["findings"]:
    if f["id"] not in have:
        kf["findings"].append(f)
        print("known finding added:", f["id"])
json.dump(kf, open(os.path.join(ROOT, "known_findings.json"), "w"), indent=1)
