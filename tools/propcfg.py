"""Per-property configuration of ./check.  One file per property: tools/props/Cxx.py defining CFG (see C04.py)."""
import importlib.util, os, re

HERE = os.path.dirname(os.path.abspath(__file__))
# commits in /repo that add cfg(kolibrie_verif)-guarded hooks (MANIFEST.hooks.source_commits)
HOOK_COMMITS = ["826a8c5 verif hook (cfg kolibrie_verif): Reasoner::verif_compute_repairs exposes the repair list",
                "66f36f1 verif hook (cfg kolibrie_verif): parser::verif re-exports the private token scanners"]
# properties deliberately not claimed, with the reason (MANIFEST.not_applicable)
NOT_APPLICABLE = {}

PROPS = {}
for f in sorted(os.listdir(os.path.join(HERE, "props"))):
    if re.fullmatch(r"C\d\d\.py", f):
        spec = importlib.util.spec_from_file_location("prop_" + f[:-3], os.path.join(HERE, "props", f))
        mod = importlib.util.module_from_spec(spec)
        spec.loader.exec_module(mod)
        PROPS[f[:-3]] = mod.CFG
