"""Per-property configuration of ./check.  One file per property: tools/props/Cxx.py defining CFG (see C04.py)."""
import importlib.util, os, re

HERE = os.path.dirname(os.path.abspath(__file__))
# commits in /repo that add cfg(kolibrie_verif)-guarded hooks (MANIFEST.hooks.source_commits)
HOOK_COMMITS = []
# properties deliberately not claimed, with the reason (MANIFEST.not_applicable)
NOT_APPLICABLE = {}

PROPS = {}
for f in sorted(os.listdir(os.path.join(HERE, "props"))):
    if re.fullmatch(r"C\d\d\.py", f):
        spec = importlib.util.spec_from_file_location("prop_" + f[:-3], os.path.join(HERE, "props", f))
        mod = importlib.util.module_from_spec(spec)
        spec.loader.exec_module(mod)
        PROPS[f[:-3]] = mod.CFG
