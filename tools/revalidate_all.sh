#!/bin/bash
# Re-runs ./check against every kept seeded change (phase B only: patch /repo under the lock, check, revert) and prints
# one line per seed; used after generator changes to make sure no seed stopped being detected.
cd "$(dirname "$0")/.."
for d in seeded/*/; do
  s=$(basename "$d"); id=${s%_*}; l=${s#*_}
  [ -f "$d/meta.json" ] || continue
  python3 tools/validate_seed.py "$id" "$l" --check-only 2>&1 | tail -1 | cut -c1-110
done
