#!/usr/bin/env python3
"""
validate_seed.py <ID> <letter> [--tier quick|thorough]
Confirms a seeded breaking change produced by an independent agent (/tmp/seed_<ID>_out/<letter>/{patch.diff,demo.rs,README.md}):
  1. scratch worktree of /repo HEAD: the demonstration passes without the patch and fails with it;
  2. the existing tests of the touched crates still pass with the patch (the demonstration itself excluded);
  3. the patch is applied to /repo, `./check <ID>` is run, the patch is reverted (git checkout -- .);
  4. everything is recorded under /verif/seeded/<ID>_<letter>/ (patch.diff, demo.rs, meta.json).
Prints one summary line: SEED <ID>_<letter> demo_ok=<bool> tests_ok=<bool> detected=<bool> …
"""
import json, os, re, shutil, subprocess, sys, time

ROOT = os.path.join(os.path.dirname(os.path.abspath(__file__)), "..")
pid, letter = sys.argv[1], sys.argv[2]
tier = "quick"
if "--tier" in sys.argv:
    tier = sys.argv[sys.argv.index("--tier") + 1]
src = "/tmp/seed_%s_out/%s" % (pid, letter)
if not os.path.exists(os.path.join(src, "patch.diff")):
    src = os.path.join(ROOT, "seeded", "%s_%s" % (pid, letter))   # already kept: re-validate from the kept copy
wt = "/tmp/val_%s_%s" % (pid, letter)
env = dict(os.environ, CARGO_TARGET_DIR="/tmp/val_target", CARGO_NET_OFFLINE="true")


def sh(cmd, cwd=None, timeout=3600, e=env):
    p = subprocess.run(cmd, cwd=cwd, env=e, shell=isinstance(cmd, str), stdout=subprocess.PIPE, stderr=subprocess.STDOUT, text=True, timeout=timeout)
    return p.returncode, p.stdout


readme = open(os.path.join(src, "README.md")).read() if os.path.exists(os.path.join(src, "README.md")) else ""
demo_src = open(os.path.join(src, "demo.rs")).read()
m = re.search(r"((?:kolibrie|datalog|shared)/tests/[A-Za-z0-9_]+\.rs)", readme + "\n" + demo_src)
demo_rel = m.group(1) if m else "kolibrie/tests/seed_demo.rs"
crate = demo_rel.split("/")[0]
test_name = os.path.basename(demo_rel)[:-3]
patch = os.path.join(src, "patch.diff")
touched = sorted(set(re.findall(r"^\+\+\+ b/([a-z_-]+)/", open(patch).read(), flags=re.M)))

CHECK_ONLY = "--check-only" in sys.argv
dst0 = os.path.join(ROOT, "seeded", "%s_%s" % (pid, letter), "meta.json")
SKIP_A = "--skip-a" in sys.argv   # phase B before phase A has run (the confirmation follows later with --no-check)
if CHECK_ONLY and os.path.exists(dst0):
    meta = json.load(open(dst0))
    tests_ok = meta.get("confirmed", False)
elif SKIP_A:
    meta = {"property": pid, "seed": "%s_%s" % (pid, letter), "demo_location": demo_rel, "touched_crates": touched, "readme": readme[:3000],
            "demo_without_patch": {"passed": None}, "demo_with_patch": {"passed": None}, "existing_tests_with_patch": {"failed": None}}
    tests_ok = None
else:
    sh(["git", "-C", "/repo", "worktree", "remove", "--force", wt])
    for _try in range(6):
        rc, out = sh(["git", "-C", "/repo", "worktree", "add", "--detach", wt, "HEAD"])
        if rc == 0 and os.path.isdir(wt):
            break
        time.sleep(5)  # another process held the repository lock
    meta = {"property": pid, "seed": "%s_%s" % (pid, letter), "demo_location": demo_rel, "touched_crates": touched,
            "readme": readme[:3000], "repo_head": sh(["git", "-C", "/repo", "rev-parse", "--short", "HEAD"])[1].strip()}
    try:
        os.makedirs(os.path.dirname(os.path.join(wt, demo_rel)), exist_ok=True)
        shutil.copy(os.path.join(src, "demo.rs"), os.path.join(wt, demo_rel))
        cmd = "cargo test -p %s --test %s --offline 2>&1 | tail -15" % (crate, test_name)
        rc0, out0 = sh(cmd + "; exit ${PIPESTATUS[0]}", cwd=wt, e=env)
        rc0, out0 = sh(["bash", "-c", "set -o pipefail; " + cmd], cwd=wt)
        meta["demo_without_patch"] = {"cmd": cmd, "passed": rc0 == 0, "tail": out0[-600:]}
        rca, outa = sh(["git", "apply", patch], cwd=wt)
        meta["patch_applies"] = rca == 0
        rc1, out1 = sh(["bash", "-c", "set -o pipefail; " + cmd], cwd=wt)
        meta["demo_with_patch"] = {"passed": rc1 == 0, "tail": out1[-600:]}
        # existing tests of the touched crates (plus kolibrie, which depends on all)
        crates = sorted(set(touched + [crate]))
        os.remove(os.path.join(wt, demo_rel))
        tcmd = "cargo test %s --offline --no-fail-fast --lib --tests 2>&1 | grep -E '^test .*FAILED|^test result|error(\\[|:)' | sort | uniq -c | sort -rn | head -30" % " ".join("-p " + c for c in crates)
        rc2, out2 = sh(["bash", "-c", tcmd], cwd=wt, timeout=7200)
        failed = re.findall(r"test (\S+) \.\.\. FAILED", out2)
        # wall-clock based tests of the repository flake under load: a failing test other than the known one is re-run
        # alone up to three times and only counts when it fails every time
        flaky = []
        for name in [f for f in failed if "rsp_ql_dstream_semantics" not in f]:
            for _ in range(3):
                rcx, outx = sh(["bash", "-c", "cargo test %s --offline --lib --tests %s 2>&1 | grep -E '^test result|FAILED' | head -40" % (" ".join("-p " + c for c in crates), name.split("::")[-1])], cwd=wt, timeout=3600)
                if "FAILED" not in outx:
                    flaky.append(name)
                    break
        failed = [f for f in failed if f not in flaky]
        meta_flaky = flaky
        meta["existing_tests_with_patch"] = {"cmd": tcmd, "failed": failed, "flaky_passed_on_rerun": meta_flaky, "tail": out2[-1200:]}
        tests_ok = all("rsp_ql_dstream_semantics" in f for f in failed) and "error[" not in out2 and "could not compile" not in out2 and "test result" in out2
    finally:
        sh(["git", "-C", "/repo", "worktree", "remove", "--force", wt])


# run the check against /repo with the patch applied
NO_CHECK = "--no-check" in sys.argv
t0 = time.time()
detected, line, replay = False, "", None
import fcntl
os.makedirs(os.path.join(ROOT, "work"), exist_ok=True)
_lock = open(os.path.join(ROOT, "work", ".lock"), "w")
if not NO_CHECK:
    fcntl.flock(_lock, fcntl.LOCK_EX)
st = "" if NO_CHECK else sh(["git", "-C", "/repo", "status", "--porcelain"])[1].strip()
if st:
    print("REFUSING: /repo has local changes:", st)
    sys.exit(2)
try:
    if NO_CHECK:
        raise KeyboardInterrupt
    ev = os.path.join(ROOT, "evidence", pid + ".json")
    ev_saved = open(ev).read() if os.path.exists(ev) else None
    rca, outa = sh(["git", "-C", "/repo", "apply", patch])
    rcc, outc = sh([os.path.join(ROOT, "check"), pid, "--tier", tier], cwd=ROOT, timeout=7200, e=dict(os.environ, KVERIF_LOCK_HELD="1"))
    vl = [l for l in outc.splitlines() if l.startswith("VIOLATION")]
    detected = rcc == 1 and bool(vl)
    line = vl[0] if vl else outc.splitlines()[-1] if outc.splitlines() else ""
    m = re.search(r"replay=(\S+)", line)
    if m and os.path.exists(m.group(1)):
        replay = json.load(open(m.group(1)))
except KeyboardInterrupt:
    pass
finally:
    if not NO_CHECK:
        if ev_saved is not None:
            open(ev, "w").write(ev_saved)  # evidence must describe /repo itself, never a patched tree
        sh(["git", "-C", "/repo", "checkout", "--", "."])
        sh(["git", "-C", "/repo", "clean", "-fdq", "--", "kolibrie/tests", "datalog/tests", "shared/tests"])
meta["check"] = None if NO_CHECK else {"concrete_failing_input": detected and "no-failing-input-found" not in line, "cmd": "./check %s --tier %s" % (pid, tier), "detected": detected, "line": line, "wall_s": round(time.time() - t0, 1),
                 "replay": {k: (str(v)[:1500]) for k, v in (replay or {}).items()}}
meta["confirmed"] = None if tests_ok is None else bool(meta["demo_without_patch"]["passed"] and not meta["demo_with_patch"]["passed"] and tests_ok)
dst = os.path.join(ROOT, "seeded", "%s_%s" % (pid, letter))
os.makedirs(dst, exist_ok=True)
if os.path.abspath(src) != os.path.abspath(dst):
    shutil.copy(patch, os.path.join(dst, "patch.diff"))
    shutil.copy(os.path.join(src, "demo.rs"), os.path.join(dst, "demo.rs"))
if readme:
    open(os.path.join(dst, "README.md"), "w").write(readme)
json.dump(meta, open(os.path.join(dst, "meta.json"), "w"), indent=1)
print("SEED %s_%s demo_ok=%s tests_ok=%s detected=%s tier=%s :: %s" % (
    pid, letter, meta["demo_without_patch"]["passed"] and not meta["demo_with_patch"]["passed"], tests_ok, detected, tier, line[:200]))
