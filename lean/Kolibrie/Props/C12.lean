import Kolibrie.Lemmas.SdsInc
/-
C12 — incremental cross-window reasoning equals recomputation from scratch.

Model: `Kolibrie/Model/Sds.lean` (`translate`, `stripPrefix`, `naiveFacts`, `incStep` on the C06 engine at the
(max, min) expiry semiring).  Spec: `Kolibrie/Spec/Sds.lean` + `Derivable` read at expiry thresholds.

Reading of the statement: at evaluation time `now`, over the alive base facts `base` (each with its own expiry),
  * from-scratch reasoning yields the facts derivable from `base`;
  * "the latest time until which some derivation stays fully supported" is the largest threshold `τ` such that the fact
    is derivable from the base facts whose expiry is ≥ τ (max over derivations of min over premises).
`ExactAt rules base now state` says both: for every `τ ∈ (now, u64::MAX]`, `state` lists the fact with expiry ≥ τ
iff it is derivable at threshold τ.

Forced hypotheses, all decidable and reported by the driver (`H`): window consistency of consecutive evaluations
(`consistentStep`, the property's own hypothesis), unchanged static graphs, rule heads with annotated constant
predicates (`heads_not_annotated`), unambiguous annotation (`ambiguous_annotation`).
-/
namespace Kolibrie.Props.C12
open Kolibrie.Prov

/-! ## 1. The expiry semiring regenerated from `ExpirationProvenance` is a distributive lattice -/

theorem expiry_semiring_laws (a b c : Nat) :
    Extracted.expDisj a a = a ∧ Extracted.expConj a a = a ∧
    Extracted.expDisj a b = Extracted.expDisj b a ∧ Extracted.expConj a b = Extracted.expConj b a ∧
    Extracted.expDisj a (Extracted.expConj a b) = a ∧ Extracted.expConj a (Extracted.expDisj a b) = a ∧
    Extracted.expConj a (Extracted.expDisj b c) = Extracted.expDisj (Extracted.expConj a b) (Extracted.expConj a c) ∧
    Extracted.expDisj 0 a = a ∧ Extracted.expConj 0 a = 0 := by
  simp only [Extracted.expDisj, Extracted.expConj]
  omega

/-- each threshold is a homomorphism of the expiry semiring into the Booleans -/
theorem expiry_threshold_hom (a b τ : Nat) :
    (τ ≤ Extracted.expDisj a b ↔ τ ≤ a ∨ τ ≤ b) ∧ (τ ≤ Extracted.expConj a b ↔ τ ≤ a ∧ τ ≤ b) := by
  simp only [Extracted.expDisj, Extracted.expConj]; omega

/-! ## 2. Predicate annotation -/

theorem strip_append (w l : Str) : ∀ (comps : List Str),
    comps.Pairwise (fun a b => b.length ≤ a.length) → w ∈ comps →
    (∀ c ∈ comps, c <+: w ++ l → c.length ≤ w.length) → stripPrefix (w ++ l) comps = some (w, l) := by
  intro comps
  induction comps with
  | nil => intro _ hw; cases hw
  | cons c rest ih =>
    intro hsorted hw hun
    rw [List.pairwise_cons] at hsorted
    rw [stripPrefix]
    by_cases hpre : List.isPrefixOf c (w ++ l) = true
    · simp only [hpre, if_true]
      rw [List.isPrefixOf_iff_prefix] at hpre
      have hle := hun c List.mem_cons_self hpre
      have hcw : c = w := by
        rcases List.mem_cons.mp hw with h | h
        · exact h.symm
        · have hge := hsorted.1 w h
          have hwp : w <+: w ++ l := List.prefix_append w l
          have h1 : c <+: w := List.prefix_of_prefix_length_le hpre hwp hle
          exact h1.eq_of_length (by omega)
      subst hcw
      simp
    · simp only [hpre]
      have hne : w ≠ c := by
        intro h; subst h
        exact hpre (List.isPrefixOf_iff_prefix.mpr (List.prefix_append w l))
      have hw' : w ∈ rest := by
        rcases List.mem_cons.mp hw with h | h
        · exact absurd h hne
        · exact h
      exact ih hsorted.2 hw' (fun c' hc' => hun c' (List.mem_cons_of_mem _ hc'))

/-- `strip_window_prefix (annotate_predicate w l) = (w, l)` when the component list is ordered longest first (as
    `all_component_iris` orders it) and no component IRI extends `w` into the local name -/
theorem annotate_strip_inverse (comps : List Str) (w l : Str)
    (hsorted : comps.Pairwise (fun a b => b.length ≤ a.length)) (hw : w ∈ comps)
    (hun : ∀ c ∈ comps, c <+: w ++ l → c.length ≤ w.length) :
    stripPrefix (annotate w l) comps = some (w, l) := strip_append w l comps hsorted hw hun

/-- without the hypothesis the inverse fails: window `w/x` captures the local name `xp` of window `w/` -/
theorem annotate_strip_clash :
    ∃ (comps : List Str) (w l : Str), w ∈ comps ∧ stripPrefix (annotate w l) comps ≠ some (w, l) :=
  ⟨["w/x".toList, "w/".toList], "w/".toList, "xp".toList, by decide, by decide⟩

example : stripPrefix (annotate "http://sensor/".toList "reading".toList)
    ["http://sensor/".toList, "http://map/".toList] = some ("http://sensor/".toList, "reading".toList) := by decide

/-! ## 3. From-scratch reasoning -/

/-- `naive_sds_plus` (fact set): exactly the facts derivable from the alive base facts -/
theorem naive_exact (rules : List Rule) (base : List (Fact × Nat)) (fuel : Nat) (M : List Fact)
    (hsafe : ∀ r ∈ rules, safeRule r = true) (hne : ∀ r ∈ rules, r.prem ≠ [])
    (h : naiveFacts rules base fuel = some M) (g : Fact) :
    g ∈ M ↔ Derivable rules (fun f => ∃ e, (f, e) ∈ base) g := by
  unfold naiveFacts at h
  simp only [Option.map_eq_some_iff] at h
  obtain ⟨⟨all, tags⟩, hit, rfl⟩ := h
  obtain ⟨h1, h2, _⟩ := iter_exact boolSemL hsafe fuel _ _ _ all tags (inv_init boolSemL rules _ [] hne) hit
  have hin : ∀ f, inputsW boolSemL ((base.map (·.1)).eraseDups) ([] : Tags Bool) () f ↔ ∃ e, (f, e) ∈ base := by
    intro f
    simp only [inputsW, List.mem_eraseDups, List.mem_map]
    constructor
    · rintro ⟨⟨⟨f', e⟩, hm, rfl⟩, _⟩; exact ⟨e, hm⟩
    · rintro ⟨e, hm⟩
      exact ⟨⟨(f, e), hm, rfl⟩, rfl⟩
  have htrue : ∀ g, getTag boolProv tags g = true :=
    iter_Q boolProv (· = true) rfl (by intro a b ha hb; subst ha; subst hb; rfl)
      (by intro a b ha hb; subst ha; subst hb; rfl) rules fuel _ _ _ all tags (fun _ => rfl) hit
  rw [← Derivable.iff_congr hin g]
  constructor
  · intro hg; exact h1 g hg () trivial (htrue g)
  · intro hd; exact (h2 () trivial g hd).1

/-! ## 4. Tagged from-scratch evaluation computes the expiry fixpoint -/

/-- `expiry_lfp`: evaluating from an empty state (everything is new: the delta is the whole alive dataset) yields,
    for every threshold, exactly the facts derivable at that threshold: the kept expiry is
    max over derivations of min over premises -/
theorem expiry_lfp (rules : List Rule) (keep : Fact → Bool) (base : List (Fact × Nat)) (now fuel : Nat)
    (out : List (Fact × Nat)) (hyp : StepHyp rules keep [] base [] now now)
    (h : incStep rules keep base [] now fuel = some out) : ExactAt rules base now out :=
  (incStep_exact rules keep [] base [] now now fuel out hyp (exactAt_nil rules hyp.nonempty now) h).1

/-! ## 5. One incremental step, and whole histories -/

/-- `inc_step`: if the carried state is exact for the previous evaluation and the two evaluations are window
    consistent, `incremental_sds_plus` returns a state that is exact for the current evaluation
    (the carried tags are valid lower bounds, `carry_valid`, and the engine's invariant holds with `d_new` as delta) -/
theorem inc_step (rules : List Rule) (keep : Fact → Bool) (basePrev base prev : List (Fact × Nat))
    (tPrev now fuel : Nat) (out : List (Fact × Nat)) (hyp : StepHyp rules keep basePrev base prev tPrev now)
    (hprev : ExactAt rules basePrev tPrev prev) (h : incStep rules keep base prev now fuel = some out) :
    ExactAt rules base now out ∧ ∀ e ∈ out, keep e.1 = true :=
  incStep_exact rules keep basePrev base prev tPrev now fuel out hyp hprev h

/-- a history: the alive annotated facts and the time of each evaluation, oldest first -/
abbrev History := List (List (Fact × Nat) × Nat)

/-- `incremental_sds_plus` threaded through a history -/
def runHist (rules : List Rule) (keep : Fact → Bool) (fuel : Nat) : History → List (Fact × Nat) → Option (List (Fact × Nat))
  | [], st => some st
  | (base, now) :: rest, st =>
    match incStep rules keep base st now fuel with
    | none => none
    | some st' => runHist rules keep fuel rest st'

/-- `WindowConsistent`: every consecutive pair of evaluations satisfies the step hypotheses (`first` marks the
    evaluation that starts from the empty state) -/
def WindowConsistent (rules : List Rule) (keep : Fact → Bool) :
    List (Fact × Nat) → Nat → List (Fact × Nat) → History → Prop
  | _, _, _, [] => True
  | basePrev, tPrev, prev, (base, now) :: rest =>
    StepHyp rules keep basePrev base prev tPrev now ∧
    ∀ st', (∀ e ∈ st', keep e.1 = true) → WindowConsistent rules keep base now st' rest

/-- `inc_eq_naive`: along every window-consistent history and every increasing sequence of evaluation times, the
    incrementally maintained state is exact at the last evaluation (hence at every evaluation: prefixes of
    window-consistent histories are window consistent) -/
theorem inc_eq_naive (rules : List Rule) (keep : Fact → Bool) (fuel : Nat) : ∀ (hist : History)
    (basePrev : List (Fact × Nat)) (tPrev : Nat) (prev : List (Fact × Nat)) (out : List (Fact × Nat)),
    ExactAt rules basePrev tPrev prev → WindowConsistent rules keep basePrev tPrev prev hist →
    runHist rules keep fuel hist prev = some out →
    ExactAt rules ((hist.getLast?.map (·.1)).getD basePrev) ((hist.getLast?.map (·.2)).getD tPrev) out := by
  intro hist
  induction hist with
  | nil => intro basePrev tPrev prev out hex _ h; simp only [runHist, Option.some.injEq] at h; subst h; simpa using hex
  | cons step rest ih =>
    intro basePrev tPrev prev out hex hwc h
    obtain ⟨base, now⟩ := step
    simp only [runHist] at h
    split at h
    · cases h
    · rename_i st' hst
      obtain ⟨hyp, hrest⟩ := hwc
      obtain ⟨hex', hk⟩ := incStep_exact rules keep basePrev base prev tPrev now fuel st' hyp hex hst
      have := ih base now st' out hex' (hrest st' hk) h
      cases rest with
      | nil => simpa using this
      | cons r rs =>
        rw [List.getLast?_cons_cons]
        cases hl : (r :: rs).getLast? with
        | none => simp at hl
        | some x => rw [hl] at this; simpa using this

/-- reading of `ExactAt`, facts: the state lists exactly the facts from-scratch reasoning derives from the alive
    facts (all of which have expiry > `now`) -/
theorem exact_facts (rules : List Rule) (base state : List (Fact × Nat)) (now : Nat)
    (halive : ∀ e ∈ base, now < e.2 ∧ e.2 ≤ u64Max) (hlive : ∀ e ∈ state, now < e.2)
    (hex : ExactAt rules base now state) (hnow : now < u64Max) (g : Fact) :
    (∃ e, (g, e) ∈ state) ↔ Derivable rules (fun f => ∃ e, (f, e) ∈ base) g := by
  have hin : ∀ f, inputsB base (now + 1) f ↔ ∃ e, (f, e) ∈ base := by
    intro f
    constructor
    · rintro ⟨e, he, _⟩; exact ⟨e, he⟩
    · rintro ⟨e, he⟩; exact ⟨e, he, by have := (halive _ he).1; simp only at this; omega⟩
  rw [← Derivable.iff_congr hin g, ← hex.exact (now + 1) (by omega) (by omega) g]
  constructor
  · rintro ⟨e, he⟩; exact ⟨e, he, by have := hlive _ he; simp only at this; omega⟩
  · rintro ⟨e, he, _⟩; exact ⟨e, he⟩

/-- incremental and from-scratch fact sets coincide (`inc = naive`, both inclusions) -/
theorem inc_facts_eq_naive (rules : List Rule) (base state : List (Fact × Nat)) (now fuel : Nat) (M : List Fact)
    (hsafe : ∀ r ∈ rules, safeRule r = true) (hne : ∀ r ∈ rules, r.prem ≠ [])
    (halive : ∀ e ∈ base, now < e.2 ∧ e.2 ≤ u64Max) (hlive : ∀ e ∈ state, now < e.2)
    (hex : ExactAt rules base now state) (hnow : now < u64Max)
    (hn : naiveFacts rules base fuel = some M) (g : Fact) : (∃ e, (g, e) ∈ state) ↔ g ∈ M := by
  rw [exact_facts rules base state now halive hlive hex hnow g, naive_exact rules base fuel M hsafe hne hn g]

/-- reading of `ExactAt`, expiries: the expiry kept for a fact is the largest threshold (up to `u64::MAX`) at which
    the fact is derivable from the alive facts of at least that expiry -/
theorem exact_expiry (rules : List Rule) (base state : List (Fact × Nat)) (now : Nat)
    (hex : ExactAt rules base now state) (g : Fact) (e : Nat) (hm : (g, e) ∈ state) (τ : Nat) (h1 : now < τ)
    (h2 : τ ≤ u64Max) : τ ≤ e ↔ Derivable rules (inputsB base τ) g := by
  rw [← hex.exact τ h1 h2 g]
  constructor
  · intro hle; exact ⟨e, hm, hle⟩
  · rintro ⟨e', hm', hle⟩; rw [hex.functional g e e' hm hm']; exact hle

/-! ## 6. Non-vacuity: the sensor scenario (join of two windows, then renewal of the short-lived premise) -/

def exRule : List Rule :=
  [⟨[⟨.var "s", .const 100, .var "v"⟩, ⟨.var "s", .const 101, .var "l"⟩], [], [⟨.var "s", .const 102, .var "l"⟩]⟩]
def exKeep : Fact → Bool := fun f => decide (100 ≤ f.p)
def exBase1 : List (Fact × Nat) := [(⟨1, 100, 2⟩, 15), (⟨1, 101, 3⟩, 23)]
def exBase2 : List (Fact × Nat) := [(⟨1, 100, 2⟩, 23), (⟨1, 101, 3⟩, 23)]

example : StepHyp exRule exKeep [] exBase1 [] 6 6 := by
  refine ⟨by decide, by decide, by decide, by decide, by decide, ?_, ?_, by decide, ?_⟩
  · intro g hg; exact Or.inl rfl
  · intro f f' h; simp [exKeep, h]
  · intro r hr c hc
    simp only [exRule, List.mem_singleton] at hr; subst hr
    simp only [List.mem_singleton] at hc; subst hc
    exact ⟨102, rfl, by decide⟩

example : runHist exRule exKeep 20 [(exBase1, 6), (exBase2, 14)] []
    = some [(⟨1, 100, 2⟩, 23), (⟨1, 101, 3⟩, 23), (⟨1, 102, 3⟩, 23)] := by decide +kernel

example : consistentStep exBase1 exBase2 14 = true := by decide


end Kolibrie.Props.C12
