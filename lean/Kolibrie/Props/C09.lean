import Kolibrie.Lemmas.Window
/-!
# C09 — a time window reports exactly the stream items of one aligned interval

Property theorems only (helper lemmas: `Kolibrie/Lemmas/Window.lean`).  Model: `Kolibrie/Model/Window.lean`
(`CSPARQLWindow::{scope, add_to_window}`, `Report::report`; the comparison guards and the `max_by` direction are the
definitions regenerated from `s2r.rs` into `Kolibrie/Extracted.lean`).  Specification: `Kolibrie/Spec/Window.lean`
(aligned interval `[c - width, c)`, `contentOf`, the reference `reports`).

All statements hold for **every** width `w`, every slide `s ≥ 1` and **every** in-order stream
`stream : List (item × timestamp)` (duplicated timestamps, repeated items and arbitrary gaps allowed), for the
configuration `stdCfg w s` = report strategy `OnWindowClose`, tick `TimeDriven`.  A `Firing` records the position
`idx` and timestamp `trigger` of the item whose arrival invoked the consumer, the `close` of the reported window and
the `content` handed over.
-/
namespace Kolibrie.Props.C09
open Kolibrie.Window

/-- **Window invariant** (induction over the stream).  After any in-order stream every active window is an aligned
interval `[c - w, c)` (start clipped at 0) that contains the last timestamp, and its content is exactly — each item
once — the items seen so far whose timestamp lies in it; conversely every aligned interval containing the last
timestamp is active. -/
theorem win_inv (w s : Nat) (stream : List (Nat × Nat)) (hs : 1 ≤ s) (ho : InOrder stream) :
    (∀ y ∈ (stateAfter (stdCfg w s) init stream).active,
        s ∣ y.close ∧ y.wopen = y.close - w ∧
        (∃ T, lastTs stream = some T ∧ y.wopen ≤ T ∧ T < y.close) ∧
        y.content = contentOf w stream y.close ∧ y.content.Nodup ∧
        (∀ x, x ∈ y.content ↔ ∃ t, (x, t) ∈ stream ∧ y.wopen ≤ t ∧ t < y.close)) ∧
    (∀ T, lastTs stream = some T → ∀ c, s ∣ c → c - w ≤ T → T < c →
        ∃ y ∈ (stateAfter (stdCfg w s) init stream).active, y.close = c ∧ y.wopen = c - w) := by
  have hI := stateAfter_inv (w := w) hs stream [] init (inv_init w s) (by simpa using ho)
  simp only [List.nil_append] at hI
  constructor
  · intro y hy
    obtain ⟨a, b, c, d⟩ := hI.wf y hy
    refine ⟨a, b, d, c, ?_, ?_⟩
    · rw [c]; exact contentOf_nodup _ _ _
    · intro x; rw [c, mem_contentOf, b]
  · intro T hl c hc h1 h2
    obtain ⟨y, hy, hyc⟩ := hI.complete T hl c hc h1 h2
    obtain ⟨_, b, _, _⟩ := hI.wf y hy
    exact ⟨y, hy, hyc, by rw [b, hyc]⟩

/-- **Reported contents are exact.**  Every content handed to the consumer is — each item once — precisely the
items that arrived *before* the triggering item with a timestamp in `[c - w, c)`, for one `c` that is a positive
multiple of the slide and not after the triggering timestamp: no item missing, none foreign. -/
theorem fired_exact (w s : Nat) (stream : List (Nat × Nat)) (hs : 1 ≤ s) (ho : InOrder stream) :
    ∀ f ∈ run (stdCfg w s) stream,
      (∃ x, stream[f.idx]? = some (x, f.trigger)) ∧ s ∣ f.close ∧ 0 < f.close ∧ f.close ≤ f.trigger ∧
      f.content = contentOf w (stream.take f.idx) f.close ∧ f.content.Nodup ∧
      (∀ x, x ∈ f.content ↔ ∃ t, (x, t) ∈ stream.take f.idx ∧ f.close - w ≤ t ∧ t < f.close) := by
  intro f hf
  have := runFrom_facts (w := w) hs stream [] init (inv_init w s) (by simpa using ho) f (by simpa [run] using hf)
  simp only [List.nil_append] at this
  obtain ⟨_, a, b, c, d, e, _⟩ := this
  refine ⟨a, b, d, c, e, ?_, ?_⟩
  · rw [e]; exact contentOf_nodup _ _ _
  · intro x; rw [e, mem_contentOf]

/-- **Reports advance.**  Trigger times strictly increase and the reported intervals strictly advance (so in
particular closes are non-decreasing and no interval is reported twice). -/
theorem fired_monotone (w s : Nat) (stream : List (Nat × Nat)) (hs : 1 ≤ s) (ho : InOrder stream) :
    (run (stdCfg w s) stream).Pairwise (fun a b => a.trigger < b.trigger ∧ a.close < b.close) := by
  have := runFrom_pairwise (w := w) hs stream [] init (inv_init w s) (by simpa using ho)
  simpa [run] using this

/-- no interval is reported twice -/
theorem fired_once (w s : Nat) (stream : List (Nat × Nat)) (hs : 1 ≤ s) (ho : InOrder stream) :
    ∀ f ∈ run (stdCfg w s) stream, ∀ g ∈ run (stdCfg w s) stream, f.close = g.close → f = g := by
  have hp := fired_monotone w s stream hs ho
  generalize run (stdCfg w s) stream = l at hp
  induction l with
  | nil => intro f hf; simp at hf
  | cons a l ih =>
    obtain ⟨h1, h2⟩ := List.pairwise_cons.1 hp
    intro f hf g hg e
    rcases List.mem_cons.1 hf with rfl | hf' <;> rcases List.mem_cons.1 hg with rfl | hg'
    · rfl
    · have := (h1 g hg').2; omega
    · have := (h1 f hf').2; omega
    · exact ih h2 f hf' g hg' e

/-- **Every closing interval is reported exactly once** when consecutive timestamps are at most one slide apart:
every multiple `c` of the slide with `first < c ≤ last` whose interval `[c - w, c)` contains at least one item is
reported by exactly one firing.  (An interval without any item is never opened by the implementation when `w < s`;
for `w ≥ s` the premise is automatic, see `no_gap_complete_sliding`.) -/
theorem no_gap_complete (w s : Nat) (stream : List (Nat × Nat)) (hs : 1 ≤ s)
    (hg : gapsAtMost s stream = true) (c : Nat) (hc : s ∣ c)
    (hfirst : ∃ a, stream.head? = some a ∧ a.2 < c) (hlast : ∃ T, lastTs stream = some T ∧ c ≤ T)
    (hne : ∃ it ∈ stream, c - w ≤ it.2 ∧ it.2 < c) :
    ∃ f ∈ run (stdCfg w s) stream, f.close = c ∧ ∀ g ∈ run (stdCfg w s) stream, g.close = c → g = f := by
  have ho := gaps_inOrder s stream hg
  suffices h : ∃ f ∈ run (stdCfg w s) stream, f.close = c by
    obtain ⟨f, hf, hfc⟩ := h
    exact ⟨f, hf, hfc, fun g hgm hgc => fired_once w s stream hs ho g hgm f hf (by omega)⟩
  obtain ⟨a, ha, hac⟩ := hfirst
  cases stream with
  | nil => simp at ha
  | cons a' rest =>
    simp at ha; subst ha
    obtain ⟨x, t⟩ := a'
    obtain ⟨T, hT, hcT⟩ := hlast
    have hI1 := (step_ok (w := w) (s := s) (st := init) (p := []) x t (inv_init w s) List.Pairwise.nil hs (by simp)).1
    have hex : ∃ it ∈ rest, c ≤ it.2 := by
      obtain ⟨it, hit, e⟩ := lastTs_mem hT
      rcases List.mem_cons.1 hit with rfl | hr
      · simp at e hac; omega
      · exact ⟨it, hr, by omega⟩
    obtain ⟨f, hf, hfc⟩ := runFrom_complete (w := w) hs rest [(x, t)] _ hI1 (by simpa using hg) t c
      (by simp [lastTs]) hac hc hex (by simpa using hne)
    refine ⟨f, ?_, hfc⟩
    simp only [run]
    exact (runFrom_cons _ _ _ _ _ _ _).2 (Or.inr (by simpa using hf))

/-- the property's sentence verbatim for sliding and tumbling windows (`w ≥ s`): with consecutive timestamps at
most one slide apart, **every** multiple of the slide in `(first, last]` is reported exactly once -/
theorem no_gap_complete_sliding (w s : Nat) (stream : List (Nat × Nat)) (hs : 1 ≤ s) (hws : s ≤ w)
    (hg : gapsAtMost s stream = true) (c : Nat) (hc : s ∣ c)
    (hfirst : ∃ a, stream.head? = some a ∧ a.2 < c) (hlast : ∃ T, lastTs stream = some T ∧ c ≤ T) :
    ∃ f ∈ run (stdCfg w s) stream, f.close = c ∧ ∀ g ∈ run (stdCfg w s) stream, g.close = c → g = f := by
  apply no_gap_complete w s stream hs hg c hc hfirst hlast
  obtain ⟨a, ha, hac⟩ := hfirst
  obtain ⟨T, hT, hcT⟩ := hlast
  cases stream with
  | nil => simp at ha
  | cons a' rest =>
    simp at ha; subst ha
    have hex : ∃ it ∈ rest, c ≤ it.2 := by
      obtain ⟨it, hit, e⟩ := lastTs_mem hT
      rcases List.mem_cons.1 hit with rfl | hr
      · omega
      · exact ⟨it, hr, by omega⟩
    obtain ⟨it, hit, h1, h2⟩ := gap_witness s c rest a' hg hac hex
    exact ⟨it, hit, by omega, h2⟩

/-- **The code's reports are the specification's reports** (this is the `S` line of the correspondence run): on
every in-order stream the model of `add_to_window` fires exactly when, and with exactly the close and content that,
the window-state-free reference `reports` prescribes — the latest aligned interval closing in
`(previous timestamp, t]` that contains the previous item or closes exactly at `t`. -/
theorem model_eq_spec (w s : Nat) (stream : List (Nat × Nat)) (hs : 1 ≤ s) (ho : InOrder stream) :
    run (stdCfg w s) stream = reports w s stream := by
  have := runFrom_eq_spec (w := w) hs stream [] init (inv_init w s) (by simpa using ho)
  simpa [run, reports] using this

/-! ## non-vacuity: concrete streams satisfying the hypotheses, with non-trivial reports -/

/-- width 3, slide 2 (width not a multiple of the slide), a duplicate timestamp, a repeated item, a gap -/
example : InOrder [(7, 1), (8, 1), (9, 2), (7, 3), (5, 9)] := by simp [InOrder]
example : run (stdCfg 3 2) [(7, 1), (8, 1), (9, 2), (7, 3), (5, 9)] =
    [⟨2, 2, 2, [7, 8]⟩, ⟨4, 9, 6, [7]⟩] := by decide
example : gapsAtMost 2 [(7, 1), (8, 1), (9, 2), (7, 3), (5, 5)] = true := by decide
example : (2 : Nat) ∣ 4 ∧ (∃ a, [(7, 1), (8, 1), (9, 2), (7, 3), (5, 5)].head? = some a ∧ a.2 < 4) ∧
    (∃ T, lastTs [(7, 1), (8, 1), (9, 2), (7, 3), (5, 5)] = some T ∧ 4 ≤ T) ∧
    (∃ it ∈ [(7, 1), (8, 1), (9, 2), (7, 3), (5, 5)], 4 - 3 ≤ it.2 ∧ it.2 < 4) := by
  refine ⟨⟨2, rfl⟩, ⟨(7, 1), rfl, by decide⟩, ⟨5, by decide, by decide⟩, ⟨(9, 2), by simp, by decide, by decide⟩⟩
example : run (stdCfg 3 2) [(7, 1), (8, 1), (9, 2), (7, 3), (5, 5)] =
    [⟨2, 2, 2, [7, 8]⟩, ⟨4, 5, 4, [7, 8, 9]⟩] := by decide

end Kolibrie.Props.C09
