import Kolibrie.Lemmas.Load
import Kolibrie.Props.C14
/-
C13 — loading a document adds exactly its triples, whatever its size or prior content.
The model (Model/Load.lean) transcribes the loaders as written; `parse_n3` keeps its defect (private per-chunk
dictionaries merged with `or_insert`), so its theorem carries the forced hypotheses and the clash is a theorem too.
-/
namespace Kolibrie.Props.C13
open Kolibrie.Lines Kolibrie.Load Kolibrie.Extracted

/-! ### chunking is invisible (every positive chunk size, every document) -/

theorem chunks_flatten {α} (n : Nat) (hn : 0 < n) (l : List α) : (chunks n l).flatten = l :=
  Kolibrie.Load.chunks_flatten n hn l

theorem loadNT_unchunked (n : Nat) (hn : 0 < n) (db : DB) (doc : Str) :
    loadNT n db doc = encodeSeq db (triplesNT doc) := by
  unfold loadNT triplesNT parseChunkNT
  rw [flatMap_filterMap_flatten, Kolibrie.Load.chunks_flatten n hn, List.map_filterMap]
  rfl

/-- the result of `parse_ntriples_and_add` does not depend on how the lines are split into parallel chunks -/
theorem loadNT_chunk_free (n m : Nat) (hn : 0 < n) (hm : 0 < m) (db : DB) (doc : Str) :
    loadNT n db doc = loadNT m db doc := by
  rw [loadNT_unchunked n hn, loadNT_unchunked m hm]

/-- the instance for the chunk size found in the source -/
theorem loadNT_chunk_size_ok : 0 < chunkSizeNT := by decide

/-! ### prior quads ++ the document's triples, for every prior database (non-empty dictionaries included) -/

/-- N-Triples: lexical content after loading = before ++ the triples as written, for every document and every
    well-formed prior database (consistent dictionary, no dangling ids) -/
theorem loadNT_spec (n : Nat) (hn : 0 < n) (db : DB) (h : WellDB db) (doc : Str) :
    lex (loadNT n db doc) = lex db ++ (triplesNT doc).map some ∧ WellDB (loadNT n db doc) := by
  rw [loadNT_unchunked n hn]
  exact ⟨(encodeSeq_spec _ db h).2, (encodeSeq_spec _ db h).1⟩

theorem loadNQ_spec (db : DB) (h : WellDB db) (doc : Str) :
    lex (loadNQ db doc) = lex db ++ (parseNQ doc).map some ∧ WellDB (loadNQ db doc) :=
  ⟨(encodeSeq_spec _ db h).2, (encodeSeq_spec _ db h).1⟩

theorem loadTTL_spec (db : DB) (h : WellDB db) (doc : Str) (db' : DB) (hl : loadTTL db doc = some db') :
    ∃ r, parseTTL db.prefixes doc = some r ∧ lex db' = lex db ++ r.2.map some := by
  unfold loadTTL at hl
  cases hp : parseTTL db.prefixes doc with
  | none => simp [hp] at hl
  | some r =>
    simp only [hp, Option.map_some, Option.some.injEq] at hl
    subst hl
    exact ⟨r, rfl, (encodeSeq_spec _ db h).2⟩

/-- non-vacuity: a database with a populated dictionary (ids 0..2 taken) is `WellDB` -/
example : WellDB (encodeSeq DB.empty [⟨.plain "x".toList, .plain "y".toList, .plain "z".toList, none⟩]) :=
  (encodeSeq_spec _ _ WellDB.empty).1

/-! ### N3 as written -/

def dbXYZ : DB := encodeSeq DB.empty [⟨.plain "x".toList, .plain "y".toList, .plain "z".toList, none⟩]

/-- loading `<a> <b> <c> .` into a database that holds `x y z`: the new triple is inserted under the private ids 0 1 2,
    which the target dictionary already maps to x y z — the triple is lost (aliased to the existing one) -/
theorem loadN3_clash : ∃ (db : DB) (doc : Str), WellDB db ∧
    lex (loadN3 chunkSizeN3 db doc) ≠ lex db ++ (triplesN3 doc).map some :=
  ⟨dbXYZ, "<a> <b> <c> .".toList, (encodeSeq_spec _ _ WellDB.empty).1, by decide⟩

/-- ids also clash between chunks of one document (shown for chunk size 1; the source's size is `chunkSizeN3`, the
    1001-line witness is replayed on the code by the correspondence run) -/
theorem loadN3_chunk_clash : ∃ (n : Nat) (doc : Str), 0 < n ∧
    lex (loadN3 n DB.empty doc) ≠ (triplesN3 doc).map some :=
  ⟨1, "<a> <b> <c> .\n<d> <e> <f> .".toList, by decide, by decide⟩

theorem n3Chunk_lex (ls : List Str) :
    lex (n3Chunk ls) = ((ls.foldl n3Line ⟨[], [], []⟩).triples.map fun t => some (⟨.plain t.1, .plain t.2.1, .plain t.2.2, none⟩ : LQuad)) := by
  unfold n3Chunk
  simp only [lex]
  have e : ∀ (ts : List (Str × Str × Str)),
      ts.foldl (fun db t => addL db ⟨.plain t.1, .plain t.2.1, .plain t.2.2, none⟩) DB.empty =
      encodeSeq DB.empty (ts.map fun t => ⟨.plain t.1, .plain t.2.1, .plain t.2.2, none⟩) := by
    intro ts; simp [encodeSeq, List.foldl_map]
  rw [e]
  have := (encodeSeq_spec ((ls.foldl n3Line ⟨[], [], []⟩).triples.map fun t => (⟨.plain t.1, .plain t.2.1, .plain t.2.2, none⟩ : LQuad))
    DB.empty WellDB.empty).2
  simpa [lex, DB.empty, Function.comp_def] using this

/-- N3 is correct under the two forced hypotheses: empty target database, document within one chunk -/
theorem loadN3_spec_partial (n : Nat) (doc : Str) (hlen : (lines doc).length ≤ n) :
    lex (loadN3 n DB.empty doc) = (triplesN3 doc).map some := by
  unfold loadN3 triplesN3
  generalize hL : (lines doc).map trim = L
  have hLlen : L.length ≤ n := by rw [← hL]; simpa using hlen
  cases L with
  | nil => simp [chunks, chunksF, lex, DB.empty, n3Line]
  | cons a L =>
    have hc : chunks n (a :: L) = [a :: L] :=
      chunksF_single n _ (a :: L) (by simp) hLlen (by simp)
    simp only [hc, List.map_cons, List.map_nil, List.foldl_cons, List.foldl_nil]
    have h1 : lex (n3Absorb DB.empty (n3Chunk (a :: L))) = lex (n3Chunk (a :: L)) := by
      simp only [lex, n3Absorb, DB.empty, List.nil_append]
      apply List.map_congr_left
      intro q _
      exact lexQuad_congr (fun i => merge_empty_decode _ i) q
    rw [h1, n3Chunk_lex]
    simp

/- FULL:
theorem loadN3_spec (n : Nat) (hn : 0 < n) (db : DB) (h : WellDB db) (doc : Str) :
    lex (loadN3 n db doc) = lex db ++ (triplesN3 doc).map some
False for the code as written (`loadN3_clash`, `loadN3_chunk_clash`); it becomes the N-Triples argument once `parse_n3`
re-encodes each chunk's triples by lexical value (see the report). Also out of reach as written: prefixes are chunk-local. -/

example : (lines "<a> <b> <c> .\n<a> <b> \"x\" .".toList).length ≤ chunkSizeN3 := by decide

/-! ### the same triples written as N-Triples and as N-Quads load identically -/

open Kolibrie.Props.C14 in
theorem cross_format_partial (D : List PQuad) (h : ∀ q ∈ D, WellFormed q = true) (hd : ∀ q ∈ D, q.g = none)
    (db : DB) (n : Nat) (hn : 0 < n) :
    loadNT n db (genNT (D.map PQuad.toL)) = loadNQ db (genNQ (D.map PQuad.toL)) := by
  rw [loadNT_unchunked n hn]
  unfold loadNQ triplesNT
  have e1 := nt_round_trip_partial D h
  unfold parseNT at e1
  rw [e1, nq_round_trip_partial D h]
  congr 1
  have : defaultOnly D = D := by
    unfold defaultOnly
    apply List.filter_eq_self.mpr
    intro q hq; simp [hd q hq]
  rw [this]
  apply List.map_congr_left
  intro q hq
  simp [PQuad.toL, hd q hq]

/- FULL: … and as Turtle and N3.  Turtle: no reader theorem (see Props/C14); N3 keeps the quotes of literals in the stored
term (`resolve_term`), so `"x"` loaded from N3 differs from `x` loaded from N-Triples — witness below. -/

theorem cross_format_n3_clash : ∃ doc : Str, lex (loadN3 chunkSizeN3 DB.empty doc) ≠ lex (loadNT chunkSizeNT DB.empty doc) :=
  ⟨"<a:a> <b:b> \"x\" .".toList, by decide⟩

end Kolibrie.Props.C13
