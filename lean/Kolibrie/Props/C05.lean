import Kolibrie.Lemmas.Datalog
/-!
# C05 — rule materialisation computes exactly the least model of the program

Property theorems only (helper lemmas: `Kolibrie/Lemmas/Datalog.lean`).  Model: `Kolibrie/Model/Datalog.lean`
(fixpoint driver `drive`, naive and semi-naive rounds, the parallel strategy as written, the Boolean-provenance
stratified driver).  Specification: `Kolibrie/Spec/LeastModel.lean` (`Derivable` = textbook least model over total
valuations, `Strat` = stratified model for one stratum of negation, `specModel` = executable expected output).

Every statement quantifies over every program `P`, every fact list `F`, every numeric reading `val` of the
dictionary and every amount of fuel; "the run reports a fixpoint" is `… = some S`.  `allSafe P` is rule safety
(at least one premise; head, filter and negated variables occur in a premise) — the scope of the property.
-/
namespace Kolibrie.Props.C05
open Kolibrie.Datalog

/-! ## soundness -/

/-- **Soundness of one naive round**: every fact a round infers is derivable, if the facts it started from are. -/
theorem round_sound (val : Nat → Int) (P : List Rule) (F all : List Fact) (hs : allSafe P = true)
    (h : ∀ f ∈ all, Derivable val P F f) : ∀ f ∈ roundNaive val P all, Derivable val P F f := by
  intro f hf
  exact derivable_of_conseq (conseq_mono (fun g hg => h g hg) (roundNaive_sound hs hf).2)

/-- **Soundness of one semi-naive round**, for every position of the delta window. -/
theorem round_sound_semi (val : Nat → Int) (P : List Rule) (F all : List Fact) (start : Nat)
    (hs : allSafe P = true) (h : ∀ f ∈ all, Derivable val P F f) :
    ∀ f ∈ (roundSemi val P start all).2, Derivable val P F f := by
  intro f hf
  exact derivable_of_conseq (conseq_mono (fun g hg => h g hg) (roundSemi_sound hs hf).2)

/-- **Every iterate is sound**: after any number of rounds of either strategy the store only holds derivable facts. -/
theorem iter_sound (val : Nat → Int) (P : List Rule) (F : List Fact) (k : Nat) (hs : allSafe P = true) :
    (∀ f ∈ iterNaive val P k F, Derivable val P F f) ∧ (∀ f ∈ iterSemi val P k F, Derivable val P F f) :=
  ⟨iter_naive_sound hs k F (fun _ hf => Derivable.base hf), iter_semi_sound hs k 0 F (fun _ hf => Derivable.base hf)⟩

/-! ## completeness -/

/-- **Fixpoint completeness**: a fact set that contains the input and is closed under the immediate-consequence
    operator contains every derivable fact. -/
theorem fixpoint_complete (val : Nat → Int) (P : List Rule) (F S : List Fact)
    (hF : ∀ f ∈ F, f ∈ S) (hc : Closed val P S) : ∀ f, Derivable val P F f → f ∈ S :=
  derivable_sub_closed hF hc

/-- **A naive round that infers nothing certifies closure** (what the driver's exit test observes). -/
theorem naive_exit_closed (val : Nat → Int) (P : List Rule) (S : List Fact) (hs : allSafe P = true)
    (h : roundNaive val P S = []) : Closed val P S :=
  closed_of_roundNaive_nil hs h

/-- **The delta lemma**: under the loop invariant (consequences of the facts before the delta window are
    present), a semi-naive round finds every new consequence of *all* facts. -/
theorem delta_lemma (val : Nat → Int) (P : List Rule) (F all : List Fact) (start : Nat) (hs : allSafe P = true)
    (hI : SemiInv val P F start all) (f : Fact) :
    f ∈ (roundSemi val P start all).2 ↔ f ∉ all ∧ Conseq val P (· ∈ all) f :=
  mem_roundSemi_iff hs hI

/-- **Semi-naive = naive**: after every number of rounds both strategies hold the same fact set. -/
theorem semi_eq_naive (val : Nat → Int) (P : List Rule) (F : List Fact) (hs : allSafe P = true) (k : Nat) :
    ∀ f, f ∈ iterSemi val P k F ↔ f ∈ iterNaive val P k F :=
  iter_semi_naive hs k 0 F F (semiInv_init hs) (fun _ => Iff.rfl)

/-- a run that reports a fixpoint is one of the iterates (ties `semi_eq_naive` to the real loop) -/
theorem run_is_iterate (val : Nat → Int) (P : List Rule) (F S : List Fact) (fuel : Nat) :
    (inferNaive val P fuel F = some S → ∃ k, iterNaive val P k F = S) ∧
    (inferSemi val P fuel F = some S → ∃ k, iterSemi val P k F = S) := by
  constructor
  · intro h; obtain ⟨k, _, hk, _⟩ := drive_iter h; exact ⟨k, hk⟩
  · intro h; obtain ⟨k, _, hk, _⟩ := drive_iter h; exact ⟨k, hk⟩

/-! ## exactness at a reported fixpoint -/

/-- **Naive strategy**: if `infer_new_facts_naive` reports a fixpoint, the store holds exactly the least model. -/
theorem lfp_exact_naive (val : Nat → Int) (P : List Rule) (F S : List Fact) (fuel : Nat)
    (hs : allSafe P = true) (h : inferNaive val P fuel F = some S) : ∀ f, f ∈ S ↔ Derivable val P F f := by
  obtain ⟨h1, h2, h3⟩ := inferNaive_exit hs h
  exact fun f => ⟨h2 f, derivable_sub_closed h1 (closed_of_roundNaive_nil hs h3) f⟩

/-- **Semi-naive strategy**: if `infer_new_facts_semi_naive` reports a fixpoint, the store holds exactly the
    least model. -/
theorem lfp_exact_semi (val : Nat → Int) (P : List Rule) (F S : List Fact) (fuel : Nat)
    (hs : allSafe P = true) (h : inferSemi val P fuel F = some S) : ∀ f, f ∈ S ↔ Derivable val P F f := by
  obtain ⟨h1, h2, h3⟩ := inferSemi_exit hs h
  exact fun f => ⟨h2 f, derivable_sub_closed h1 h3 f⟩

/-- **Provenance strategy with negation**: if NOT-rule heads feed no premise, the run yields exactly the
    stratified model. -/
theorem prov_stratified (val : Nat → Int) (P : List Rule) (F S : List Fact) (fuel : Nat)
    (hs : allSafe P = true) (hiso : negHeadsFeedNoPremise P = true) (h : provModel val P fuel F = some S) :
    ∀ f, f ∈ S ↔ Strat val P F f :=
  provModel_strat hs hiso h

/-- **Provenance strategy, negation-free programs**: exactly the least model. -/
theorem lfp_exact_prov (val : Nat → Int) (P : List Rule) (F S : List Fact) (fuel : Nat)
    (hs : allSafe P = true) (hpos : ∀ r ∈ P, r.negative = []) (h : provModel val P fuel F = some S) :
    ∀ f, f ∈ S ↔ Derivable val P F f := by
  have hiso : negHeadsFeedNoPremise P = true := by
    have : negRules P = [] := by
      simp only [negRules]
      apply List.filter_eq_nil_iff.2
      intro r hr; simp [hpos r hr]
    simp [negHeadsFeedNoPremise, this]
  intro f
  rw [provModel_strat hs hiso h f, strat_iff_derivable hpos]

/-- **The executable specification is the stratified model** (what the driver prints as `S`), and on
    negation-free programs the textbook least model. -/
theorem spec_exact (val : Nat → Int) (P : List Rule) (F S : List Fact) (fuel : Nat)
    (hs : allSafe P = true) (h : specModel val P fuel F = some S) :
    (∀ f, f ∈ S ↔ Strat val P F f) ∧ ((∀ r ∈ P, r.negative = []) → ∀ f, f ∈ S ↔ Derivable val P F f) := by
  refine ⟨specModel_exact hs h, fun hpos f => ?_⟩
  rw [specModel_exact hs h f, strat_iff_derivable hpos]

/-! ## independence of strategy and order; second runs -/

/-- **The three complete strategies agree** on negation-free programs whenever they report fixpoints. -/
theorem strategies_agree (val : Nat → Int) (P : List Rule) (F S₁ S₂ S₃ : List Fact) (n₁ n₂ n₃ : Nat)
    (hs : allSafe P = true) (hpos : ∀ r ∈ P, r.negative = [])
    (h₁ : inferNaive val P n₁ F = some S₁) (h₂ : inferSemi val P n₂ F = some S₂)
    (h₃ : provModel val P n₃ F = some S₃) : ∀ f, (f ∈ S₁ ↔ f ∈ S₂) ∧ (f ∈ S₂ ↔ f ∈ S₃) := by
  intro f
  rw [lfp_exact_naive val P F S₁ n₁ hs h₁ f, lfp_exact_semi val P F S₂ n₂ hs h₂ f,
    lfp_exact_prov val P F S₃ n₃ hs hpos h₃ f]
  exact ⟨Iff.rfl, Iff.rfl⟩

/-- **Order independence**: programs and fact lists with the same members (in particular any permutation of the
    rules and of the facts, with or without duplicates) give the same fact set, under either strategy. -/
theorem order_independent (val : Nat → Int) (P P' : List Rule) (F F' S S' : List Fact) (n n' : Nat)
    (hs : allSafe P = true) (hP : ∀ r, r ∈ P ↔ r ∈ P') (hF : ∀ f, f ∈ F ↔ f ∈ F')
    (h : inferNaive val P n F = some S ∨ inferSemi val P n F = some S)
    (h' : inferNaive val P' n' F' = some S' ∨ inferSemi val P' n' F' = some S') : ∀ f, f ∈ S ↔ f ∈ S' := by
  have hs' : allSafe P' = true := by
    simp only [allSafe, List.all_eq_true] at hs ⊢
    intro r hr; exact hs r ((hP r).2 hr)
  have e : ∀ f, f ∈ S ↔ Derivable val P F f := by
    rcases h with h | h
    · exact lfp_exact_naive val P F S n hs h
    · exact lfp_exact_semi val P F S n hs h
  have e' : ∀ f, f ∈ S' ↔ Derivable val P' F' f := by
    rcases h' with h' | h'
    · exact lfp_exact_naive val P' F' S' n' hs' h'
    · exact lfp_exact_semi val P' F' S' n' hs' h'
  intro f
  rw [e f, e' f]
  exact ⟨derivable_congr (fun g => (hF g).1) (fun r => (hP r).1), derivable_congr (fun g => (hF g).2) (fun r => (hP r).2)⟩

/-- **Any iteration order of the round's `HashSet`**: in every run of the driver loop in which the facts of a
    round are appended in an arbitrary order (relation `Run`; the executable `drive` is one such run), a reported
    fixpoint is exactly the least model, for the naive and the semi-naive round.  This is what justifies
    modelling `HashSet<Triple>` as a list. -/
theorem lfp_exact_any_order (val : Nat → Int) (P : List Rule) (F S : List Fact) (hs : allSafe P = true) :
    (Run (naiveRound val P) () F S → ∀ f, f ∈ S ↔ Derivable val P F f) ∧
    (Run (roundSemi val P) 0 F S → ∀ f, f ∈ S ↔ Derivable val P F f) ∧
    (∀ fuel, inferSemi val P fuel F = some S → Run (roundSemi val P) 0 F S) :=
  ⟨run_naive_exact hs, run_semi_exact hs, fun _ h => run_of_drive h⟩

/-- **A second run derives nothing**: started again on the result of a run that reported a fixpoint, either
    strategy (and the other one) reports a fixpoint at once with the store unchanged. -/
theorem second_run_empty (val : Nat → Int) (P : List Rule) (F S : List Fact) (n m : Nat) (hs : allSafe P = true)
    (h : inferNaive val P n F = some S ∨ inferSemi val P n F = some S) :
    inferNaive val P (m + 1) S = some S ∧ inferSemi val P (m + 1) S = some S := by
  have hc : Closed val P S := by
    rcases h with h | h
    · exact closed_of_roundNaive_nil hs (inferNaive_exit hs h).2.2
    · exact (inferSemi_exit hs h).2.2
  constructor
  · exact drive_of_round_nil (round := fun (_ : Unit) all => ((), roundNaive val P all))
      (roundNaive_nil_of_closed hs hc) m
  · exact drive_of_round_nil (round := roundSemi val P) (roundSemi_nil_of_closed hs hc 0) m

/-- **A second provenance run derives nothing**, with negation, when NOT-rule heads feed no premise. -/
theorem second_run_empty_prov (val : Nat → Int) (P : List Rule) (F S : List Fact) (n m : Nat) (hs : allSafe P = true)
    (hiso : negHeadsFeedNoPremise P = true) (h : provModel val P n F = some S) :
    provModel val P (m + 1) S = some S :=
  provModel_second_run hs hiso h

/-- **A second parallel run derives nothing** inside the fragment the strategy implements. -/
theorem second_run_empty_par (val : Nat → Int) (P : List Rule) (F S : List Fact) (n m : Nat) (hs : allSafe P = true)
    (hok : allParOk P = true) (h : inferPar P n F = some S) : inferPar P (m + 1) S = some S := by
  have hex := inferPar_exact (val := val) hs hok h
  have hc : Closed val P S := fun f hf =>
    (hex f).2 (derivable_of_conseq (conseq_mono (fun g hg => (hex g).1 hg) hf))
  have hnil : parRound P S S = [] := by
    apply List.eq_nil_iff_forall_not_mem.2
    intro f hf
    obtain ⟨h1, h2⟩ := parRound_sound (val := val) hs hok (fun t ht => ht) hf
    exact h1 (hc f h2)
  simp [inferPar, parDrive, hnil]

/-! ## non-vacuity -/

/-- transitive closure over predicate 1: `x 1 y, y 1 z ⇒ x 1 z` -/
def tcRule : Rule := ⟨[⟨.var 0, .const 1, .var 1⟩, ⟨.var 1, .const 1, .var 2⟩], [], [], [⟨.var 0, .const 1, .var 2⟩]⟩
def chain : List Fact := [⟨0, 1, 2⟩, ⟨2, 1, 3⟩, ⟨3, 1, 4⟩]

/-- the hypotheses of the exactness theorems are satisfiable by a recursive program that derives facts -/
example : allSafe [tcRule] = true ∧ (inferNaive (fun _ => 0) [tcRule] 10 chain).isSome = true
    ∧ (inferSemi (fun _ => 0) [tcRule] 10 chain).isSome = true
    ∧ (provModel (fun _ => 0) [tcRule] 10 chain).isSome = true
    ∧ ((inferSemi (fun _ => 0) [tcRule] 10 chain).map List.length) = some 6 := by decide

/-- the loop invariant of the delta lemma holds initially -/
example : SemiInv (fun _ => 0) [tcRule] chain 0 chain := semiInv_init (by decide)

/-- a stratified program with a NOT-rule whose head feeds nothing: `x 1 y, NOT x 3 y ⇒ x 4 y` -/
def notRule : Rule := ⟨[⟨.var 0, .const 1, .var 1⟩], [⟨.var 0, .const 3, .var 1⟩], [], [⟨.var 0, .const 4, .var 1⟩]⟩
example : allSafe [notRule, tcRule] = true ∧ negHeadsFeedNoPremise [notRule, tcRule] = true
    ∧ provModel (fun _ => 0) [notRule, tcRule] 10 [⟨0, 1, 2⟩, ⟨2, 1, 0⟩, ⟨0, 3, 2⟩]
        = some [⟨0, 1, 2⟩, ⟨2, 1, 0⟩, ⟨0, 3, 2⟩, ⟨0, 1, 0⟩, ⟨2, 1, 2⟩, ⟨2, 4, 0⟩, ⟨0, 4, 0⟩, ⟨2, 4, 2⟩] := by decide

/-! ## the parallel strategy inside the fragment it implements -/

/-- **Parallel strategy, exactness on its fragment**: if every rule has one or two premises, constant
    predicates, no filters and no negation (`allParOk`, the complement of the recorded triggers), a reported
    fixpoint of `infer_new_facts_semi_naive_parallel` is exactly the least model. -/
theorem parallel_exact (val : Nat → Int) (P : List Rule) (F S : List Fact) (fuel : Nat) (hs : allSafe P = true)
    (hok : allParOk P = true) (h : inferPar P fuel F = some S) : ∀ f, f ∈ S ↔ Derivable val P F f :=
  inferPar_exact hs hok h

/-- non-vacuity: transitive closure lies in the fragment and the parallel run derives facts -/
example : allSafe [tcRule] = true ∧ allParOk [tcRule] = true ∧ ((inferPar [tcRule] 10 chain).map List.length) = some 6 := by
  decide

/-! ## termination -/

/-- **Termination**: for a safe program whose facts and rule-head constants are ids below `k`, every strategy
    reports a fixpoint within `k³ + 1` rounds (the store is a duplicate-free set of derivable triples over `k` ids
    and every non-final round adds at least one).  The driver runs with fuel `k³ + 3`. -/
theorem terminates (val : Nat → Int) (P : List Rule) (F : List Fact) (k fuel : Nat) (hs : allSafe P = true)
    (hF : ∀ f ∈ F, InU k f) (hC : ConclBound k P) (hn : F.Nodup) (hfuel : k ^ 3 < fuel) :
    (∃ S, inferNaive val P fuel F = some S) ∧ (∃ S, inferSemi val P fuel F = some S) ∧
    (∃ S, provModel val P fuel F = some S) :=
  ⟨inferNaive_terminates hs hF hC hn fuel hfuel, inferSemi_terminates hs hF hC hn fuel hfuel,
   provModel_terminates hs hF hC hn fuel hfuel⟩

/-- more fuel never changes a reported result -/
theorem fuel_irrelevant (val : Nat → Int) (P : List Rule) (F S : List Fact) (n m : Nat) :
    (inferNaive val P n F = some S → inferNaive val P (n + m) F = some S) ∧
    (inferSemi val P n F = some S → inferSemi val P (n + m) F = some S) :=
  ⟨fun h => drive_mono h m, fun h => drive_mono h m⟩

/-- **The property, total form** (negation-free safe programs): the naive, semi-naive and provenance strategies
    terminate and leave exactly the least model in the store. -/
theorem lfp_total (val : Nat → Int) (P : List Rule) (F : List Fact) (k fuel : Nat) (hs : allSafe P = true)
    (hpos : ∀ r ∈ P, r.negative = []) (hF : ∀ f ∈ F, InU k f) (hC : ConclBound k P) (hn : F.Nodup)
    (hfuel : k ^ 3 < fuel) :
    ∃ S₁ S₂ S₃, inferNaive val P fuel F = some S₁ ∧ inferSemi val P fuel F = some S₂ ∧
      provModel val P fuel F = some S₃ ∧
      ∀ f, (f ∈ S₁ ↔ Derivable val P F f) ∧ (f ∈ S₂ ↔ Derivable val P F f) ∧ (f ∈ S₃ ↔ Derivable val P F f) := by
  obtain ⟨⟨S₁, h₁⟩, ⟨S₂, h₂⟩, ⟨S₃, h₃⟩⟩ := terminates val P F k fuel hs hF hC hn hfuel
  exact ⟨S₁, S₂, S₃, h₁, h₂, h₃, fun f => ⟨lfp_exact_naive val P F S₁ fuel hs h₁ f,
    lfp_exact_semi val P F S₂ fuel hs h₂ f, lfp_exact_prov val P F S₃ fuel hs hpos h₃ f⟩⟩

/-- non-vacuity of the termination hypotheses -/
example : allSafe [tcRule] = true ∧ (∀ f ∈ chain, InU 5 f) ∧ ConclBound 5 [tcRule] ∧ chain.Nodup := by
  refine ⟨by decide, by intro f hf; simp [chain] at hf; rcases hf with rfl | rfl | rfl <;> simp [InU], ?_, by decide⟩
  intro r hr c hc
  simp only [List.mem_singleton] at hr; subst hr
  simp only [tcRule, List.mem_singleton] at hc; subst hc
  simp [termBound]

/-! ## recorded defects of the unchanged code (the model is faithful to them) -/

/-- the arms of `match rule.premise.len()` in `infer_new_facts_semi_naive_parallel`, re-extracted on every run -/
theorem parallel_arities : Kolibrie.Extracted.parallelArities = [1, 2] := by decide

def chain3Rule : Rule :=
  ⟨[⟨.var 0, .const 1, .var 1⟩, ⟨.var 1, .const 1, .var 2⟩, ⟨.var 2, .const 1, .var 3⟩], [], [], [⟨.var 0, .const 4, .var 3⟩]⟩
def swapAnyRule : Rule := ⟨[⟨.var 0, .var 9, .var 1⟩], [], [], [⟨.var 1, .var 9, .var 0⟩]⟩
def filterRule : Rule := ⟨[⟨.var 0, .const 1, .var 1⟩], [], [⟨1, .gt, .num 3⟩], [⟨.var 0, .const 4, .var 1⟩]⟩

/-- **The parallel strategy is incomplete** (`parallel_rule_has_3plus_premises`, `parallel_variable_predicate`):
    it reports a fixpoint that misses derivable facts, for a safe three-premise rule and for a safe rule with a
    variable predicate. -/
theorem parallel_incomplete :
    (∃ P F S f, allSafe P = true ∧ inferPar P 10 F = some S ∧ Derivable (fun _ => 0) P F f ∧ f ∉ S ∧
      ∃ r ∈ P, r.premise.length = 3) ∧
    (∃ P F S f, allSafe P = true ∧ inferPar P 10 F = some S ∧ Derivable (fun _ => 0) P F f ∧ f ∉ S ∧
      ∃ r ∈ P, ∃ p ∈ r.premise, p.p = Term.var 9) := by
  constructor
  · refine ⟨[chain3Rule], [⟨0, 1, 2⟩, ⟨2, 1, 3⟩, ⟨3, 1, 0⟩], [⟨0, 1, 2⟩, ⟨2, 1, 3⟩, ⟨3, 1, 0⟩], ⟨0, 4, 0⟩,
      by decide, by decide, ?_, by decide, chain3Rule, by simp, rfl⟩
    have h := lfp_exact_naive (fun _ => 0) [chain3Rule] [⟨0, 1, 2⟩, ⟨2, 1, 3⟩, ⟨3, 1, 0⟩]
      [⟨0, 1, 2⟩, ⟨2, 1, 3⟩, ⟨3, 1, 0⟩, ⟨2, 4, 2⟩, ⟨3, 4, 3⟩, ⟨0, 4, 0⟩] 10 (by decide) (by decide)
    exact (h _).1 (by decide)
  · refine ⟨[swapAnyRule], [⟨0, 1, 2⟩, ⟨2, 3, 3⟩], [⟨0, 1, 2⟩, ⟨2, 3, 3⟩], ⟨2, 1, 0⟩,
      by decide, by decide, ?_, by decide, swapAnyRule, by simp, _, List.mem_singleton.2 rfl, rfl⟩
    exact Derivable.step (r := swapAnyRule) (c := ⟨.var 1, .var 9, .var 0⟩)
      (fun v => if v = 0 then 0 else if v = 9 then 1 else 2) (by simp)
      (by intro p hp; simp [swapAnyRule] at hp; subst hp; exact Derivable.base (by decide)) rfl (by simp [swapAnyRule])

/-- **The parallel strategy ignores filters** (`parallel_filters`): it derives a fact that is not derivable. -/
theorem parallel_ignores_filters :
    ∃ val P F S f, allSafe P = true ∧ inferPar P 10 F = some S ∧ f ∈ S ∧ ¬ Derivable val P F f := by
  refine ⟨fun i => if i = 2 then 1 else if i = 3 then 5 else 0, [filterRule], [⟨0, 1, 2⟩, ⟨0, 1, 3⟩],
    [⟨0, 1, 2⟩, ⟨0, 1, 3⟩, ⟨0, 4, 2⟩, ⟨0, 4, 3⟩], ⟨0, 4, 2⟩, by decide, by decide, by decide, ?_⟩
  intro hd
  have h := lfp_exact_naive (fun i => if i = 2 then 1 else if i = 3 then 5 else 0) [filterRule]
    [⟨0, 1, 2⟩, ⟨0, 1, 3⟩] [⟨0, 1, 2⟩, ⟨0, 1, 3⟩, ⟨0, 4, 3⟩] 10 (by decide) (by decide)
  exact absurd ((h _).2 hd) (by decide)

/-- **Naive, semi-naive and parallel ignore `negative_premise`** (`negation_non_provenance_strategy`): on a
    stratified program they add a fact outside the stratified model, which the provenance strategy does not. -/
theorem negation_ignored_clash :
    ∃ P F f, allSafe P = true ∧ negHeadsFeedNoPremise P = true ∧ ¬ Strat (fun _ => 0) P F f ∧
      (∃ S, inferNaive (fun _ => 0) P 10 F = some S ∧ f ∈ S) ∧
      (∃ S, inferSemi (fun _ => 0) P 10 F = some S ∧ f ∈ S) ∧
      (∃ S, inferPar P 10 F = some S ∧ f ∈ S) ∧
      (∃ S, provModel (fun _ => 0) P 10 F = some S ∧ f ∉ S) := by
  refine ⟨[notRule], [⟨0, 1, 2⟩, ⟨2, 1, 0⟩, ⟨0, 3, 2⟩], ⟨0, 4, 2⟩, by decide, by decide, ?_,
    ⟨[⟨0, 1, 2⟩, ⟨2, 1, 0⟩, ⟨0, 3, 2⟩, ⟨0, 4, 2⟩, ⟨2, 4, 0⟩], by decide, by decide⟩,
    ⟨[⟨0, 1, 2⟩, ⟨2, 1, 0⟩, ⟨0, 3, 2⟩, ⟨0, 4, 2⟩, ⟨2, 4, 0⟩], by decide, by decide⟩,
    ⟨[⟨0, 1, 2⟩, ⟨2, 1, 0⟩, ⟨0, 3, 2⟩, ⟨0, 4, 2⟩, ⟨2, 4, 0⟩], by decide, by decide⟩,
    ⟨[⟨0, 1, 2⟩, ⟨2, 1, 0⟩, ⟨0, 3, 2⟩, ⟨2, 4, 0⟩], by decide, by decide⟩⟩
  intro hd
  have h := prov_stratified (fun _ => 0) [notRule] [⟨0, 1, 2⟩, ⟨2, 1, 0⟩, ⟨0, 3, 2⟩]
    [⟨0, 1, 2⟩, ⟨2, 1, 0⟩, ⟨0, 3, 2⟩, ⟨2, 4, 0⟩] 10 (by decide) (by decide) (by decide)
  exact absurd ((h _).2 hd) (by decide)

/-- **The provenance strategy runs NOT-rules in a single pass** (`negation_head_feeds_rule`): when a NOT-rule's
    head feeds another rule, the run misses a fact of the stratified model and a second run derives it. -/
theorem negation_single_pass_clash :
    ∃ P F S S' f, allSafe P = true ∧ negHeadsFeedNoPremise P = false ∧
      provModel (fun _ => 0) P 10 F = some S ∧ Strat (fun _ => 0) P F f ∧ f ∉ S ∧
      provModel (fun _ => 0) P 10 S = some S' ∧ f ∈ S' := by
  refine ⟨[notRule, ⟨[⟨.var 0, .const 4, .var 1⟩], [], [], [⟨.var 0, .const 5, .var 1⟩]⟩],
    [⟨0, 1, 2⟩, ⟨2, 1, 0⟩, ⟨0, 3, 2⟩], [⟨0, 1, 2⟩, ⟨2, 1, 0⟩, ⟨0, 3, 2⟩, ⟨2, 4, 0⟩],
    [⟨0, 1, 2⟩, ⟨2, 1, 0⟩, ⟨0, 3, 2⟩, ⟨2, 4, 0⟩, ⟨2, 5, 0⟩], ⟨2, 5, 0⟩, by decide, by decide, by decide, ?_, by decide, by decide, by decide⟩
  have h := spec_exact (fun _ => 0) [notRule, ⟨[⟨.var 0, .const 4, .var 1⟩], [], [], [⟨.var 0, .const 5, .var 1⟩]⟩]
    [⟨0, 1, 2⟩, ⟨2, 1, 0⟩, ⟨0, 3, 2⟩] [⟨0, 1, 2⟩, ⟨2, 1, 0⟩, ⟨0, 3, 2⟩, ⟨2, 4, 0⟩, ⟨2, 5, 0⟩] 10 (by decide) (by decide)
  exact (h.1 _).1 (by decide)

end Kolibrie.Props.C05
