import Kolibrie.Lemmas.Rsp
/-
C10 — each firing of a single-window continuous query sees exactly the current window, nothing older.

Model: `Kolibrie.Rsp.fire` (create_window_processor! + SimpleR2R::{add, remove, materialize} +
Relation2StreamOperator::eval), `run` over any history of fired window contents.
Spec: `specRun` — answers over `content ∪ derive content`, then the stream operator relative to the previous firing.
`mkCfg rules fuel pats op dropOnAdd`: Datalog rules (naive fixpoint, `fuel` rounds), BGP window plan, stream operator,
`dropOnAdd` = whether `SimpleR2R::add` forgets the added triple from `derived_triples` (repaired code: `true`;
the pinned tree: `false`, value extracted from the source on every run).
Statements are per firing and up to `List.Perm` (row order inside a firing is hash-map order in the code).
-/
namespace Kolibrie.Props.C10
open Kolibrie.Rsp

/-- The three stream operators, with the operator's own `last_result` memory, for every sequence of answer lists:
    RSTREAM all rows, ISTREAM the rows not among the previous answers (order and multiplicity kept),
    DSTREAM the previous answers (each once) that vanished.  Exact equality. -/
theorem r2s_spec (op : StreamOp) (rs : List (List Row)) : r2sRun op [] rs = specEmitRun op [] rs :=
  r2sRun_spec op rs [] [] (Or.inr rfl)

example : r2sRun .istream [] [[[(0, 1)], [(0, 2)]], [[(0, 2)], [(0, 3)], [(0, 3)]]] =
    [[[(0, 1)], [(0, 2)]], [[(0, 3)], [(0, 3)]]] := by decide
example : r2sRun .dstream [] [[[(0, 1)], [(0, 2)]], [[(0, 2)], [(0, 3)]]] = [[], [[(0, 1)]]] := by decide

/-- FULL STRENGTH (repaired code, any lawful reasoner/plan): for every history of fired window contents, every firing
    emits the specified rows. -/
theorem fire_spec_lawful (cfg : Cfg) (hl : Lawful cfg) (hd : cfg.dropOnAdd = true) (hist : List (List Triple)) :
    SeqPerm (run cfg hist) (specRun cfg hist) :=
  runFrom_spec hl hist St.init [] [] [] inv_init (Or.inr ⟨List.nodup_nil, fun _ => Iff.rfl⟩) (Or.inl hd)

/-- FULL STRENGTH (repaired code, concrete engine): all rule sets × all BGP window queries × {R,I,D}STREAM × all
    histories of window contents (hence all in-order streams × window parameters): `fire = spec` at every firing. -/
theorem fire_spec (rules : List Rule) (fuel : Nat) (pats : List Pat) (op : StreamOp) (hist : List (List Triple)) :
    SeqPerm (run (mkCfg rules fuel pats op true) hist) (specRun (mkCfg rules fuel pats op true) hist) :=
  fire_spec_lawful _ (mkCfg_lawful rules fuel pats op true) rfl hist

/-- "never triples or derived facts from evicted items or earlier firings" (repaired code): after any history ending
    with content `c`, the store that the window query runs against holds exactly `c` and what the rules derive from
    `c` — each triple once. -/
theorem store_exact (rules : List Rule) (fuel : Nat) (pats : List Pat) (op : StreamOp)
    (hist : List (List Triple)) (c : List Triple) :
    let cfg := mkCfg rules fuel pats op true
    let st := stateAfter cfg St.init (hist ++ [c])
    st.store.Nodup ∧ ∀ x, x ∈ st.store ↔ x ∈ c ∨ x ∈ cfg.derive (dedup c) := by
  intro cfg st
  have h := stateAfter_inv (mkCfg_lawful rules fuel pats op true) rfl hist St.init [] [] inv_init c
  exact ⟨h.nodup, h.mem⟩

/- FULL: ∀ rules fuel pats op hist,
     SeqPerm (run (mkCfg rules fuel pats op false) hist) (specRun (mkCfg rules fuel pats op false) hist)
   — false of the code on the pinned tree (`fire_clash`).  Missing: histories in which a firing's raw content contains a
   triple that the previous firing derived. `NoRawDerivedClash` is the forced, decidable hypothesis (reported by the
   driver as `raw_equals_prev_derived` when violated). -/
/-- PARTIAL (code on the pinned tree: `SimpleR2R::add` does not touch `derived_triples`). -/
theorem fire_spec_partial (rules : List Rule) (fuel : Nat) (pats : List Pat) (op : StreamOp)
    (hist : List (List Triple)) (h : NoRawDerivedClash (mkCfg rules fuel pats op false) hist = true) :
    SeqPerm (run (mkCfg rules fuel pats op false) hist) (specRun (mkCfg rules fuel pats op false) hist) :=
  runFrom_spec (mkCfg_lawful rules fuel pats op false) hist St.init [] [] [] inv_init
    (Or.inr ⟨List.nodup_nil, fun _ => Iff.rfl⟩) (Or.inr h)

/-- the witness vocabulary: rule `?x 10 ?y ⇒ ?x 11 3`, query `?x 11 3` -/
def wRules : List Rule := [⟨[⟨.var 0, .const 10, .var 1⟩], [⟨.var 0, .const 11, .const 3⟩]⟩]
def wQuery : List Pat := [⟨.var 0, .const 11, .const 3⟩]

/-- non-vacuity of `fire_spec_partial`: a history with derivations and overlap that satisfies the hypothesis -/
example : NoRawDerivedClash (mkCfg wRules 8 wQuery .istream false)
    [[⟨1, 10, 2⟩], [⟨1, 10, 2⟩, ⟨2, 11, 3⟩], [⟨2, 10, 2⟩]] = true := by decide

/-- The hypothesis is forced: window 1 holds `1 10 2` (derives `1 11 3`), window 2 holds raw `1 11 3` only; the code
    on the pinned tree emits nothing at the second firing, the specification demands `?x = 1`. -/
theorem fire_clash : ∃ (rules : List Rule) (fuel : Nat) (pats : List Pat) (hist : List (List Triple)),
    ¬ SeqPerm (run (mkCfg rules fuel pats .rstream false) hist) (specRun (mkCfg rules fuel pats .rstream false) hist) := by
  refine ⟨wRules, 8, wQuery, [[⟨1, 10, 2⟩], [⟨1, 11, 3⟩]], ?_⟩
  have hm : run (mkCfg wRules 8 wQuery .rstream false) [[⟨1, 10, 2⟩], [⟨1, 11, 3⟩]] = [[[(0, 1)]], []] := by decide
  have hs : specRun (mkCfg wRules 8 wQuery .rstream false) [[⟨1, 10, 2⟩], [⟨1, 11, 3⟩]] = [[[(0, 1)]], [[(0, 1)]]] := by decide
  rw [hm, hs]
  intro h
  have := h.2.1.length_eq
  simp at this

/-- the same witness on the repaired code agrees with the specification -/
example : run (mkCfg wRules 8 wQuery .rstream true) [[⟨1, 10, 2⟩], [⟨1, 11, 3⟩]] = [[[(0, 1)]], [[(0, 1)]]] := by decide

/-- Worker pipeline of `register_window!(MultiThread)` (producer → FIFO channel → worker holding the store mutex while
    it processes): under EVERY schedule of producer pushes and worker phases, once everything is consumed the consumer
    has seen exactly the single-threaded emission sequence.  (Model level; real OS interleavings are only exercised.) -/
theorem pipeline_deterministic (cfg : Cfg) (hist : List (List Triple)) (sched : List Step)
    (hfin : ((Pipe.init hist).runSched cfg sched).finished = true) :
    ((Pipe.init hist).runSched cfg sched).emitted = run cfg hist := by
  have h1 := Pipe.runSched_total cfg sched (Pipe.init hist)
  rw [Pipe.finished_total cfg _ hfin] at h1
  rw [h1]
  simp [Pipe.total, Pipe.init, Pipe.future, run]

/-- at every point of every schedule, what was emitted so far is a prefix of the single-threaded sequence -/
theorem pipeline_prefix (cfg : Cfg) (hist : List (List Triple)) (sched : List Step) :
    ∃ rest, ((Pipe.init hist).runSched cfg sched).emitted ++ rest = run cfg hist := by
  have h1 := Pipe.runSched_total cfg sched (Pipe.init hist)
  have h2 : (Pipe.init hist).total cfg = run cfg hist := by simp [Pipe.total, Pipe.init, Pipe.future, run]
  rw [h2] at h1
  exact ⟨_, by rw [← h1, Pipe.total_eq]⟩

/-- non-vacuity: two different complete schedules of a two-firing history (producer far ahead / strictly alternating) -/
example : ((Pipe.init [[⟨1, 10, 2⟩], [⟨1, 11, 3⟩]]).runSched (mkCfg wRules 8 wQuery .rstream true)
    [.push, .push, .recv, .work, .emit, .recv, .work, .emit]).finished = true := by decide
example : ((Pipe.init [[⟨1, 10, 2⟩], [⟨1, 11, 3⟩]]).runSched (mkCfg wRules 8 wQuery .rstream true)
    [.push, .recv, .work, .push, .emit, .emit, .recv, .push, .work, .emit]).finished = true := by decide

end Kolibrie.Props.C10
