import Kolibrie.Lemmas.SyntaxFuel
import Kolibrie.Lemmas.Lexer
import Kolibrie.Lemmas.ScanTok
import Kolibrie.Lemmas.Arith
/-!
# C16 — the query parser is total and faithful

Property theorems only.  Helper lemmas: `Kolibrie/Lemmas/Syntax.lean`, `Kolibrie/Lemmas/Scan.lean`.
Models: `Kolibrie/Model/Scan.lean` (byte-level transcription of the seven hand-written token scanners),
`Kolibrie/Model/Syntax.lean` (token-level transcription of `parse_group_graph_pattern`, `sparql_group_primary`,
`sparql_triples_statement`, `sparql_filter_*`, `sparql_subquery`, `sparql_select_core` with the nesting guard of
`fixes/C16_nesting_depth_limit.patch`; syntax tree; printer; lexer).

"Never crashes" is a runtime fact: it is *proved* for the scanners' index arithmetic only (no slice off a char
boundary or out of range, for every character classification and every well-formed byte string) and *observed*
elsewhere by the correspondence run (catch_unwind over mutated inputs, child process for deep nesting).
-/
namespace Kolibrie.Props.C16
open Kolibrie.Syntax

/-! ## acceptance consumes the whole input -/

/-- `parseTok` (the model of `parse_sparql_query` / the SELECT exit of `parse_combined_query`) accepts only when
    the select-core parser consumed every token: for all token lists. -/
theorem accept_total (toks : List Tok) (q : Sel) (h : parseTok toks = some q) :
    parseSel (64 * toks.length + 64) 0 toks = some (q, []) := by
  unfold parseTok parseTokFuel at h
  split at h
  · rename_i q' hq; cases h; exact hq
  · cases h

/-- trailing tokens are never silently dropped -/
theorem trailing_rejected (toks : List Tok) (q : Sel) (t : Tok) (rest : List Tok)
    (h : parseSel (64 * toks.length + 64) 0 toks = some (q, t :: rest)) : parseTok toks = none := by
  unfold parseTok parseTokFuel
  rw [h]

/-! ## structural faithfulness: print, then parse -/

/-- **Print-then-parse is the identity (token level)**: for every syntax tree of the generated fragment — SELECT
    [DISTINCT] (variables | `*`) WHERE, arbitrarily nested groups, UNION with any number of alternatives, GRAPH,
    FILTER (comparisons under arbitrarily nested `&&`, `||`, `!`), sub-selects, GROUP BY / ORDER BY (ASC and DESC) /
    LIMIT — every dot style (`.` after every element, never, or between elements) and every fuel above the stated
    bound, provided the tree is well formed (`wfS`: joins and unions have ≥ 2 members, statements ≥ 1 predicate,
    variables where the grammar wants variables) and passes the nesting guard (`fitsSel`): the token-level parser
    returns exactly the tree and consumes every token.  No bound on size or depth other than the extracted
    nesting limit. -/
theorem parse_print_tokens (q : Sel) (d : Dots) (fuel : Nat)
    (hq : wfS q = true) (hfit : fitsSel 0 q = true) (hf : fuelS q ≤ fuel) :
    parseTokFuel fuel (toksSel d q) = some q := by
  have h := (stmts d fuel).sel q 0 [] hq hfit hf rfl
  simp only [List.append_nil] at h
  unfold parseTokFuel
  rw [h]

example : parseTokFuel 40 [kwd "SELECT", sy "*", kwd "WHERE", sy "{", sy "}"] = some (.mk false [] .unit [] [] none) :=
  parse_print_tokens (.mk false [] .unit [] [] none) .all 40 (by decide) (by decide) (by decide)

/-- the same for a sub-pattern anywhere inside a query: a braced group prints and parses back in any context -/
theorem group_parse_print (p : Pat) (d : Dots) (k fuel : Nat) (rest : List Tok)
    (hw : wfP p = true) (hfit : fitsBraced k p = true) (hf : fuelP p + 3 ≤ fuel) :
    parseBraced fuel k (toksBraced d p ++ rest) = some (p, rest) :=
  (stmts d fuel).braced p k rest hw hfit hf

/-- every token of the printed query is one the lexer reads back verbatim: keywords of the grammar, the punctuation
    and operator symbols, and lexemes that are variables (`?x`), IRIs (`<…>` without spaces), plain string literals
    (`"…"` without escapes), unsigned integers, or prefixed names / identifiers that are not keywords -/
def lexOk (q : Sel) (d : Dots) : Bool := (toksSel d q).all wfTok

/-- **The lexer inverts the printer, whatever the layout**: for every token list of well-formed tokens and every
    separator-complete layout (any mixture of spaces, tabs, CR, LF and `#…` comments between tokens, each separator
    starting with a whitespace character; any keyword case variant), lexing the rendered text yields the tokens. -/
theorem tokens_render_free (l : Layout) (ts : List Tok) (hwf : ∀ t ∈ ts, wfTok t = true) (hl : LayoutOk l) :
    tokens (render l 0 ts) = some ts :=
  tokens_render l ts hwf hl

/-- **The tokens of a printed query do not depend on whitespace, comments or keyword case.** -/
theorem tokens_layout_free (q : Sel) (d : Dots) (l l' : Layout) (hlex : lexOk q d = true)
    (hl : LayoutOk l) (hl' : LayoutOk l') :
    tokens (pp q d l) = tokens (pp q d l') := by
  have hwf : ∀ t ∈ toksSel d q, wfTok t = true := by simpa [lexOk] using hlex
  unfold pp
  rw [tokens_render l _ hwf hl, tokens_render l' _ hwf hl']

/-- **Parsing the text of a printed query yields the same tree** — for every well-formed syntax tree of the
    generated fragment that passes the nesting guard, every dot style and every separator-complete layout:
    `parse (lex (print t layout)) = t`, nesting, element order, terms, filters and modifiers included. -/
theorem parse_print (q : Sel) (d : Dots) (l : Layout)
    (hq : wfS q = true) (hfit : fitsSel 0 q = true) (hlex : lexOk q d = true) (hl : LayoutOk l) :
    (tokens (pp q d l)).bind parseTok = some q := by
  have hwf : ∀ t ∈ toksSel d q, wfTok t = true := by simpa [lexOk] using hlex
  unfold pp
  rw [tokens_render l _ hwf hl]
  simp only [Option.bind_some, parseTok]
  exact parse_print_tokens q d _ hq hfit (fuel_enough d q hq)

/-- a layout with a comment and mixed whitespace in every gap is separator-complete -/
example : LayoutOk ⟨fun i => if i % 2 == 0 then [.sp, .comment "{ ?x } \"".toList, .tab] else [.cr, .nl], fun i => i⟩ := by
  refine ⟨Or.inr (by decide), fun i _ => ?_⟩
  by_cases h : i % 2 = 0 <;> simp [h, sepOk, wsPiece, Piece.ok]

/- NOTE (what is observed rather than proved): layouts that print punctuation without any separator
   (`{?s ?p ?o}`, `FILTER(…)`, `?o.`) are outside `LayoutOk`; they are exercised by the correspondence run
   (layout codes 6 and 7 of the driver) where the real parser, the model lexer+parser and the source tree must agree.
-/

example : wfS (.mk true ["?s".toList] (.join (.cons (.bgp "?s".toList [("a".toList, "?o".toList)])
    (.cons (.union (.cons (.graph "?g".toList .unit) (.cons (.sub (.mk false [] .unit ["?s".toList] [("?o".toList, true)] (some 3))) .nil)))
    (.cons (.filter (.not (.and (.cmp "?o".toList "<" "5".toList) (.cmp "?s".toList "!=" "<x>".toList)))) .nil)))) [] [] none) = true
    ∧ fitsSel 0 (.mk true ["?s".toList] (.join (.cons (.bgp "?s".toList [("a".toList, "?o".toList)])
    (.cons (.union (.cons (.graph "?g".toList .unit) (.cons (.sub (.mk false [] .unit ["?s".toList] [("?o".toList, true)] (some 3))) .nil)))
    (.cons (.filter (.not (.and (.cmp "?o".toList "<" "5".toList) (.cmp "?s".toList "!=" "<x>".toList)))) .nil)))) [] [] none) = true := by
  decide

/-- FILTER expressions of any shape (comparisons under arbitrarily nested `&&`, `||`, `!`) print and parse back to
    the same tree at any position where the nesting guard admits them. -/
theorem filter_parse_print (e : FExpr) (k fuel : Nat) (rest : List Tok)
    (hw : wfF e = true) (hfit : fitsF k e = true) (hf : fuelF e ≤ fuel) (hr : noOpHead rest = true) :
    parseOr fuel k (toksF e ++ rest) = some (e, rest) :=
  parseOr_print e k fuel rest hw hfit hf hr

example : wfF (.or (.cmp [] "=" []) (.not (.cmp [] "<=" []))) = true ∧
    fitsF 3 (.or (.cmp [] "=" []) (.not (.cmp [] "<=" []))) = true := by decide

/-! ## the nesting limit (extracted from the source) -/

/-- **Nesting beyond the limit is a parse error, never unbounded recursion**: a group that opens with more than
    `SPARQL_MAX_NESTING_DEPTH` braces in a row is rejected, whatever follows and with any fuel (the model's recursion
    depth is bounded by the extracted constant). -/
theorem deep_nesting_rejected (n fuel : Nat) (rest : List Tok)
    (h : Kolibrie.Extracted.maxNestingDepth < n) :
    parseBraced fuel 0 (List.replicate n (sy "{") ++ rest) = none := by
  obtain ⟨m, rfl⟩ : ∃ m, n = m + 1 := ⟨n - 1, by omega⟩
  exact deep_braces_rejected m fuel 0 rest (by omega)

example : Kolibrie.Extracted.maxNestingDepth < 20000 := by decide

/-- nesting up to the limit is accepted: the guard admits a group entered with any counter below the constant -/
theorem nesting_within_limit (k : Nat) (h : k < Kolibrie.Extracted.maxNestingDepth) (f : Nat) (rest : List Tok) :
    parseBraced (f + 3) k (sy "{" :: sy "}" :: rest) = some (.unit, rest) := by
  have := braced_flat .all .nil k (f + 2) rest rfl (by simp [guardOk, h]) rfl (by simp [fuelL])
  simpa [toksItems, collapse] using this


/-! ## the hand-written token scanners (byte level)

For every character classification `cls` (the oracle for Rust's `char::is_alphabetic / is_numeric / is_whitespace`)
and every well-formed byte string `s` (`WF`: lead bytes followed by the announced number of continuation bytes —
implied by UTF-8 validity, i.e. every Rust `&str`): the transcription of each scanner never reaches a slice at a
non-boundary or out-of-range index (`.panic`), never exhausts its loop budget (`.fuel`), returns remaining input and
token on character boundaries inside the input, reports error slices on character boundaries inside the input, and a
successful scan returns a non-empty token (callers' loops advance). -/
section Scanners
open Kolibrie.Scan Kolibrie.Utf8

/-- `sparql_skip_ws` always succeeds, on a character boundary inside the input -/
theorem skip_ws_boundary (cls : CharClass) {s : Bytes} (hw : WF s) :
    ∃ w, skipWs cls s = .ok w 0 0 ∧ w ≤ s.length ∧ isBoundary s w = true :=
  skipWs_boundary cls hw

/-- skipping whitespace and comments twice skips nothing more -/
theorem skip_ws_idempotent (cls : CharClass) {s : Bytes} (hw : WF s) {w x y : Nat}
    (h : skipWs cls s = .ok w x y) : skipWsAt cls s w = .ok w 0 0 :=
  skipWs_idempotent cls hw h

/-- `sparql_variable`: no slice off a character boundary or out of range, and the loop budget is never exhausted -/
theorem scanVar_total (cls : CharClass) {s : Bytes} (hw : WF s) : scanVar cls s ≠ .panic ∧ scanVar cls s ≠ .fuel :=
  ⟨scanVar_no_panic cls hw, scanVar_no_fuel cls hw⟩

/-- `sparql_variable`: remaining input and token start and end on character boundaries inside the input -/
theorem scanVar_boundary (cls : CharClass) {s : Bytes} (hw : WF s) {n a l : Nat} (h : scanVar cls s = .ok n a l) :
    n ≤ s.length ∧ isBoundary s n = true ∧ isBoundary s a = true ∧ isBoundary s (a + l) = true ∧ a + l = n :=
  Kolibrie.Scan.scanVar_boundary cls hw h

/-- `sparql_variable`: the error's input slice lies inside the input on character boundaries -/
theorem scanVar_err_boundary (cls : CharClass) {s : Bytes} (hw : WF s) {k : String} {off len : Nat}
    (h : scanVar cls s = .err k off len) :
    off + len ≤ s.length ∧ isBoundary s off = true ∧ isBoundary s (off + len) = true :=
  Kolibrie.Scan.scanVar_err_boundary cls hw h

/-- `sparql_variable`: a successful scan returns a non-empty token -/
theorem scanVar_progress (cls : CharClass) {s : Bytes} (hw : WF s) {n a l : Nat} (h : scanVar cls s = .ok n a l) :
    0 < l :=
  Kolibrie.Scan.scanVar_progress cls hw h

/-- `sparql_iri`: no slice off a character boundary or out of range, and the loop budget is never exhausted -/
theorem scanIri_total (cls : CharClass) {s : Bytes} (hw : WF s) : scanIri cls s ≠ .panic ∧ scanIri cls s ≠ .fuel :=
  ⟨scanIri_no_panic cls hw, scanIri_no_fuel cls hw⟩

/-- `sparql_iri`: remaining input and token start and end on character boundaries inside the input -/
theorem scanIri_boundary (cls : CharClass) {s : Bytes} (hw : WF s) {n a l : Nat} (h : scanIri cls s = .ok n a l) :
    n ≤ s.length ∧ isBoundary s n = true ∧ isBoundary s a = true ∧ isBoundary s (a + l) = true ∧ a + l = n :=
  Kolibrie.Scan.scanIri_boundary cls hw h

/-- `sparql_iri`: the error's input slice lies inside the input on character boundaries -/
theorem scanIri_err_boundary (cls : CharClass) {s : Bytes} (hw : WF s) {k : String} {off len : Nat}
    (h : scanIri cls s = .err k off len) :
    off + len ≤ s.length ∧ isBoundary s off = true ∧ isBoundary s (off + len) = true :=
  Kolibrie.Scan.scanIri_err_boundary cls hw h

/-- `sparql_iri`: a successful scan returns a non-empty token -/
theorem scanIri_progress (cls : CharClass) {s : Bytes} (hw : WF s) {n a l : Nat} (h : scanIri cls s = .ok n a l) :
    0 < l :=
  Kolibrie.Scan.scanIri_progress cls hw h

/-- `sparql_blank_node`: no slice off a character boundary or out of range, and the loop budget is never exhausted -/
theorem scanBnode_total (cls : CharClass) {s : Bytes} (hw : WF s) : scanBnode cls s ≠ .panic ∧ scanBnode cls s ≠ .fuel :=
  ⟨scanBnode_no_panic cls hw, scanBnode_no_fuel cls hw⟩

/-- `sparql_blank_node`: remaining input and token start and end on character boundaries inside the input -/
theorem scanBnode_boundary (cls : CharClass) {s : Bytes} (hw : WF s) {n a l : Nat} (h : scanBnode cls s = .ok n a l) :
    n ≤ s.length ∧ isBoundary s n = true ∧ isBoundary s a = true ∧ isBoundary s (a + l) = true ∧ a + l = n :=
  Kolibrie.Scan.scanBnode_boundary cls hw h

/-- `sparql_blank_node`: the error's input slice lies inside the input on character boundaries -/
theorem scanBnode_err_boundary (cls : CharClass) {s : Bytes} (hw : WF s) {k : String} {off len : Nat}
    (h : scanBnode cls s = .err k off len) :
    off + len ≤ s.length ∧ isBoundary s off = true ∧ isBoundary s (off + len) = true :=
  Kolibrie.Scan.scanBnode_err_boundary cls hw h

/-- `sparql_blank_node`: a successful scan returns a non-empty token -/
theorem scanBnode_progress (cls : CharClass) {s : Bytes} (hw : WF s) {n a l : Nat} (h : scanBnode cls s = .ok n a l) :
    0 < l :=
  Kolibrie.Scan.scanBnode_progress cls hw h

/-- `sparql_prefixed_name`: no slice off a character boundary or out of range, and the loop budget is never exhausted -/
theorem scanPname_total (cls : CharClass) {s : Bytes} (hw : WF s) : scanPname cls s ≠ .panic ∧ scanPname cls s ≠ .fuel :=
  ⟨scanPname_no_panic cls hw, scanPname_no_fuel cls hw⟩

/-- `sparql_prefixed_name`: remaining input and token start and end on character boundaries inside the input -/
theorem scanPname_boundary (cls : CharClass) {s : Bytes} (hw : WF s) {n a l : Nat} (h : scanPname cls s = .ok n a l) :
    n ≤ s.length ∧ isBoundary s n = true ∧ isBoundary s a = true ∧ isBoundary s (a + l) = true ∧ a + l = n :=
  Kolibrie.Scan.scanPname_boundary cls hw h

/-- `sparql_prefixed_name`: the error's input slice lies inside the input on character boundaries -/
theorem scanPname_err_boundary (cls : CharClass) {s : Bytes} (hw : WF s) {k : String} {off len : Nat}
    (h : scanPname cls s = .err k off len) :
    off + len ≤ s.length ∧ isBoundary s off = true ∧ isBoundary s (off + len) = true :=
  Kolibrie.Scan.scanPname_err_boundary cls hw h

/-- `sparql_prefixed_name`: a successful scan returns a non-empty token -/
theorem scanPname_progress (cls : CharClass) {s : Bytes} (hw : WF s) {n a l : Nat} (h : scanPname cls s = .ok n a l) :
    0 < l :=
  Kolibrie.Scan.scanPname_progress cls hw h

/-- `sparql_numeric_literal`: no slice off a character boundary or out of range, and the loop budget is never exhausted -/
theorem scanNum_total (cls : CharClass) {s : Bytes} (hw : WF s) : scanNum cls s ≠ .panic ∧ scanNum cls s ≠ .fuel :=
  ⟨scanNum_no_panic cls hw, scanNum_no_fuel cls hw⟩

/-- `sparql_numeric_literal`: remaining input and token start and end on character boundaries inside the input -/
theorem scanNum_boundary (cls : CharClass) {s : Bytes} (hw : WF s) {n a l : Nat} (h : scanNum cls s = .ok n a l) :
    n ≤ s.length ∧ isBoundary s n = true ∧ isBoundary s a = true ∧ isBoundary s (a + l) = true ∧ a + l = n :=
  Kolibrie.Scan.scanNum_boundary cls hw h

/-- `sparql_numeric_literal`: the error's input slice lies inside the input on character boundaries -/
theorem scanNum_err_boundary (cls : CharClass) {s : Bytes} (hw : WF s) {k : String} {off len : Nat}
    (h : scanNum cls s = .err k off len) :
    off + len ≤ s.length ∧ isBoundary s off = true ∧ isBoundary s (off + len) = true :=
  Kolibrie.Scan.scanNum_err_boundary cls hw h

/-- `sparql_numeric_literal`: a successful scan returns a non-empty token -/
theorem scanNum_progress (cls : CharClass) {s : Bytes} (hw : WF s) {n a l : Nat} (h : scanNum cls s = .ok n a l) :
    0 < l :=
  Kolibrie.Scan.scanNum_progress cls hw h

/-- `sparql_quoted_literal`: no slice off a character boundary or out of range, and the loop budget is never exhausted -/
theorem scanLit_total (cls : CharClass) {s : Bytes} (hw : WF s) : scanLit cls s ≠ .panic ∧ scanLit cls s ≠ .fuel :=
  ⟨scanLit_no_panic cls hw, scanLit_no_fuel cls hw⟩

/-- `sparql_quoted_literal`: remaining input and token start and end on character boundaries inside the input -/
theorem scanLit_boundary (cls : CharClass) {s : Bytes} (hw : WF s) {n a l : Nat} (h : scanLit cls s = .ok n a l) :
    n ≤ s.length ∧ isBoundary s n = true ∧ isBoundary s a = true ∧ isBoundary s (a + l) = true ∧ a + l = n :=
  Kolibrie.Scan.scanLit_boundary cls hw h

/-- `sparql_quoted_literal`: the error's input slice lies inside the input on character boundaries -/
theorem scanLit_err_boundary (cls : CharClass) {s : Bytes} (hw : WF s) {k : String} {off len : Nat}
    (h : scanLit cls s = .err k off len) :
    off + len ≤ s.length ∧ isBoundary s off = true ∧ isBoundary s (off + len) = true :=
  Kolibrie.Scan.scanLit_err_boundary cls hw h

/-- `sparql_quoted_literal`: a successful scan returns a non-empty token -/
theorem scanLit_progress (cls : CharClass) {s : Bytes} (hw : WF s) {n a l : Nat} (h : scanLit cls s = .ok n a l) :
    0 < l :=
  Kolibrie.Scan.scanLit_progress cls hw h

/-- the hypothesis is satisfiable by multi-byte text (`<é語>`) -/
example : WF [0x3C, 0xC3, 0xA9, 0xE8, 0xAA, 0x9E, 0x3E] := by
  simp [WF, wellFormed, isCont, leadLen]

end Scanners

/-! ## operator table (extracted from `sparql_filter_operator`) -/

/-- first match = longest match: whenever one operator of the extracted list is a proper prefix of another, the
    longer one is tried first -/
theorem operators_longest_match :
    ∀ i j : Fin Kolibrie.Extracted.filterOperators.length, i.val < j.val →
      ¬ (Kolibrie.Extracted.filterOperators[i.val]'i.isLt).toList <+: (Kolibrie.Extracted.filterOperators[j.val]'j.isLt).toList := by
  decide

/-! ## FILTER arithmetic (`sparql_filter_operand` / `_product` / `_arithmetic`, model `Model/Arith.lean`) -/

section Arithmetic
open Kolibrie.Arith

/-- a chain `x0 - x1 - … - xn` of ANY length, over any operands, groups to the left (`((x0 - x1) - x2) - …`) -/
theorem arith_chain_groups_left (x0 : String) (xs : List String) :
    parseA (Tok.atom x0 :: chainToks xs) = some (xs.foldl (fun a x => .sub a (.opnd x)) (.opnd x0)) := by
  unfold parseA
  have hlen : (Tok.atom x0 :: chainToks xs).length = 2 * xs.length + 1 := by
    induction xs with
    | nil => rfl
    | cons y ys ih => simp [chainToks, List.flatMap_cons] at ih ⊢; omega
  obtain ⟨f, hf⟩ : ∃ f, 8 * (Tok.atom x0 :: chainToks xs).length + 8 = f + 3 :=
    ⟨8 * (Tok.atom x0 :: chainToks xs).length + 5, by omega⟩
  rw [hf]
  simp only [parseSum]
  rw [parseProduct_atom f x0 xs]
  simp
  rw [sumLoop_chain xs _ (f + 2) (by rw [hlen] at hf; omega)]

/-- **the arithmetic parser inverts the printer**: every expression tree, of any size and shape, printed with minimal
    or with redundant parentheses for the left-associative two-level grammar, parses back to exactly that tree (so
    precedence, left grouping of chains and parenthesised right operands are all as the grammar says) -/
theorem arith_parse_print (extra : Bool) (e : AExpr) : parseA (printA extra e) = some e := by
  unfold parseA
  rw [roundtrip extra e]

/-- every expression with two operators over any three operands, in both groupings, printed with minimal or with
    redundant parentheses, parses back to itself (so `a - b - c` and `a - (b - c)` are told apart, and
    precedence between the two levels is respected) -/
theorem arith_two_ops_roundtrip (extra : Bool) (a b c : String) (o1 o2 : AExpr → AExpr → AExpr)
    (h1 : o1 = .add ∨ o1 = .sub ∨ o1 = .mul ∨ o1 = .div) (h2 : o2 = .add ∨ o2 = .sub ∨ o2 = .mul ∨ o2 = .div) :
    parseA (printA extra (o2 (o1 (.opnd a) (.opnd b)) (.opnd c))) = some (o2 (o1 (.opnd a) (.opnd b)) (.opnd c)) ∧
    parseA (printA extra (o1 (.opnd a) (o2 (.opnd b) (.opnd c)))) = some (o1 (.opnd a) (o2 (.opnd b) (.opnd c))) := by
  rcases h1 with rfl | rfl | rfl | rfl <;> rcases h2 with rfl | rfl | rfl | rfl <;> cases extra <;> exact ⟨rfl, rfl⟩

/-- the grouping matters for the value: `10 - 4 - 3` is 3 under the parser's tree, not 9 -/
example (v : String → Int) (h10 : v "10" = 10) (h4 : v "4" = 4) (h3 : v "3" = 3) :
    (parseA [.atom "10", .op '-', .atom "4", .op '-', .atom "3"]).map (eval v) = some 3 := by
  have : parseA [.atom "10", .op '-', .atom "4", .op '-', .atom "3"] =
      some (.sub (.sub (.opnd "10") (.opnd "4")) (.opnd "3")) := rfl
  simp [this, eval, h10, h4, h3]

end Arithmetic

end Kolibrie.Props.C16
