import Kolibrie.Lemmas.Dict
/-!
# C15 — term identifiers are a stable bijection, also across database union

Property theorems only (helper lemmas: `Kolibrie/Lemmas/Dict.lean`).  Model: `Kolibrie/Model/Dict.lean`
(`Dictionary`, `QuotedTripleStore`, `decode_term`, `reencode_term_id`, `SparqlDatabase::union`, the API calls that
populate a database).  Specification: `Kolibrie/Spec/TermIds.lean` (lexical denotation `Den`, first-appearance
dictionary `Abs`, lexical datasets and their set union).

Quantifiers: sections 1–2 hold for **every history** of encode / decode / quoted-encode calls (lists of any
length, any strings, any counter start); sections 3–4 for **every pair of databases** satisfying `DBInv`, which
`populated_inv` shows for every database populated through the API.  No size or depth bound occurs anywhere.
-/
namespace Kolibrie.Props.C15
open Kolibrie.Dict Kolibrie.Extracted

/-! ## 1. one dictionary, any history of `encode` calls -/

/-- **Invariant, reachable by any history**: the two maps are mutually inverse, keys are unique, every id is
    below the counter and below the quoted range — whatever the counter started at. -/
theorem dict_inv (n : Nat) (ss : List String) : DInv (encRun ⟨[], [], n⟩ ss) :=
  encRun_inv _ (DInv.start n) ss

/-- **Identifiers handed out earlier never change**, however many terms arrive afterwards. -/
theorem encode_stable (d : Dict) (h : DInv d) (ss : List String) :
    (∀ t j, d.s2i.lookup t = some j → (encRun d ss).s2i.lookup t = some j) ∧
    (∀ j t, d.decode j = some t → (encRun d ss).decode j = some t) :=
  encRun_stable d h ss

/-- **A term always encodes to the same identifier**: encoding it again — immediately or after any further
    history — returns the same id and changes nothing. -/
theorem encode_idem (d d' : Dict) (s : String) (i : Nat) (h : DInv d) (he : d.encode s = .ok (d', i))
    (ss : List String) : (encRun d' ss).encode s = .ok (encRun d' ss, i) := by
  obtain ⟨h', hl, _⟩ := encode_spec h he
  have := (encRun_stable d' h' ss).1 s i hl
  simp [Dict.encode, this]

/-- **Decoding returns the original term**, also after any further history. -/
theorem decode_encode (d d' : Dict) (s : String) (i : Nat) (h : DInv d) (he : d.encode s = .ok (d', i))
    (ss : List String) : (encRun d' ss).decode i = some s := by
  obtain ⟨h', _, hd, _⟩ := encode_spec h he
  exact (encRun_stable d' h' ss).2 i s hd

/-- **Distinct terms never share an identifier** along one history: if `s` was given `i` and, after any further
    history, `t` is given `i` too, then `s = t`. -/
theorem encode_inj (d d1 d2 : Dict) (s t : String) (i : Nat) (h : DInv d) (ss : List String)
    (he : d.encode s = .ok (d1, i)) (he' : (encRun d1 ss).encode t = .ok (d2, i)) : s = t := by
  obtain ⟨h1, hl, _⟩ := encode_spec h he
  have hr := encRun_inv d1 h1 ss
  obtain ⟨h2, hl2, _, _, st, _⟩ := encode_spec hr he'
  exact h2.bi.inj (st s i ((encRun_stable d1 h1 ss).1 s i hl)) hl2

/-- plain ids stay below the quoted range: `encode` never returns an id with the quoted bit (the `assert!`) -/
theorem encode_range (d d' : Dict) (s : String) (i : Nat) (h : DInv d) (he : d.encode s = .ok (d', i)) :
    i < quotedBit ∧ isQuoted i = false := by
  obtain ⟨_, _, _, hlt, _⟩ := encode_spec h he
  exact ⟨hlt, isQuoted_lt i hlt⟩

/-- **Every mixed history** of `encode` / `decode` / quoted `encode` / quoted `decode` calls returns exactly what
    the first-appearance specification returns (identifier = position of first appearance, `panic` exactly when
    the range is used up) — for any counter starts `n`, `m`. -/
theorem seq_refines (n m : Nat) (ops : List SOp) :
    mRun (⟨[], [], n⟩, ⟨[], [], m⟩) ops = aRun ⟨⟨n, []⟩, ⟨m, []⟩⟩ ops := by
  suffices H : ∀ (st : Dict × QStore) (a : Abs), ARel st a → mRun st ops = aRun a ops from
    H _ _ ⟨FRel.empty n, FRel.empty m⟩
  induction ops with
  | nil => intro st a _; rfl
  | cons op rest ih =>
    intro st a hr
    obtain ⟨e, r⟩ := step_refines st a hr op
    simp only [mRun, aRun, e, ih _ _ r]

/-! ## 2. one quoted-triple store, any history of `encode` calls -/

/-- **Invariant, reachable by any history** (from any start of the counter inside the quoted range). -/
theorem q_inv (n : Nat) (h1 : quotedBit ≤ n) (h2 : n ≤ u32Max) (cs : List Comp) : QInv (qRun ⟨[], [], n⟩ cs) :=
  qRun_inv _ (QInv.start n h1 h2) cs

/-- quoted ids are in the quoted range, are `u32`s, and `is_quoted_triple_id` (the bit test) recognises them -/
theorem qencode_range (q q' : QStore) (c : Comp) (i : Nat) (h : QInv q) (he : q.encode c = .ok (q', i)) :
    quotedBit ≤ i ∧ i < u32Max ∧ isQuoted i = true := by
  obtain ⟨h', _, hd, _⟩ := qencode_spec h he
  have r := h'.bi.range i c hd
  have := h'.hi
  exact ⟨r.1, by omega, (h'.isQuoted hd).1⟩

/-- **Quoted triples are identified structurally**: two triples get the same identifier iff their components are
    equal — whatever happens between the two calls; and the identifier decodes to the components. -/
theorem qencode_structural (q q1 q2 : QStore) (c c' : Comp) (i i' : Nat) (h : QInv q) (cs : List Comp)
    (he : q.encode c = .ok (q1, i)) (he' : (qRun q1 cs).encode c' = .ok (q2, i')) :
    (i = i' ↔ c = c') ∧ q2.decode i = some c ∧ q2.decode i' = some c' := by
  obtain ⟨h1, hl, hd, _⟩ := qencode_spec h he
  have hr := qRun_inv q1 h1 cs
  obtain ⟨h2, hl2, hd2, st, st', _⟩ := qencode_spec hr he'
  have hl1 := st c i ((qRun_stable q1 h1 cs).1 c i hl)
  refine ⟨⟨fun e => ?_, fun e => ?_⟩, st' i c ((qRun_stable q1 h1 cs).2 i c hd), hd2⟩
  · subst e; exact h2.bi.inj hl1 hl2
  · subst e; rw [hl1] at hl2; cases hl2; rfl

/-- **The two ranges are disjoint**: an id the dictionary decodes and an id the quoted store decodes are never the
    same number, and the bit test tells them apart.  No hypothesis on the counters: the `assert!` in
    `Dictionary::encode` is part of the model. -/
theorem ranges_disjoint (d : Dict) (q : QStore) (hd : DInv d) (hq : QInv q) (i j : Nat) (s : String) (c : Comp)
    (h1 : d.decode i = some s) (h2 : q.decode j = some c) :
    i ≠ j ∧ isQuoted i = false ∧ isQuoted j = true := by
  have a := hd.below i s h1
  have b := (hq.bi.range j c h2).1
  exact ⟨by omega, isQuoted_lt i a, (hq.isQuoted h2).1⟩

/-- the bit test of the source is the range test `quotedBit ≤ id` on `u32` (for the extracted constant) -/
theorem bit_test_is_range_test (id : Nat) (h : id < 2 ^ 32) : isQuoted id = true ↔ quotedBit ≤ id :=
  isQuoted_iff id h

/-- **Nesting is well-founded** after any history in which quoted components refer to already allocated quoted
    triples (`WfHist`; this is how `encode_term_star` uses the store). -/
theorem nesting_wf (n : Nat) (h1 : quotedBit ≤ n) (h2 : n ≤ u32Max) (cs : List Comp) (hh : WfHist ⟨[], [], n⟩ cs) :
    QWf (qRun ⟨[], [], n⟩ cs) :=
  qRun_wf _ (QInv.start n h1 h2) (by intro id a b c h; simp [QStore.decode] at h) cs hh

/-- the hypothesis `WfHist` is forced: the raw `QuotedTripleStore::encode` accepts a component id that is not
    allocated yet, and the very first call can thereby create a triple that contains itself -/
theorem forward_ref_clash : ∃ cs : List Comp, ¬ WfHist QStore.empty cs ∧ ¬ QWf (qRun QStore.empty cs) := by
  refine ⟨[(quotedBit, 0, 0)], ?_, ?_⟩
  · intro h; have := h.1.1 (by decide); exact absurd this (by decide)
  · intro h
    have := (h quotedBit quotedBit 0 0 (by decide)).1 (by decide)
    omega

/-! ## 3. identifiers ↔ terms -/

/-- an identifier denotes at most one term -/
theorem den_functional (d : Dict) (q : QStore) (id : Nat) (τ τ' : LTerm) (h : Den d q id τ) (h' : Den d q id τ') :
    τ = τ' := h.functional h'

/-- **a term has at most one identifier** (plain or quoted, any nesting depth) -/
theorem den_injective (d : Dict) (q : QStore) (hd : DInv d) (hq : QInv q) (id id' : Nat) (τ : LTerm)
    (h : Den d q id τ) (h' : Den d q id' τ) : id = id' := h.inj hd hq h'

/-- `decode_term` / `decode_any` compute the denotation (in a well-founded store the recursion budget suffices) -/
theorem decode_term_spec (d : Dict) (q : QStore) (hw : QWf q) (id : Nat) (τ : LTerm) :
    decodeTerm d q id = .ok (some τ) ↔ Den d q id τ := decodeTerm_iff d q hw id τ

/-- `encode_term_star` returns an identifier that `decode_any` maps back to the term, for every term tree -/
theorem encode_star_round_trip (db : DB) (h : DBInv db) (τ : LTerm) (d' : Dict) (q' : QStore) (i : Nat)
    (he : encodeStar db.d db.q τ = .ok (d', q', i)) : decodeTerm d' q' i = .ok (some τ) := by
  obtain ⟨T, _, D⟩ := encodeStar_spec τ db.d db.q d' q' i he ⟨h.d, h.q, h.wf, h.cq⟩
  exact (decodeTerm_iff d' q' T.wf i τ).2 D

/-- **every database populated through the API satisfies the database invariant** (from any start of the plain
    counter), provided raw id-level calls only mention identifiers that decode (`OpsOK`; the string- and
    term-level calls `add_triple_parts`, `add_tagged_triple`, `add_quad_parts`, `encode_term_star`, `encode` need
    nothing) -/
theorem populated_inv (n : Nat) (ops : List BOp) (db : DB) (ok : OpsOK { DB.empty with d := ⟨[], [], n⟩ } ops)
    (hb : DB.build ops { DB.empty with d := ⟨[], [], n⟩ } = .ok db) : DBInv db :=
  build_inv ops _ db (DBInv.start n) ok hb

/-! ## 4. union -/

/-- **Identifiers of `self` keep their meaning in the union** (the merged dictionary starts as a copy of `self`'s
    and only grows). -/
theorem union_keeps_ids (a b u : DB) (ha : DBInv a) (h : union a b = .ok u) (x : Nat) (τ : LTerm)
    (hx : a.den x = some τ) : u.den x = some τ := by
  have F := union_facts a b u ha h
  exact (den_iff u F.tinv.wf x τ).2 (F.keepA x τ ((den_iff a ha.wf x τ).1 hx))

/-- **The union of two independently built databases denotes exactly the set union of their lexical datasets**:
    terms (dictionary strings and quoted triples, referenced or not), named-graph identities (empty graphs
    included), quads, and probability seeds (for a triple seeded in both, `other`'s probability stands) — although
    the two databases use the same numbers for different terms. -/
theorem union_denotes (a b u : DB) (ha : DBInv a) (hb : DBInv b) (h : union a b = .ok u) :
    LDB.SetEq u.lex (lunion a.lex b.lex) := by
  have F := union_facts a b u ha h
  have wu : QWf u.q := F.tinv.wf
  -- `decode_any` in the union, for ids of `a` and for translated ids of `b`
  have keep : ∀ x, HasDen a x → u.den x = a.den x := fun x ⟨τ, hτ⟩ =>
    den_eq_of_den wu ha.wf (F.keepA x τ hτ) hτ
  have same : ∀ i x, SameId b.d b.q ⟨u.d, u.q, []⟩ i x → u.den x = b.den i := fun i x ⟨τ, p1, p2⟩ =>
    den_eq_of_den wu hb.wf p2 p1
  have sameT : ∀ c c', SameTriple b.d b.q ⟨u.d, u.q, []⟩ c c' → u.denTriple c' = b.denTriple c := by
    intro c c' ⟨h1, h2, h3⟩
    simp only [DB.denTriple, same _ _ h1, same _ _ h2, same _ _ h3]
  have keepT : ∀ c : Comp, HasDen a c.1 → HasDen a c.2.1 → HasDen a c.2.2 → u.denTriple c = a.denTriple c := by
    intro c h1 h2 h3
    simp only [DB.denTriple, keep _ h1, keep _ h2, keep _ h3]
  have sameQ : ∀ qd qd', SameQuad b.d b.q ⟨u.d, u.q, []⟩ qd qd' → u.denQuad qd' = b.denQuad qd := by
    intro qd qd' ⟨h1, h2, h3, h4⟩
    unfold DB.denQuad
    rw [same _ _ h1, same _ _ h2, same _ _ h3]
    cases hg : qd.g <;> cases hg' : qd'.g <;> simp only [hg, hg'] at h4 ⊢
    · rfl
    · simp [same _ _ h4]
  have keepQ : ∀ qd ∈ a.quads, u.denQuad qd = a.denQuad qd := by
    intro qd hqd
    obtain ⟨h1, h2, h3, h4⟩ := ha.cquads qd hqd
    unfold DB.denQuad
    rw [keep _ h1, keep _ h2, keep _ h3]
    cases hg : qd.g with
    | none => rfl
    | some g => simp [keep _ (h4 g hg)]
  obtain ⟨gs, mgs, qs, mqs, hgraphs, hquads⟩ := F.graphs
  obtain ⟨ss, mss, hseeds⟩ := F.seeds
  refine ⟨?_, ?_, ?_, ?_⟩
  · -- terms
    intro ot
    simp only [DB.lex, lunion, List.mem_map, List.mem_append]
    constructor
    · rintro ⟨x, hx, rfl⟩
      obtain ⟨τ, hτ⟩ := den_of_mem_ids F.tinv.d F.tinv.closed (by simpa using hx)
      rcases F.nojunk x τ hτ with ha' | ⟨i, hi⟩
      · exact Or.inl ⟨x, by simpa using mem_ids_of_den ha', den_eq_of_den ha.wf wu ha' hτ⟩
      · exact Or.inr ⟨i, by simpa using mem_ids_of_den hi, den_eq_of_den hb.wf wu hi hτ⟩
    · rintro (⟨x, hx, rfl⟩ | ⟨i, hi, rfl⟩)
      · obtain ⟨τ, hτ⟩ := den_of_mem_ids ha.d ha.cq (by simpa using hx)
        have := F.keepA x τ hτ
        exact ⟨x, by simpa using mem_ids_of_den this, den_eq_of_den wu ha.wf this hτ⟩
      · obtain ⟨τ, hτ⟩ := den_of_mem_ids hb.d hb.cq (by simpa using hi)
        obtain ⟨x, hx⟩ := F.allB i τ hτ
        exact ⟨x, by simpa using mem_ids_of_den hx, den_eq_of_den wu hb.wf hx hτ⟩
  · -- graph identities
    intro og
    simp only [DB.lex, lunion, List.mem_map, List.mem_append]
    constructor
    · rintro ⟨g, hg, rfl⟩
      rcases (hgraphs g).1 hg with h1 | ⟨qd, hqd, hqg⟩ | h1 | ⟨qd', hqd', hqg⟩
      · exact Or.inl ⟨g, h1, (keep g (ha.cg g h1)).symm⟩
      · have := ha.gq qd hqd g hqg
        exact Or.inl ⟨g, this, (keep g (ha.cg g this)).symm⟩
      · obtain ⟨i, hi, hs⟩ := SameIds.bwd mgs g h1
        exact Or.inr ⟨i, hi, (same i g hs).symm⟩
      · obtain ⟨qd, hqd, _, _, _, h4⟩ := All2.bwd mqs qd' hqd'
        cases hg0 : qd.g with
        | none => simp [hg0, hqg] at h4
        | some i =>
          simp only [hg0, hqg] at h4
          exact Or.inr ⟨i, hb.gq qd hqd i hg0, (same i g h4).symm⟩
    · rintro (⟨g, hg, rfl⟩ | ⟨i, hi, rfl⟩)
      · exact ⟨g, (hgraphs g).2 (Or.inl hg), keep g (ha.cg g hg)⟩
      · obtain ⟨x, hx, hs⟩ := SameIds.fwd mgs i hi
        exact ⟨x, (hgraphs x).2 (Or.inr (Or.inr (Or.inl hx))), same i x hs⟩
  · -- quads
    intro lq
    simp only [DB.lex, lunion, List.mem_map, List.mem_append]
    constructor
    · rintro ⟨qd, hqd, rfl⟩
      rcases (hquads qd).1 hqd with h1 | h1
      · exact Or.inl ⟨qd, h1, (keepQ qd h1).symm⟩
      · obtain ⟨qd0, hqd0, hs⟩ := All2.bwd mqs qd h1
        exact Or.inr ⟨qd0, hqd0, (sameQ qd0 qd hs).symm⟩
    · rintro (⟨qd, hqd, rfl⟩ | ⟨qd0, hqd0, rfl⟩)
      · exact ⟨qd, (hquads qd).2 (Or.inl hqd), keepQ qd hqd⟩
      · obtain ⟨qd, hqd, hs⟩ := All2.fwd mqs qd0 hqd0
        exact ⟨qd, (hquads qd).2 (Or.inr hqd), sameQ qd0 qd hs⟩
  · -- probability seeds
    -- translated seed keys are pairwise different: the translation is injective
    have inj3 : ∀ c c' : Comp, (∃ t1 t2 t3, Den u.d u.q c.1 t1 ∧ Den u.d u.q c.2.1 t2 ∧ Den u.d u.q c.2.2 t3 ∧
        Den u.d u.q c'.1 t1 ∧ Den u.d u.q c'.2.1 t2 ∧ Den u.d u.q c'.2.2 t3) → c = c' := by
      rintro ⟨c1, c2, c3⟩ ⟨d1, d2, d3⟩ ⟨t1, t2, t3, p1, p2, p3, r1, r2, r3⟩
      have e1 := Den.inj F.tinv.d F.tinv.q p1 r1
      have e2 := Den.inj F.tinv.d F.tinv.q p2 r2
      have e3 := Den.inj F.tinv.d F.tinv.q p3 r3
      simp only at e1 e2 e3
      rw [e1, e2, e3]
    have hss : (keys ss).Nodup := by
      unfold keys
      refine All2.nodup_keys (R := SameSeed b.d b.q ⟨u.d, u.q, []⟩) (·.1) (·.1) ?_ mss hb.seedKeys
      rintro ⟨c, v⟩ ⟨c', v'⟩ ⟨k, w⟩ ⟨k', w'⟩ ⟨⟨⟨t1, a1, b1⟩, ⟨t2, a2, b2⟩, ⟨t3, a3, b3⟩⟩, _⟩
        ⟨⟨⟨t1', a1', b1'⟩, ⟨t2', a2', b2'⟩, ⟨t3', a3', b3'⟩⟩, _⟩ e
      simp only at e; subst e
      simp only at *
      have e1 := b1.functional b1'; have e2 := b2.functional b2'; have e3 := b3.functional b3'
      subst e1; subst e2; subst e3
      obtain ⟨c1, c2, c3⟩ := c; obtain ⟨d1, d2, d3⟩ := c'
      simp only at *
      rw [Den.inj hb.d hb.q a1 a1', Den.inj hb.d hb.q a2 a2', Den.inj hb.d hb.q a3 a3']
    intro ls
    obtain ⟨lk, v⟩ := ls
    rw [mem_lexSeeds, mem_lunion_seeds, mem_lexSeeds, mem_lexSeeds, any_lexSeeds, hseeds]
    constructor
    · rintro ⟨k, hm, rfl⟩
      rcases (mem_foldl_put ss a.seeds hss k v).1 hm with h1 | ⟨h1, h2⟩
      · obtain ⟨⟨c, w⟩, hc, hs, hw⟩ := All2.bwd mss (k, v) h1
        simp only at hw hs; subst hw
        exact Or.inr ⟨c, hc, (sameT c k hs).symm⟩
      · obtain ⟨d1, d2, d3⟩ := ha.cseeds (k, v) h1
        refine Or.inl ⟨⟨k, h1, (keepT k d1 d2 d3).symm⟩, ?_⟩
        rintro ⟨c, w', hc, heq⟩
        obtain ⟨⟨c', w''⟩, hc', hs, hw⟩ := All2.fwd mss (c, w') hc
        simp only at hs hw; subst hw
        apply h2
        have : c' = k := by
          obtain ⟨⟨s1, x1, y1⟩, ⟨s2, x2, y2⟩, ⟨s3, x3, y3⟩⟩ := hs
          have q1 : u.den k.1 = some s1 := by
            have := congrArg (·.1) heq; simp only [DB.denTriple] at this
            rw [← this]; exact (den_iff b hb.wf _ _).2 x1
          have q2 : u.den k.2.1 = some s2 := by
            have := congrArg (·.2.1) heq; simp only [DB.denTriple] at this
            rw [← this]; exact (den_iff b hb.wf _ _).2 x2
          have q3 : u.den k.2.2 = some s3 := by
            have := congrArg (·.2.2) heq; simp only [DB.denTriple] at this
            rw [← this]; exact (den_iff b hb.wf _ _).2 x3
          exact inj3 c' k ⟨s1, s2, s3, y1, y2, y3, (den_iff u wu _ _).1 q1, (den_iff u wu _ _).1 q2, (den_iff u wu _ _).1 q3⟩
        rw [← this]
        exact List.mem_map.2 ⟨(c', w'), hc', rfl⟩
    · rintro (⟨⟨k, hk, rfl⟩, hno⟩ | ⟨c, hc, rfl⟩)
      · obtain ⟨d1, d2, d3⟩ := ha.cseeds (k, v) hk
        refine ⟨k, (mem_foldl_put ss a.seeds hss k v).2 (Or.inr ⟨hk, ?_⟩), keepT k d1 d2 d3⟩
        intro hin
        obtain ⟨⟨k', w⟩, hkw, e⟩ := List.mem_map.1 hin
        simp only at e; subst e
        obtain ⟨⟨c, w'⟩, hc, hs, hw⟩ := All2.bwd mss (k', w) hkw
        simp only at hs hw; subst hw
        apply hno
        refine ⟨c, w', hc, ?_⟩
        rw [← sameT c k' hs, keepT k' d1 d2 d3]
      · obtain ⟨⟨c', w'⟩, hc', hs, hw⟩ := All2.fwd mss (c, v) hc
        simp only at hs hw; subst hw
        exact ⟨c', (mem_foldl_put ss a.seeds hss c' v).2 (Or.inl hc'), sameT c c' hs⟩


/-- the union is again a well-formed database (so unions can be chained) -/
theorem union_well_formed (a b u : DB) (ha : DBInv a) (h : union a b = .ok u) : DBInv u := union_inv a b u ha h

/-- **`reencode_term_id` preserves lexical denotation** through the translation cache: the returned target id
    denotes what `id` denotes in the source, earlier target ids keep their meaning, nothing but source terms is
    added, the cache stays correct -/
theorem reencode_denotes (sd : Dict) (sq : QStore) (id : Nat) (t t' : Tgt) (j : Nat)
    (h : reencode sd sq id t = .ok (t', j)) (hT : TInv t) (hC : CacheOK sd sq t) :
    Step sd sq t t' ∧ ∃ τ, Den sd sq id τ ∧ Den t'.d t'.q j τ := reencode_spec sd sq id t t' j h hT hC

/- FULL: union_total
   theorem union_total (a b : DB) (ha : DBInv a) (hb : DBInv b)
       (hp : newPlain a b = 0 ∨ a.d.next + newPlain a b ≤ quotedBit)
       (hq : newQuoted a b = 0 ∨ a.q.next + newQuoted a b ≤ u32Max) : ∃ u, union a b = .ok u
   (and conversely: if either capacity condition fails, `union a b = .error .panic`), where `newPlain` /
   `newQuoted` count the terms of `b` that `a` has no identifier for.  This is what the driver's specification
   prints (`panic` exactly when `other` has an identifier that does not decode or a range is exhausted).
   Proved below: a failure is never the model's own `fuel` outcome, and — via `union_denotes` — every success is
   correct.  Missing: the counting argument that the number of allocations equals the number of new terms (needs
   a pigeonhole over the translation cache).  The exact panic condition is covered by the correspondence run
   (streams `union_self_ids_near_exhaustion`, `b_dangling`). -/

/-- the model's recursion budget is never the reason `union` fails: every failure is an implementation panic
    (an identifier of `other` that does not decode, or an exhausted id range) -/
theorem union_total_partial (a b : DB) (hb : DBInv b) (e : Err) (h : union a b = .error e) : e = .panic :=
  union_err a b hb.wf e h

/-- the hypotheses `DBInv` of the union theorems follow from the two map invariants and the **decidable** checks
    that the driver evaluates on every request and reports in its `H` section (`forward_ref` = `¬ q.wf`,
    `dangling_ids` = `¬ closed`) -/
theorem checks_imply_inv (db : DB) (hd : DInv db.d) (hq : QInv db.q) (hwf : db.q.wf = true) (hcl : db.closed = true)
    (hgq : ∀ qd ∈ db.quads, ∀ g, qd.g = some g → g ∈ db.graphs) (hsk : (keys db.seeds).Nodup) : DBInv db :=
  dbInv_of_checks db hd hq hwf hcl hgq hsk

/-! ## 5. `Dictionary::merge` (not used by `union`; recorded defect, see C13) -/

/-- `merge` breaks the bijection when the two dictionaries use one number for different strings: witness
    `{a ↦ 0}.merge({b ↦ 0})`, where `decode(encode "b") = "a"` and two strings share id `0` -/
theorem merge_clash : ∃ a b : Dict, DInv a ∧ DInv b ∧ idsClash a b = true ∧
    (a.merge b).s2i.lookup "a" = some 0 ∧ (a.merge b).s2i.lookup "b" = some 0 ∧ (a.merge b).decode 0 = some "a" :=
  ⟨encRun Dict.empty ["a"], encRun Dict.empty ["b"], encRun_inv _ (DInv.start 0) _, encRun_inv _ (DInv.start 0) _,
   by decide, by decide, by decide, by decide⟩

/-! ## non-vacuity -/

/-- two databases built independently: both use id 0, for different terms; `A` also holds a quoted triple -/
def exA : Except Err DB :=
  DB.build [.triple "a" "p" "b", .quadParts (.quoted (.plain "a") (.plain "p") (.plain "b")) (.plain "q") (.plain "c") "g",
            .tagged "a" "p" "b" 250, .create 0] DB.empty
def exB : Except Err DB :=
  DB.build [.tagged "b" "p" "a" 750, .star (.quoted (.quoted (.plain "a") (.plain "p") (.plain "b")) (.plain "q") (.plain "z")),
            .quad ⟨0, 1, 2147483649, some 2⟩] DB.empty

-- both builds succeed, their ids clash, the union succeeds, `A`'s id 0 keeps its meaning and `B`'s term "b"
-- (id 0 in `B`) is found under another id in the union
example : (exA.toOption.map fun a => a.den 0) = some (some (.plain "a")) := by decide
example : (exB.toOption.map fun b => b.den 0) = some (some (.plain "b")) := by decide
example : (exA.toOption.bind fun a => exB.toOption.bind fun b => (union a b).toOption.map fun u => (u.den 0, u.den 2, u.quads.length, u.seeds.length))
    = some (some (.plain "a"), some (.plain "b"), 4, 2) := by decide
-- the hypotheses of `populated_inv` hold for these scripts (the only raw call mentions decodable ids)
example : WfHist QStore.empty [(0, 1, 2)] :=
  ⟨⟨by decide, by decide, by decide⟩, by split <;> trivial⟩
example : (exA.toOption.map fun a => (a.q.wf, a.closed)) = some (true, true) := by decide
example : (exB.toOption.map fun b => (b.q.wf, b.closed)) = some (true, true) := by decide
example : (encRun Dict.empty ["a", "b", "a"]).next = 2 := by decide
example : mRun (Dict.empty, QStore.empty) [.enc "a", .enc "b", .enc "a", .dec 1, .qenc (0, 1, 0), .qdec quotedBit]
    = [.id 0, .id 1, .id 0, .str (some "b"), .id quotedBit, .comp (some (0, 1, 0))] := by decide

end Kolibrie.Props.C15
