import Kolibrie.Lemmas.Store
/-!
# C04 — every read path of the store agrees with the set of quads written

Property theorems only (helper lemmas: `Kolibrie/Lemmas/Store.lean`).  Model: `Kolibrie/Model/Store.lean`
(the four redundant indexes of `DatasetIndex` kept as four separate relations, the graph catalog, every
read path, `build_all_indexes`).  Specification: `Kolibrie/Spec/QuadSet.lean` (one abstract set of quads
plus a set of graph identities).

All statements quantify over **every finite operation history** `ops : List Op` (no bound on length, on the
number of terms or graphs).
-/
namespace Kolibrie.Props.C04
open Kolibrie.Store

/-- two abstract states denote the same sets -/
def AbsEq (a b : Abs) : Prop :=
  (∀ q, q ∈ a.quads ↔ q ∈ b.quads) ∧ (∀ g, g ∈ a.graphs ↔ g ∈ b.graphs)

/-- The specification step only depends on the *sets* denoted by the abstract state. -/
theorem spec_congr (a b : Abs) (op : Op) (h : AbsEq a b) :
    AbsEq (specStep a op).1 (specStep b op).1 ∧ (specStep a op).2 = (specStep b op).2 := by
  obtain ⟨hq, hg⟩ := h
  cases op with
  | ins q =>
    by_cases hm : q ∈ a.quads
    · have hm' := (hq q).1 hm
      simp only [specStep, hm, hm', ↓reduceIte, and_true]
      refine ⟨hq, ?_⟩
      intro g; split <;> simp [hg]
    · have hm' : q ∉ b.quads := fun x => hm ((hq q).2 x)
      simp only [specStep, hm, hm', ↓reduceIte, and_true]
      refine ⟨by intro x; simp [hq], ?_⟩
      intro g; split <;> simp [hg]
  | del q =>
    by_cases hm : q ∈ a.quads
    · have hm' := (hq q).1 hm
      simp only [specStep, hm, hm', ↓reduceIte, and_true]
      exact ⟨by intro x; simp [hq], hg⟩
    · have hm' : q ∉ b.quads := fun x => hm ((hq q).2 x)
      simp only [specStep, hm, hm', ↓reduceIte, and_true]
      exact ⟨hq, hg⟩
  | create g =>
    by_cases hz : g = 0
    · simp [specStep, hz]; exact ⟨hq, hg⟩
    · simp only [specStep, beq_iff_eq, hz, ↓reduceIte, hg]
      exact ⟨⟨hq, by intro x; simp [hg]⟩, trivial⟩
  | clear g => simp only [specStep, and_true]; exact ⟨by intro x; simp [hq], hg⟩
  | drop g =>
    by_cases hz : g = 0
    · simp only [specStep, hz, beq_self_eq_true, ↓reduceIte, and_true]
      exact ⟨by intro x; simp [hq], hg⟩
    · by_cases hm : g ∈ a.graphs
      · have hm' := (hg g).1 hm
        simp only [specStep, beq_iff_eq, hz, ↓reduceIte, hm, hm', and_true]
        exact ⟨by intro x; simp [hq], by intro x; simp [hg]⟩
      · have hm' : g ∉ b.graphs := fun x => hm ((hg g).2 x)
        simp only [specStep, beq_iff_eq, hz, ↓reduceIte, hm, hm', and_true]
        exact ⟨hq, hg⟩
  | clearAll => simp [specStep, AbsEq]
  | rebuild => simp only [specStep, and_true]; exact ⟨hq, hg⟩

/-- **Refinement, one step**: every API call keeps the four indexes consistent (`Inv`), changes the denoted
quad set / graph identities exactly as the specification says, and returns the specified Boolean. -/
theorem step_refines (st : Store) (op : Op) (h : Inv st) :
    Inv (step st op).1 ∧ AbsEq (abs (step st op).1) (specStep (abs st) op).1 ∧
    (step st op).2 = (specStep (abs st) op).2 := by
  cases op with
  | ins q =>
    obtain ⟨hi, hs, hn, hb⟩ := insertQuad_spec st q h
    refine ⟨hi, ⟨?_, ?_⟩, ?_⟩
    · intro x; simp only [step, abs, specStep, hs]
      by_cases hm : q ∈ st.spog
      · simp only [hm, ↓reduceIte]; constructor
        · rintro (a | rfl) <;> assumption
        · exact Or.inl
      · simp [hm]
    · intro g; simp only [step, abs, specStep, hn]
      by_cases hz : q.g = 0 <;> by_cases hm : q ∈ st.spog <;> simp [hz, hm]
      all_goals (intro e; subst e; simp_all)
    · simp only [step, abs, specStep, hb]
      by_cases hm : q ∈ st.spog <;> simp [hm]
  | del q =>
    obtain ⟨hi, hs, hn, hb⟩ := deleteQuad_spec st q h
    refine ⟨hi, ⟨?_, ?_⟩, ?_⟩
    · intro x; simp only [step, abs, specStep, hs]
      by_cases hm : q ∈ st.spog
      · simp [hm]
      · simp only [hm, ↓reduceIte]; constructor
        · exact And.left
        · intro a; exact ⟨a, fun e => hm (e ▸ a)⟩
    · intro g; simp only [step, abs, specStep, hn]
      by_cases hm : q ∈ st.spog <;> simp [hm]
    · simp only [step, abs, specStep, hb]
      by_cases hm : q ∈ st.spog <;> simp [hm]
  | create g =>
    obtain ⟨hi, hs, hn, hb⟩ := createGraph_spec st g h
    refine ⟨hi, ⟨?_, ?_⟩, ?_⟩
    · intro x; simp only [step, abs, specStep, hs]; split <;> rfl
    · intro x; simp only [step, abs, specStep, hn]
      by_cases hz : g = 0 <;> simp [hz]
    · simp only [step, abs, specStep, hb]
      by_cases hz : g = 0
      · simp [hz]
      · have hb0 : (g == 0) = false := by simp [hz]
        by_cases hm : g ∈ st.named <;> simp [hb0, hm]
  | clear g =>
    obtain ⟨hi, hs, hn⟩ := clearGraph_spec st g h
    refine ⟨hi, ⟨?_, ?_⟩, rfl⟩
    · intro x; simp [step, abs, specStep, hs]
    · intro x; simp [step, abs, specStep, hn]
  | drop g =>
    obtain ⟨hi, hs, hn, hb⟩ := dropGraph_spec st g h
    refine ⟨hi, ⟨?_, ?_⟩, ?_⟩
    · intro x; simp only [step, abs, specStep, hs]
      by_cases hz : g = 0
      · subst hz; simp
      · by_cases hm : g ∈ st.named <;> simp [hz, hm]
    · intro x; simp only [step, abs, specStep, hn]
      by_cases hz : g = 0
      · subst hz; simp; intro a; exact h.nz x a
      · by_cases hm : g ∈ st.named <;> simp [hz, hm]
        intro a e; exact hm (e ▸ a)
    · simp only [step, abs, specStep, hb]
      by_cases hz : g = 0
      · simp [hz]
      · by_cases hm : g ∈ st.named <;> simp [hz, hm]
  | clearAll =>
    exact ⟨inv_init, ⟨by intro x; simp [step, clearAll, abs, specStep, init, absInit],
      by intro x; simp [step, clearAll, abs, specStep, init, absInit]⟩, rfl⟩
  | rebuild =>
    obtain ⟨hi, hs, hn⟩ := rebuild_spec st h
    exact ⟨hi, ⟨by intro x; simp [step, abs, specStep, hs], by intro x; simp [step, abs, specStep, hn]⟩, rfl⟩

/-- **Every reachable store** satisfies the index invariant and denotes exactly the specification's state
after the same history. -/
theorem reachable (ops : List Op) : Inv (run ops) ∧ AbsEq (abs (run ops)) (specRun ops) := by
  unfold run specRun
  suffices H : ∀ (st : Store) (a : Abs), Inv st → AbsEq (abs st) a →
      Inv (ops.foldl (fun st op => (step st op).1) st) ∧
      AbsEq (abs (ops.foldl (fun st op => (step st op).1) st)) (ops.foldl (fun a op => (specStep a op).1) a) by
    exact H init absInit inv_init ⟨fun _ => Iff.rfl, fun _ => Iff.rfl⟩
  induction ops with
  | nil => intro st a hi he; exact ⟨hi, he⟩
  | cons op ops ih =>
    intro st a hi he
    obtain ⟨hi', he', _⟩ := step_refines st op hi
    obtain ⟨hc, _⟩ := spec_congr (abs st) a op he
    refine ih _ _ hi' ⟨?_, ?_⟩
    · intro q; rw [he'.1 q, hc.1 q]
    · intro g; rw [he'.2 g, hc.2 g]

/-- the Boolean returned by any call after any history is the one the specification returns -/
theorem outputs_agree (ops : List Op) (op : Op) :
    (step (run ops) op).2 = (specStep (specRun ops) op).2 := by
  obtain ⟨hi, he⟩ := reachable ops
  rw [(step_refines (run ops) op hi).2.2, (spec_congr _ _ op he).2]

/-! ## read paths, after every history -/

/-- `query_graph`, all 8 lookup shapes: exactly the matching quads of that graph, each once -/
theorem read_query_graph (ops : List Op) (g : Nat) (sp pp op : Option Nat) :
    (queryGraph (run ops) g sp pp op).Nodup ∧
    ∀ q, q ∈ queryGraph (run ops) g sp pp op ↔ specMatch (specRun ops) g sp pp op q := by
  obtain ⟨hi, he⟩ := reachable ops
  refine ⟨nodup_queryGraph _ hi g sp pp op, ?_⟩
  intro q; rw [mem_queryGraph _ hi]; unfold specMatch; rw [← he.1 q]; rfl

/-- `query_named_graphs` (both code paths, with and without a visibility set) -/
theorem read_query_named (ops : List Op) (sp pp op : Option Nat) (vis : Option (List Nat)) :
    (queryNamed (run ops) sp pp op vis).Nodup ∧
    ∀ q, q ∈ queryNamed (run ops) sp pp op vis ↔
      q ∈ (specRun ops).quads ∧ q.g ≠ 0 ∧ matchQ sp pp op q = true ∧ visibleIn vis q.g = true := by
  obtain ⟨hi, he⟩ := reachable ops
  refine ⟨nodup_queryNamed _ hi sp pp op vis, ?_⟩
  intro q; rw [mem_queryNamed _ hi, ← he.1 q]; rfl

/-- `query_quads` over all graphs -/
theorem read_query_quads (ops : List Op) (sp pp op : Option Nat) :
    (queryQuads (run ops) sp pp op none).Nodup ∧
    ∀ q, q ∈ queryQuads (run ops) sp pp op none ↔ q ∈ (specRun ops).quads ∧ matchQ sp pp op q = true := by
  obtain ⟨hi, he⟩ := reachable ops
  constructor
  · unfold queryQuads
    rw [List.nodup_append]
    refine ⟨nodup_queryGraph _ hi 0 sp pp op, nodup_queryNamed _ hi sp pp op none, ?_⟩
    intro a ha b hb e
    subst e
    exact ((mem_queryNamed _ hi _ _ _ _ _).1 hb).2.1 ((mem_queryGraph _ hi _ _ _ _ _).1 ha).2.1
  · intro q
    unfold queryQuads
    simp only [List.mem_append, mem_queryGraph _ hi, mem_queryNamed _ hi, visibleIn, ← he.1 q, abs]
    constructor
    · rintro (⟨a, _, c⟩ | ⟨a, _, c, _⟩) <;> exact ⟨a, c⟩
    · rintro ⟨a, c⟩
      by_cases hz : q.g = 0
      · exact Or.inl ⟨a, hz, c⟩
      · exact Or.inr ⟨a, hz, c, trivial⟩

/-- `query_merged_graphs`: each matching triple once, however often a source graph is repeated -/
theorem read_query_merged (ops : List Op) (srcs : List Nat) (sp pp op : Option Nat) :
    (queryMerged (run ops) srcs sp pp op).Nodup ∧
    ∀ t, t ∈ queryMerged (run ops) srcs sp pp op ↔
      t.g = 0 ∧ ∃ g ∈ srcs, (⟨t.s, t.p, t.o, g⟩ : Quad) ∈ (specRun ops).quads ∧ matchQ sp pp op t = true := by
  obtain ⟨hi, he⟩ := reachable ops
  unfold queryMerged
  constructor
  · exact nodup_foldl_insL (fun x : Quad => x) _ [] List.nodup_nil
  · intro t
    rw [mem_foldl_insL (fun x : Quad => x)]
    simp only [List.not_mem_nil, false_or, List.mem_flatMap, List.mem_map, mem_queryGraph _ hi, ← he.1, abs]
    constructor
    · rintro ⟨x, ⟨g, hg, q, ⟨a, rfl, c⟩, rfl⟩, rfl⟩
      exact ⟨rfl, q.g, hg, a, by simpa [matchQ] using c⟩
    · rintro ⟨hz, g, hg, a, c⟩
      refine ⟨t, ⟨g, hg, ⟨t.s, t.p, t.o, g⟩, ⟨a, rfl, by simpa [matchQ] using c⟩, ?_⟩, rfl⟩
      cases t; simp_all

/-- `contains_quad` -/
theorem read_contains (ops : List Op) (q : Quad) :
    contains (run ops) q = true ↔ q ∈ (specRun ops).quads := by
  obtain ⟨_, he⟩ := reachable ops
  simp [contains, ← he.1 q, abs]

/-- `graphs_for_triple` -/
theorem read_graphs_for_triple (ops : List Op) (s p o g : Nat) :
    g ∈ graphsForTriple (run ops) s p o ↔ (⟨s, p, o, g⟩ : Quad) ∈ (specRun ops).quads := by
  obtain ⟨_, he⟩ := reachable ops
  simp only [graphsForTriple, List.mem_map, List.mem_filter, Bool.and_eq_true, beq_iff_eq, ← he.1, abs]
  constructor
  · rintro ⟨q, ⟨a, ⟨⟨rfl, rfl⟩, rfl⟩⟩, rfl⟩; exact a
  · intro a; exact ⟨⟨s, p, o, g⟩, ⟨a, ⟨⟨rfl, rfl⟩, rfl⟩⟩, rfl⟩

/-- `all_quads`: the complete dataset, each quad once -/
theorem read_all_quads (ops : List Op) :
    (allQuads (run ops)).Nodup ∧ ∀ q, q ∈ allQuads (run ops) ↔ q ∈ (specRun ops).quads := by
  obtain ⟨hi, he⟩ := reachable ops
  exact ⟨nodup_allQuads _ hi, fun q => by rw [mem_allQuads _ hi, ← he.1 q]; rfl⟩

/-- `graphs` / `named_graphs`: the default graph plus exactly the graph identities of the specification
(created or first inserted, until dropped — independent of content), each once -/
theorem read_graphs (ops : List Op) :
    (graphs (run ops)).Nodup ∧ ∀ g, g ∈ graphs (run ops) ↔ g = 0 ∨ g ∈ (specRun ops).graphs := by
  obtain ⟨hi, he⟩ := reachable ops
  exact ⟨nodup_graphs _ hi, fun g => by rw [mem_graphs _ hi, ← he.2 g]; rfl⟩

/-- `rebuild` (`build_all_indexes`) never changes what is stored -/
theorem rebuild_identity (ops : List Op) :
    AbsEq (abs (rebuild (run ops))) (specRun ops) := by
  obtain ⟨hi, he⟩ := reachable ops
  obtain ⟨_, hs, hn⟩ := rebuild_spec _ hi
  exact ⟨fun q => by rw [← he.1 q]; exact hs q, fun g => by rw [← he.2 g]; exact hn g⟩

/-! ## non-vacuity: concrete histories exercising the hypotheses -/

example : (run [.ins ⟨1, 2, 3, 1⟩, .ins ⟨1, 2, 3, 0⟩, .del ⟨1, 2, 3, 1⟩, .create 2]).named = [1, 2] := by decide
example : (specRun [.ins ⟨1, 2, 3, 1⟩, .ins ⟨1, 2, 3, 0⟩, .del ⟨1, 2, 3, 1⟩, .create 2]).graphs = [1, 2] := by decide
example : queryNamed (run [.ins ⟨1, 2, 3, 1⟩, .ins ⟨1, 2, 3, 2⟩, .ins ⟨1, 2, 3, 0⟩]) (some 1) (some 2) (some 3) (some [2])
    = [⟨1, 2, 3, 2⟩] := by decide

end Kolibrie.Props.C04
