import Kolibrie.Lemmas.SldComplete
import Kolibrie.Lemmas.SldSpec
/-!
# C18 — backward chaining returns only entailed answers, and all shallow ones

Property theorems only (helper lemmas: `Lemmas/Sld*.lean`).  Model: `Model/Sld.lean` — `backward_chaining.rs` **with**
`fixes/C18_rename_apart_from_goal.patch` (generated names `v{n}` skip the goal's own variable names); the code at
the pinned commit is the same model run with an empty reserved list (`bcOld`).  Specification: `Spec/Sld.lean`
(`Derivable`, `DerivableD` = derivation height ≤ n, `Matches`).

Quantifiers: all fact lists, all rule lists (positive, filter-free; rule safety is **not** needed), all goal patterns
— no hypothesis on the names of the goal's variables — and every depth limit (`bc` instantiates the limit with the
`MAX_DEPTH` extracted from the source).  A returned answer is a set of bindings `b`; `Sat σ b` says the ground
valuation `σ` solves `b` (`σ v = σ t` for every binding `v ↦ t`); then `(substitute b goal).inst σ = goal.inst σ`.
-/
namespace Kolibrie.Props.C18
open Kolibrie.Terms Kolibrie.Sld Kolibrie.SldSpec

/-- **Soundness.** Every ground solution of a returned answer maps the goal to a fact of the least model
    (any depth limit, any variable names, rules need not be safe). -/
theorem bc_sound_partial (d : Nat) (F : List Fact) (P : List Rule) (goal : Pattern) (b : Subst)
    (hb : b ∈ bcWith d F P goal) : ∀ σ, Sat σ b → Derivable F P (goal.inst σ) :=
  fun σ hs => (bcAux_sound F P goal.vars (d + 1) goal [] 0 b hb σ hs).2

/- FULL: `b ∈ bc F P goal → ∀ τ, Derivable F P ((substitute b goal).inst τ)` — every grounding of the answer applied to
   the goal with `resolve_term`.  Gap: this needs the invariant that returned bindings are in solved form (acyclic, a key
   is unbound when inserted), under which `fun x => (resolveT b (.var x)).eval τ` is a solution of `b`; that invariant is
   not proved here.  `bc_sound_partial` covers every solution `σ` of `b`, and by `substitute_solution` the answer applied
   to the goal and the goal itself have the same instance under such a `σ`. -/

/-- under a solution of the answer, "the answer applied to the goal" and the goal denote the same fact -/
theorem substitute_solution (b : Subst) (goal : Pattern) (σ : String → Nat) (hs : Sat σ b) :
    (substitute b goal).inst σ = goal.inst σ := substitute_inst hs goal

/-- **The fix: generated names are new and never a variable of the goal** — the renamed rule is the rule under a
    variable map whose values are `v{k}` with `k` at or above the old counter and below the new one, pairwise distinct
    for distinct rule variables, and none of them is in the reserved list (the goal's variables). -/
theorem rename_apart (reserved : List String) (r : Rule) (c : Nat) :
    ∃ m : VarMap,
      (renameRule reserved r c).1.premise = r.premise.map (applyMapP m) ∧
      (renameRule reserved r c).1.conclusion = r.conclusion.map (applyMapP m) ∧
      c ≤ (renameRule reserved r c).2 ∧
      (∀ q, q ∈ r.premise ∨ q ∈ r.conclusion → PatMapped m q) ∧
      (∀ v n, (v, n) ∈ m → n ∉ reserved ∧ ∃ k, c ≤ k ∧ k < (renameRule reserved r c).2 ∧ n = genName k) ∧
      (∀ v v' n, (v, n) ∈ m → (v', n) ∈ m → v = v') :=
  renameRule_fresh reserved r c

/-- **Completeness.** Every fact of the least model with a derivation of height ≤ the depth limit that matches the goal
    is returned: some answer `b` has a solution `σ'` under which the answer applied to the goal is that fact —
    whatever the goal's variables are called. -/
theorem bc_complete_partial (d : Nat) (F : List Fact) (P : List Rule) (goal : Pattern) (f : Fact)
    (hd : DerivableD F P d f) (hm : Matches goal f) :
    ∃ b ∈ bcWith d F P goal, ∃ σ', Sat σ' b ∧ (substitute b goal).inst σ' = f := by
  obtain ⟨σ, hσ⟩ := hm
  have hgoal : PatKnown goal.vars 0 goal := by
    refine ⟨?_, ?_, ?_⟩ <;> intro v hv <;> refine Or.inl ?_ <;> simp [Pattern.vars, Term.vars, hv]
  obtain ⟨b, hb, σ', hs, ha⟩ := bcAux_complete (reserved := goal.vars) F P d goal [] 0 σ
    (by intro v t h; simp at h) hgoal (sat_nil σ) (by rw [hσ]; exact hd)
  refine ⟨b, hb, σ', hs, ?_⟩
  rw [substitute_inst hs, inst_agree ha hgoal, hσ]

/- FULL: `… → ∃ b ∈ bc F P goal, substitute b goal = f.toPattern` (the answer applied to the goal *is* the fact).
   Gap: an answer may leave a goal variable unbound when a rule conclusion has a variable that does not occur in the
   rule's premises (an unsafe rule); for safe rules the resolved goal is ground and the two statements coincide, but
   groundness of answers under safety is not proved here.  What is proved: the fact is an instance of a returned answer. -/

example : DerivableD [⟨1, 5, 2⟩] [⟨[⟨.var "x", .const 5, .var "y"⟩], [⟨.var "y", .const 6, .var "x"⟩]⟩] 1 ⟨2, 6, 1⟩ ∧
    Matches ⟨.var "v0", .const 6, .var "v1"⟩ ⟨2, 6, 1⟩ := by
  constructor
  · exact DerivableD.rule (r := ⟨[⟨.var "x", .const 5, .var "y"⟩], [⟨.var "y", .const 6, .var "x"⟩]⟩)
      (c := ⟨.var "y", .const 6, .var "x"⟩) (fun v => if v = "x" then 1 else 2) (by simp) (by simp)
      (by intro p hp; simp at hp; subst hp; exact DerivableD.fact (by simp [Pattern.inst, Term.eval]))
  · exact ⟨fun v => if v = "v0" then 2 else 1, by simp [Pattern.inst, Term.eval]⟩

/-- soundness and completeness at the depth limit found in the source (`MAX_DEPTH`) -/
theorem bc_source_depth (F : List Fact) (P : List Rule) (goal : Pattern) :
    (∀ b ∈ bc F P goal, ∀ σ, Sat σ b → Derivable F P (goal.inst σ)) ∧
    (∀ f, DerivableD F P Kolibrie.Extracted.bcMaxDepth f → Matches goal f →
      ∃ b ∈ bc F P goal, ∃ σ', Sat σ' b ∧ (substitute b goal).inst σ' = f) :=
  ⟨fun b hb => bc_sound_partial _ F P goal b hb, fun f hd hm => bc_complete_partial _ F P goal f hd hm⟩

/-- the documented bound: derivations of height up to ten are found (re-checked against the source on every run) -/
theorem source_depth_at_least_ten : 10 ≤ Kolibrie.Extracted.bcMaxDepth := by decide

/-- `backward_chaining` as written at the pinned commit: nothing is reserved, generated names start at `v0` -/
def bcOld (d : Nat) (F : List Fact) (P : List Rule) (goal : Pattern) : List Subst :=
  (bcAux [] F P (d + 1) goal [] 0).1

/-- **The pre-fix code loses answers when the goal uses the engine's own names**: fact `1 p 2`, rule
    `x p y ⇒ y q x`; the goal `(?v0 q ?v1)` has the height-1 answer `2 q 1` but the pre-fix search returns nothing,
    while the same goal written `(?X q ?Y)` gets its answer — and so does `(?v0 q ?v1)` with the fix. -/
theorem bc_clash :
    ∃ (F : List Fact) (P : List Rule) (f : Fact), DerivableD F P 1 f ∧
      Matches ⟨.var "v0", .const 6, .var "v1"⟩ f ∧
      bcOld 10 F P ⟨.var "v0", .const 6, .var "v1"⟩ = [] ∧
      (bcOld 10 F P ⟨.var "X", .const 6, .var "Y"⟩).length = 1 ∧
      (bcWith 10 F P ⟨.var "v0", .const 6, .var "v1"⟩).length = 1 := by
  refine ⟨[⟨1, 5, 2⟩], [⟨[⟨.var "x", .const 5, .var "y"⟩], [⟨.var "y", .const 6, .var "x"⟩]⟩], ⟨2, 6, 1⟩,
    ?_, ?_, by decide +kernel, by decide +kernel, by decide +kernel⟩
  · exact DerivableD.rule (r := ⟨[⟨.var "x", .const 5, .var "y"⟩], [⟨.var "y", .const 6, .var "x"⟩]⟩)
      (c := ⟨.var "y", .const 6, .var "x"⟩) (fun v => if v = "x" then 1 else 2) (by simp) (by simp)
      (by intro p hp; simp at hp; subst hp; exact DerivableD.fact (by simp [Pattern.inst, Term.eval]))
  · exact ⟨fun v => if v = "v0" then 2 else 1, by simp [Pattern.inst, Term.eval]⟩

/-- the height-bounded and the unbounded least model agree on what is derivable -/
theorem derivableD_sound (F : List Fact) (P : List Rule) (n : Nat) (f : Fact) (h : DerivableD F P n f) :
    Derivable F P f := by
  induction h with
  | fact hf => exact Derivable.fact hf
  | rule θ hr hc _ ih => exact Derivable.rule θ hr hc ih

/-- the executable specification the driver prints only lists bindings of facts with a derivation of height ≤ `d`
    that match the goal (the converse, for safe rules, is not proved: the driver's expected output is trusted to be
    complete only through the differential run) -/
theorem spec_answers_sound (F : List Fact) (P : List Rule) (d : Nat) (goal : Pattern) (b : Kolibrie.Repairs.Binding)
    (h : b ∈ specAnswers F P d goal) :
    ∃ f, DerivableD F P d f ∧ Kolibrie.Repairs.matchPat goal f [] = some b ∧ Matches goal f := by
  simp only [specAnswers, List.mem_filterMap] at h
  obtain ⟨f, hf, hm⟩ := h
  exact ⟨f, levels_sound F P d f hf, hm,
    ⟨_, (Kolibrie.Repairs.matchPat_sound hm (Kolibrie.Repairs.agrees_valOf b)).2⟩⟩

end Kolibrie.Props.C18
