import Kolibrie.Lemmas.RepairQuery
/-!
# C19 — inconsistency-tolerant answers are those true in every maximal repair

Property theorems only (helper lemmas: `Lemmas/Repairs.lean`, `Lemmas/RepairSearch.lean`, `Lemmas/RepairQuery.lean`).
Model: `Model/Repairs.lean` — `compute_repairs` **with** `fixes/C19_maximal_repairs.patch` (`computeRepairs`) and as
written at the pinned commit (`searchOld`), `violates_constraints`, `query_with_repairs`,
`infer_new_facts_semi_naive_with_repairs`.  Specification: `Spec/Repairs.lean`.

The *order oracle* (hash iteration order) is the order of the fact list `F`; every theorem quantifies over all
lists `F`, so over all orders.  Fuel only bounds the exponential search: the statements are "if the search
finishes, then …" for every fuel.  No size bound enters a theorem.
-/
namespace Kolibrie.Props.C19
open Kolibrie.Terms Kolibrie.Repairs Kolibrie.RepairSpec

/-- `violates_constraints` decides exactly "some non-empty constraint body has a ground instance in the set". -/
theorem violates_spec (C : List (List Pattern)) (S : List Fact) : violates C S = true ↔ Violated C S :=
  violates_iff C S

/-- the executable specification used by the driver decides the same predicate -/
theorem specViolates_spec (C : List (List Pattern)) (S : List Fact) : specViolates C S = true ↔ Violated C S :=
  specViolates_iff C S

/-- A fact of `F` that can be added to every consistent subset without breaking consistency (a fact in no
    conflict) belongs to every repair. -/
theorem free_facts_survive {α : Type} (viol : List α → Bool) (F : List α) (f : α) (hf : f ∈ F)
    (hfree : ∀ S, S ⊆ F → viol S = false → viol (f :: S) = false) :
    ∀ S, IsRepair viol F S → f ∈ S := by
  intro S hS
  have hT : f :: S ⊆ F := by
    intro x hx
    rcases List.mem_cons.1 hx with rfl | hx
    · exact hf
    · exact hS.1 hx
  exact hS.2.2 (f :: S) hT (fun x hx => List.mem_cons_of_mem _ hx) (hfree S hS.1 hS.2.1) (by simp)

example : ∀ S, IsRepair (violates [[⟨.var "x", .const 10, .const 20⟩, ⟨.var "x", .const 10, .const 21⟩]])
    [⟨0, 10, 20⟩, ⟨0, 10, 21⟩, ⟨1, 11, 2⟩] S → (⟨1, 11, 2⟩ : Fact) ∈ S := by
  apply free_facts_survive _ _ _ (by simp)
  intro S _ hS
  rw [Bool.eq_false_iff] at hS ⊢
  intro h
  apply hS
  rw [violates_iff] at h ⊢
  obtain ⟨c, hc, hne, σ, hall⟩ := h
  refine ⟨c, hc, hne, σ, ?_⟩
  intro p hp
  have := hall p hp
  simp only [List.mem_singleton] at hc
  subst hc
  simp only [List.mem_cons, List.not_mem_nil, or_false] at hp
  rcases List.mem_cons.1 this with h | h
  · rcases hp with rfl | rfl <;> simp [Pattern.inst, Term.eval] at h
  · exact h

/-- the specification's enumeration lists exactly the repairs (one representative per subset of `F`) -/
theorem all_repairs_enumerated {α : Type} [DecidableEq α] (viol : List α → Bool) (hv : SetInv viol) (F S : List α) :
    S ∈ allRepairs viol F ↔ S ∈ subs F ∧ IsRepair viol F S :=
  allRepairs_iff hv F S

/-- the specification's answers: bindings of facts that lie in every enumerated repair -/
theorem answers_iff (viol : List Fact → Bool) (F : List Fact) (q : Pattern) (b : Binding) :
    b ∈ iarAnswers viol F q ↔ ∃ f ∈ F, matchPat q f [] = some b ∧ ∀ S ∈ allRepairs viol F, f ∈ S := by
  simp only [iarAnswers, List.mem_filterMap]
  constructor
  · rintro ⟨f, hf, h⟩
    split at h
    · rename_i b' hm
      split at h
      · rename_i hall
        cases h
        exact ⟨f, hf, hm, by simpa using hall⟩
      · cases h
    · cases h
  · rintro ⟨f, hf, hm, hall⟩
    refine ⟨f, hf, ?_⟩
    simp only [hm]
    have : (allRepairs viol F).all (fun S => decide (f ∈ S)) = true := by simpa using hall
    simp [this]

/-- **Repairs are exactly the subset-maximal consistent subsets** — for the repaired `compute_repairs`, every
    iteration order of the fact set (`F` is any duplicate-free list), every consistency test that only depends on
    the set, every fuel that lets the search finish: each returned set is a repair, and every repair is returned
    (as a set). -/
theorem repairs_correct (viol : List Fact → Bool) (hv : SetInv viol) (F : List Fact) (hF : F.Nodup)
    (fuel : Nat) (R : List (List Fact)) (h : computeRepairs viol fuel F = some R) :
    (∀ r ∈ R, IsRepair viol F r) ∧ (∀ S, IsRepair viol F S → ∃ r ∈ R, S ⊆ r ∧ r ⊆ S) :=
  computeRepairs_spec hv hF h

/-- instance for the code's own consistency test -/
theorem repairs_correct_constraints (C : List (List Pattern)) (F : List Fact) (hF : F.Nodup)
    (fuel : Nat) (R : List (List Fact)) (h : computeRepairs (violates C) fuel F = some R) :
    (∀ r ∈ R, IsRepair (violates C) F r) ∧ (∀ S, IsRepair (violates C) F S → ∃ r ∈ R, S ⊆ r ∧ r ⊆ S) :=
  computeRepairs_spec (setInv_violates C) hF h

example : (searchOld (violates [[⟨.var "x", .const 10, .const 20⟩, ⟨.var "x", .const 10, .const 21⟩]]) 50
    [⟨0, 10, 20⟩, ⟨0, 10, 21⟩, ⟨1, 11, 2⟩]).map maximalOnly
      = some [[⟨0, 10, 20⟩, ⟨1, 11, 2⟩], [⟨0, 10, 21⟩, ⟨1, 11, 2⟩]] := by
  decide +kernel

/-- **The result does not depend on the order**: two orders of the same fact set give the same repairs (as sets). -/
theorem repairs_order_independent (viol : List Fact → Bool) (hv : SetInv viol) (F F' : List Fact)
    (hF : F.Nodup) (hF' : F'.Nodup) (hperm : ∀ x, x ∈ F ↔ x ∈ F') (fuel fuel' : Nat) (R R' : List (List Fact))
    (h : computeRepairs viol fuel F = some R) (h' : computeRepairs viol fuel' F' = some R') :
    ∀ r ∈ R, ∃ r' ∈ R', r ⊆ r' ∧ r' ⊆ r := by
  intro r hr
  have h1 := (computeRepairs_spec hv hF h).1 r hr
  have h2 : IsRepair viol F' r :=
    ⟨fun x hx => (hperm x).1 (h1.1 hx), h1.2.1, fun T hT => h1.2.2 T (fun x hx => (hperm x).2 (hT hx))⟩
  exact (computeRepairs_spec hv hF' h').2 r h2

/-- **`query_with_repairs` returns exactly the answers true in every repair** (for the repaired repair list,
    every order, every goal pattern). -/
theorem query_correct (C : List (List Pattern)) (F : List Fact) (hF : F.Nodup) (fuel : Nat)
    (R : List (List Fact)) (h : computeRepairs (violates C) fuel F = some R) (q : Pattern) (b : Binding) :
    b ∈ queryWithRepairs R q ↔ ∃ f, matchPat q f [] = some b ∧ ∀ S, IsRepair (violates C) F S → f ∈ S := by
  obtain ⟨hs, hc⟩ := computeRepairs_spec (setInv_violates C) hF h
  exact queryWithRepairs_spec (violates_nil C) hs hc q b

/-- … and these are the answers the executable specification prints. -/
theorem query_eq_spec (C : List (List Pattern)) (F : List Fact) (hF : F.Nodup) (fuel : Nat)
    (R : List (List Fact)) (h : computeRepairs (violates C) fuel F = some R) (q : Pattern) (b : Binding) :
    b ∈ queryWithRepairs R q ↔ b ∈ iarAnswers (violates C) F q := by
  rw [query_correct C F hF fuel R h, answers_iff]
  have hv := setInv_violates C
  constructor
  · rintro ⟨f, hm, hall⟩
    obtain ⟨S0, hS0⟩ := exists_repair (viol := violates C) (F := F) (violates_nil C)
    exact ⟨f, hS0.1 (hall S0 hS0), hm, fun S hS => hall S ((allRepairs_iff hv F S).1 hS).2⟩
  · rintro ⟨f, _, hm, hall⟩
    refine ⟨f, hm, ?_⟩
    intro S hS
    -- the sublist of `F` with the same elements as `S` is enumerated
    have hmem : ∀ x, x ∈ F.filter (fun x => decide (x ∈ S)) ↔ x ∈ S := by
      intro x; simp only [List.mem_filter, decide_eq_true_eq]; exact ⟨fun h => h.2, fun h => ⟨hS.1 h, h⟩⟩
    have hrep : IsRepair (violates C) F (F.filter fun x => decide (x ∈ S)) :=
      ⟨fun x hx => (List.mem_filter.1 hx).1, by rw [hv _ S hmem]; exact hS.2.1,
        fun T hT hST hTc x hx => (hmem x).2 (hS.2.2 T hT (fun y hy => hST ((hmem y).2 hy)) hTc hx)⟩
    exact (hmem f).1 (hall _ ((allRepairs_iff hv F _).2 ⟨filter_mem_subs _ F, hrep⟩))

/-- **The pre-fix search keeps non-maximal sets, depending on the order**: for the fact order
    `x type A, x type B, y likes z` and the constraint `A ∧ B`, the list returned by the search as written at the
    pinned commit contains `{x type A}`, which is not a repair (`y likes z` can be added), and the first element —
    the one `query_with_repairs` draws its candidate answers from — misses `y likes z`; for another order of the
    same facts the result is correct. -/
theorem model_not_maximal :
    ∃ (C : List (List Pattern)) (F F' : List Fact) (R R' : List (List Fact)) (r : List Fact),
      searchOld (violates C) 50 F = some R ∧ r ∈ R ∧ ¬ IsRepair (violates C) F r ∧
      queryWithRepairs R ⟨.var "s", .var "p", .var "o"⟩ = [] ∧
      (∀ x, x ∈ F ↔ x ∈ F') ∧ searchOld (violates C) 50 F' = some R' ∧
      R' = [[⟨1, 11, 2⟩, ⟨0, 10, 20⟩], [⟨1, 11, 2⟩, ⟨0, 10, 21⟩]] := by
  refine ⟨[[⟨.var "x", .const 10, .const 20⟩, ⟨.var "x", .const 10, .const 21⟩]],
    [⟨0, 10, 20⟩, ⟨0, 10, 21⟩, ⟨1, 11, 2⟩], [⟨1, 11, 2⟩, ⟨0, 10, 20⟩, ⟨0, 10, 21⟩],
    [[⟨0, 10, 20⟩], [⟨0, 10, 21⟩], [⟨0, 10, 20⟩, ⟨1, 11, 2⟩], [⟨0, 10, 21⟩, ⟨1, 11, 2⟩]],
    [[⟨1, 11, 2⟩, ⟨0, 10, 20⟩], [⟨1, 11, 2⟩, ⟨0, 10, 21⟩]], [⟨0, 10, 20⟩],
    by decide +kernel, by simp, ?_, by decide +kernel, ?_, by decide +kernel, rfl⟩
  · intro h
    have := h.2.2 [⟨0, 10, 20⟩, ⟨1, 11, 2⟩] (by simp) (by simp) (by decide +kernel)
    simp at this
  · intro x
    simp only [List.mem_cons, List.not_mem_nil, or_false]
    constructor <;> (intro h; rcases h with h | h | h <;> simp [h])

/-- **Repair-aware materialisation ends in a consistent fact set** — for every order in which the joined
    bindings are processed (`ord` is arbitrary), every rule set, every fuel that lets the run finish. -/
theorem infer_with_repairs_consistent (C : List (List Pattern)) (rules : List Rule)
    (ord : List Binding → List Binding) (fuelR fuelI : Nat) (F : List Fact) (hF : F.Nodup)
    (res : List Fact × List Fact) (h : inferWithRepairs C rules ord fuelR fuelI F = some res) :
    violates C res.1 = false := by
  unfold inferWithRepairs at h
  split at h
  · split at h
    · cases h
    · rename_i reps hreps
      obtain ⟨hs, hc⟩ := computeRepairs_spec (setInv_violates C) hF hreps
      split at h
      · rename_i best hbest
        exact inferLoop_consistent C rules ord fuelI best best [] res
          (hs best (maxByLen_mem reps best hbest)).2.1 h
      · rename_i hnone
        obtain ⟨S, hS⟩ := exists_repair (viol := violates C) (F := F) (violates_nil C)
        obtain ⟨r, hr, _⟩ := hc S hS
        cases reps with
        | nil => simp at hr
        | cons a l => simp [maxByLen] at hnone
  · rename_i hcons
    exact inferLoop_consistent C rules ord fuelI F F [] res (by simpa using hcons) h

example : (inferWithRepairs [[⟨.var "x", .const 10, .const 20⟩, ⟨.var "x", .const 10, .const 21⟩]]
    [⟨[⟨.var "a", .const 11, .var "b"⟩], [⟨.var "b", .const 10, .const 20⟩, ⟨.var "b", .const 10, .const 21⟩]⟩] id 50 10
    [⟨0, 10, 20⟩, ⟨1, 11, 2⟩]).map (·.1) = some [⟨0, 10, 20⟩, ⟨1, 11, 2⟩, ⟨2, 10, 20⟩] := by decide +kernel

end Kolibrie.Props.C19
