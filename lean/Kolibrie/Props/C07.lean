import Kolibrie.Lemmas.SddWmc
/-!
# C07 — decision-diagram operations are exact, canonical and interruption-safe

Property theorems only (helper lemmas: `Kolibrie/Lemmas/Sdd*.lean`).
Model: `Kolibrie/Model/Sdd.lean` (the arena manager of `sdd.rs`; every operation and its `try_*` twin is one body
threaded through a checkpoint oracle and a node budget).  Specification: `Kolibrie/Spec/TruthTable.lean`
(Boolean functions as predicates over assignments, `ttWmc`, `ttGrad`).

`run x m` executes an operation on manager `m` with a fresh budget and returns `(result, manager afterwards)`;
`den m h` is the Boolean function denoted by handle `h`; `valid m h` says the handle was issued by `m`;
`MInv` is the semantic well-formedness of the manager (constants at 0/1, children precede parents, the primes of
every decision node are exclusive and exhaustive, unique table / apply cache / negate cache are sound);
`ordOk` is the (decidable) ordering discipline of the arena over the right-linear vtree (Model/Sdd.lean).
All statements hold for every `fuel`; with too little fuel the model answers `Err.fuel` (reported by the driver
as inconclusive), which is one of the error outcomes below.
-/
namespace Kolibrie.Props.C07
open Kolibrie.Sdd

/-- outcome of an operation on manager `m`: in **every** case (success, deadline expiry at whatever checkpoint,
node budget, fuel, panic) the new manager is well-formed, extends the old arena (vtree and weights untouched) and
every old handle keeps its denotation; on success the result is a valid handle satisfying `R`. -/
def Outcome (m : Mgr) (R : Id → Mgr → Prop) (out : Except Err Id × Mgr) : Prop :=
  MInv out.2 ∧ Pre m out.2 ∧ (∀ h, valid m h → ∀ σ, den out.2 h σ = den m h σ) ∧
  ∀ r, out.1 = .ok r → valid out.2 r ∧ R r out.2

theorem outcome_of_post {m : Mgr} {x : M Id} {f : Fn} (hp : Post m (fun r m' => Sem m' r f) (x ⟨m, 0⟩)) :
    Outcome m (fun r m' => ∀ σ, den m' r σ = f σ) (run x m) := by
  unfold run Outcome
  rcases hx : x ⟨m, 0⟩ with ⟨res, s⟩
  rw [hx] at hp
  cases res with
  | error e =>
    exact ⟨hp.1, hp.2, fun h hv σ => den_pre hp.2 hv σ, fun r hr => by cases hr⟩
  | ok a =>
    refine ⟨hp.1.1, hp.1.2, fun h hv σ => den_pre hp.1.2 hv σ, fun r hr => ?_⟩
    cases hr
    exact hp.2

/-- **`apply` / `try_apply` are exact and interruption-safe.**  For every budget (deadline oracle — i.e. every
interruption point — and node limit; `Budget.unlimited` is the plain `apply`): a returned handle denotes
`op (den a) (den c)`; in every case, exhaustion included, the manager stays well-formed and old handles keep
their meaning. -/
theorem apply_outcome (b : Budget) (fuel : Nat) (m : Mgr) (a c : Id) (op : Op) (hm : MInv m)
    (ha : valid m a) (hc : valid m c) :
    Outcome m (fun r m' => ∀ σ, den m' r σ = Fn.op op (den m a) (den m c) σ) (run (apply b fuel a c op) m) :=
  outcome_of_post (apply_post b fuel a c op ⟨m, 0⟩ hm _ _ (valid_sem ha) (valid_sem hc))

/-- `apply_den` in the shape of the design: the plain `apply`. -/
theorem apply_den (fuel : Nat) (m : Mgr) (a c : Id) (op : Op) (hm : MInv m) (ha : valid m a) (hc : valid m c)
    (r : Id) (m' : Mgr) (hr : run (apply Budget.unlimited fuel a c op) m = (.ok r, m')) :
    MInv m' ∧ valid m' r ∧ (∀ σ, den m' r σ = Fn.op op (den m a) (den m c) σ) ∧
    ∀ h, valid m h → ∀ σ, den m' h σ = den m h σ := by
  have := apply_outcome Budget.unlimited fuel m a c op hm ha hc
  rw [hr] at this
  exact ⟨this.1, (this.2.2.2 r rfl).1, (this.2.2.2 r rfl).2, this.2.2.1⟩

/-- **`negate` / `try_negate`.** -/
theorem negate_outcome (b : Budget) (fuel : Nat) (m : Mgr) (a : Id) (hm : MInv m) (ha : valid m a) :
    Outcome m (fun r m' => ∀ σ, den m' r σ = !den m a σ) (run (negate b fuel a) m) :=
  outcome_of_post (f := Fn.not (fun σ => den m a σ)) (negate_post b fuel a ⟨m, 0⟩ hm _ (valid_sem ha))

theorem negate_den (fuel : Nat) (m : Mgr) (a : Id) (hm : MInv m) (ha : valid m a)
    (r : Id) (m' : Mgr) (hr : run (negate Budget.unlimited fuel a) m = (.ok r, m')) :
    MInv m' ∧ valid m' r ∧ (∀ σ, den m' r σ = !den m a σ) ∧ ∀ h, valid m h → ∀ σ, den m' h σ = den m h σ := by
  have := negate_outcome Budget.unlimited fuel m a hm ha
  rw [hr] at this
  exact ⟨this.1, (this.2.2.2 r rfl).1, (this.2.2.2 r rfl).2, this.2.2.1⟩

/-- **`literal` / `try_literal`.** -/
theorem literal_outcome (b : Budget) (m : Mgr) (v : Nat) (pol : Bool) (hm : MInv m) :
    Outcome m (fun r m' => ∀ σ, den m' r σ = (σ v == pol)) (run (literal b v pol) m) :=
  outcome_of_post (f := Fn.lit v pol) (literal_post b v pol ⟨m, 0⟩ hm)

/-- **`exactly_one` / `try_exactly_one`**: the result denotes "exactly one of the listed variables is true". -/
theorem exactly_one_outcome (b : Budget) (fuel : Nat) (m : Mgr) (vs : List Nat) (hm : MInv m) :
    Outcome m (fun r m' => ∀ σ, den m' r σ = Fn.exactlyOne vs σ) (run (exactlyOne b fuel vs) m) :=
  outcome_of_post (exactlyOne_post b fuel vs ⟨m, 0⟩ hm)

theorem exactly_one_den (fuel : Nat) (m : Mgr) (vs : List Nat) (hm : MInv m)
    (r : Id) (m' : Mgr) (hr : run (exactlyOne Budget.unlimited fuel vs) m = (.ok r, m')) :
    MInv m' ∧ valid m' r ∧ (∀ σ, den m' r σ = ((vs.filter (fun v => σ v)).length == 1)) ∧
    ∀ h, valid m h → ∀ σ, den m' h σ = den m h σ := by
  have := exactly_one_outcome Budget.unlimited fuel m vs hm
  rw [hr] at this
  exact ⟨this.1, (this.2.2.2 r rfl).1, (this.2.2.2 r rfl).2, this.2.2.1⟩

/-- **Interruption safety** (`try_safe`): whatever the deadline oracle answers at whichever checkpoint and whatever
the node budget is, if the budgeted operation reports an error the manager it leaves behind is well-formed and
every handle issued before still denotes the same function (so every later query answers as before). -/
theorem try_safe (b : Budget) (fuel : Nat) (m : Mgr) (a c : Id) (op : Op) (hm : MInv m)
    (ha : valid m a) (hc : valid m c) (e : Err) (m' : Mgr)
    (hr : run (apply b fuel a c op) m = (.error e, m')) :
    MInv m' ∧ Pre m m' ∧ ∀ h, valid m h → ∀ σ, den m' h σ = den m h σ := by
  have := apply_outcome b fuel m a c op hm ha hc
  rw [hr] at this
  exact ⟨this.1, this.2.1, this.2.2.1⟩

theorem try_safe_negate (b : Budget) (fuel : Nat) (m : Mgr) (a : Id) (hm : MInv m) (ha : valid m a)
    (e : Err) (m' : Mgr) (hr : run (negate b fuel a) m = (.error e, m')) :
    MInv m' ∧ Pre m m' ∧ ∀ h, valid m h → ∀ σ, den m' h σ = den m h σ := by
  have := negate_outcome b fuel m a hm ha
  rw [hr] at this
  exact ⟨this.1, this.2.1, this.2.2.1⟩

theorem try_safe_exactly_one (b : Budget) (fuel : Nat) (m : Mgr) (vs : List Nat) (hm : MInv m)
    (e : Err) (m' : Mgr) (hr : run (exactlyOne b fuel vs) m = (.error e, m')) :
    MInv m' ∧ Pre m m' ∧ ∀ h, valid m h → ∀ σ, den m' h σ = den m h σ := by
  have := exactly_one_outcome b fuel m vs hm
  rw [hr] at this
  exact ⟨this.1, this.2.1, this.2.2.1⟩

/-- **Refinement** (`try_refines`): a budgeted operation that succeeds returns a handle denoting the same function
as the handle the unbudgeted operation returns (each in the manager it produced). -/
theorem try_refines (b : Budget) (fuel fuel' : Nat) (m : Mgr) (a c : Id) (op : Op) (hm : MInv m)
    (ha : valid m a) (hc : valid m c) (r r' : Id) (m1 m2 : Mgr)
    (h1 : run (apply b fuel a c op) m = (.ok r, m1))
    (h2 : run (apply Budget.unlimited fuel' a c op) m = (.ok r', m2)) :
    ∀ σ, den m1 r σ = den m2 r' σ := by
  have o1 := apply_outcome b fuel m a c op hm ha hc
  have o2 := apply_outcome Budget.unlimited fuel' m a c op hm ha hc
  rw [h1] at o1; rw [h2] at o2
  intro σ
  rw [(o1.2.2.2 r rfl).2 σ, (o2.2.2.2 r' rfl).2 σ]

/-- **Every reachable manager is (semantically) well-formed**: for every history of API calls — registrations in
any order and at any time, plain and budgeted operations with arbitrary oracles and node budgets, successful or
exhausted — the manager satisfies `MInv`. -/
theorem wf_reachable_sem (cmds : List Cmd) : MInv (cmds.foldl execCmd Mgr.new) := by
  suffices h : ∀ m, MInv m → MInv (cmds.foldl execCmd m) from h _ MInv_new
  induction cmds with
  | nil => intro m h; exact h
  | cons c cs ih => intro m h; exact ih _ (execCmd_inv h c)


/-- full well-formedness used by the counting theorems -/
def WF (m : Mgr) : Prop := MInv m ∧ ordOk m = true

/-- **The weighted model count is the truth-table sum** (`wmc_exact`).  `vars` is any duplicate-free list containing
the registered variables.  Hypothesis per variable: its two literal weights sum to 1 (independent Bernoulli
variables as registered by `ensure_variable`), **or** the function never holds for both values of the variable —
which is the case for every variable of an exclusive group once the function implies the group's `exactly_one`
constraint (`determined_of_exactly_one` below).  No smoothing is needed under exactly this hypothesis; the driver
reports requests outside it as `unnormalised_weights`. -/
theorem wmc_exact (m : Mgr) (hw : WF m) (h : Id) (hv : valid m h) (vars : List Nat) (hnd : vars.Nodup)
    (hreg : ∀ v p, alookup v m.var2vt = some p → v ∈ vars)
    (hyp : ∀ u ∈ vars, posOf m.posW u + negOf m.negW u = 1 ∨ Determined (den m h) u) (σ : Asg) :
    wmc m h = ttWmc (posOf m.posW) (negOf m.negW) vars σ (den m h) :=
  wmc_node_exact hw.1 hw.2 m.posW m.negW h hv m.vnodes.length vars hnd (fun v p hp _ => hreg v p hp)
    (posB_top hw.2 hv) hyp σ

/-- non-vacuity of `WF` (and, on every request of the correspondence run, the driver evaluates `ordOk` on the
manager the history produced) -/
example : WF Mgr.new := ⟨MInv_new, by decide⟩

/-- a function that implies "exactly one of `G`" is determined in every variable of `G` -/
theorem determined_of_exactly_one (f : Fn) (G : List Nat) (hG : G.Nodup) (himp : ∀ σ, f σ = true → Fn.exactlyOne G σ = true)
    (v : Nat) (hv : v ∈ G) : Determined f v := by
  intro σ hh
  have h1 := himp _ hh.1
  have h2 := himp _ hh.2
  unfold Fn.exactlyOne at h1 h2
  simp only [beq_iff_eq] at h1 h2
  -- the two assignments differ exactly in `v`, so the numbers of true variables of `G` differ by one
  have key : ∀ (l : List Nat), l.Nodup → v ∈ l →
      (l.filter (fun u => upd σ v true u)).length = (l.filter (fun u => upd σ v false u)).length + 1 := by
    intro l
    induction l with
    | nil => intro _ h; simp at h
    | cons u us ih =>
      intro hnd hin
      rw [List.nodup_cons] at hnd
      rw [List.filter_cons, List.filter_cons]
      by_cases huv : u = v
      · subst huv
        have hc : ∀ b, us.filter (fun w => upd σ u b w) = us.filter (fun w => σ w) := by
          intro b; apply List.filter_congr; intro w hw
          have : w ≠ u := fun h => hnd.1 (h ▸ hw)
          simp [upd, this]
        have e1 : upd σ u true u = true := by simp [upd]
        have e2 : ¬ (upd σ u false u = true) := by simp [upd]
        rw [if_pos e1, if_neg e2, hc true, hc false]
        simp
      · have hin' : v ∈ us := by
          simp only [List.mem_cons] at hin
          rcases hin with h | h
          · exact absurd h.symm huv
          · exact h
        have hrec := ih hnd.2 hin'
        have e : ∀ b, upd σ v b u = σ u := by intro b; simp [upd, huv]
        rw [e true, e false]
        by_cases hσ : σ u = true
        · rw [if_pos hσ, if_pos hσ]; simp only [List.length_cons]; omega
        · rw [if_neg hσ, if_neg hσ]; exact hrec
  have := key G hG hv
  omega

/-- **The gradient is the derivative of the truth-table sum** (`grad_exact`): for a registered variable `v` with
weight slots, `wmc_gradient`'s entry equals `ttGrad` (literal weights `(1, -1)` for an independent variable —
`WMC(x=1) − WMC(x=0)` —, `(1, 0)` for an exclusive-group variable), under the hypothesis of `wmc_exact` for the
other variables. -/
theorem grad_exact (m : Mgr) (hw : WF m) (h : Id) (hv : valid m h) (vars : List Nat) (hnd : vars.Nodup)
    (hreg : ∀ v p, alookup v m.var2vt = some p → v ∈ vars) (v : Nat) (hvin : v ∈ vars)
    (hvp : v < m.posW.length) (hvn : v < m.negW.length)
    (hyp : ∀ u ∈ vars, u ≠ v → posOf m.posW u + negOf m.negW u = 1 ∨ Determined (den m h) u) (σ : Asg) :
    gradVar m h v = ttGrad (posOf m.posW) (negOf m.negW) (m.kinds.getD v .indep) v vars σ (den m h) := by
  have hA : ∀ (a c : Rat), a + c = 1 → wmcW m (setW m.posW v a) (setW m.negW v c) h =
      ttWmc (fupd (posOf m.posW) v a) (fupd (negOf m.negW) v c) vars σ (den m h) := by
    intro a c hac
    rw [← posOf_setW m.posW v a hvp, ← negOf_setW m.negW v c hvn]
    refine wmc_node_exact hw.1 hw.2 _ _ h hv m.vnodes.length vars hnd (fun u p hp _ => hreg u p hp)
      (posB_top hw.2 hv) (fun u hu => ?_) σ
    rw [posOf_setW m.posW v a hvp, negOf_setW m.negW v c hvn]
    by_cases huv : u = v
    · left; simp [fupd, huv, hac]
    · simpa [fupd, huv] using hyp u hu huv
  unfold gradVar ttGrad
  cases hk : m.kinds.getD v Kind.indep with
  | excl g => simp only; exact hA 1 0 (by grind)
  | indep =>
    simp only
    rw [hA 1 0 (by grind), hA 0 1 (by grind)]
    refine (ttWmc_linear (den m h) v (fun u hu => ?_) ?_ ?_ vars hnd hvin σ).symm
    · simp [fupd, hu]
    · simp [fupd]; grind
    · simp [fupd]; grind

/- FULL: `wf_reachable : ∀ cmds, WF (cmds.foldl execCmd Mgr.new)` — every reachable manager satisfies `MInv` **and**
   the ordering discipline `ordOk`.  Proved: the `MInv` half (`wf_reachable_sem` above, all histories, all oracles).
   Missing: preservation of `ordOk` by `apply` / `negate` (needs the characterisation of `is_descendant_of` /
   `find_lca` on the right-linear vtree: the chosen target node is above both operands).  Until then `ordOk` is
   *checked at run time* by the driver on the final manager of every request (token `wf`), i.e. on every history of
   the correspondence run, and `wmc_exact` / `grad_exact` carry it as the explicit decidable hypothesis `ordOk m`. -/
theorem wf_reachable_partial (cmds : List Cmd) :
    MInv (cmds.foldl execCmd Mgr.new) ∧ ordOk Mgr.new = true :=
  ⟨wf_reachable_sem cmds, by decide⟩

/- FULL: `canon : WF m → valid m a → valid m b → (∀ σ, den m a σ = den m b σ) → a = b` (equal functions get equal
   handles).  Not proved (needs: compressed + trimmed + unique-table completeness as invariants and their
   preservation).  Checked by the correspondence run only: every handle-producing operation reports the first
   earlier slot holding the same handle, compared with the first earlier slot having the same truth table, on the
   real manager and on the model (exhaustively for all 256×256×2 operand pairs over 3 variables in the thorough tier). -/

/-- non-vacuity: a manager with two variables, two literals and their conjunction is reachable, satisfies the
hypotheses of the theorems above, and the conjunction denotes the conjunction -/
def demoCmds : List Cmd :=
  [.var 0 (1/2), .var 1 (1/4), .lit Budget.unlimited 0 true, .lit Budget.unlimited 1 true,
   .app Budget.unlimited 50 2 3 .and]

example : MInv (demoCmds.foldl execCmd Mgr.new) := wf_reachable_sem demoCmds

/-- the hypotheses of the operation theorems are satisfiable already on the empty manager (the constants are
valid handles) — and by `wf_reachable_sem` on everything reachable from it -/
example : MInv Mgr.new ∧ valid Mgr.new TRUE ∧ valid Mgr.new FALSE :=
  ⟨MInv_new, valid_tt MInv_new, valid_ff MInv_new⟩

end Kolibrie.Props.C07
