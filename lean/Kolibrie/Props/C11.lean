import Kolibrie.Lemmas.RspMulti
/-
C11 — multi-window results are joins of what each window itself reported.

Model: `Kolibrie.Rsp.mrunE` — window processors (`fireW`), the single-thread coordinator
(`process_single_thread_window_results` = `poll`, with `extend` and the policy's clear/keep), `emit_results`
(`joinAll` = `join_window_results`, `naturalJoin`, static join over `static_db`).
`cfg.shared = true` is the code that exists (RSPEngine::new: ONE r2r store, every window plan scans its default graph);
`cfg.shared = false` gives each window its own store — the architecture the property describes.
`Sub a r`: solution `a` is `r` restricted to `a`'s variables.
-/
namespace Kolibrie.Props.C11
open Kolibrie.Rsp

/-- Natural join of any number of window result sets (`join_window_results`): every joined row extends, for every
    operand `i`, one row of that operand. -/
theorem natural_join_proj (rs : List (List Row)) (r : Row) (h : r ∈ joinAll rs) :
    ∀ (i : Nat) (hi : i < rs.length), ∃ a, a ∈ rs[i] ∧ Sub a r :=
  fun i hi => joinAll_proj h rs[i] (List.getElem_mem hi)

/-- … and the two sides of one `natural_join` are compatible on their shared variables: both are restrictions of
    the merged row. -/
theorem natural_join_compat (l s : List Row) (r : Row) (h : r ∈ naturalJoin l s) :
    ∃ a, a ∈ l ∧ ∃ b, b ∈ s ∧ Sub a r ∧ Sub b r ∧ ∀ k va vb, lookup a k = some va → lookup b k = some vb → va = vb := by
  obtain ⟨a, ha, b, hb, s0, s1⟩ := naturalJoin_proj h
  refine ⟨a, ha, b, hb, s0, s1, ?_⟩
  intro k va vb h1 h2
  have e1 := s0 k va h1
  have e2 := s1 k vb h2
  rw [e1] at e2; exact Option.some.inj e2

example : naturalJoin [[(0, 1), (1, 2)], [(0, 5), (1, 6)]] [[(1, 2), (2, 9)], [(1, 7), (2, 8)]] =
    [[(0, 1), (1, 2), (2, 9)]] := by decide

/-- Static data is isolated, in the code that exists and in the per-window model alike (any `cfg`):
    (1) when there is a static plan, every emitted row extends an answer of the static plan over `static_db` only;
    (2) whatever the static data, every triple ever held by a window store is an item of some stream (window stores
        never contain static triples that did not also arrive on a stream). -/
theorem static_isolated (cfg : MCfg) (evs : List MEv) :
    (cfg.staticPlan.isEmpty = false → ∀ e, e ∈ mrunE cfg evs → ∀ r, r ∈ e.rows →
        ∃ b, b ∈ evalBGP (dedup cfg.staticData) cfg.staticPlan ∧ Sub b r) ∧
    (∀ s, s ∈ (mstateAfter cfg evs).stores → ∀ t, t ∈ s → ∃ w c, c ∈ reported w evs ∧ t ∈ c) := by
  constructor
  · intro hs
    intro e he r hr
    rw [mrunFrom_rows evs _ e he] at hr
    exact (emitRows_proj hr).2 hs
  · intro s hs t ht
    have h0 : StoresFromStreams evs (MSt.init cfg.plans.length) := by
      intro s hs t ht
      simp only [MSt.init, List.mem_replicate] at hs
      rw [hs.2] at ht; simp at ht
    obtain ⟨w, c, hc, htc⟩ := storesFromStreams_run (cfg := cfg) evs evs _ (fun _ h => h) h0 s hs t ht
    exact ⟨w, c, mem_reported.mpr hc, htc⟩

/-- non-vacuity of `static_isolated`: a static plan `?v0 14 ?v1` joined with two windows; the static triple `7 10 5`
    (a window predicate!) never reaches a block -/
example : mrun ⟨[[⟨.var 0, .const 10, .const 5⟩], [⟨.var 1, .const 11, .const 5⟩]],
      [⟨.var 0, .const 14, .var 1⟩], [⟨1, 14, 3⟩, ⟨7, 10, 5⟩], .wait, true⟩
    [.fire 0 [⟨1, 10, 5⟩], .fire 1 [⟨3, 11, 5⟩], .poll] = [[[(0, 1), (1, 3)]]] := by decide

/-- With per-window stores the property holds for every event sequence (all pairs of streams × window parameters ×
    patterns × policies × static data): every emission joined one entry per window (`lm` has as many entries as there
    are windows, with distinct window indices), and every emitted row extends, for each of these windows, an answer of
    that window's block over a content this very window reported, and an answer of the static plan over the static
    data. -/
theorem blocks_isolated (cfg : MCfg) (hs : cfg.shared = false) (evs : List MEv) :
    ∀ e, e ∈ mrunE cfg evs →
      e.lm.length = cfg.plans.length ∧ (e.lm.map (·.1)).Nodup ∧
      ∀ r, r ∈ e.rows →
        (∀ ent, ent ∈ e.lm → ∃ c, c ∈ reported ent.1 evs ∧
            ∃ a, a ∈ evalBGP (dedup c) (cfg.plans.getD ent.1 []) ∧ Sub a r) ∧
        (cfg.staticPlan.isEmpty = false → ∃ b, b ∈ evalBGP (dedup cfg.staticData) cfg.staticPlan ∧ Sub b r) :=
  fun e he => mrunFrom_iso hs evs evs _ (fun _ h => h) (isoInv_init cfg evs _) e he

/-- The property's sentence verbatim, with per-window stores: for every event sequence (window indices below the number
    of windows), every emitted solution `r` and EVERY window `w`: `r` extends an answer of window `w`'s block over a
    content that this very window reported.  (Pigeonhole on `blocks_isolated`: as many distinct in-range entries as
    there are windows.) -/
theorem blocks_isolated_all (cfg : MCfg) (hs : cfg.shared = false) (evs : List MEv) (hwf : WellFormed cfg evs = true) :
    ∀ e, e ∈ mrunE cfg evs → ∀ r, r ∈ e.rows → ∀ w, w < cfg.plans.length →
      ∃ c, c ∈ reported w evs ∧ ∃ a, a ∈ evalBGP (dedup c) (cfg.plans.getD w []) ∧ Sub a r := by
  intro e he r hr w hw
  obtain ⟨hlen, hnd, hrows⟩ := blocks_isolated cfg hs evs e he
  have hb : ∀ k, k ∈ e.lm.map (·.1) → k < cfg.plans.length :=
    mrunFrom_keys evs _ hwf ⟨by simp [MSt.init], by simp [MSt.init]⟩ (by simp [MSt.init]) e he
  have hmem : w ∈ e.lm.map (·.1) := mem_of_nodup_full hnd hb (by simpa using hlen) hw
  obtain ⟨ent, hent, hw'⟩ := List.mem_map.mp hmem
  have := (hrows r hr).1 ent hent
  rw [hw'] at this
  exact this

/-- witness configuration: two windows over two streams whose items share the class `5`; blocks `?v0 10 5` / `?v1 10 5` -/
def wCfg (shared : Bool) : MCfg :=
  ⟨[[⟨.var 0, .const 10, .const 5⟩], [⟨.var 1, .const 10, .const 5⟩]], [], [], .wait, shared⟩
/-- stream A reports item 1, stream B reports item 3, then the coordinator runs -/
def wEvs : List MEv := [.fire 0 [⟨1, 10, 5⟩], .fire 1 [⟨3, 10, 5⟩], .poll]

example : WellFormed (wCfg false) wEvs = true := by decide

/-- The code that exists (one shared store) violates the property: window B's block binds `?v1` to item 1, which only
    window A reported.  Evaluated witness; replayed on the engine as corpus/C11/shared_class.case. -/
theorem shared_store_leak : ∃ (cfg : MCfg) (evs : List MEv) (r : Row), cfg.shared = true ∧
    r ∈ (mrun cfg evs).flatten ∧ blockOK (cfg.plans.getD 1 []) (reported 1 evs) r = false :=
  ⟨wCfg true, wEvs, [(0, 1), (1, 1)], rfl, by decide, by decide⟩

/-- the same events with per-window stores emit only the legitimate row -/
example : mrun (wCfg false) wEvs = [[[(0, 1), (1, 3)]]] := by decide
example : mrun (wCfg true) wEvs = [[[(0, 1), (1, 1)], [(0, 1), (1, 3)]]] := by decide

/- FULL: ∀ cfg evs, mrunE (cfg.withShared true) evs = mrunE (cfg.withShared false) evs, hence `blocks_isolated` for the
   code that exists — false (`shared_store_leak`).  Missing: event sequences in which some window reports a triple that
   is compatible with a pattern of another window's block.  `VocabDisjoint` is the forced, decidable hypothesis (driver
   trigger `windows_share_matching_vocabulary`); `WellFormed` only says window indices are below the number of windows. -/
/-- PARTIAL: when pattern vocabularies are disjoint across the streams, the shared store is unobservable: the code that
    exists emits exactly what the per-window-store engine emits (same `last_materialized`, same rows, same order). -/
theorem shared_eq_isolated_partial (cfg : MCfg) (evs : List MEv)
    (hwf : WellFormed cfg evs = true) (hvd : VocabDisjoint cfg evs = true) :
    mrunE (cfg.withShared true) evs = mrunE (cfg.withShared false) evs :=
  mrunFrom_sim evs _ _ (sim_init cfg) hwf hvd

/-- … so under that hypothesis the property holds of the code that exists -/
theorem blocks_isolated_partial (cfg : MCfg) (evs : List MEv)
    (hwf : WellFormed cfg evs = true) (hvd : VocabDisjoint cfg evs = true) :
    ∀ e, e ∈ mrunE (cfg.withShared true) evs →
      ∀ r, r ∈ e.rows → ∀ ent, ent ∈ e.lm → ∃ c, c ∈ reported ent.1 evs ∧
        ∃ a, a ∈ evalBGP (dedup c) (cfg.plans.getD ent.1 []) ∧ Sub a r := by
  intro e he r hr ent hent
  rw [shared_eq_isolated_partial cfg evs hwf hvd] at he
  exact ((blocks_isolated (cfg.withShared false) rfl evs e he).2.2 r hr).1 ent hent

/-- non-vacuity: disjoint vocabularies (predicates 10 / 11), both windows fire, a row is emitted -/
def dCfg : MCfg := ⟨[[⟨.var 0, .const 10, .const 5⟩], [⟨.var 1, .const 11, .const 5⟩]], [], [], .wait, true⟩
def dEvs : List MEv := [.fire 0 [⟨1, 10, 5⟩], .fire 1 [⟨3, 11, 5⟩], .poll]
example : WellFormed dCfg dEvs = true ∧ VocabDisjoint dCfg dEvs = true ∧
    mrun (dCfg.withShared true) dEvs = [[[(0, 1), (1, 3)]]] := by decide
example : VocabDisjoint (wCfg true) wEvs = false := by decide

end Kolibrie.Props.C11
