import Kolibrie.Lemmas.Lines
/-
C14 — exported data re-imports to the same dataset.

The model (Model/Lines.lean) is the *repaired* code: `generate_ntriples` / `generate_turtle` escape literals,
`clean_turtle_term` unescapes, `generate_turtle` keeps one subject block per line (fixes/C14_escape_nt_ttl.patch).
Theorems are stated for every finite list of quads over plain (non-quoted) terms, every Unicode literal value.
-/
namespace Kolibrie.Props.C14
open Kolibrie.Lines Kolibrie.RoundTrip Kolibrie.Extracted

/-! ### the extracted tables (re-proved against the current source on every run) -/

/-- every escape arm has the shape `c ↦ \e` with `e ∉ {u, U, newline, quote}` and the decoder maps `\e` back to `c` -/
theorem table_round_trip : ∀ p ∈ escapeTable, escRowOk p = true := by decide

/-- every character the decoder / line splitter treats specially is escaped: `"`, `\`, line feed, carriage return -/
theorem table_complete :
    (escapeTable.lookup '"').isSome = true ∧ (escapeTable.lookup '\\').isSome = true ∧
    (escapeTable.lookup '\n').isSome = true ∧ (escapeTable.lookup '\r').isSome = true := by decide

/-! ### decode ∘ escape = id, all Unicode strings -/

theorem decode_escape (s rest : Str) : decodeLit ('"' :: escape s ++ '"' :: rest) = some (s, rest) := by
  have := decodeGo_escape table_round_trip table_complete.1 table_complete.2.1 s rest []
  simpa [decodeLit] using this

/-- the escaped text never contains a raw line feed, so a literal cannot break the line structure -/
theorem escape_no_newline (s : Str) : ∀ c ∈ escape s, c ≠ '\n' :=
  escape_nonl table_round_trip table_complete.2.2.1 s

/-! ### term-kind guessing -/

inductive Kind | iri | blank | literal
  deriving DecidableEq

/-- the kind `generate_nquads` guesses for an object string -/
def classify (o : Str) : Option Kind :=
  if startsWith ['<', '<'] o then none            -- taken for a quoted triple
  else if startsWith ['_', ':'] o then some .blank
  else if looksLikeAbsoluteIri o then some .iri else some .literal

/-- the explicit predicate of the property's quantifier, per intended kind -/
def WellFormedTerm : Kind → Str → Bool
  | .iri, s => validIri s
  | .blank, s => validBlank s
  | .literal, s => literalOk s

theorem iri_head {s : Str} (h : validIri s = true) :
    startsWith ['<', '<'] s = false ∧ startsWith ['_', ':'] s = false ∧ looksLikeAbsoluteIri s = true := by
  simp only [validIri, Bool.and_eq_true] at h
  obtain ⟨f, r, rfl, hf⟩ := looksLike_head h.1
  have n1 : ('<' == f) = false := by simpa using fun e => alpha_ne hf (by decide) e.symm
  have n2 : ('_' == f) = false := by simpa using fun e => alpha_ne hf (by decide) e.symm
  exact ⟨by simp [startsWith, List.isPrefixOf, n1], by simp [startsWith, List.isPrefixOf, n2], h.1⟩

theorem classify_render (k : Kind) (s : Str) (h : WellFormedTerm k s = true) : classify s = some k := by
  cases k with
  | iri =>
    obtain ⟨a, b, c⟩ := iri_head h
    simp [classify, a, b, c]
  | blank =>
    obtain ⟨l, rfl, _⟩ := validBlank_shape h
    simp [classify, startsWith, List.isPrefixOf]
  | literal =>
    simp only [WellFormedTerm, literalOk, mistakable, Bool.not_eq_true', Bool.or_eq_false_iff] at h
    simp [classify, h.1.1, h.1.2, h.2]

example : WellFormedTerm .literal "say \"hi\"\\ \n there".toList = true := by decide
example : WellFormedTerm .iri "urn:x:y".toList = true := by decide

/-! ### N-Quads: export → import is the identity -/

/-- a quad over plain terms as the dictionary stores them -/
structure PQuad where
  s : Str
  p : Str
  o : Str
  g : Option Str

def PQuad.toL (q : PQuad) : LQuad := ⟨.plain q.s, .plain q.p, .plain q.o, q.g.map .plain⟩

def wfSubj (s : Str) : Bool := validIri s || validBlank s
/-- objects: IRI, blank node, or a literal inside the property's quantifier that also satisfies the forced
    hypothesis `¬ edgeShape` (trigger `lit_edge_shape` of the known finding) -/
def wfObj (o : Str) : Bool := validIri o || validBlank o || (literalOk o && !edgeShape o)

def WellFormed (q : PQuad) : Bool :=
  wfSubj q.s && validIri q.p && wfObj q.o && (match q.g with | none => true | some g => wfSubj g)

theorem good_subj {s : Str} (h : wfSubj s = true) : Good (nqSubj s) s := by
  simp only [wfSubj, Bool.or_eq_true] at h
  rcases h with h | h
  · obtain ⟨a, b, _⟩ := iri_head h
    simpa [nqSubj, a, b] using good_angle h
  · obtain ⟨l, rfl, _⟩ := validBlank_shape h
    simpa [nqSubj, startsWith, List.isPrefixOf] using good_blank h

theorem good_graph {g : Str} (h : wfSubj g = true) : Good (nqGraph g) g := by
  simp only [wfSubj, Bool.or_eq_true] at h
  rcases h with h | h
  · obtain ⟨_, b, _⟩ := iri_head h
    simpa [nqGraph, b] using good_angle h
  · obtain ⟨l, rfl, _⟩ := validBlank_shape h
    simpa [nqGraph, startsWith, List.isPrefixOf] using good_blank h

theorem good_obj {o : Str} (h : wfObj o = true) : Good (nqObj o) o := by
  simp only [wfObj, Bool.or_eq_true, Bool.and_eq_true, Bool.not_eq_true'] at h
  rcases h with (h | h) | h
  · obtain ⟨a, b, c⟩ := iri_head h
    simpa [nqObj, a, b, c] using good_angle h
  · obtain ⟨l, rfl, _⟩ := validBlank_shape h
    simpa [nqObj, startsWith, List.isPrefixOf] using good_blank h
  · obtain ⟨h1, h2⟩ := h
    simp only [literalOk, mistakable, Bool.not_eq_true', Bool.or_eq_false_iff] at h1
    have := good_quote table_round_trip table_complete.1 table_complete.2.1 table_complete.2.2.1 h1.2 h2
    simpa [nqObj, h1.1.1, h1.1.2, h1.2] using this

def lineNQ (q : PQuad) : Str := genLineNQ q.s q.p q.o q.g

theorem nq_line (q : PQuad) (h : WellFormed q = true) : parseLineNQ (lineNQ q) = some q.toL := by
  obtain ⟨s, p, o, g⟩ := q
  simp only [WellFormed, Bool.and_eq_true] at h
  obtain ⟨⟨⟨hs, hp⟩, ho⟩, hg⟩ := h
  have gs := good_subj hs
  have gp := good_angle hp
  have go := good_obj ho
  cases g with
  | none =>
    have e : lineNQ ⟨s, p, o, none⟩ = (nqSubj s ++ ' ' :: (angle p ++ ' ' :: nqObj o)) ++ [' ', '.'] := by
      simp [lineNQ, genLineNQ]
    have tk : Tok (nqSubj s ++ ' ' :: (angle p ++ ' ' :: nqObj o)) := by
      simpa using tok_join (' ' :: (angle p ++ [' '])) gs.seg.tok go.seg.tok
    simp only [parseLineNQ, e, stripDot_body tk, parts3 gs.seg gp.seg go.seg, gs.clean, gp.clean, go.clean,
      gs.enc, gp.enc, go.enc]
    rfl
  | some g =>
    have gg := good_graph hg
    have e : lineNQ ⟨s, p, o, some g⟩ =
        (nqSubj s ++ ' ' :: (angle p ++ ' ' :: (nqObj o ++ ' ' :: nqGraph g))) ++ [' ', '.'] := by
      simp [lineNQ, genLineNQ]
    have tk : Tok (nqSubj s ++ ' ' :: (angle p ++ ' ' :: (nqObj o ++ ' ' :: nqGraph g))) := by
      simpa using tok_join (' ' :: (angle p ++ ' ' :: (nqObj o ++ [' ']))) gs.seg.tok gg.seg.tok
    simp only [parseLineNQ, e, stripDot_body tk, parts4 gs.seg gp.seg go.seg gg.seg, gs.clean, gp.clean, go.clean,
      gg.clean, gs.enc, gp.enc, go.enc]
    rfl

theorem nq_line_nonl (q : PQuad) (h : WellFormed q = true) : ∀ c ∈ lineNQ q, c ≠ '\n' := by
  obtain ⟨s, p, o, g⟩ := q
  simp only [WellFormed, Bool.and_eq_true] at h
  obtain ⟨⟨⟨hs, hp⟩, ho⟩, hg⟩ := h
  have gs := (good_subj hs).seg.nonlB
  have gp := (good_angle hp).seg.nonlB
  have go := (good_obj ho).seg.nonlB
  have : (lineNQ ⟨s, p, o, g⟩).all (fun c => c != '\n') = true := by
    cases g with
    | none => simp [lineNQ, genLineNQ, List.all_append, gs, gp, go]
    | some g =>
      have gg := (good_graph hg).seg.nonlB
      simp [lineNQ, genLineNQ, List.all_append, gs, gp, go, gg]
  simpa [List.all_eq_true] using this

theorem lineNQ_dot (q : PQuad) : ∃ x, lineNQ q = x ++ ['.'] := by
  obtain ⟨s, p, o, g⟩ := q
  cases g with
  | none => exact ⟨nqSubj s ++ ' ' :: (angle p ++ ' ' :: (nqObj o ++ [' '])), by simp [lineNQ, genLineNQ]⟩
  | some g => exact ⟨nqSubj s ++ ' ' :: (angle p ++ ' ' :: (nqObj o ++ ' ' :: (nqGraph g ++ [' ']))), by simp [lineNQ, genLineNQ]⟩

theorem genNQ_eq (D : List PQuad) : genNQ (D.map PQuad.toL) = D.flatMap fun q => lineNQ q ++ ['\n'] := by
  simp only [genNQ, List.flatMap_map]
  congr 1
  funext q
  obtain ⟨s, p, o, g⟩ := q
  cases g <;> simp [PQuad.toL, render, lineNQ]

/-- **N-Quads round trip, all graphs**: for every list of well-formed quads (any number, any order, any Unicode literal
    values), importing the exported text yields exactly those quads. -/
theorem nq_round_trip_partial (D : List PQuad) (h : ∀ q ∈ D, WellFormed q = true) :
    parseNQ (genNQ (D.map PQuad.toL)) = D.map PQuad.toL := by
  rw [genNQ_eq]
  unfold parseNQ
  induction D with
  | nil => simp [lines, linesGo]
  | cons q D ih =>
    have hq := h q (by simp)
    have hD := fun x hx => h x (List.mem_cons_of_mem _ hx)
    simp only [List.flatMap_cons, List.map_cons]
    unfold lines at ih ⊢
    rw [List.append_assoc]
    have : ['\n'] ++ (D.flatMap fun q => lineNQ q ++ ['\n']) = '\n' :: (D.flatMap fun q => lineNQ q ++ ['\n']) := rfl
    rw [this, linesGo_line _ _ _ (nq_line_nonl q hq)]
    obtain ⟨x, hx⟩ := lineNQ_dot q
    have hs : stripCr ([].reverse ++ lineNQ q) = lineNQ q := by simp [hx, stripCr_dot]
    rw [hs, List.filterMap_cons, nq_line q hq, ih hD]

/- FULL:
theorem nq_round_trip (D : List LQuad) (h : ∀ q ∈ D, inScopeQuad q) : parseNQ (genNQ D) ≃ D   (as sets)
Gap to the full statement: (1) quoted-triple terms (`<< s p o >>`) are covered by the model and the differential run only —
the forced hypothesis there is `quotedOk` (inner terms are bare tokens) because `decode_term` renders inner terms without
`<>`/quotes; (2) the forced hypothesis `¬ edgeShape` on literal values (see `nq_edge_clash`). -/

example : WellFormed ⟨"http://ex.org/s".toList, "http://ex.org/p".toList, "say \"hi\"\\ \n there\t😀".toList,
    some "_:g1".toList⟩ = true := by decide
example : WellFormed ⟨"_:b".toList, "urn:p".toList, [], none⟩ = true := by decide

/-- the forced hypothesis is really needed: the literal value `"x"` (quotes included) is inside the property's quantifier
    but comes back as `x` — `encode_term_star` strips the already decoded value a second time. -/
theorem nq_edge_clash : ∃ q : PQuad, inScopeQuad q.toL = true ∧ edgeShape q.o = true ∧
    parseNQ (genNQ [q.toL]) ≠ [q.toL] :=
  ⟨⟨"http://a".toList, "http://b".toList, "\"x\"".toList, none⟩, by decide, by decide, by decide⟩

/-! ### N-Triples (default graph): export → import is the identity on the repaired code -/

theorem good_ntSubj {s : Str} (h : wfSubj s = true) : Good (ntSubj s) s := by
  simp only [wfSubj, Bool.or_eq_true] at h
  rcases h with h | h
  · obtain ⟨a, _, _⟩ := iri_head h
    simpa [ntSubj, a] using good_angle h
  · obtain ⟨hne, hall⟩ := blank_all_iriChar h
    obtain ⟨l, rfl, _⟩ := validBlank_shape h
    simpa [ntSubj, startsWith, List.isPrefixOf] using good_angle_all hne hall

theorem edgeShape_of_nonws {o : Str} (hw : ∀ c ∈ o, rustWs c = false) (h1 : startsWith ['"'] o = false)
    (h2 : startsWith ['<'] o = false) : edgeShape o = false := by
  simp [edgeShape, trim_nonws hw, h1, h2]

theorem good_ntObj {o : Str} (h : wfObj o = true) : Good (ntObj o) o := by
  have gq := fun h1 h2 => good_quote table_round_trip table_complete.1 table_complete.2.1 table_complete.2.2.1 (o := o) h1 h2
  simp only [wfObj, Bool.or_eq_true, Bool.and_eq_true, Bool.not_eq_true'] at h
  rcases h with (h | h) | h
  · obtain ⟨a, _, _⟩ := iri_head h
    by_cases hh : isHttp o = true
    · simpa [ntObj, a, hh] using good_angle h
    · have hh' : isHttp o = false := by simpa using hh
      simp only [validIri, Bool.and_eq_true] at h
      obtain ⟨f, r, rfl, _⟩ := looksLike_head h.1
      have hf := iriChar_facts (List.all_eq_true.mp h.2 f (by simp))
      have hw : ∀ c ∈ f :: r, rustWs c = false := fun c hc => (iriChar_facts (List.all_eq_true.mp h.2 c hc)).2.2.2.2.1
      have n1 : ('<' == f) = false := by simpa using fun e => hf.1 e.symm
      have n2 : ('"' == f) = false := by simpa using fun e => hf.2.2.1 e.symm
      have e := edgeShape_of_nonws hw (by simp [startsWith, List.isPrefixOf, n2]) (by simp [startsWith, List.isPrefixOf, n1])
      simpa [ntObj, a, hh'] using gq a e
  · obtain ⟨_, hall⟩ := blank_all_iriChar h
    obtain ⟨l, rfl, _⟩ := validBlank_shape h
    have hw : ∀ c ∈ '_' :: ':' :: l, rustWs c = false := fun c hc => (iriChar_facts (List.all_eq_true.mp hall c hc)).2.2.2.2.1
    have e := edgeShape_of_nonws hw (by simp [startsWith, List.isPrefixOf]) (by simp [startsWith, List.isPrefixOf])
    have a : startsWith ['<', '<'] ('_' :: ':' :: l) = false := by simp [startsWith, List.isPrefixOf]
    have hh : isHttp ('_' :: ':' :: l) = false := by simp [isHttp, startsWith, List.isPrefixOf]
    simpa [ntObj, a, hh] using gq a e
  · obtain ⟨h1, h2⟩ := h
    simp only [literalOk, mistakable, Bool.not_eq_true', Bool.or_eq_false_iff] at h1
    have hh : isHttp o = false := by
      cases hx : isHttp o with
      | false => rfl
      | true => rw [isHttp_looksLike hx] at h1; cases h1.1.1
    simpa [ntObj, h1.2, hh] using gq h1.2 h2

def lineNT (q : PQuad) : Str := genLineNT q.s q.p q.o

theorem angle_ne_a (p : Str) : (angle p = ['a']) = False := by simp [angle]

theorem nt_line (q : PQuad) (h : WellFormed q = true) :
    parseLineNT (lineNT q) = some ⟨.plain q.s, .plain q.p, .plain q.o, none⟩ := by
  obtain ⟨s, p, o, g⟩ := q
  simp only [WellFormed, Bool.and_eq_true] at h
  obtain ⟨⟨⟨hs, hp⟩, ho⟩, _⟩ := h
  have gs := good_ntSubj hs
  have gp := good_angle hp
  have go := good_ntObj ho
  have e : lineNT ⟨s, p, o, g⟩ = (ntSubj s ++ ' ' :: (angle p ++ ' ' :: ntObj o)) ++ [' ', '.'] := by
    simp [lineNT, genLineNT]
  have tk : Tok (ntSubj s ++ ' ' :: (angle p ++ ' ' :: ntObj o)) := by
    simpa using tok_join (' ' :: (angle p ++ [' '])) gs.seg.tok go.seg.tok
  simp only [parseLineNT, parseLineNTs, e, stripDot_body tk, parts3 gs.seg gp.seg go.seg, angle_ne_a, if_false,
    gs.clean, gp.clean, go.clean, Option.map_some, encTriple, gs.enc, gp.enc, go.enc]

theorem nt_line_nonl (q : PQuad) (h : WellFormed q = true) : ∀ c ∈ lineNT q, c ≠ '\n' := by
  obtain ⟨s, p, o, g⟩ := q
  simp only [WellFormed, Bool.and_eq_true] at h
  obtain ⟨⟨⟨hs, hp⟩, ho⟩, _⟩ := h
  have gs := (good_ntSubj hs).seg.nonlB
  have gp := (good_angle hp).seg.nonlB
  have go := (good_ntObj ho).seg.nonlB
  have : (lineNT ⟨s, p, o, g⟩).all (fun c => c != '\n') = true := by
    simp [lineNT, genLineNT, List.all_append, gs, gp, go]
  simpa [List.all_eq_true] using this

theorem lineNT_dot (q : PQuad) : ∃ x, lineNT q = x ++ ['.'] :=
  ⟨ntSubj q.s ++ ' ' :: (angle q.p ++ ' ' :: (ntObj q.o ++ [' '])), by simp [lineNT, genLineNT]⟩

def defaultOnly (D : List PQuad) : List PQuad := D.filter fun q => q.g.isNone

theorem genNT_eq (D : List PQuad) : genNT (D.map PQuad.toL) = (defaultOnly D).flatMap fun q => lineNT q ++ ['\n'] := by
  induction D with
  | nil => rfl
  | cons q D ih =>
    obtain ⟨s, p, o, g⟩ := q
    unfold genNT defaultOnly at *
    cases g with
    | none => simp [PQuad.toL, render, lineNT] at ih ⊢; exact ih
    | some g => simp [PQuad.toL] at ih ⊢; exact ih

/-- **N-Triples round trip (default graph)**: for every list of well-formed quads, importing the exported text yields
    exactly the default-graph triples. -/
theorem nt_round_trip_partial (D : List PQuad) (h : ∀ q ∈ D, WellFormed q = true) :
    parseNT (genNT (D.map PQuad.toL)) = (defaultOnly D).map fun q => ⟨.plain q.s, .plain q.p, .plain q.o, none⟩ := by
  rw [genNT_eq]
  have h' : ∀ q ∈ defaultOnly D, WellFormed q = true := fun q hq => h q (List.mem_filter.mp hq).1
  generalize defaultOnly D = E at h'
  unfold parseNT
  induction E with
  | nil => simp [lines, linesGo]
  | cons q E ih =>
    have hq := h' q (by simp)
    have hE := fun x hx => h' x (List.mem_cons_of_mem _ hx)
    simp only [List.flatMap_cons, List.map_cons]
    unfold lines at ih ⊢
    rw [List.append_assoc]
    have : ['\n'] ++ (E.flatMap fun q => lineNT q ++ ['\n']) = '\n' :: (E.flatMap fun q => lineNT q ++ ['\n']) := rfl
    rw [this, linesGo_line _ _ _ (nt_line_nonl q hq)]
    obtain ⟨x, hx⟩ := lineNT_dot q
    have hs : stripCr ([].reverse ++ lineNT q) = lineNT q := by simp [hx, stripCr_dot]
    rw [hs, List.filterMap_cons, nt_line q hq, ih hE]

/- FULL (Turtle):
theorem ttl_round_trip (D : List PQuad) (h : ∀ q ∈ D, WellFormed q ∧ ¬ hasAnnotationMarker q.o) :
    (parseTTL [] (genTTL [] (D.map PQuad.toL))).map (·.2) ≃ some ((defaultOnly D).map …)   (as sets)
Not proved: the Turtle reader is a second tokenizer (`tokenize_turtle_star_line` + the `; , .` statement machine +
`resolve_query_term`); it is transcribed in Model/Lines.lean and tied to the code by the differential run only. -/

/-- Turtle witness of the forced hypothesis `ttl_annotation_marker`: a literal containing `{|` is cut by the annotation
    handling of `flush_object` (model evaluation; replayed on the code by corpus/C14/witnesses.case) -/
theorem ttl_annotation_clash : ∃ q : PQuad, inScopeQuad q.toL = true ∧ edgeShape q.o = false ∧ annotationMarker q.o = true ∧
    (parseTTL [] (genTTL [] [q.toL])).map (·.2) ≠ some [q.toL] :=
  ⟨⟨"http://a".toList, "http://b".toList, "x {| y |}".toList, none⟩, by decide, by decide, by decide, by decide⟩

end Kolibrie.Props.C14
