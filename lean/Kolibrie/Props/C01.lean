import Kolibrie.Lemmas.Implement
/-!
# C01 — SELECT answers equal the SPARQL algebra over the stored dataset

Model: `Kolibrie/Model/Engine.lean` (executor, lowering, SELECT modifiers); specification:
`Kolibrie/Spec/Algebra.lean` (`sem`, three-valued filters, `Extend`).

Proved here (all rows / plans / databases):
* the two-valued filter evaluation of the implementation coincides with SPARQL's three-valued evaluation on
  every row that binds the filter's variables (`filter_agrees`) — the hypothesis is forced: `filter_clash`
  exhibits the deviation on an unbound variable (`!error = true`);
* BIND agrees with `Extend` when its arguments are bound and its target is fresh (`bind_agrees`), and
  deviates otherwise (`bind_clash`);
* group-level FILTER placement: the filters of a group, deferred by the lowering to the end of the group,
  select from the group's solutions exactly the solutions the algebra's group-scoped filters keep
  (`group_filters_agree`);
* ORDER BY is a permutation, DISTINCT/LIMIT/projection facts of `finalize_select` (`order_is_permutation`,
  `limit_is_prefix`, `distinct_no_duplicates`).

* the whole SELECT pipeline is independent of the plan the optimizer picks (`select_plan_independent_partial`):
  for queries whose lowered WHERE clause is safe (`safeL`, decidable) and that use no aggregate / DISTINCT /
  ORDER BY / LIMIT, every assignment of join algorithms yields the same multiset of result rows, namely that of
  the nested-loop reference plan.

/- FULL (checked by the correspondence run against the algebra; not yet proved):
   theorem select_correct : wellScoped [] q.where_ = true →
       ∀ algs, (runSelect db q algs) ~ specSelect db q
   Proved: plan independence (above, via C02's `optimizer_choice_irrelevant`), filter/bind/modifier agreement
   lemmas (this file).  Missing: the induction relating the reference plan `implNl (lower .dflt p)` to `sem p`
   (graph scope carried on scans vs the active graph of the algebra), BIND, sub-selects with joins, and the
   modifiers on permuted inputs (ORDER BY ties, LIMIT cuts and DISTINCT representatives are legal choices, so the
   statement there is "a legal answer", which the harness checks directly). -/
-/
namespace Kolibrie.Props.C01
open Kolibrie.Engine List

def boundIn (row : Row) (vs : List Var) : Prop := ∀ v ∈ vs, (Row.get row v).isSome = true

/-- on rows that bind every variable of the expression, `evaluate_filter_with_ids` is SPARQL evaluation -/
theorem filter_agrees (c : Cond) (row : Row) (h : boundIn row c.vars) :
    c.eval3 row = some (c.eval row) := by
  induction c with
  | cmp v op rhs =>
    cases rhs with
    | var w =>
      have hv := h v (by simp [Cond.vars])
      have hw := h w (by simp [Cond.vars])
      cases hx : Row.get row v with
      | none => simp [hx] at hv
      | some x =>
        cases hy : Row.get row w with
        | none => simp [hy] at hw
        | some y => simp [Cond.eval3, Cond.eval, hx, hy]
    | const r =>
      have hv := h v (by simp [Cond.vars])
      cases hx : Row.get row v with
      | none => simp [hx] at hv
      | some x => simp [Cond.eval3, Cond.eval, hx]
  | and a b iha ihb =>
    have ha := iha (fun v hv => h v (by simp [Cond.vars, hv]))
    have hb := ihb (fun v hv => h v (by simp [Cond.vars, hv]))
    simp only [Cond.eval3, Cond.eval, ha, hb]
    cases a.eval row <;> cases b.eval row <;> rfl
  | or a b iha ihb =>
    have ha := iha (fun v hv => h v (by simp [Cond.vars, hv]))
    have hb := ihb (fun v hv => h v (by simp [Cond.vars, hv]))
    simp only [Cond.eval3, Cond.eval, ha, hb]
    cases a.eval row <;> cases b.eval row <;> rfl
  | not a ih =>
    have ha := ih (fun v hv => h v (by simpa [Cond.vars] using hv))
    simp [Cond.eval3, Cond.eval, ha]

theorem keeps_eq_eval (c : Cond) (row : Row) (h : boundIn row c.vars) : keeps c row = c.eval row := by
  unfold keeps; rw [filter_agrees c row h]; cases c.eval row <;> rfl

/-- the hypothesis of `filter_agrees` is forced: negation over an unbound variable -/
theorem filter_clash : ∃ (c : Cond) (row : Row), keeps c row = false ∧ c.eval row = true :=
  ⟨.not (.cmp 0 "=" (.const "7")), [], by decide, by decide⟩

/-- BIND = `Extend` when the arguments are bound and the target is unbound -/
theorem bind_agrees (args : List Operand) (out : Var) (row : Row)
    (hargs : boundIn row (args.flatMap Operand.vars)) (hout : Row.get row out = none) :
    extendRow args out row = Row.insert row out (concatArgs args row) := by
  unfold extendRow
  simp only
  split
  · rfl
  · rename_i hc
    exfalso; apply hc
    simp only [Bool.and_eq_true, hout, Option.isNone_none, and_true]
    rw [List.all_eq_true]
    intro a ha
    cases a with
    | var v => exact hargs v (by simp only [mem_flatMap]; exact ⟨_, ha, by simp [Operand.vars]⟩)
    | const c => rfl

/-- … and deviates on an unbound argument (the implementation concatenates the empty string) -/
theorem bind_clash : ∃ (args : List Operand) (out : Var) (row : Row),
    extendRow args out row ≠ Row.insert row out (concatArgs args row) :=
  ⟨[.var 0, .const "a"], 1, [], by decide⟩

/-- the executor's plan for the deferred filters of a group is a sequence of `Cond.eval` selections -/
def implFilters (rows : List Row) : List Pat → List Row
  | [] => rows
  | .filter c :: rest => implFilters (rows.filter c.eval) rest
  | _ :: rest => implFilters rows rest

theorem lowerFilters_exec (db : DB) (ctx : Ctx) (inc : List Row) (algs : List JoinAlg) (plan : Logical)
    (elems : List Pat) :
    exec db (implement algs (lowerFilters plan elems)).1 ctx inc =
      implFilters (exec db (implement algs plan).1 ctx inc) elems := by
  induction elems generalizing plan with
  | nil => simp [lowerFilters, implFilters]
  | cons e rest ih =>
    cases e <;> simp only [lowerFilters, implFilters, ih, implement, exec_filter]

/-- **group-scoped FILTER**: on solutions that bind the filters' variables the deferred selections keep
    exactly what the algebra's filters keep -/
theorem group_filters_agree (rows : List Row) (elems : List Pat)
    (h : ∀ c, Pat.filter c ∈ elems → ∀ r ∈ rows, boundIn r c.vars) :
    implFilters rows elems = semFilters rows elems := by
  induction elems generalizing rows with
  | nil => simp [implFilters, semFilters]
  | cons e rest ih =>
    cases e with
    | filter c =>
      simp only [implFilters, semFilters]
      have hc : rows.filter c.eval = rows.filter (keeps c) := by
        apply List.filter_congr
        intro r hr
        exact (keeps_eq_eval c r (h c (by simp) r hr)).symm
      rw [hc]
      apply ih
      intro c' hc' r hr
      exact h c' (by simp [hc']) r (List.mem_filter.1 hr).1
    | _ =>
      simp only [implFilters, semFilters]
      apply ih
      intro c' hc' r hr
      exact h c' (by simp [hc']) r hr

/-! ## solution modifiers -/

theorem insertBy_perm (order : List (Var × Bool)) (x : Row) (l : List Row) : insertBy order x l ~ x :: l := by
  induction l with
  | nil => simp [insertBy]
  | cons y ys ih =>
    unfold insertBy
    split
    · exact Perm.refl _
    · exact ((Perm.cons y ih).trans (Perm.swap x y ys))

/-- ORDER BY only reorders: the multiset of solutions is unchanged -/
theorem order_is_permutation (order : List (Var × Bool)) (rows : List Row) : sortRows order rows ~ rows := by
  unfold sortRows
  induction rows with
  | nil => simp
  | cons x xs ih =>
    simp only [foldr_cons]
    exact (insertBy_perm order x _).trans (Perm.cons x ih)

/-- LIMIT returns a prefix of the (ordered, de-duplicated) sequence: a legal cut -/
theorem limit_is_prefix (spec : Spec) (rows : List Row) (n : Nat) (h : spec.limit = some n) :
    finalizeSub spec rows <+: finalizeSub { spec with limit := none } rows := by
  unfold finalizeSub
  simp only [h]
  exact List.take_prefix _ _

/-- DISTINCT leaves no duplicate solution -/
theorem distinct_no_duplicates (spec : Spec) (rows : List Row) (h : spec.distinct = true) (hl : spec.limit = none) :
    (finalizeSub spec rows).Nodup := by
  unfold finalizeSub
  simp only [h, hl, if_true]
  exact nodup_eraseDups _

/-- without modifiers the answer table is a row-wise image of the solutions: permuted solutions give a
    permuted table -/
theorem finalize_plain_perm (q : Select) (hp : hasAgg (q.spec.proj.getD []) = false)
    (hd : q.spec.distinct = false) (ho : q.spec.order = []) (hl : q.spec.limit = none)
    {a b : List Row} (h : a ~ b) : finalizeSelect q a ~ finalizeSelect q b := by
  unfold finalizeSelect
  simp only [hp, hd, ho, hl, Bool.false_eq_true, if_false, isEmpty_nil, if_true]
  exact h.map _

/-- **SELECT answers do not depend on the plan** (partial: plain projection queries over safe WHERE clauses) -/
theorem select_plan_independent_partial (db : DB) (q : Select)
    (hs : safeL (lower .dflt q.where_) = true)
    (hp : hasAgg (q.spec.proj.getD []) = false)
    (hd : q.spec.distinct = false) (ho : q.spec.order = []) (hl : q.spec.limit = none)
    (a b : List JoinAlg) : runSelect db q a ~ runSelect db q b := by
  unfold runSelect
  apply finalize_plain_perm q hp hd ho hl
  have hc : (⟨datasetView db q, none⟩ : Ctx).WF := by
    unfold datasetView
    split
    · exact nodup_eraseDups _
    · exact nodup_eraseDups _
  exact implement_any_two db _ hs a b _ hc

/-! non-vacuity -/
example : boundIn [(0, "5"), (1, "x")] (Cond.and (.cmp 0 ">" (.const "3")) (.not (.cmp 1 "=" (.var 0)))).vars := by
  intro v hv; simp [Cond.vars] at hv; rcases hv with rfl | rfl | rfl <;> decide
example : sortRows [(0, false)] [[(0, "10")], [(0, "9")], [(0, "-2")]] = [[(0, "-2")], [(0, "9")], [(0, "10")]] := by decide

end Kolibrie.Props.C01
