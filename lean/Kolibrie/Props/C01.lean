import Kolibrie.Lemmas.LowerSound
/-!
# C01 — SELECT answers equal the SPARQL algebra over the stored dataset

Model: `Kolibrie/Model/Engine.lean` (executor, lowering, SELECT modifiers); specification:
`Kolibrie/Spec/Algebra.lean` (`sem`, three-valued filters, `Extend`).

Proved here (all rows / plans / databases):
* the two-valued filter evaluation of the implementation coincides with SPARQL's three-valued evaluation on
  every row that binds the filter's variables (`filter_agrees`) — the hypothesis is forced: `filter_clash`
  exhibits the deviation on an unbound variable (`!error = true`);
* BIND agrees with `Extend` when its arguments are bound and its target is fresh (`bind_agrees`), and
  deviates otherwise (`bind_clash`);
* group-level FILTER placement: the filters of a group, deferred by the lowering to the end of the group,
  select from the group's solutions exactly the solutions the algebra's group-scoped filters keep
  (`group_filters_agree`);
* ORDER BY is a permutation, DISTINCT/LIMIT/projection facts of `finalize_select` (`order_is_permutation`,
  `limit_is_prefix`, `distinct_no_duplicates`).

* the whole SELECT pipeline is independent of the plan the optimizer picks (`select_plan_independent_partial`):
  for queries whose lowered WHERE clause is safe (`safeL`, decidable) and that use no aggregate / DISTINCT /
  ORDER BY / LIMIT, every assignment of join algorithms yields the same multiset of result rows, namely that of
  the nested-loop reference plan.

* **`where_clause_correct`**: for every WHERE clause of the fragment `okPat` (BGPs, nested groups with group-scoped
  FILTERs over certainly-bound variables, UNION, GRAPH <iri> / GRAPH ?g, VALUES/UNDEF, sub-selects with arbitrary
  solution modifiers over one triple pattern), every dataset, every dataset
  clause (FROM / FROM NAMED replacement) and every plan the optimizer may pick, the solutions the executor produces are
  exactly the multiset of the SPARQL algebra; `select_correct_partial` lifts this through `finalize_select` for
  queries without aggregate / DISTINCT / ORDER BY / LIMIT.

/- FULL: `∀ q` of the supported fragment, `runSelect db q algs` is a legal answer for `specSelect db q`.
   Not proved: BIND and sub-selects over more than one triple pattern in the WHERE clause (see `Props/C02.lean`; the
   modifiers of a sub-select see a sequence, and different join algorithms give different sequences), and the modifiers on permuted
   inputs — ORDER BY ties, LIMIT cuts, DISTINCT representatives and the first row of a GROUP are legal choices, so
   equality of tables is not the right statement there; the harness checks sortedness and the legal-cut property on
   the real output. -/
-/
namespace Kolibrie.Props.C01
open Kolibrie.Engine List

/-- on rows that bind every variable of the expression, `evaluate_filter_with_ids` is SPARQL evaluation -/
theorem filter_agrees (c : Cond) (row : Row) (h : boundIn row c.vars) :
    c.eval3 row = some (c.eval row) := filter_agrees' c row h

theorem keeps_eq_eval (c : Cond) (row : Row) (h : boundIn row c.vars) : keeps c row = c.eval row :=
  keeps_eq_eval' c row h

/-- the hypothesis of `filter_agrees` is forced: negation over an unbound variable -/
theorem filter_clash : ∃ (c : Cond) (row : Row), keeps c row = false ∧ c.eval row = true := filter_clash'

/-- BIND = `Extend` when the arguments are bound and the target is unbound -/
theorem bind_agrees (args : List Operand) (out : Var) (row : Row)
    (hargs : boundIn row (args.flatMap Operand.vars)) (hout : Row.get row out = none) :
    extendRow args out row = Row.insert row out (concatArgs args row) := bind_agrees' args out row hargs hout

/-- … and deviates on an unbound argument (the implementation concatenates the empty string) -/
theorem bind_clash : ∃ (args : List Operand) (out : Var) (row : Row),
    extendRow args out row ≠ Row.insert row out (concatArgs args row) := bind_clash'

/-- the executor's plan for the deferred filters of a group is a sequence of `Cond.eval` selections -/
theorem lowerFilters_exec (db : DB) (ctx : Ctx) (inc : List Row) (algs : List JoinAlg) (plan : Logical)
    (elems : List Pat) :
    exec db (implement algs (lowerFilters plan elems)).1 ctx inc =
      implFilters (exec db (implement algs plan).1 ctx inc) elems := lowerFilters_exec' db ctx inc algs plan elems

/-- **group-scoped FILTER**: on solutions that bind the filters' variables the deferred selections keep
    exactly what the algebra's filters keep -/
theorem group_filters_agree (rows : List Row) (elems : List Pat)
    (h : ∀ c, Pat.filter c ∈ elems → ∀ r ∈ rows, boundIn r c.vars) :
    implFilters rows elems = semFilters rows elems := group_filters_agree' rows elems h

/-! ## solution modifiers -/

theorem insertBy_perm (order : List (Var × Bool)) (x : Row) (l : List Row) : insertBy order x l ~ x :: l := by
  induction l with
  | nil => simp [insertBy]
  | cons y ys ih =>
    unfold insertBy
    split
    · exact Perm.refl _
    · exact ((Perm.cons y ih).trans (Perm.swap x y ys))

/-- ORDER BY only reorders: the multiset of solutions is unchanged -/
theorem order_is_permutation (order : List (Var × Bool)) (rows : List Row) : sortRows order rows ~ rows := by
  unfold sortRows
  induction rows with
  | nil => simp
  | cons x xs ih =>
    simp only [foldr_cons]
    exact (insertBy_perm order x _).trans (Perm.cons x ih)

/-- LIMIT returns a prefix of the (ordered, de-duplicated) sequence: a legal cut -/
theorem limit_is_prefix (spec : Spec) (rows : List Row) (n : Nat) (h : spec.limit = some n) :
    finalizeSub spec rows <+: finalizeSub { spec with limit := none } rows := by
  unfold finalizeSub
  simp only [h]
  exact List.take_prefix _ _

/-- DISTINCT leaves no duplicate solution -/
theorem distinct_no_duplicates (spec : Spec) (rows : List Row) (h : spec.distinct = true) (hl : spec.limit = none) :
    (finalizeSub spec rows).Nodup := by
  unfold finalizeSub
  simp only [h, hl, if_true]
  exact nodup_eraseDups _

/-- without modifiers the answer table is a row-wise image of the solutions: permuted solutions give a
    permuted table -/
theorem finalize_plain_perm (q : Select) (hp : hasAgg (q.spec.proj.getD []) = false)
    (hd : q.spec.distinct = false) (ho : q.spec.order = []) (hl : q.spec.limit = none)
    {a b : List Row} (h : a ~ b) : finalizeSelect q a ~ finalizeSelect q b := by
  unfold finalizeSelect
  simp only [hp, hd, ho, hl, Bool.false_eq_true, if_false, isEmpty_nil, if_true]
  exact h.map _

/-- **SELECT answers do not depend on the plan** (partial: plain projection queries over safe WHERE clauses) -/
theorem select_plan_independent_partial (db : DB) (q : Select)
    (hs : safeL (lower .dflt q.where_) = true)
    (hp : hasAgg (q.spec.proj.getD []) = false)
    (hd : q.spec.distinct = false) (ho : q.spec.order = []) (hl : q.spec.limit = none)
    (a b : List JoinAlg) : runSelect db q a ~ runSelect db q b := by
  unfold runSelect
  apply finalize_plain_perm q hp hd ho hl
  have hc : (⟨datasetView db q, none⟩ : Ctx).WF := by
    unfold datasetView
    split
    · exact nodup_eraseDups _
    · exact nodup_eraseDups _
  exact implement_any_two db _ hs a b _ hc

/-- **the WHERE clause is evaluated correctly under every plan** (fragment `okPat`) -/
theorem where_clause_correct (db : DB) (q : Select) (h : okPat q.where_ = true) (algs : List JoinAlg) :
    exec db (implement algs (lower .dflt q.where_)).1 ⟨datasetView db q, none⟩ [[]] ~
      sem db ⟨datasetView db q, none⟩ q.where_ := by
  have hc : (⟨datasetView db q, none⟩ : Ctx).WF := by
    unfold datasetView
    split
    · exact nodup_eraseDups _
    · exact nodup_eraseDups _
  exact plans_compute_algebra db q.where_ h algs _ hc

/-- SELECT answers equal the algebra's, as multisets of rows, for plain projection queries over the fragment -/
theorem select_correct_partial (db : DB) (q : Select) (h : okPat q.where_ = true)
    (hp : hasAgg (q.spec.proj.getD []) = false)
    (hd : q.spec.distinct = false) (ho : q.spec.order = []) (hl : q.spec.limit = none)
    (algs : List JoinAlg) : runSelect db q algs ~ specSelect db q := by
  unfold runSelect specSelect
  exact finalize_plain_perm q hp hd ho hl (where_clause_correct db q h algs)

/-! ## sub-selects -/

/-- **a sub-select under `GRAPH ?g`** (any projection, aggregates, GROUP BY, ORDER BY, DISTINCT, LIMIT over one triple
    pattern) is evaluated, under every plan, to the algebra's solutions: one evaluation of the sub-select per visible
    named graph, against that graph only -/
theorem subselect_under_graph_var_correct (db : DB) (q : Select) (v : Var) (t : Term × Term × Term) (spec : Spec)
    (hq : q.where_ = .graph (.var v) (.group [.sub (.bgp [t]) spec])) (algs : List JoinAlg) :
    exec db (implement algs (lower .dflt q.where_)).1 ⟨datasetView db q, none⟩ [[]] ~
      sem db ⟨datasetView db q, none⟩ q.where_ :=
  where_clause_correct db q (by rw [hq]; rfl) algs

/-- the sub-select case of the fragment is inhabited (also joined with other elements, inside UNION, …) -/
example (t u : Term × Term × Term) (spec : Spec) :
    okPat (.group [.bgp [u], .graph (.var 7) (.group [.sub (.bgp [t]) spec]), .union [.sub (.bgp [t]) spec, .unit]]) = true := rfl

/-- the repaired defect (`fix:` dd38f08), as a witness: with the variable graph scope carried onto the sub-select's scan
    (the plan the old lowering produced) every named graph reports the sub-select's rows of *all* graphs - two rows
    where the algebra has one - whereas the plan of the current lowering returns exactly the algebra's answer -/
theorem carried_graph_scope_clash :
    let db : DB := ⟨[⟨"s", "p", "o", some "g1"⟩], ["g1", "g2"]⟩
    let ctx : Ctx := ⟨View.fromDb db, none⟩
    let spec : Spec := ⟨some [.var 1], false, [], [], none⟩
    let pat : Pat := .graph (.var 0) (.sub (.bgp [(.var 1, .const "p", .var 2)]) spec)
    let oldPlan : Plan := .graph (.subquery (.scan ⟨.var 1, .const "p", .var 2, .var 0⟩) spec) (.var 0)
    (exec db oldPlan ctx [[]]).length = 2 ∧ (sem db ctx pat).length = 1 ∧
      exec db (implBind (lower .dflt pat)) ctx [[]] = sem db ctx pat := by
  decide

/-! ## dataset scoping -/

/-- FROM <g1> FROM <g2> …: the query default graph is the *merge* of the source graphs — a triple that occurs in
    several of them is scanned once -/
theorem default_graph_merge_dedup (db : DB) (view : View) : (defaultTriples db view).Nodup :=
  nodup_eraseDups _

/-- `GRAPH ?g { }` binds `?g` to every visible named graph that exists, empty graphs included -/
theorem graph_var_includes_empty (db : DB) (ctx : Ctx) (v : Var) :
    sem db ctx (.graph (.var v) .unit) = (ctx.view.named.filter (fun g => db.graphExists g)).map (fun g => [(v, g)]) := by
  simp only [sem]
  induction (ctx.view.named.filter (fun g => db.graphExists g)) with
  | nil => rfl
  | cons g gs ih =>
    simp only [flatMap_cons, map_cons, ih]
    simp [nlJoin, mergeRows_nil_right]

/-- with `FROM` but no `FROM NAMED` no named graph is visible: every GRAPH pattern is empty -/
theorem named_invisible_without_from_named (db : DB) (q : Select) (hf : q.from_ ≠ []) (hn : q.fromNamed = [])
    (name : GTerm) (hname : name ≠ .dflt) (p : Pat) :
    sem db ⟨datasetView db q, none⟩ (.graph name p) = [] := by
  have hv : (datasetView db q).named = [] := by
    unfold datasetView
    have : (q.from_.isEmpty && q.fromNamed.isEmpty) = false := by
      cases hq : q.from_ with
      | nil => exact absurd hq hf
      | cons _ _ => simp
    simp [View.mk', hn, hf]
  cases name with
  | dflt => exact absurd rfl hname
  | named g => simp [sem, visibleNamed, hv]
  | var v => simp [sem, hv]

/-! non-vacuity -/
example : boundIn [(0, "5"), (1, "x")] (Cond.and (.cmp 0 ">" (.const "3")) (.not (.cmp 1 "=" (.var 0)))).vars := by
  intro v hv; simp [Cond.vars] at hv; rcases hv with rfl | rfl | rfl <;> decide
example : sortRows [(0, false)] [[(0, "10")], [(0, "9")], [(0, "-2")]] = [[(0, "-2")], [(0, "9")], [(0, "10")]] := by decide

end Kolibrie.Props.C01
