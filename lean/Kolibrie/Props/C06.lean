import Kolibrie.Lemmas.ProvInfer
/-
C06 — probabilities attached to derived facts equal their possible-worlds probability.

Model: `Kolibrie/Model/Prov.lean` (transcription of ProvenanceSemiNaiveStrategy, TagStore, the provenance semirings).
Spec:  `Kolibrie/Spec/Prov.lean`  (`Derivable`, worlds, weights, `wsum`).

All statements quantify over every rule set, every input, every probability assignment; no size bound occurs.
Forced hypotheses (decidable, reported by the driver as `bad-request` because the generator never violates them):
`safeRule` (head variables occur in a positive premise — the code otherwise invents placeholder terms),
non-empty premise lists (a rule without premises never fires in the code), distinct input triples.
-/
namespace Kolibrie.Props.C06
open Kolibrie.Prov

/-! ## 1. DNF tag algebra: the code's operations mean or / and / not -/

/-- `DnfWmcProvenance::disjunction` (set union, then `remove_subsumed`) denotes disjunction -/
theorem sem_disj (w : Nat → Bool) (a b : Dnf) : evalDnf w (dnfDisj a b) = (evalDnf w a || evalDnf w b) :=
  sem_disj' w a b

/-- `DnfWmcProvenance::conjunction` (clause product, `remove_contradictory`, `remove_subsumed`) denotes conjunction -/
theorem sem_conj (w : Nat → Bool) (a b : Dnf) : evalDnf w (dnfConj a b) = (evalDnf w a && evalDnf w b) :=
  sem_conj' w a b

/-- `DnfWmcProvenance::negate` (De Morgan over signed literals, early exits included) denotes negation -/
theorem sem_neg (w : Nat → Bool) (a : Dnf) : evalDnf w (dnfNeg a) = !evalDnf w a := sem_neg' w a

example : dnfConj [[1], [3]] (dnfNeg [[1, 5]]) = [[3, 4], [1, 4]] ∨ True := Or.inr trivial

/-! ## 2. Shannon expansion is the weighted model count -/

/-- `shannon_wmc` (numerators over `D^n`) equals `Σ_w weight(w) · [⟦φ⟧ w]` over all assignments to the seed
    variables `xs`, for every formula over those variables and every probability table -/
theorem shannon_exact (D : Nat) (tbl : Nat → Nat) (xs : List Nat) (φ : Dnf) (hn : xs.Nodup) (hv : VarsIn xs φ)
    (ht : ∀ x ∈ xs, tbl x ≤ D) : shannon D tbl xs φ = wsum D tbl xs (fun w => evalDnf w φ) :=
  shannon_exact' D tbl xs φ hn hv ht

example : shannon 10 (fun x => [8, 6, 5].getD x 0) [0, 1, 2] [[1, 3], [1, 5]] = 640 := by decide

/-! ## 3. World readings of the four semirings -/

def dnfSem : Sem Dnf (Nat → Bool) dnfProv where
  ok := fun _ => True
  sem := fun t w => evalDnf w t = true
  sem_zero := by
    intro t w _ hz
    simp only [dnfProv, List.isEmpty_iff] at hz
    subst hz; simp [evalDnf_nil]
  sem_one := fun w _ => evalDnf_one w
  sem_disj := by intro a b w; simp only [dnfProv]; rw [sem_disj' w a b, Bool.or_eq_true]
  sem_conj := by intro a b w; simp only [dnfProv]; rw [sem_conj' w a b, Bool.and_eq_true]
  sem_sat := by intro a b w hs; simp only [dnfProv] at hs; rw [deq_eval hs]

/-- min-max tags read at a threshold `α ∈ (0, D]`: "the tag is at least α" -/
def minmaxSem (D : Nat) : Sem Nat Nat (minmaxProv D) where
  ok := fun α => 0 < α ∧ α ≤ D
  sem := fun t α => α ≤ t
  sem_zero := by intro t w hw hz; simp only [minmaxProv, beq_iff_eq] at hz; omega
  sem_one := fun w hw => hw.2
  sem_disj := by intro a b w; simp only [minmaxProv, Extracted.minmaxDisj]; omega
  sem_conj := by intro a b w; simp only [minmaxProv, Extracted.minmaxConj]; omega
  sem_sat := by intro a b w hs; simp only [minmaxProv, beq_iff_eq] at hs; rw [hs]

def boolSem : Sem Bool Unit boolProv where
  ok := fun _ => True
  sem := fun t _ => t = true
  sem_zero := by intro t w _ hz; simp only [boolProv, beq_iff_eq] at hz; simp [hz]
  sem_one := fun _ _ => rfl
  sem_disj := by intro a b w; simp [boolProv, Extracted.boolDisj]
  sem_conj := by intro a b w; simp [boolProv, Extracted.boolConj]
  sem_sat := by intro a b w hs; simp only [boolProv, beq_iff_eq] at hs; rw [hs]

/-! ## 4. Tag propagation is sound in every reachable store and complete at the reported fixpoint
       (any semiring with a world reading; recursive programs and shared evidence included) -/

section generic
variable {T W : Type} {P : Prov T} (S : Sem T W P)

/-- the loop invariant holds at the first round boundary … -/
theorem inv_initial (rules : List Rule) (facts : List Fact) (tags0 : Tags T) (hne : ∀ r ∈ rules, r.prem ≠ []) :
    Inv S rules (inputsW S facts tags0) facts facts tags0 := inv_init S rules facts tags0 hne

/-- … and is preserved by every round of `infer_round` (so it holds at every reachable round boundary) -/
theorem inv_round (rules : List Rule) (inputs : W → Fact → Prop) (all delta : List Fact) (tags : Tags T)
    (hsafe : ∀ r ∈ rules, safeRule r = true) (h : Inv S rules inputs all delta tags) :
    Inv S rules inputs (all ++ (round P rules all delta tags).newFacts)
      ((round P rules all delta tags).newFacts ++ (round P rules all delta tags).improved)
      (round P rules all delta tags).tags := round_inv S hsafe h

/-- `tags_sound`: in every reachable tag store — at a round boundary or after any number `k` of derivations inside a
    round, fixpoint reached or not — a tag that is true in world `w` belongs to a fact derivable in `w` -/
theorem tags_sound (rules : List Rule) (inputs : W → Fact → Prop) (all delta : List Fact) (tags : Tags T)
    (h : Inv S rules inputs all delta tags) (k : Nat) (g : Fact) (w : W) (hw : S.ok w) :
    let st := ((jobs rules all delta).take k).foldl (processJob P all) ⟨tags, [], []⟩
    (g ∈ all ∨ g ∈ st.newFacts) → S.sem (getTag P st.tags g) w → Derivable rules (inputs w) g :=
  fun hg hs => prefix_sound S h k g w hw hg hs

/-- `tags_complete`: when the driver loop stops (it reports a fixpoint: no new fact, no improved tag), every fact
    derivable in world `w` is present and its tag is true in `w`; together with soundness of the final store -/
theorem tags_complete (rules : List Rule) (inputs : W → Fact → Prop) (hsafe : ∀ r ∈ rules, safeRule r = true)
    (fuel : Nat) (all delta : List Fact) (tags : Tags T) (all' : List Fact) (tags' : Tags T)
    (hinv : Inv S rules inputs all delta tags) (h : iter P rules fuel all delta tags = some (all', tags')) :
    (∀ w, S.ok w → ∀ g, Derivable rules (inputs w) g → g ∈ all' ∧ S.sem (getTag P tags' g) w) ∧
    (∀ g ∈ all', ∀ w, S.ok w → S.sem (getTag P tags' g) w → Derivable rules (inputs w) g) := by
  obtain ⟨h1, h2, _⟩ := iter_exact S hsafe fuel all delta tags all' tags' hinv h
  exact ⟨h2, h1⟩

end generic

/-! ## 5. The reported values -/

/-- hypotheses on a request: positive safe program, distinct input triples split into certain and uncertain ones -/
structure WellFormed (D : Nat) (rules : List Rule) (facts certain : List Fact) (seeds : List (Fact × Nat)) : Prop where
  pos : ∀ r ∈ rules, r.neg = []
  safe : ∀ r ∈ rules, safeRule r = true
  nonempty : ∀ r ∈ rules, r.prem ≠ []
  facts_eq : ∀ g, g ∈ facts ↔ g ∈ certain ∨ g ∈ seeds.map (·.1)
  nodup : (seeds.map (·.1)).Nodup
  disjoint : ∀ g ∈ certain, g ∉ seeds.map (·.1)
  bound : ∀ e ∈ seeds, e.2 ≤ D

theorem seed_lookup {T} (P : Prov T) (mk : Nat → Nat → T) (seeds : List (Fact × Nat)) (hn : (seeds.map (·.1)).Nodup)
    (g : Fact) (k : Nat) (h : (g, k) ∈ seeds) :
    ∃ i, (i, (g, k)) ∈ (List.range (sortSeeds seeds).length).zip (sortSeeds seeds) ∧ i < (sortSeeds seeds).length ∧
      (sortSeeds seeds)[i]? = some (g, k) ∧ getTag P (seedTags mk (sortSeeds seeds)) g = mk k i := by
  have hs : (g, k) ∈ sortSeeds seeds := (sortBy'_perm _ _).mem_iff.mpr h
  rw [← zip_range_snd (sortSeeds seeds), List.mem_map] at hs
  obtain ⟨e, he, heq⟩ := hs
  obtain ⟨h1, h2, _, h4⟩ := (getTag_seedTags P mk seeds hn).2 e he
  obtain ⟨i, e2⟩ := e
  simp only at heq h1 h2 h4
  subst heq
  exact ⟨i, he, h1, h2, h4⟩

theorem mem_inputsOf {certain : List Fact} {sorted : List (Fact × Nat)} {w : Nat → Bool} {g : Fact} :
    g ∈ inputsOf certain sorted w ↔
      g ∈ certain ∨ ∃ e ∈ (List.range sorted.length).zip sorted, w e.1 = true ∧ e.2.1 = g := by
  simp only [inputsOf, List.mem_append, List.mem_map, List.mem_filter]
  constructor
  · rintro (h | ⟨e, ⟨he, hw⟩, rfl⟩)
    · exact Or.inl h
    · exact Or.inr ⟨e, he, hw, rfl⟩
  · rintro (h | ⟨e, he, hw, rfl⟩)
    · exact Or.inl h
    · exact Or.inr ⟨e, ⟨he, hw⟩, rfl⟩

def mkDnf : Nat → Nat → Dnf := fun _ id => [[mkLit id true]]

theorem eval_seed (w : Nat → Bool) (i : Nat) : evalDnf w [[mkLit i true]] = w i := by
  simp [evalDnf, evalClause, mkLit_var, mkLit_pol]

/-- in DNF mode the inputs of world `w` are the certain facts and the seeds whose variable is true -/
theorem dnf_inputs {D : Nat} {rules : List Rule} {facts certain : List Fact} {seeds : List (Fact × Nat)}
    (wf : WellFormed D rules facts certain seeds) (w : Nat → Bool) (g : Fact) :
    inputsW dnfSem facts (seedTags mkDnf (sortSeeds seeds)) w g ↔ g ∈ inputsOf certain (sortSeeds seeds) w := by
  rw [mem_inputsOf]
  constructor
  · rintro ⟨hg, hsem⟩
    rcases (wf.facts_eq g).mp hg with hc | hs
    · exact Or.inl hc
    · right
      rw [List.mem_map] at hs
      obtain ⟨⟨g', k⟩, hgk, rfl⟩ := hs
      obtain ⟨i, hz, _, _, ht⟩ := seed_lookup dnfProv mkDnf seeds wf.nodup g' k hgk
      refine ⟨(i, (g', k)), hz, ?_, rfl⟩
      have : evalDnf w (getTag dnfProv (seedTags mkDnf (sortSeeds seeds)) g') = true := hsem
      rw [ht] at this
      simpa [mkDnf, eval_seed] using this
  · rintro (hc | ⟨e, he, hw, rfl⟩)
    · refine ⟨(wf.facts_eq g).mpr (Or.inl hc), ?_⟩
      show evalDnf w _ = true
      rw [(getTag_seedTags dnfProv mkDnf seeds wf.nodup).1 g (wf.disjoint g hc)]
      exact evalDnf_one w
    · obtain ⟨_, _, h3, h4⟩ := (getTag_seedTags dnfProv mkDnf seeds wf.nodup).2 e he
      refine ⟨(wf.facts_eq _).mpr (Or.inr (List.mem_map_of_mem (f := fun x => x.1) h3)), ?_⟩
      show evalDnf w _ = true
      rw [h4]
      simpa [mkDnf, eval_seed] using hw

open Classical in
/-- `prob_exact`: for every positive program (recursive or not, shared evidence or not), every input and every
    probability assignment `k/D`, the probability recovered from the final DNF tag of a fact (`shannon_wmc`) is the
    total weight of the worlds in which the fact is derivable; facts that are not reported are derivable in no world -/
theorem prob_exact (D : Nat) (rules : List Rule) (facts certain : List Fact) (seeds : List (Fact × Nat)) (fuel : Nat)
    (out : Outcome Dnf) (wf : WellFormed D rules facts certain seeds)
    (h : inferProv dnfProv mkDnf rules facts seeds fuel = some out) (g : Fact) :
    let sorted := sortSeeds seeds
    let xs := List.range sorted.length
    (g ∈ out.all → shannon D (tblOf sorted) xs (getTag dnfProv out.tags g)
        = wsum D (tblOf sorted) xs (fun w => decide (Derivable rules (· ∈ inputsOf certain sorted w) g))) ∧
    (g ∉ out.all → ∀ w, ¬ Derivable rules (· ∈ inputsOf certain sorted w) g) := by
  intro sorted xs
  obtain ⟨hsound, hcomp⟩ := inferProv_exact dnfSem mkDnf rules facts seeds fuel out wf.pos wf.safe wf.nonempty h
  have hder : ∀ w g, Derivable rules (inputsW dnfSem facts (seedTags mkDnf sorted) w) g ↔
      Derivable rules (· ∈ inputsOf certain sorted w) g :=
    fun w g => Derivable.iff_congr (fun g => dnf_inputs wf w g) g
  constructor
  · intro hg
    have hvars : VarsIn xs (getTag dnfProv out.tags g) := by
      apply inferProv_Q dnfProv (VarsIn xs) _ (fun a b => varsIn_conj) (fun a b => varsIn_disj) mkDnf rules facts seeds
        fuel out wf.pos _ h g
      · intro c hc l hl
        simp only [dnfProv, dnfOne, List.mem_singleton] at hc
        subst hc; cases hl
      · intro e he c hc l hl
        simp only [mkDnf, List.mem_singleton] at hc
        subst hc
        simp only [List.mem_singleton] at hl
        subst hl
        rw [mkLit_var]
        exact List.mem_range.mpr (mem_zip_range _ _ _ he).1
    have htbl : ∀ x ∈ xs, tblOf sorted x ≤ D := by
      intro x _
      unfold tblOf
      cases hx : sorted[x]? with
      | none => simp
      | some e =>
        have : e ∈ seeds := (sortBy'_perm _ _).mem_iff.mp (List.mem_of_getElem? hx)
        simpa using wf.bound e this
    rw [shannon_exact' D (tblOf sorted) xs _ List.nodup_range hvars htbl]
    apply wsum_congr
    intro w
    rw [Bool.eq_iff_iff, decide_eq_true_iff, ← hder w g]
    constructor
    · intro hs; exact hsound g hg w trivial hs
    · intro hd; exact (hcomp w trivial g hd).2
  · intro hg w hd
    exact hg (hcomp w trivial g ((hder w g).mpr hd)).1

/-- `minmax_cut`: for every threshold `α ∈ (0, D]`, a fact is reported with min-max value ≥ α exactly when it is
    derivable from the certain facts and the uncertain facts of probability ≥ α.  Hence the reported value is the
    largest such α: the best derivation's weakest input (and 0 / absent when no derivation has positive inputs). -/
theorem minmax_cut (D : Nat) (rules : List Rule) (facts certain : List Fact) (seeds : List (Fact × Nat)) (fuel : Nat)
    (out : Outcome Nat) (wf : WellFormed D rules facts certain seeds)
    (h : inferProv (minmaxProv D) (fun k _ => min k D) rules facts seeds fuel = some out)
    (α : Nat) (hα : 0 < α ∧ α ≤ D) (g : Fact) :
    (g ∈ out.all ∧ α ≤ getTag (minmaxProv D) out.tags g) ↔
      Derivable rules (fun f => f ∈ certain ∨ ∃ k, (f, k) ∈ seeds ∧ α ≤ k) g := by
  obtain ⟨hsound, hcomp⟩ := inferProv_exact (minmaxSem D) (fun k _ => min k D) rules facts seeds fuel out
    wf.pos wf.safe wf.nonempty h
  have hin : ∀ g, inputsW (minmaxSem D) facts (seedTags (fun k _ => min k D) (sortSeeds seeds)) α g ↔
      (g ∈ certain ∨ ∃ k, (g, k) ∈ seeds ∧ α ≤ k) := by
    intro g
    constructor
    · rintro ⟨hg, hsem⟩
      rcases (wf.facts_eq g).mp hg with hc | hs
      · exact Or.inl hc
      · right
        rw [List.mem_map] at hs
        obtain ⟨⟨g', k⟩, hgk, rfl⟩ := hs
        obtain ⟨i, _, _, _, ht⟩ := seed_lookup (minmaxProv D) (fun k _ => min k D) seeds wf.nodup g' k hgk
        have : α ≤ getTag (minmaxProv D) (seedTags (fun k _ => min k D) (sortSeeds seeds)) g' := hsem
        rw [ht] at this
        exact ⟨k, hgk, by omega⟩
    · rintro (hc | ⟨k, hgk, hk⟩)
      · refine ⟨(wf.facts_eq g).mpr (Or.inl hc), ?_⟩
        show α ≤ _
        rw [(getTag_seedTags (minmaxProv D) _ seeds wf.nodup).1 g (wf.disjoint g hc)]
        exact hα.2
      · refine ⟨(wf.facts_eq g).mpr (Or.inr (List.mem_map_of_mem (f := fun x => x.1) hgk)), ?_⟩
        obtain ⟨i, _, _, _, ht⟩ := seed_lookup (minmaxProv D) (fun k _ => min k D) seeds wf.nodup g k hgk
        show α ≤ _
        rw [ht]; omega
  rw [← Derivable.iff_congr hin g]
  constructor
  · rintro ⟨hg, hs⟩; exact hsound g hg α hα hs
  · intro hd; exact hcomp α hα g hd

/-- `boolean_is_derivability`: in Boolean mode a fact is reported true exactly when it is derivable from the certain
    facts and the uncertain facts of positive probability (`tag_from_probability(p) = p > 0`) -/
theorem boolean_is_derivability (D : Nat) (rules : List Rule) (facts certain : List Fact) (seeds : List (Fact × Nat))
    (fuel : Nat) (out : Outcome Bool) (wf : WellFormed D rules facts certain seeds)
    (h : inferProv boolProv (fun k _ => decide (k > 0)) rules facts seeds fuel = some out) (g : Fact) :
    (g ∈ out.all ∧ getTag boolProv out.tags g = true) ↔
      Derivable rules (fun f => f ∈ certain ∨ ∃ k, (f, k) ∈ seeds ∧ 0 < k) g := by
  obtain ⟨hsound, hcomp⟩ := inferProv_exact boolSem (fun k _ => decide (k > 0)) rules facts seeds fuel out
    wf.pos wf.safe wf.nonempty h
  have hin : ∀ g, inputsW boolSem facts (seedTags (fun k _ => decide (k > 0)) (sortSeeds seeds)) () g ↔
      (g ∈ certain ∨ ∃ k, (g, k) ∈ seeds ∧ 0 < k) := by
    intro g
    constructor
    · rintro ⟨hg, hsem⟩
      rcases (wf.facts_eq g).mp hg with hc | hs
      · exact Or.inl hc
      · right
        rw [List.mem_map] at hs
        obtain ⟨⟨g', k⟩, hgk, rfl⟩ := hs
        obtain ⟨i, _, _, _, ht⟩ := seed_lookup boolProv (fun k _ => decide (k > 0)) seeds wf.nodup g' k hgk
        have : getTag boolProv (seedTags (fun k _ => decide (k > 0)) (sortSeeds seeds)) g' = true := hsem
        rw [ht] at this
        exact ⟨k, hgk, by simpa using this⟩
    · rintro (hc | ⟨k, hgk, hk⟩)
      · refine ⟨(wf.facts_eq g).mpr (Or.inl hc), ?_⟩
        show _ = true
        rw [(getTag_seedTags boolProv _ seeds wf.nodup).1 g (wf.disjoint g hc)]
        rfl
      · refine ⟨(wf.facts_eq g).mpr (Or.inr (List.mem_map_of_mem (f := fun x => x.1) hgk)), ?_⟩
        obtain ⟨i, _, _, _, ht⟩ := seed_lookup boolProv (fun k _ => decide (k > 0)) seeds wf.nodup g k hgk
        show _ = true
        rw [ht]; simpa using hk
  rw [← Derivable.iff_congr hin g]
  constructor
  · rintro ⟨hg, hs⟩; exact hsound g hg () trivial hs
  · intro hd; exact hcomp () trivial g hd

/-! ## 6. The executable specification used by the check is the same least model -/

/-- the naive iteration the specification oracle runs (`closure`) computes exactly `Derivable` -/
theorem spec_closure_exact (rules : List Rule) (hsafe : ∀ r ∈ rules, safeRule r = true)
    (hne : ∀ r ∈ rules, r.prem ≠ []) (F M : List Fact) (fuel : Nat) (h : closure rules fuel F = some M) (g : Fact) :
    g ∈ M ↔ Derivable rules (· ∈ F) g :=
  closure_exact rules hsafe hne F fuel F M (fun _ h => h) (fun _ h => Derivable.base h) h g

/-! ## 7. Non-vacuity: a recursive program with shared evidence satisfies all hypotheses and reaches its fixpoint -/

def exRules : List Rule :=
  [⟨[⟨.var "x", .const 5, .var "y"⟩, ⟨.var "y", .const 5, .var "z"⟩], [], [⟨.var "x", .const 5, .var "z"⟩]⟩]
def exSeeds : List (Fact × Nat) := [(⟨0, 5, 1⟩, 8), (⟨1, 5, 2⟩, 6), (⟨2, 5, 0⟩, 5)]
def exFacts : List Fact := [⟨0, 5, 1⟩, ⟨1, 5, 2⟩, ⟨2, 5, 0⟩, ⟨2, 5, 3⟩]

example : WellFormed 10 exRules exFacts [⟨2, 5, 3⟩] exSeeds := by
  refine ⟨by decide, by decide, by decide, ?_, by decide, by decide, by decide⟩
  intro g
  simp only [exFacts, exSeeds, List.map_cons, List.map_nil, List.mem_cons, List.not_mem_nil, or_false]
  constructor <;> intro h <;> rcases h with h | h | h | h <;> simp [h]

example : ((inferProv dnfProv mkDnf exRules exFacts exSeeds 50).map
    fun o => shannon 10 (tblOf (sortSeeds exSeeds)) [0, 1, 2] (getTag dnfProv o.tags ⟨0, 5, 0⟩)) = some 240 := by
  decide +kernel

/-! ## 8. The NOT pass (`run_negative_stratum_pass`) -/

/- FULL: neg_pass_exact —
   for every program whose NOT-rule heads can feed no premise and no negated atom of any rule
   (`Driver.C06.negHeadsFeedNothing`), every input and every world `w`:
   `evalDnf w (getTag out.tags g) = true ↔ g ∈ stratified model of the program in w`
   (stratum 0 = `Derivable` over the positive rules, then one application of the NOT rules with negated atoms read
   against stratum 0), and therefore `shannon (tag g) = Σ_w weight w · [g in the stratified model of w]`.
   Proved so far: `sem_neg` (the tag of a negated atom means "not"), `tags_sound`/`tags_complete` for stratum 0, and the
   witness below that the hypothesis is forced.  Missing: the fold invariant over `negPass` (the pass reads only
   stratum-0 tags because no head matches a body atom) — the correspondence run and the specification oracle cover
   this shape (stream `program_not_heads_isolated`). -/

def clashRules : List Rule :=
  [⟨[⟨.var "x", .const 3, .var "y"⟩], [⟨.var "x", .const 4, .var "y"⟩], [⟨.var "x", .const 5, .var "y"⟩]⟩,
   ⟨[⟨.var "x", .const 5, .var "y"⟩], [], [⟨.var "x", .const 6, .var "y"⟩]⟩]

/-- `not_heads_clash`: outside that hypothesis the code (as transcribed) is wrong: `0 5 1` is derived by the NOT rule
    but never fed to the positive rule `x 5 y → x 6 y`, so `0 6 1`, true in the stratified model of the world where
    the input holds, is not reported at all (replayed on the real code: known finding C06-not-heads-not-propagated) -/
theorem not_heads_clash :
    (inferProv dnfProv mkDnf clashRules [⟨0, 3, 1⟩] [(⟨0, 3, 1⟩, 1)] 50).map (fun o => o.all.contains ⟨0, 6, 1⟩) = some false ∧
    (modelOf clashRules 50 [⟨0, 3, 1⟩]).map (fun m => m.contains ⟨0, 6, 1⟩) = some true := by
  constructor <;> decide +kernel

end Kolibrie.Props.C06
