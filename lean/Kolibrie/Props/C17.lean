import Kolibrie.Lemmas.Dispatch
/-!
# C17 — query entry points cannot modify data; string entry points fail cleanly

Property theorems only (helper lemmas: `Kolibrie/Lemmas/Dispatch.lean`).  Model: `Kolibrie/Model/Dispatch.lean`
(transcription of `execute_sparql_query`, `execute_update_request`, `parse_request`, `prepare_extensions`,
`execute_select`, `SparqlDatabase::handle_update`, and the index arithmetic of `format_parse_error` as repaired by
`fixes/C17_error_span_char_boundary.patch`).  Specification: `Kolibrie/Spec/Dispatch.lean`.

Quantifiers: every request (`Req`: both parser results, declarations, pattern predicates), every database state
(`Db`), every behaviour of the un-modelled components (`Engine`: evaluation, ML training and materialisation,
update execution), every byte string and every error length for the span arithmetic.

"Never crashes" is proved only for the index arithmetic of error rendering (`error_span_boundary`); panics
elsewhere are observed by the correspondence run, not proved.
-/
namespace Kolibrie.Props.C17
open Kolibrie.Dispatch Kolibrie.Utf8

/-- The decision table, stated outright for all parser results x entries: the query entries never run an
    update, refuse exactly the parsed Update operations, and report a parse error exactly for unparsable text;
    the strict update entry runs exactly parsed updates; `handle_update` additionally accepts what only the
    alias-enabled parser calls an update. -/
theorem dispatch_table :
    (∀ s a, dispatch .httpQuery s a = dispatch .query s a) ∧
    (∀ s a, dispatch .query s a = .select ↔ s = .select) ∧
    (∀ s a, dispatch .query s a = .refused ↔ s = .update) ∧
    (∀ s a, dispatch .query s a = .extOk ↔ s = .ext) ∧
    (∀ s a, dispatch .query s a = .parseError ↔ (s = .err ∨ s = .trailing)) ∧
    (∀ s a, dispatch .query s a ≠ .update ∧ dispatch .query s a ≠ .updateAlias) ∧
    (∀ s a, dispatch .update s a = .update ↔ s = .update) ∧
    (∀ s a, dispatch .update s a = .notUpdate ↔ (s = .select ∨ s = .ext)) ∧
    (∀ s a, dispatch .update s a = .parseError ↔ (s = .err ∨ s = .trailing)) ∧
    (∀ s a, dispatch .httpUpdate s a = .update ↔ s = .update) ∧
    (∀ s a, dispatch .httpUpdate s a = .updateAlias ↔ (s ≠ .update ∧ a = .update)) ∧
    (∀ s a, dispatch .httpUpdate s a = .failed ↔ (s ≠ .update ∧ a ≠ .update)) := by
  refine ⟨?_, ?_, ?_, ?_, ?_, ?_, ?_, ?_, ?_, ?_, ?_, ?_⟩ <;> intro s a <;> cases s <;> cases a <;> simp [dispatch]

/-- With a parser that classifies requests correctly, every entry answers every kind of request as specified. -/
theorem dispatch_meets_spec (e : Entry) (i : Intent) :
    dispatch e (parsedOf i).1 (parsedOf i).2 = specOutcome e i := by
  cases e <;> cases i <;> rfl

/-- The path taken by the full model (with database effects) is the one of the decision table: query entries,
    every request without TRAIN declarations. -/
theorem query_entry_outcome (eng : Engine) (d : Db) (r : Req) (h : r.trains = []) :
    (queryEntry eng d r).2 = dispatch .query r.strict r.alias := by
  unfold queryEntry parseRequest dispatch prepareExtensions
  cases hs : r.strict <;> simp [h, trainAll]

example : ∃ r : Req, r.trains = [] ∧ r.strict = .update :=
  ⟨⟨.update, .update, [], [], [], []⟩, rfl, rfl⟩

/-- ... and the strict update entry. -/
theorem update_entry_outcome (eng : Engine) (d : Db) (r : Req) (h : r.trains = []) :
    (runEntry eng .update d r).2 = dispatch .update r.strict r.alias := by
  unfold runEntry updateRequest parseRequest dispatch prepareExtensions
  cases hs : r.strict <;> simp [h, trainAll]
  repeat' split
  all_goals rfl

/-- **Update syntax submitted to the query entry is refused** and nothing at all changes (not even prefixes or
    declarations): for every engine, database and request that parses as an Update operation. -/
theorem update_refused_at_query_entry (eng : Engine) (d : Db) (r : Req) (h : r.strict = .update) :
    queryEntry eng d r = (d, .refused) ∧ runEntry eng .httpQuery d r = (d, .refused) := by
  simp [runEntry, queryEntry, parseRequest, h]

/-- no registered-and-trained neural relation is mentioned by the request's patterns (decidable; reported by the
    driver as `neural_relation_materialized` when violated) -/
def NoNeuralHit (d : Db) (r : Req) : Prop := ∀ p ∈ r.preds, p ∉ d.trained ∧ p ∉ r.trains

instance (d : Db) (r : Req) : Decidable (NoNeuralHit d r) := by unfold NoNeuralHit; exact inferInstance

/-- **The query-only entry leaves the stored quads and the graph catalog unchanged** — for every request text
    (whatever the parser made of it), every database state and every behaviour of evaluation / training /
    materialisation — *provided* the request's patterns do not mention a trained neural relation.
    The hypothesis is forced: see `query_entry_neural_clash`. -/
theorem query_entry_readonly (eng : Engine) (d : Db) (r : Req) (e : Entry)
    (he : e = .query ∨ e = .httpQuery) (h : NoNeuralHit d r) :
    (runEntry eng e d r).1.data = d.data := by
  have key : (queryEntry eng d r).1.data = d.data := by
    unfold queryEntry parseRequest
    cases hs : r.strict <;> simp only [Bool.false_eq_true, ↓reduceIte]
    · -- select
      split
      · unfold executeSelect
        rw [materializeAll_data]
        · exact prepare_data eng d r
        · intro p hp hc
          rcases prepare_trained eng d r p hc with h1 | h1
          · exact (h p hp).1 h1
          · exact (h p hp).2 h1
      · exact prepare_data eng d r
    · exact prepare_data eng d r
  rcases he with he | he <;> subst he <;> exact key

example : NoNeuralHit ⟨⟨[(1, 2, 3, 0)], [7]⟩, [], ["isFraud"], ["isFraud"]⟩
    ⟨.select, .select, [], [], [], ["gold"]⟩ := by decide

/-- The hypothesis of `query_entry_readonly` is forced by the code: a SELECT whose pattern mentions a trained
    neural relation makes `execute_select` materialise predictions into the store — through the query-only
    entry.  (Replayed on the real code: `corpus/C17/neural_materialisation.case`.) -/
theorem query_entry_neural_clash :
    ∃ (eng : Engine) (d : Db) (r : Req), (queryEntry eng d r).1.data ≠ d.data := by
  refine ⟨⟨fun _ => true, fun ds _ => { ds with quads := (9, 9, 9, 0) :: ds.quads }, fun ds => some ds, fun _ => true⟩,
    ⟨⟨[], []⟩, [], ["isFraud"], ["isFraud"]⟩, ⟨.select, .select, [], [], [], ["isFraud"]⟩, ?_⟩
  decide

/-- A SELECT (or an extension-only request) sent to an *update* entry is answered with an error value and the
    stored data are unchanged, for every engine and state. -/
theorem non_update_at_update_entry (eng : Engine) (d : Db) (r : Req)
    (hs : r.strict = .select ∨ r.strict = .ext) (ha : r.alias = r.strict) :
    (runEntry eng .update d r).1.data = d.data ∧ (runEntry eng .httpUpdate d r).1.data = d.data ∧
    (runEntry eng .httpUpdate d r).2 = .failed := by
  have hd := prepare_data eng d r
  rcases hs with hs | hs <;>
  · simp only [runEntry, handleUpdate, updateRequest, parseRequest, hs, ha, Bool.false_eq_true, ↓reduceIte]
    refine ⟨?_, ?_, ?_⟩ <;> (repeat' split) <;> simp_all [prepare_data]

example : ∃ r : Req, (r.strict = .select ∨ r.strict = .ext) ∧ r.alias = r.strict :=
  ⟨⟨.select, .select, [], [], [], []⟩, Or.inl rfl, rfl⟩

/-- **Malformed requests yield an error value and change nothing**, at every entry, for every engine and
    database state (the whole `Db`, not only the dataset). -/
theorem malformed_is_error (eng : Engine) (d : Db) (r : Req)
    (hs : r.strict = .err ∨ r.strict = .trailing) (ha : r.alias = .err ∨ r.alias = .trailing) :
    runEntry eng .query d r = (d, .parseError) ∧ runEntry eng .httpQuery d r = (d, .parseError) ∧
    runEntry eng .update d r = (d, .parseError) ∧ runEntry eng .httpUpdate d r = (d, .failed) := by
  rcases hs with hs | hs <;> rcases ha with ha | ha <;>
    simp [runEntry, queryEntry, updateRequest, handleUpdate, parseRequest, hs, ha]

example : ∃ r : Req, (r.strict = .err ∨ r.strict = .trailing) ∧ (r.alias = .err ∨ r.alias = .trailing) :=
  ⟨⟨.err, .err, [], [], [], []⟩, Or.inl rfl, Or.inl rfl⟩

/-- **Error rendering cannot index off a character boundary**: for every byte string and every error length
    (also lengths that do not come from a suffix, also lengths larger than the input), the offset handed to
    `&input[..offset]` and both ends of the annotated span are `is_char_boundary` positions inside the input,
    the span is non-empty unless the offset is the end of input, and the offset is the error position snapped
    down (never past it). -/
theorem error_span_boundary (s : Bytes) (elen : Nat) :
    let sp := errorSpan s elen
    isBoundary s sp.1 = true ∧ isBoundary s sp.2 = true ∧ sp.1 ≤ sp.2 ∧ sp.2 ≤ s.length ∧
    (sp.1 < s.length → sp.1 < sp.2) ∧ sp.1 ≤ s.length - elen ∧ sp.1 = errorOffset s elen := by
  simp only [errorSpan, errorOffset]
  have h1 := floorB_le s (s.length - elen)
  have h2 := floorB_boundary s (s.length - elen)
  have h3 := ceilB_spec s (s.length - min (floorB s (s.length - elen) + 1) s.length)
    (min (floorB s (s.length - elen) + 1) s.length) (by omega)
  refine ⟨h2, h3.1, by omega, h3.2.2, by omega, h1, trivial⟩

/-- If the error position already is a boundary it is kept (the repair changes nothing for ASCII input). -/
theorem error_offset_exact (s : Bytes) (elen : Nat) (h : isBoundary s (s.length - elen) = true) :
    errorOffset s elen = s.length - elen := floorB_fix s _ h

example : isBoundary [0x61, 0xC3, 0xA9] (3 - 2) = true := by decide

/-- The span of the code *before* the repair (`offset .. min (offset+1) len`) ends inside a character for the
    well-formed one-character request `é` — the confirmed panic inside `annotate-snippets`. -/
theorem unfixed_span_clash :
    ∃ (s : Bytes) (elen : Nat), WF s ∧ isBoundary s (errorSpanUnfixed s elen).2 = false :=
  ⟨[0xC3, 0xA9], 2, by simp [WF, wellFormed, isCont, leadLen], by decide⟩

end Kolibrie.Props.C17
