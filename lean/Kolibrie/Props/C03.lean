import Kolibrie.Lemmas.UpdateExec
/-!
# C03 — SPARQL Update applies exactly the standard effect, atomically

Model: `Kolibrie/Model/Update.lean` (validation, template instantiation with legality checks and per-solution
blank nodes, `apply_mutations` as two sequential folds of `delete_quad` / `insert_quad` with change counting).
Specification: `Kolibrie/Spec/UpdateSpec.lean` (the W3C set formula).
All statements hold for every dataset, every request and every finite history.
-/
namespace Kolibrie.Props.C03
open Kolibrie.Engine Kolibrie.Update List

/-- **delete-then-insert with change counting = the standard effect**: the sequential application of all
deletions and then all insertions yields exactly `(D ∖ Del) ++ (Ins ∖ (D ∖ Del))`, the graph catalog grows by the
graphs inserted into, `deleted` = number of distinct deleted quads that were present, `inserted` = number of
distinct inserted quads that were absent after the deletions -/
theorem mutations_standard_effect (db : DB) (dels inss : List Quad) :
    applyMutations db dels inss = specApply db dels inss := applyMutations_eq db dels inss

/-- the quad set after an update is `(D ∖ Del) ∪ Ins` -/
theorem standard_effect_membership (db : DB) (dels inss : List Quad) (q : Quad) :
    q ∈ (applyMutations db dels inss).1.quads ↔ (q ∈ db.quads ∧ q ∉ dels) ∨ q ∈ inss := by
  rw [applyMutations_eq]
  simp only [specApply, mem_append, mem_filter, mem_eraseDups, contains_eq_mem, decide_eq_true_eq,
    Bool.not_eq_eq_eq_not, Bool.not_true, decide_eq_false_iff_not, not_and, Classical.not_not]
  constructor
  · rintro (h | ⟨h, _⟩)
    · exact Or.inl h
    · exact Or.inr h
  · rintro (h | h)
    · exact Or.inl h
    · by_cases hk : q ∈ db.quads ∧ q ∉ dels
      · exact Or.inl hk
      · exact Or.inr ⟨h, fun hq => Classical.byContradiction (fun hd => hk ⟨hq, hd⟩)⟩

/-- every request behaves as the specification says (same state, same counts, same rejections) -/
theorem update_refines_spec (db : DB) (u : Upd) (base : Nat) :
    applyUpdate db u base = specUpdate db u base := by
  unfold applyUpdate specUpdate
  split
  · rfl
  · cases u with
    | insertData qs => simp [applyMutations_eq]
    | deleteData qs => simp [applyMutations_eq]
    | modify del ins w =>
      simp only [applyMutations_eq]
      cases del <;> cases ins <;> rfl
    | deleteWhere qs => simp [applyMutations_eq]

/-- **every history**: after any finite sequence of requests (malformed ones interleaved) the stored dataset
and every reported summary are the specification's -/
theorem history_refines_spec (db : DB) (us : List Upd) : runHistory db us = specHistory db us := by
  unfold runHistory specHistory
  have : applyUpdate = specUpdate := by funext d u b; exact update_refines_spec d u b
  rw [this]

/-- a rejected request leaves the dataset unchanged; requests are rejected exactly for the syntactic reasons of
`sparql_update_core` -/
theorem rejected_unchanged (db : DB) (u : Upd) (base : Nat) :
    (applyUpdate db u base = none ↔ u.valid = false) ∧
    (applyUpdate db u base = none → (runHistory db [u]).2 = db) := by
  constructor
  · unfold applyUpdate
    cases hv : u.valid
    · simp
    · cases u <;> simp
  · intro h
    have hv : u.valid = false := by
      unfold applyUpdate at h
      cases hv : u.valid
      · rfl
      · cases u <;> simp [hv] at h
    have h0 : applyUpdate db u 0 = none := by unfold applyUpdate; simp [hv]
    simp [runHistory, historyWith, h0]

/-- the WHERE clause is evaluated once, on the pre-operation dataset; both templates are instantiated from that
one solution sequence before any mutation -/
theorem modify_uses_pre_state (db : DB) (del ins : List QT) (w : Pat) (base : Nat)
    (hv : (Upd.modify (some del) (some ins) w).valid = true) :
    applyUpdate db (.modify (some del) (some ins) w) base =
      some (applyMutations db
        (instTemplates db del (sem db ⟨View.fromDb db, none⟩ w) base)
        (instTemplates db ins (sem db ⟨View.fromDb db, none⟩ w) base)) := by
  unfold applyUpdate; simp [hv]

/-- **the update is correct whichever plan evaluates its WHERE clause**: for WHERE clauses of the fragment `okPat`
    (proved to be plan-independent in C01/C02) and blank-node-free templates, running the executor on the plan chosen
    by *any* join-algorithm oracle yields the standard effect — same quad set, same graph catalog, same counts — as
    the specification that evaluates the WHERE clause by the algebra on the pre-operation dataset -/
theorem modify_correct_under_every_plan (db : DB) (del ins : List QT) (w : Pat) (base : Nat) (algs : List JoinAlg)
    (hw : okPat w = true) (hd : bnodeFree del = true) (hi : bnodeFree ins = true) :
    let rows := sem db ⟨View.fromDb db, none⟩ w
    let spec := specApply db (instTemplates db del rows base) (instTemplates db ins rows base)
    let impl := modifyExec db (some del) (some ins) w base algs
    (∀ q, q ∈ impl.1.quads ↔ q ∈ spec.1.quads) ∧ (∀ g, g ∈ impl.1.graphs ↔ g ∈ spec.1.graphs) ∧ impl.2 = spec.2 := by
  intro rows spec impl
  have hc : (⟨View.fromDb db, none⟩ : Ctx).WF := nodup_eraseDups _
  have hperm := plans_compute_algebra db w hw algs ⟨View.fromDb db, none⟩ hc
  have e : impl = specApply db
      (instTemplates db del (exec db (implement algs (lower .dflt w)).1 ⟨View.fromDb db, none⟩ [[]]) base)
      (instTemplates db ins (exec db (implement algs (lower .dflt w)).1 ⟨View.fromDb db, none⟩ [[]]) base) := by
    show modifyExec db (some del) (some ins) w base algs = _
    unfold modifyExec
    simp only [applyMutations_eq]
  rw [e]
  exact specApply_congr db _ _ _ _
    (fun q => instTemplates_perm db del _ _ base hd hperm q)
    (fun q => instTemplates_perm db ins _ _ base hi hperm q)

/-- deleting and re-inserting the same present quad is reported as one deletion and one insertion, re-inserting
an existing quad that is not deleted is reported as no change (instances of `mutations_standard_effect`) -/
example : (applyMutations ⟨[⟨"s", "p", "o", none⟩], []⟩ [⟨"s", "p", "o", none⟩] [⟨"s", "p", "o", none⟩]).2 = ⟨1, 1⟩ := by decide
example : (applyMutations ⟨[⟨"s", "p", "o", none⟩], []⟩ [] [⟨"s", "p", "o", none⟩]).2 = ⟨0, 0⟩ := by decide
/-- non-vacuity of `rejected_unchanged`: a DELETE template with a blank node is rejected -/
example : (Upd.modify (some [⟨.bnode "b", .const "p", .var 0, none⟩]) none .unit).valid = false := by decide

end Kolibrie.Props.C03
