import Kolibrie.Model.Hybrid
import Kolibrie.Spec.Worlds
import Kolibrie.Lemmas.Hybrid
/-!
# C08 — hybrid probability results never certify a wrong decision

Property theorems only (helper lemmas: `Kolibrie/Lemmas/Hybrid.lean`).  Model: `Kolibrie/Model/Hybrid.lean`
(lineage store with `canonical_nary`, best-first proof enumeration, interval computation, retained-proof count,
adaptive-k escalation controller, fixed-k evaluator; clock `Nat → Nat` = value of the i-th `HybridClock::now()`,
SDD invocations as an oracle giving checkpoint count and node-budget outcome).  Specification:
`Kolibrie/Spec/Worlds.lean` (`specMass ss φ / specTotal ss` = probability of `φ` as an explicit sum over possible
worlds: every independent seed true or false, exactly one member of every exclusive group).

Quantifiers: every theorem about the controller holds for **every** configuration (valid or not), **every**
clock function (hence every expiry point of either deadline, monotone or not), **every** SDD oracle (any number of
checkpoints, any node-budget outcome, per invocation) and every amount of fuel.  No size bound appears anywhere.
The only hypothesis is `seedsOk ss` (distinct seed ids, `num ≤ den`, groups sum to one), reported by the driver
as `H dup_seed_ids / bad_probability / group_not_normalized` when a request violates it.
-/
namespace Kolibrie.Props.C08
open Kolibrie.Hybrid

/-! ## the lineage store -/

/-- `canonical_nary` (flattening nested nodes of the same kind, dropping identities, returning the annihilator,
    sort + dedup, complement detection in both directions, single-child collapse, hash-consing) preserves
    meaning: the returned id denotes the conjunction (disjunction) of the items, old ids keep their meaning and
    the arena invariant is maintained. -/
theorem canonical_nary_sem (st : Store) (hw : st.WF) (isAnd : Bool) (items : List Nat)
    (hitems : ∀ x ∈ items, x < st.nodes.length) :
    (st.canonicalNary isAnd items).1.WF ∧ st.Ext (st.canonicalNary isAnd items).1 ∧
    (st.canonicalNary isAnd items).2 < (st.canonicalNary isAnd items).1.nodes.length ∧
    ∀ w, sem w ((st.canonicalNary isAnd items).1.tree (st.canonicalNary isAnd items).2) =
      (if isAnd then items.all (fun x => sem w (st.tree x)) else items.any (fun x => sem w (st.tree x))) :=
  canonicalNary_spec st hw isAnd items hitems

/-- `LineageStore::literal` and `LineageStore::not` (double negation and constant folding included) -/
theorem literal_not_sem (st : Store) (hw : st.WF) :
    (∀ s, (st.literal s).1.WF ∧ st.Ext (st.literal s).1 ∧ (st.literal s).2 < (st.literal s).1.nodes.length ∧
      ∀ w, sem w ((st.literal s).1.tree (st.literal s).2) = w.contains s) ∧
    (∀ id, id < st.nodes.length →
      (st.not id).1.WF ∧ st.Ext (st.not id).1 ∧ (st.not id).2 < (st.not id).1.nodes.length ∧
      ∀ w, sem w ((st.not id).1.tree (st.not id).2) = !sem w (st.tree id)) :=
  ⟨fun s => literal_spec st hw s, fun id hid => not_spec st hw id hid⟩

/-- the empty store satisfies the arena invariant (so every store built through the four operations does) -/
theorem store_new_wf : Store.new.WF := Store.WF_new

example : (Store.new.literal 3).1.WF := (literal_spec _ Store.WF_new 3).1

/-! ## the proof enumeration -/

/-- **Cover invariant**, initially: the start state of `enumerate_proofs` satisfies it. -/
theorem cover_init (ss : List Seed) (q : Nat → Bool) (φ : L) (hφ : allLits q φ = true) :
    Inv ss q φ { frontier := [{ pending := [φ], proof := [], ub := total (units ss), seq := 0 }], emitted := [], seq := 0 } := by
  constructor
  · intro w hw; right
    exact ⟨_, List.mem_singleton.2 rfl, by simp [PState.sat, covers, semAll, hw]⟩
  · simp
  · intro s hs' w hsat
    simp only [List.mem_singleton] at hs'
    subst hs'
    simpa [PState.sat, covers, semAll] using hsat
  · intro s hs'
    simp only [List.mem_singleton] at hs'
    subst hs'
    simp [proofMass, prodFactors_nil]
  · intro s hs'
    simp only [List.mem_singleton] at hs'
    subst hs'
    simp [allLitsL, hφ]
  · simp

/-- **Cover invariant**, one step (generic form used for every branch of the loop body — `False`, `True`, literal,
    `And`, `Or`, complete-and-subsumed, complete-and-replacing): if the popped state `s` is replaced by states `new`
    and the emitted list by `em` such that every world of `s` is still covered and nothing unsound is added, the
    invariant — every world satisfying `φ` satisfies an emitted proof or a frontier state; every emitted proof and
    every frontier state implies `φ`; upper bounds are the products of their proofs — is preserved. -/
theorem cover_step (ss : List Seed) (q : Nat → Bool) (φ : L) (st : EState) (s : PState) (rest new : List PState)
    (em : List Proof) (k : Nat) (hinv : Inv ss q φ st) (hpop : popMax st.frontier = some (s, rest))
    (h1 : ∀ w, s.sat w = true → (∃ e ∈ em, covers e w = true) ∨ (∃ s' ∈ new, s'.sat w = true))
    (h2 : ∀ e ∈ st.emitted, ∀ w, covers e w = true → ∃ e' ∈ em, covers e' w = true)
    (h3 : ∀ e' ∈ em, (∀ w, covers e' w = true → sem w φ = true) ∧ ∀ x ∈ e', q x = true)
    (h4 : ∀ s' ∈ new, (∀ w, s'.sat w = true → s.sat w = true) ∧ proofMass ss s'.proof = some s'.ub ∧
        (∀ x ∈ s'.proof, q x = true) ∧ allLitsL q s'.pending = true) :
    Inv ss q φ { frontier := new ++ rest, emitted := em, seq := k } :=
  Inv.step ss q φ st s rest new em k hinv hpop h1 h2 h3 h4

/-- the expansion of a pending node produces exactly the states `cover_step` needs (all five node kinds) -/
theorem cover_expand (ss : List Seed) (q : Nat → Bool) (s : PState) (f : L) (pend : List L) (seq : Nat)
    (new : List PState) (n : Nat) (h : expand ss s f pend seq = .push new n)
    (hub : proofMass ss s.proof = some s.ub)
    (hq : (∀ x ∈ s.proof, q x = true) ∧ allLits q f = true ∧ allLitsL q pend = true) :
    (∀ w, new.any (·.sat w) = (covers s.proof w && sem w f && semAll w pend)) ∧
    (∀ s' ∈ new, proofMass ss s'.proof = some s'.ub) ∧
    (∀ s' ∈ new, (∀ x ∈ s'.proof, q x = true) ∧ allLitsL q s'.pending = true) :=
  expand_spec ss q s f pend seq new n h hub hq

/-- **Cover invariant at every exit of the loop**, for every clock, cap, deadline, start state and fuel: every
    returned proof implies `φ`; an exhausted frontier means the proofs cover `φ`; a bounded residual `m` satisfies
    `P(φ) ≤ P(⋁ proofs) + m`. -/
theorem cover_loop (ss : List Seed) (hs : seedsOk ss = true) (q : Nat → Bool)
    (hq : ∀ x, q x = true → x ∉ grpIds (units ss)) (φ : L) (cap : Nat) (clock : Nat → Nat) (deadline : Nat)
    (fuel : Nat) (st : EState) (i : Nat) (hinv : Inv ss q φ st) :
    EnumSpec ss q φ (enumLoop ss cap clock deadline fuel st i).1 :=
  enumLoop_spec ss hs q hq φ cap clock deadline fuel st i hinv

/-- **Bounds are sound**: whenever the enumeration of a lineage without exclusive seeds completes (at any clock
    reading, with any cap) and `interval_from_enumeration` yields an interval for `retained` retained proofs, then
    `lower = P(⋁ retained) ≤ P(φ) ≤ upper` (upper = lower + probe mass + frontier mass, clamped). -/
theorem bounds_sound (ss : List Seed) (hs : seedsOk ss = true) (φ : L)
    (hφ : allLits (fun s => !isExclusive ss s) φ = true)
    (cap : Nat) (clock : Nat → Nat) (deadline fuel i : Nat) (proofs : List Proof) (residual : Residual) (i' : Nat)
    (henum : enumerateProofs ss φ cap clock deadline fuel i = (.ok proofs residual, i'))
    (retained lo hi : Nat)
    (hint : intervalFromEnumeration ss (mass ss (dnf (proofs.take retained))) proofs retained residual = .interval lo hi) :
    lo = specMass ss (dnf (proofs.take retained)) ∧ lo ≤ specMass ss φ ∧ specMass ss φ ≤ hi := by
  have hq : ∀ x, (fun s => !isExclusive ss s) x = true → x ∉ grpIds (units ss) := by
    intro x hx; exact nonexcl_notin_grp ss hs x (by simpa using hx)
  have hE := enumerateProofs_spec ss hs _ hq φ hφ cap clock deadline fuel i
  rw [henum] at hE
  have := interval_sound ss hs _ hq φ proofs residual hE retained lo hi hint
  exact ⟨by rw [this.1, mass_eq_spec ss hs], this.2⟩

/-- **Exhausted frontier = exact value**: if the enumeration ends with an empty frontier and at most `k` proofs,
    the retained-proof count equals `P(φ)`. -/
theorem exact_when_exhausted (ss : List Seed) (hs : seedsOk ss = true) (φ : L)
    (hφ : allLits (fun s => !isExclusive ss s) φ = true)
    (k : Nat) (clock : Nat → Nat) (deadline fuel i : Nat) (proofs : List Proof) (i' : Nat)
    (henum : enumerateProofs ss φ (k + 1) clock deadline fuel i = (.ok proofs .Exhausted, i'))
    (hlen : proofs.length ≤ k) :
    mass ss (dnf (proofs.take (min proofs.length k))) = specMass ss φ := by
  have hq : ∀ x, (fun s => !isExclusive ss s) x = true → x ∉ grpIds (units ss) := by
    intro x hx; exact nonexcl_notin_grp ss hs x (by simpa using hx)
  have hE := enumerateProofs_spec ss hs _ hq φ hφ (k + 1) clock deadline fuel i
  rw [henum] at hE
  rw [Nat.min_eq_left hlen, List.take_length, mass_eq_spec ss hs]
  apply Nat.le_antisymm
  · apply specMass_mono
    intro w hw
    rw [sem_dnf, List.any_eq_true] at hw
    obtain ⟨e, he, hc⟩ := hw
    exact hE.1 e he w hc
  · apply specMass_mono
    intro w hw
    obtain ⟨e, he, hc⟩ := hE.2.2.1 rfl w hw
    rw [sem_dnf, List.any_eq_true]; exact ⟨e, he, hc⟩

/-! ## the escalation controller -/

/-- **No result certifies a wrong decision.**  For every snapshot of well-formed seeds, every lineage formula
    (monotone or not, with or without exclusive seeds, with or without missing seeds), every configuration, every
    clock (so: deadline expiry at any reading of either budget), every SDD oracle (any checkpoint counts, any
    node-budget outcome) and any fuel:
    `Exact p` ⇒ `p = P(φ)`; `Bounded [lo,hi]` ⇒ `lo ≤ P(φ) ≤ hi`; `Alert` ⇒ `P(φ) ≥ θ`; `NoAlert` ⇒ `P(φ) < θ`;
    `Exact`/`Bounded` always carry a decision; `NeedsExact` carries only sound partial bounds. -/
theorem decision_sound (ss : List Seed) (hs : seedsOk ss = true) (cfg : Config) (φ : L)
    (clock : Nat → Nat) (oracle : SddOracle) (fuel : Nat) :
    soundResult ss cfg φ (evaluateHybrid ss cfg φ clock oracle fuel).1 :=
  evaluateHybrid_sound ss hs cfg φ clock oracle fuel

/-- The verdict depends on the formula only through its meaning: a result computed for the *canonicalised* root `φ`
    is sound for any formula `ψ` with the same truth table (e.g. the un-canonicalised one the caller wrote down;
    `canonical_nary_sem` and `literal_not_sem` provide the equality step by step).  This is what the correspondence
    run's specification oracle evaluates. -/
theorem decision_sound_sem (ss : List Seed) (hs : seedsOk ss = true) (cfg : Config) (φ ψ : L)
    (hsem : ∀ w, sem w φ = sem w ψ) (clock : Nat → Nat) (oracle : SddOracle) (fuel : Nat) :
    soundResult ss cfg ψ (evaluateHybrid ss cfg φ clock oracle fuel).1 := by
  have h := decision_sound ss hs cfg φ clock oracle fuel
  have e : specMass ss φ = specMass ss ψ := specMass_congr ss φ ψ hsem
  cases hr : (evaluateHybrid ss cfg φ clock oracle fuel).1 <;> rw [hr] at h <;> simp only [soundResult] at h ⊢
  · rw [← e]; exact h
  · rw [← e]; exact h
  · rw [← e]; exact h

/-- **Never a guessed decision**: whatever the clock does (expiry at any reading), whatever the SDD budgets do, the
    controller's result is one of the four certified kinds — which `decision_sound` shows correct — or the explicit
    `NeedsExact` (decision `Indeterminate`).  There is no other way out of the controller. -/
theorem result_kinds (ss : List Seed) (cfg : Config) (φ : L) (clock : Nat → Nat) (oracle : SddOracle) (fuel : Nat) :
    certKind (evaluateHybrid ss cfg φ clock oracle fuel).1 := by
  unfold evaluateHybrid
  split
  · trivial
  · simp only
    generalize hp : (if ((metadata ss φ).monotone && !(metadata ss φ).hasExclusive) = true then
            topkLoop ss cfg φ clock oracle fuel (clock 0 + cfg.b1) (cfg.kMax + 1) cfg.kInit { clk := { i := 1 } }
          else (none, { clk := { i := 1 } })) = p
    obtain ⟨early, st⟩ := p
    simp only
    cases early with
    | some r =>
      simp only
      split at hp
      · exact topkLoop_kind ss cfg φ clock oracle fuel _ _ _ _ r (by rw [hp])
      · simp at hp
    | none =>
      simp only
      split <;> simp [certKind]

/-- **Non-monotone or exclusive lineage never takes the top-k path**: the controller goes straight to the exact
    stage (result `Exact … ExactSdd` or `NeedsExact` without bounds), `evaluate_topk` refuses, and the enumeration
    itself refuses a `Not` node. -/
theorem negation_never_topk (ss : List Seed) (cfg : Config) (φ : L) (clock : Nat → Nat) (oracle : SddOracle)
    (fuel : Nat) (h : hasNeg φ = true ∨ allLits (fun s => !isExclusive ss s) φ = false) :
    (match (evaluateHybrid ss cfg φ clock oracle fuel).1 with
      | .Exact _ _ r m => r = .ExactSdd ∧ m.exactUsed = true
      | .Bounded _ _ _ _ _ => False
      | .NeedsExact lo hi _ _ => lo = none ∧ hi = none
      | .Fuel => False) ∧
    (∀ k budget nb, k ≠ 0 → ∃ r, evaluateTopk ss φ k budget nb clock oracle fuel = .err r ∧
        (r = .NegationRequiresExact ∨ r = .ExclusivityRequiresExact)) ∧
    (∀ s c pend seq, expand ss s (.not c) pend seq = .err .NegationRequiresExact) := by
  have hguard : ((metadata ss φ).monotone && !(metadata ss φ).hasExclusive) = false := by
    simp only [metadata]
    rcases h with h | h <;> simp [h]
  refine ⟨?_, ?_, ?_⟩
  · have aux : (∃ p d m, (evaluateHybrid ss cfg φ clock oracle fuel).1 = .Exact p d .ExactSdd m ∧ m.exactUsed = true) ∨
        (∃ r m, (evaluateHybrid ss cfg φ clock oracle fuel).1 = .NeedsExact none none r m) := by
      unfold evaluateHybrid
      split
      · exact Or.inr ⟨_, _, rfl⟩
      · simp only [hguard, Bool.false_eq_true, ↓reduceIte]
        split
        · exact Or.inl ⟨_, _, _, rfl, rfl⟩
        · exact Or.inr ⟨_, _, rfl⟩
    rcases aux with ⟨p, d, m, he, hm⟩ | ⟨r, m, he⟩
    · rw [he]; exact ⟨rfl, hm⟩
    · rw [he]; exact ⟨rfl, rfl⟩
  · intro k budget nb hk
    unfold evaluateTopk
    simp only [hk, ↓reduceIte]
    rcases h with h | h
    · exact ⟨_, by simp [metadata, h], Or.inl rfl⟩
    · by_cases hn : hasNeg φ = true
      · exact ⟨_, by simp [metadata, hn], Or.inl rfl⟩
      · have hn : hasNeg φ = false := by simpa using hn
        exact ⟨_, by simp [metadata, hn, h], Or.inr rfl⟩
  · intros; rfl

/-- `evaluate_topk` at a fixed k: a certified lower bound, an interval containing `P(φ)`, exact when the frontier is
    exhausted — for every clock and SDD oracle. -/
theorem topk_sound (ss : List Seed) (hs : seedsOk ss = true) (φ : L) (k budget nb : Nat) (clock : Nat → Nat)
    (oracle : SddOracle) (fuel : Nat) (lower lo hi ku gain : Nat) (fe cap : Bool)
    (h : evaluateTopk ss φ k budget nb clock oracle fuel = .ok lower lo hi ku fe cap gain) :
    lower ≤ specMass ss φ ∧ lo ≤ specMass ss φ ∧ specMass ss φ ≤ hi ∧ (fe = true → lower = specMass ss φ) := by
  unfold evaluateTopk at h
  split at h
  · simp at h
  · simp only at h
    split at h
    · simp at h
    · split at h
      · simp at h
      · rename_i hneg hex
        have hφ : allLits (fun s => !isExclusive ss s) φ = true := by
          simpa [metadata] using hex
        have hq : ∀ x, (fun s => !isExclusive ss s) x = true → x ∉ grpIds (units ss) := by
          intro x hx; exact nonexcl_notin_grp ss hs x (by simpa using hx)
        have hE := enumerateProofs_spec ss hs _ hq φ hφ (k + 1) clock (clock 0 + budget) fuel 1
        split at h
        · simp at h
        · simp at h
        · simp at h
        · rename_i proofs residual i1 hres heq
          rw [heq] at hE
          simp only at hE
          split at h
          · simp at h
          · rename_i lw o c2 hrw
            have hlw : lw = mass ss (dnf (proofs.take (min proofs.length k))) :=
              retainedWmc_some _ _ _ _ _ _ _ _ (by rw [hrw])
            subst hlw
            split at h
            · rename_i lo' hi' hint
              simp only [TopKOut.ok.injEq] at h
              obtain ⟨rfl, rfl, rfl, _, hfe, _, _⟩ := h
              obtain ⟨hlo, h1, h2⟩ := interval_sound ss hs _ hq φ proofs residual hE _ _ _ hint
              refine ⟨by rw [← hlo]; exact h1, h1, h2, ?_⟩
              intro hfet
              rw [← hfe] at hfet
              simp only [Bool.and_eq_true, beq_iff_eq, decide_eq_true_eq] at hfet
              obtain ⟨hr, hlen⟩ := hfet
              apply Nat.le_antisymm (by rw [← hlo]; exact h1)
              rw [Nat.min_eq_left hlen, List.take_length, mass_eq_spec ss hs]
              apply specMass_mono
              intro w hw
              obtain ⟨e, he, hc⟩ := hE.2.2.1 hr w hw
              rw [sem_dnf, List.any_eq_true]; exact ⟨e, he, hc⟩
            · simp at h
            · simp at h

/-! ## non-vacuity: the hypotheses are satisfiable and every kind of result occurs -/

/-- the fixture of the repository's own tests: x = 0.8, y = 0.6, z = 0.5 (tenths), φ = (x ∧ y) ∨ (x ∧ z), P = 0.64 -/
def exSeeds : List Seed := [⟨0, 8, 10, none⟩, ⟨1, 6, 10, none⟩, ⟨2, 5, 10, none⟩]
def exRoot : L := .or [.and [.lit 0, .lit 1], .and [.lit 0, .lit 2]]
def exCfg (tn : Nat) : Config := { tn := tn, en := 2, fn := 0, cd := 100, kInit := 1, kMax := 1, kGrowth := 2, b1 := 25, b2 := 250, nodeBudget := 1000 }
def exOracle : SddOracle := fun _ _ => { readings := 3, nodesOk := true }

example : seedsOk exSeeds = true := by decide +kernel
example : specMass exSeeds exRoot = 640 ∧ specTotal exSeeds = 1000 := by decide +kernel
-- threshold 0.3, k = 1: certified Alert from the lower bound 0.48
example : (match (evaluateHybrid exSeeds (exCfg 30) exRoot (fun _ => 0) exOracle 100).1 with
    | .Bounded 480 880 .Alert .LowerBoundCrossedThreshold _ => true | _ => false) = true := by decide +kernel
-- threshold 0.9: certified NoAlert from the upper bound 0.88
example : (match (evaluateHybrid exSeeds (exCfg 90) exRoot (fun _ => 0) exOracle 100).1 with
    | .Bounded 480 880 .NoAlert .UpperBoundBelowThreshold _ => true | _ => false) = true := by decide +kernel
-- threshold 0.6: neither bound decides; the controller escalates to the exact stage
example : (match (evaluateHybrid exSeeds (exCfg 60) exRoot (fun _ => 0) exOracle 100).1 with
    | .Exact 640 .Alert .ExactSdd _ => true | _ => false) = true := by decide +kernel
-- the same with a clock that runs past every deadline from the fifth reading on: no decision, sound partial bounds
example : (match (evaluateHybrid exSeeds (exCfg 60) exRoot (fun i => if i < 5 then 0 else 1000 * i) exOracle 100).1 with
    | .NeedsExact _ _ .SddBudget _ => true | _ => false) = true := by decide +kernel

-- the store: x ∧ ¬x collapses to FALSE, x ∨ ¬x to TRUE, nested conjunctions are flattened and deduplicated
example :
    let s0 := Store.new
    let (s1, x) := s0.literal 7
    let (s2, y) := s1.literal 9
    let (s3, nx) := s2.not x
    let (s4, xy) := s3.and [x, y]
    ((s4.and [x, nx]).2, (s4.or [nx, 0, x]).2, (s4.and [xy, 1, x, y]).2) = (0, 1, xy) := by decide +kernel
-- bounds_sound / exact_when_exhausted: an enumeration that completes with a bounded residual, and one that exhausts
example : (enumerateProofs exSeeds exRoot 2 (fun _ => 0) 5 100 0).1 matches .ok [[0, 1], [0, 2]] (.Bounded 0) := by
  decide +kernel
example : (enumerateProofs exSeeds exRoot 3 (fun _ => 0) 5 100 0).1 matches .ok [[0, 1], [0, 2]] .Exhausted := by
  decide +kernel
example : intervalFromEnumeration exSeeds (mass exSeeds (dnf [[0, 1]])) [[0, 1], [0, 2]] 1 (.Bounded 0) = .interval 480 880 := by
  decide +kernel
example : allLits (fun s => !isExclusive exSeeds s) exRoot = true := by decide +kernel
end Kolibrie.Props.C08
