import Kolibrie.Lemmas.LowerSound
/-!
# C02 — query answers do not depend on the plan the optimizer happens to choose

Model: `Kolibrie/Model/Engine.lean` (`exec` = `execute_with_ids_and_input`, the three join executors,
`execute_bind_join` chunking).  `~` is `List.Perm` (equality of solution multisets).

Proved here, for **all** databases, contexts, plans and solution sequences:
* the hash join and the nested-loop join return the same multiset (`hash_eq_nl`);
* the executor distributes over concatenation of the incoming solutions, hence the chunk size of the bind join
  — i.e. the number of worker threads — never changes the multiset (`chunking_irrelevant`);
* the executor respects permutations of its input (`exec_respects_perm`), so the order in which a scan
  group's left side produces its rows is irrelevant;
* if the right operand of a join is input-independent, the bind join, the hash join and the nested-loop join
  return the same multiset (`join_algorithms_agree`).

* **input independence** (`exec_input_independent`): on the safe fragment (every operator the lowering produces
  except BIND; each FILTER's variables bound by its own input) executing a plan with incoming solutions equals
  joining them with the plan's own solutions — for scans (all graph scopes, merged default graph, graph
  variables), star joins, unions, GRAPH (fixed and variable), filters, VALUES, sub-selects and all three joins;
* hence the bind join, the hash join and the nested-loop join all compute the join of their operands' own
  solutions (`join_algorithms_agree_safe`), and the order of the operands is irrelevant (`join_order_irrelevant`).

* the side condition is decidable (`syntactic_safety_suffices`: FILTER variables ⊆ the variables the filter's input
  certainly binds), and **whatever assignment of {bind, hash, nested-loop} the cost model makes to the join nodes
  of a safe logical plan, the physical plan returns the same multiset** (`optimizer_choice_irrelevant`) — the cost
  model and the statistics are an arbitrary oracle `algs`.

* **`optimizer_sound`**: for every group pattern of the fragment `okPat` (BGPs, nested groups whose FILTERs only
  mention variables the group certainly binds, UNION, GRAPH <iri> / GRAPH ?g, VALUES with UNDEF), every database, every
  well-formed dataset view and **every** join-algorithm oracle, the physical plan obtained from the real lowering
  computes exactly the multiset the SPARQL algebra assigns to the pattern.

/- FULL: the same statement for the whole supported fragment (`wellScoped [] pat`).  Not proved for: BIND (needs
   freshness of the target among incoming variables), sub-selects over more than one triple pattern (`finalize_subquery` is not permutation-invariant:
   LIMIT / first-row-of-group, so the statement there must be "a legal answer"), and the optimizer's scan reordering
   and star rewrite inside one BGP (`reorder_logical`, `is_star_query`), which are covered pairwise by
   `join_order_irrelevant` / `star_is_scan_chain`.  The correspondence run checks all of these against the algebra
   on generated inputs. -/
-/
namespace Kolibrie.Props.C02
open Kolibrie.Engine List

/-- `hash_join_solution_sequences` ≃ `join_solution_sequences` on every pair of solution sequences -/
theorem hash_eq_nl (l r : List Row) : hashJoin l r ~ nlJoin l r := hashJoin_perm_nlJoin l r

/-- executing on `a ++ b` = executing on `a` and on `b` (multiset), every plan -/
theorem exec_distributes (db : DB) (p : Plan) (ctx : Ctx) (a b : List Row) :
    exec db p ctx (a ++ b) ~ exec db p ctx a ++ exec db p ctx b := exec_append db p ctx a b

theorem exec_respects_perm (db : DB) (p : Plan) (ctx : Ctx) {x y : List Row} (h : x ~ y) :
    exec db p ctx x ~ exec db p ctx y := exec_perm db p ctx h

/-- **however the bind join cuts its left solutions into chunks** (chunk size `n` = left rows / threads,
    any `n`), the concatenated result is the multiset of the unchunked execution -/
theorem chunking_irrelevant (db : DB) (p : Plan) (ctx : Ctx) (n : Nat) (inc : List Row) :
    execChunked db p ctx n inc ~ exec db p ctx inc := by
  unfold execChunked
  have key : ∀ (cs : List (List Row)), cs.flatMap (exec db p ctx) ~ exec db p ctx cs.flatten := by
    intro cs
    induction cs with
    | nil => simp [exec_nil]
    | cons c cs ih =>
      simp only [flatMap_cons, flatten_cons]
      exact ((Perm.refl _).append ih).trans (exec_append db p ctx c cs.flatten).symm
  have := key (chunks n inc)
  rwa [chunks_flatten] at this

/-- the three join executors agree whenever the right operand is input-independent; the hash/nested-loop
    agreement needs no hypothesis at all -/
theorem join_algorithms_agree (db : DB) (l r : Plan) (ctx : Ctx) (inc : List Row) :
    exec db (.hashJoin l r) ctx inc ~ exec db (.nlJoin l r) ctx inc ∧
    (InputIndep db r → exec db (.bindJoin l r) ctx inc ~ exec db (.nlJoin l r) ctx inc) := by
  constructor
  · simp only [exec_hashJoin, exec_nlJoin, hash_or_nl_empty]
    exact guarded_hash_perm _ _
  · intro h
    simp only [exec_bindJoin, exec_nlJoin, hash_or_nl_empty]
    exact h ctx _

/-- leaves that never look at their input are input-independent -/
theorem leaves_input_independent (db : DB) (vars : List Var) (rows : List (List (Option Val)))
    (i : Plan) (spec : Spec) :
    InputIndep db .unit ∧ InputIndep db .empty := ⟨inputIndep_unit db, inputIndep_empty db⟩

/-- **Input independence** on the safe fragment, for every database, well-formed context (visible named graphs
    form a set) and canonical incoming solution sequence -/
theorem exec_input_independent (db : DB) (p : Plan) (hs : Safe db p) (ctx : Ctx) (hc : ctx.WF)
    (inc : List Row) (hi : AllWF inc) : exec db p ctx inc ~ nlJoin inc (exec db p ctx [[]]) :=
  exec_input_join db p hs ctx hc inc hi

/-- the three join executors compute the same multiset: the join of the operands' own solutions -/
theorem join_algorithms_agree_safe (db : DB) (l r : Plan) (hl : Safe db l) (hr : Safe db r) (ctx : Ctx)
    (hc : ctx.WF) :
    exec db (.bindJoin l r) ctx [[]] ~ nlJoin (exec db l ctx [[]]) (exec db r ctx [[]]) ∧
    exec db (.hashJoin l r) ctx [[]] ~ nlJoin (exec db l ctx [[]]) (exec db r ctx [[]]) ∧
    exec db (.nlJoin l r) ctx [[]] ~ nlJoin (exec db l ctx [[]]) (exec db r ctx [[]]) :=
  joins_agree_safe db l r hl hr ctx hc

/-- **the textual order of two operands never changes the answer** (with any of the join algorithms) -/
theorem join_order_irrelevant (db : DB) (l r : Plan) (hl : Safe db l) (hr : Safe db r) (ctx : Ctx) (hc : ctx.WF) :
    exec db (.bindJoin l r) ctx [[]] ~ exec db (.bindJoin r l) ctx [[]] := by
  have h1 := (joins_agree_safe db l r hl hr ctx hc).1
  have h2 := (joins_agree_safe db r l hr hl ctx hc).1
  exact h1.trans ((nlJoin_comm _ _ (exec_wf db l ctx _ allWF_unit) (exec_wf db r ctx _ allWF_unit)).trans h2.symm)

/-- a star join is the bind-join chain of its scans -/
theorem star_is_scan_chain (db : DB) (ctx : Ctx) (p : QPat) (ps : List QPat) (inc : List Row) :
    exec db (.star (p :: ps)) ctx inc = exec db (.star ps) ctx (exec db (.scan { p with g := .dflt }) ctx inc) := by
  rw [exec_star, exec_star, exec_scan]; rfl

/-- dataset views built by the engine are well formed -/
theorem views_wellformed (db : DB) (d : List (Option Val)) (n : List Val) (a : Option Val) :
    (⟨View.mk' d n, a⟩ : Ctx).WF ∧ (⟨View.fromDb db, a⟩ : Ctx).WF :=
  ⟨nodup_eraseDups _, nodup_eraseDups _⟩

/-- a decidable sufficient condition for `Safe` -/
theorem syntactic_safety_suffices (db : DB) (p : Plan) (h : safeSyn p = true) : Safe db p :=
  safe_of_safeSyn db p h

/-- **the optimizer's choice among the join algorithms never changes the answer**: any two assignments `a`, `b`
    of algorithms to the join nodes of a safe logical plan give the same multiset, in every database and
    well-formed dataset view — both equal the all-nested-loop reference plan -/
theorem optimizer_choice_irrelevant (db : DB) (L : Logical) (h : safeL L = true) (a b : List JoinAlg)
    (ctx : Ctx) (hc : ctx.WF) :
    exec db (implement a L).1 ctx [[]] ~ exec db (implement b L).1 ctx [[]] ∧
    exec db (implement a L).1 ctx [[]] ~ exec db (implNl L) ctx [[]] :=
  ⟨implement_any_two db L h a b ctx hc, implement_irrelevant db L h a ctx hc⟩

/-- **Whatever plan the optimizer builds, the answer is the algebra's** (fragment `okPat`): the cost model, the
    statistics and the join algorithms are the arbitrary oracle `algs` -/
theorem optimizer_sound (db : DB) (p : Pat) (h : okPat p = true) (algs : List JoinAlg) (ctx : Ctx) (hc : ctx.WF) :
    exec db (implement algs (lower .dflt p)).1 ctx [[]] ~ sem db ctx p :=
  plans_compute_algebra db p h algs ctx hc

/-! non-vacuity -/
example : okPat (.group [.bgp [(.var 0, .const "p", .var 1), (.var 1, .const "q", .var 2)],
    .union [.group [.bgp [(.var 0, .const "r", .var 3)]], .group [.graph (.var 4) (.bgp [(.var 0, .const "r", .var 3)])]],
    .graph (.named "g") (.group [.values [5] [[some "a"], [none]], .bgp [(.var 5, .var 6, .var 0)]]),
    .filter (.and (.cmp 1 ">" (.const "3")) (.not (.cmp 0 "=" (.var 2))))]) = true := by decide
example : safeL (lower .dflt (.group [.bgp [(.var 0, .const "p", .var 1), (.var 1, .const "q", .var 2)],
    .union [.group [.bgp [(.var 0, .const "r", .var 3)]], .group [.graph (.var 4) (.bgp [(.var 0, .const "r", .var 3)])]],
    .filter (.and (.cmp 1 ">" (.const "3")) (.not (.cmp 0 "=" (.var 2))))])) = true := by decide
example (db : DB) : Safe db (.bindJoin (.scan ⟨.var 0, .const "p", .var 1, .dflt⟩)
    (.union (.scan ⟨.var 0, .const "q", .var 2, .var 3⟩) (.values [1] [[some "a"], [none]]))) := by
  simp [Safe]

example : hashJoin [[(0, "a"), (1, "b")], [(1, "c")]] [[(0, "a")], [(2, "z")], [(0, "q")]] =
    [[(0, "a"), (1, "b")], [(0, "a"), (1, "b"), (2, "z")], [(0, "a"), (1, "c")], [(1, "c"), (2, "z")], [(0, "q"), (1, "c")]] := by
  decide
example : chunks 2 [1, 2, 3, 4, 5] = [[1, 2], [3, 4], [5]] := by
  rw [chunks]; simp; rw [chunks]; simp; rw [chunks]; simp

end Kolibrie.Props.C02
