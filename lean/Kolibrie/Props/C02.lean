import Kolibrie.Lemmas.Engine
/-!
# C02 — query answers do not depend on the plan the optimizer happens to choose

Model: `Kolibrie/Model/Engine.lean` (`exec` = `execute_with_ids_and_input`, the three join executors,
`execute_bind_join` chunking).  `~` is `List.Perm` (equality of solution multisets).

Proved here, for **all** databases, contexts, plans and solution sequences:
* the hash join and the nested-loop join return the same multiset (`hash_eq_nl`);
* the executor distributes over concatenation of the incoming solutions, hence the chunk size of the bind join
  — i.e. the number of worker threads — never changes the multiset (`chunking_irrelevant`);
* the executor respects permutations of its input (`exec_respects_perm`), so the order in which a scan
  group's left side produces its rows is irrelevant;
* if the right operand of a join is input-independent, the bind join, the hash join and the nested-loop join
  return the same multiset (`join_algorithms_agree`).

/- FULL (not yet proved; the correspondence run checks it against the algebra on generated inputs):
   theorem optimizer_sound : wellScoped [] pat = true →
       ∀ algs, exec db (lower .dflt algs pat).1 ctx [[]] ~ sem db ctx pat
   Missing: input independence of scans and of joins needs associativity/commutativity of `mergeRows` on
   canonical (sorted) rows; the side condition `wellScoped` is the decidable predicate of `Spec/Algebra.lean`
   and is reported by the driver in the `H` section. -/
-/
namespace Kolibrie.Props.C02
open Kolibrie.Engine List

/-- `hash_join_solution_sequences` ≃ `join_solution_sequences` on every pair of solution sequences -/
theorem hash_eq_nl (l r : List Row) : hashJoin l r ~ nlJoin l r := hashJoin_perm_nlJoin l r

/-- executing on `a ++ b` = executing on `a` and on `b` (multiset), every plan -/
theorem exec_distributes (db : DB) (p : Plan) (ctx : Ctx) (a b : List Row) :
    exec db p ctx (a ++ b) ~ exec db p ctx a ++ exec db p ctx b := exec_append db p ctx a b

theorem exec_respects_perm (db : DB) (p : Plan) (ctx : Ctx) {x y : List Row} (h : x ~ y) :
    exec db p ctx x ~ exec db p ctx y := exec_perm db p ctx h

/-- **however the bind join cuts its left solutions into chunks** (chunk size `n` = left rows / threads,
    any `n`), the concatenated result is the multiset of the unchunked execution -/
theorem chunking_irrelevant (db : DB) (p : Plan) (ctx : Ctx) (n : Nat) (inc : List Row) :
    execChunked db p ctx n inc ~ exec db p ctx inc := by
  unfold execChunked
  have key : ∀ (cs : List (List Row)), cs.flatMap (exec db p ctx) ~ exec db p ctx cs.flatten := by
    intro cs
    induction cs with
    | nil => simp [exec_nil]
    | cons c cs ih =>
      simp only [flatMap_cons, flatten_cons]
      exact ((Perm.refl _).append ih).trans (exec_append db p ctx c cs.flatten).symm
  have := key (chunks n inc)
  rwa [chunks_flatten] at this

/-- the three join executors agree whenever the right operand is input-independent; the hash/nested-loop
    agreement needs no hypothesis at all -/
theorem join_algorithms_agree (db : DB) (l r : Plan) (ctx : Ctx) (inc : List Row) :
    exec db (.hashJoin l r) ctx inc ~ exec db (.nlJoin l r) ctx inc ∧
    (InputIndep db r → exec db (.bindJoin l r) ctx inc ~ exec db (.nlJoin l r) ctx inc) := by
  constructor
  · simp only [exec_hashJoin, exec_nlJoin, hash_or_nl_empty]
    exact guarded_hash_perm _ _
  · intro h
    simp only [exec_bindJoin, exec_nlJoin, hash_or_nl_empty]
    exact h ctx _

/-- leaves that never look at their input are input-independent -/
theorem leaves_input_independent (db : DB) (vars : List Var) (rows : List (List (Option Val)))
    (i : Plan) (spec : Spec) :
    InputIndep db .unit ∧ InputIndep db .empty := ⟨inputIndep_unit db, inputIndep_empty db⟩

/-! non-vacuity -/
example : hashJoin [[(0, "a"), (1, "b")], [(1, "c")]] [[(0, "a")], [(2, "z")], [(0, "q")]] =
    [[(0, "a"), (1, "b")], [(0, "a"), (1, "b"), (2, "z")], [(0, "a"), (1, "c")], [(1, "c"), (2, "z")], [(0, "q"), (1, "c")]] := by
  decide
example : chunks 2 [1, 2, 3, 4, 5] = [[1, 2], [3, 4], [5]] := by
  rw [chunks]; simp; rw [chunks]; simp; rw [chunks]; simp

end Kolibrie.Props.C02
