/-
Specification for C04: the store is one abstract set of quads plus a set of named-graph
identities.  Nothing else.
-/
import Kolibrie.Model.Store
namespace Kolibrie.Store

structure Abs where
  quads : List Quad
  graphs : List Nat     -- named-graph identities (≥ 1)
deriving Repr

def absInit : Abs := ⟨[], []⟩

def specStep (a : Abs) : Op → Abs × Bool
  | .ins q =>
      let gs := if q.g != 0 then insL a.graphs q.g else a.graphs
      if q ∈ a.quads then (⟨a.quads, gs⟩, false) else (⟨insL a.quads q, gs⟩, true)
  | .del q => if q ∈ a.quads then (⟨delL a.quads q, a.graphs⟩, true) else (a, false)
  | .create g => if g == 0 then (a, false) else (⟨a.quads, insL a.graphs g⟩, !decide (g ∈ a.graphs))
  | .clear g => (⟨a.quads.filter (fun q => !(q.g == g)), a.graphs⟩, true)
  | .drop g =>
      if g == 0 then (⟨a.quads.filter (fun q => !(q.g == 0)), a.graphs⟩, true)
      else if g ∈ a.graphs then (⟨a.quads.filter (fun q => !(q.g == g)), delL a.graphs g⟩, true)
      else (a, false)
  | .clearAll => (absInit, true)
  | .rebuild => (a, true)

def specRun (ops : List Op) : Abs := ops.foldl (fun a op => (specStep a op).1) absInit

/-- what a lookup must return, as a predicate on quads -/
def specMatch (a : Abs) (g : Nat) (sp pp op : Option Nat) (q : Quad) : Prop :=
  q ∈ a.quads ∧ q.g = g ∧ matchQ sp pp op q = true

end Kolibrie.Store
