import Kolibrie.Model.Dispatch
/-
Specification for C17: what each entry point must answer for each *intended* kind of request, and when the
dataset may change.  `Intent` is what the request text is (decided by the generator that built it, not by the
parser under test).
-/
namespace Kolibrie.Dispatch

inductive Intent
  | sel     -- a SELECT query (possibly preceded by extension declarations)
  | upd     -- one of the six standard Update forms
  | alias   -- legacy standalone `INSERT { … }` / `DELETE { … }`
  | ext     -- extension-only request (MODEL / NEURAL RELATION / RULE / REGISTER …)
  | bad     -- malformed text
  deriving DecidableEq, Repr

/-- what a correct parser returns for the two flag values -/
def parsedOf : Intent → Parsed × Parsed
  | .sel => (.select, .select)
  | .upd => (.update, .update)
  | .alias => (.err, .update)
  | .ext => (.ext, .ext)
  | .bad => (.err, .err)

/-- the required answer -/
def specOutcome : Entry → Intent → Outcome
  | .query, .sel | .httpQuery, .sel => .select
  | .query, .upd | .httpQuery, .upd => .refused
  | .query, .alias | .httpQuery, .alias => .parseError
  | .query, .ext | .httpQuery, .ext => .extOk
  | .query, .bad | .httpQuery, .bad => .parseError
  | .update, .sel => .notUpdate
  | .update, .upd => .update
  | .update, .alias => .parseError
  | .update, .ext => .notUpdate
  | .update, .bad => .parseError
  | .httpUpdate, .upd => .update
  | .httpUpdate, .alias => .updateAlias
  | .httpUpdate, _ => .failed

/-- may the stored quads / graph catalog differ afterwards?  Only when an update was executed. -/
def mayChange (o : Outcome) : Bool := o == .update || o == .updateAlias

end Kolibrie.Dispatch
