import Kolibrie.Model.Sld
import Kolibrie.Model.Repairs
/-
Specification for C18: the least model of facts and (positive, filter-free) rules, with derivation height.
-/
namespace Kolibrie.SldSpec
open Kolibrie.Terms

/-- least model: a fact, or the instance of a rule conclusion whose premise instances are all derivable -/
inductive Derivable (F : List Fact) (P : List Rule) : Fact → Prop
  | fact {f : Fact} : f ∈ F → Derivable F P f
  | rule {r : Rule} {c : Pattern} (θ : String → Nat) : r ∈ P → c ∈ r.conclusion →
      (∀ p, p ∈ r.premise → Derivable F P (p.inst θ)) → Derivable F P (c.inst θ)

/-- derivable by a derivation tree of height at most `n` (a fact is a tree of height 0) -/
inductive DerivableD (F : List Fact) (P : List Rule) : Nat → Fact → Prop
  | fact {n : Nat} {f : Fact} : f ∈ F → DerivableD F P n f
  | rule {n : Nat} {r : Rule} {c : Pattern} (θ : String → Nat) : r ∈ P → c ∈ r.conclusion →
      (∀ p, p ∈ r.premise → DerivableD F P n (p.inst θ)) → DerivableD F P (n + 1) (c.inst θ)

/-- a fact is an instance of a goal pattern -/
def Matches (goal : Pattern) (f : Fact) : Prop := ∃ σ : String → Nat, goal.inst σ = f

/-! executable form (for the driver): bottom-up rounds, round `k` holds the facts of height ≤ `k` -/

open Kolibrie.Repairs in
def solveAll (S : List Fact) : List Pattern → Binding → List Binding
  | [], b => [b]
  | p :: ps, b => S.flatMap fun f =>
      match matchPat p f b with
      | some b' => solveAll S ps b'
      | none => []

open Kolibrie.Repairs in
def consequences (P : List Rule) (S : List Fact) : List Fact :=
  P.flatMap fun r => (solveAll S r.premise []).flatMap fun b => r.conclusion.map fun c => instB c b

def addNew (S : List Fact) : List Fact → List Fact
  | [] => S
  | f :: fs => if f ∈ S then addNew S fs else addNew (S ++ [f]) fs

def levels (F : List Fact) (P : List Rule) : Nat → List Fact
  | 0 => addNew [] F
  | n + 1 => addNew (levels F P n) (consequences P (levels F P n))

open Kolibrie.Repairs in
/-- answers of a goal: bindings of the goal's variables for the facts of height ≤ `d` that match it -/
def specAnswers (F : List Fact) (P : List Rule) (d : Nat) (goal : Pattern) : List Binding :=
  (levels F P d).filterMap fun f => matchPat goal f []

end Kolibrie.SldSpec
