import Kolibrie.Model.Sdd
/-
Specification for C07: Boolean functions as predicates over assignments (`Asg = Nat → Bool`), truth tables over
the variables `0 … n-1`, and the weighted model count / its derivative as sums over all assignments of a
variable list.
-/
namespace Kolibrie.Sdd

/-- a Boolean function -/
abbrev Fn := Asg → Bool

def Fn.false : Fn := fun _ => Bool.false
def Fn.true : Fn := fun _ => Bool.true
def Fn.lit (v : Nat) (pol : Bool) : Fn := fun σ => σ v == pol
def Fn.and (f g : Fn) : Fn := fun σ => f σ && g σ
def Fn.or (f g : Fn) : Fn := fun σ => f σ || g σ
def Fn.not (f : Fn) : Fn := fun σ => !f σ
def Fn.op : Op → Fn → Fn → Fn
  | .and => Fn.and
  | .or => Fn.or

/-- "exactly one of `vs` is true" (`vs` taken as a list: a repeated variable counts twice, as in the formula
the code builds) -/
def Fn.exactlyOne (vs : List Nat) : Fn := fun σ => (vs.filter (fun v => σ v)).length == 1

/-- update of an assignment -/
def upd (σ : Asg) (v : Nat) (x : Bool) : Asg := fun u => if u = v then x else σ u

/-- the assignment of variables `0 … n-1` encoded by the bits of `k` (variable `i` = bit `i`) -/
def asgOfBits (k : Nat) : Asg := fun v => k.testBit v

/-- truth table over variables `0 … n-1`: entry `k` is the value under `asgOfBits k` -/
def truthTable (n : Nat) (f : Fn) : List Bool := (List.range (2 ^ n)).map (fun k => f (asgOfBits k))

/-- **weighted model count as a truth-table sum**: sum over all assignments of the variables `vars` (the other
variables are read from `σ`) of `[f holds] · ∏ weight of the chosen literal`.  Written by recursion on `vars`:
each variable contributes its positive weight on the branch where it is true and its negative weight on the
branch where it is false. -/
def ttWmc (pw nw : Nat → Rat) : List Nat → Asg → Fn → Rat
  | [], σ, f => if f σ then 1 else 0
  | v :: vs, σ, f => pw v * ttWmc pw nw vs (upd σ v true) f + nw v * ttWmc pw nw vs (upd σ v false) f

/-- weights of a manager as total functions (defaults of `wmc_inner`: positive 1, negative 0) -/
def posOf (l : List Rat) : Nat → Rat := fun v => l.getD v (Kolibrie.Extracted.sddDefaultPos : Nat)
def negOf (l : List Rat) : Nat → Rat := fun v => l.getD v (Kolibrie.Extracted.sddDefaultNeg : Nat)

def fupd (w : Nat → Rat) (v : Nat) (x : Rat) : Nat → Rat := fun u => if u = v then x else w u

/-- **derivative of the truth-table sum** with respect to the probability `p` of variable `v`:
independent variable (weights `p`, `1-p`): literal weights `(1, -1)`; exclusive-group variable (weights `p`,
constant `1`): literal weights `(1, 0)`. -/
def ttGrad (pw nw : Nat → Rat) (kind : Kind) (v : Nat) (vars : List Nat) (σ : Asg) (f : Fn) : Rat :=
  match kind with
  | .indep => ttWmc (fupd pw v 1) (fupd nw v (-1)) vars σ f
  | .excl _ => ttWmc (fupd pw v 1) (fupd nw v 0) vars σ f

/-- `f` never holds for both values of `v` (true of every `v` in a group `G` when `f → exactlyOne G`) -/
def Determined (f : Fn) (v : Nat) : Prop := ∀ σ, ¬ (f (upd σ v true) = true ∧ f (upd σ v false) = true)

/-- decidable version over the variables `0 … n-1` (used by the driver to report the hypothesis) -/
def determinedB (n : Nat) (f : Fn) (v : Nat) : Bool :=
  (List.range (2 ^ n)).all (fun k => !(f (upd (asgOfBits k) v true) && f (upd (asgOfBits k) v false)))

end Kolibrie.Sdd
