import Kolibrie.Model.Hybrid
/-
Specification for C08: the probability of a lineage formula as an explicit possible-world sum.

A world fixes every independent seed to true or false and picks exactly one member of every exclusive group.
Its weight is the product of `num` (seed true / member picked) and `den − num` (independent seed false).
`specMass ss φ / specTotal ss` is the probability of `φ`.
-/
namespace Kolibrie.Hybrid

/-- all worlds (list of true seed ids) with their weights -/
def worlds : List U → List (List Nat × Nat)
  | [] => [([], 1)]
  | .ind s :: us =>
      (worlds us).flatMap fun (w, wt) => [(s.id :: w, s.num * wt), (w, (s.den - s.num) * wt)]
  | .grp ms :: us =>
      (worlds us).flatMap fun (w, wt) => ms.map fun m => (m.id :: w, m.num * wt)

def sumWeights (f : List Nat → Bool) : List (List Nat × Nat) → Nat
  | [] => 0
  | (w, wt) :: rest => (if f w then wt else 0) + sumWeights f rest

/-- mass of the worlds in which `φ` is true -/
def specMass (ss : List Seed) (φ : L) : Nat := sumWeights (fun w => sem w φ) (worlds (units ss))

/-- mass of all worlds -/
def specTotal (ss : List Seed) : Nat := sumWeights (fun _ => true) (worlds (units ss))

/-- verdicts a result may carry, judged against the world sum (`tn/cd` = threshold) -/
def soundResult (ss : List Seed) (cfg : Config) (φ : L) : Result → Prop
  | .Exact p d _ _ =>
      p = specMass ss φ ∧
      (d = .Alert → cfg.tn * specTotal ss ≤ specMass ss φ * cfg.cd) ∧
      (d = .NoAlert → specMass ss φ * cfg.cd < cfg.tn * specTotal ss) ∧ d ≠ .Indeterminate
  | .Bounded lo hi d _ _ =>
      lo ≤ specMass ss φ ∧ specMass ss φ ≤ hi ∧
      (d = .Alert → cfg.tn * specTotal ss ≤ specMass ss φ * cfg.cd) ∧
      (d = .NoAlert → specMass ss φ * cfg.cd < cfg.tn * specTotal ss) ∧ d ≠ .Indeterminate
  | .NeedsExact lo hi _ _ =>
      (∀ l, lo = some l → l ≤ specMass ss φ) ∧ (∀ h, hi = some h → specMass ss φ ≤ h)
  | .Fuel => True

end Kolibrie.Hybrid
