import Kolibrie.Model.Window
/-!
# Specification for C09: aligned intervals

The interval that closes at `c` is `[c - width, c)` (truncated subtraction: intervals that would start before
time 0 start at 0).  `contentOf width prefix c` = the set of items of `prefix` whose timestamp lies in it (each
item once, in order of first arrival).  No window state, no scoping loop, no eviction.

`reports` is the reference output the implementation is judged against: when an item with a *new* timestamp `t`
arrives after `prefix`, the latest aligned interval that closes in `(previous timestamp, t]` and is *live* (it
contains the previous item's timestamp, or it closes exactly at `t`) is reported with its content over `prefix`.
(For the first item the "previous timestamp" is `t - 1`; nothing is ever reported at time 0.)
-/
namespace Kolibrie.Window

def inInterval (width c t : Nat) : Bool := decide (c - width ≤ t) && decide (t < c)

def contentOf (width : Nat) (pre : List (Nat × Nat)) (c : Nat) : List Nat :=
  ((pre.filter fun it => inInterval width c it.2).map (·.1)).foldl insertItem []

def lastTs (pre : List (Nat × Nat)) : Option Nat := pre.getLast?.map (·.2)

/-- timestamps never decrease (duplicates and arbitrary gaps allowed) -/
def InOrder (s : List (Nat × Nat)) : Prop := s.Pairwise (fun a b => a.2 ≤ b.2)

def inOrderB : List (Nat × Nat) → Bool
  | [] => true
  | [_] => true
  | a :: b :: rest => decide (a.2 ≤ b.2) && inOrderB (b :: rest)

/-- consecutive timestamps are at most `gap` apart (and in order) -/
def gapsAtMost (gap : Nat) : List (Nat × Nat) → Bool
  | [] => true
  | [_] => true
  | a :: b :: rest => decide (a.2 ≤ b.2) && decide (b.2 ≤ a.2 + gap) && gapsAtMost gap (b :: rest)

/-- may the interval closing at `c` (with `previous timestamp < c ≤ t`) be reported when an item with timestamp
`t` arrives after `pre`?  It must be aligned, and live: it closes exactly now, or it contains the previous item. -/
def eligible (width slide : Nat) (pre : List (Nat × Nat)) (t c : Nat) : Bool :=
  decide (c % slide = 0) &&
    (decide (c = t) || match lastTs pre with
                       | some tp => decide (c - width ≤ tp)
                       | none => false)

/-- the largest `c` among `hi, hi - 1, …` (`n` candidates) satisfying `f` -/
def latestDown (f : Nat → Bool) : Nat → Nat → Option Nat
  | 0, _ => none
  | n + 1, hi => if f hi then some hi else latestDown f n (hi - 1)

/-- the timestamp before `t` (`t - 1` for the first item, so that time 0 never reports) -/
def prevTime (pre : List (Nat × Nat)) (t : Nat) : Nat :=
  match lastTs pre with
  | some tp => tp
  | none => t - 1

/-- what is reported when an item with timestamp `t` arrives after `pre`: `(close, content)` of the latest
eligible interval closing in `(previous timestamp, t]`; nothing if `t` is not a new timestamp -/
def reportAt (width slide : Nat) (pre : List (Nat × Nat)) (t : Nat) : Option (Nat × List Nat) :=
  match latestDown (eligible width slide pre t) (t - prevTime pre t) t with
  | some c => some (c, contentOf width pre c)
  | none => none

def reportsFrom (width slide : Nat) : List (Nat × Nat) → List (Nat × Nat) → List Firing
  | _, [] => []
  | pre, (x, t) :: rest =>
    match reportAt width slide pre t with
    | some (c, content) => ⟨pre.length, t, c, content⟩ :: reportsFrom width slide (pre ++ [(x, t)]) rest
    | none => reportsFrom width slide (pre ++ [(x, t)]) rest

/-- the reference reports of a whole stream -/
def reports (width slide : Nat) (stream : List (Nat × Nat)) : List Firing := reportsFrom width slide [] stream

end Kolibrie.Window
