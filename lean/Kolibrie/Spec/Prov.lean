import Kolibrie.Model.Prov
/-
Specification for C06: possible-worlds semantics of a probabilistic Datalog program.

* `Derivable P F f`   — `f` is in the least model of the positive rules `P` over the input facts `F` (inductive).
* `closure`           — the same least model computed by plain naive iteration (executable, fuel-bounded).
* `worldsV`, `weightV`— all truth assignments to the uncertain inputs and their weights (numerators over `D^n`).
* `probSpec`          — `P(f) = Σ_w weight(w) · [f derivable in w]`.
* `cutSpec`           — min-max reading: the largest threshold `α` such that `f` is derivable from the certain facts
                         and the uncertain facts with probability ≥ α ("best derivation's weakest input").
-/
namespace Kolibrie.Prov

/-- least model of the positive rules over the input facts `F` -/
inductive Derivable (P : List Rule) (F : Fact → Prop) : Fact → Prop
  | base {f} : F f → Derivable P F f
  | rule {r σ c} : r ∈ P → (∀ p ∈ r.prem, Derivable P F (instV σ p)) → c ∈ r.concl → Derivable P F (instV σ c)

/-- heads of all rule instances whose premises lie in `S` -/
def heads (rules : List Rule) (S : List Fact) : List Fact := (jobs rules S S).flatMap (·.concls)

/-- naive iteration to the least model; `none` = out of fuel -/
def closure (rules : List Rule) : Nat → List Fact → Option (List Fact)
  | 0, _ => none
  | n + 1, S =>
    let new := ((heads rules S).filter fun f => !S.contains f).eraseDups
    if new.isEmpty then some S else closure rules n (S ++ new)

def upd (w : Nat → Bool) (x : Nat) (b : Bool) : Nat → Bool := fun y => if y = x then b else w y

/-- all assignments to the variables `xs` (everything else false) -/
def worldsV : List Nat → List (Nat → Bool)
  | [] => [fun _ => false]
  | x :: xs => (worldsV xs).flatMap fun w => [upd w x true, upd w x false]

/-- weight numerator of `w` over the variables `xs` (denominator `D ^ xs.length`) -/
def weightV (D : Nat) (tbl : Nat → Nat) : List Nat → (Nat → Bool) → Nat
  | [], _ => 1
  | x :: xs, w => (if w x then tbl x else D - tbl x) * weightV D tbl xs w

def b2n (b : Bool) : Nat := if b then 1 else 0

/-- weighted model count of a Boolean function of the world -/
def wsum (D : Nat) (tbl : Nat → Nat) (xs : List Nat) (g : (Nat → Bool) → Bool) : Nat :=
  ((worldsV xs).map fun w => weightV D tbl xs w * b2n (g w)).sum

/-- input facts present in world `w`: certain facts and the seeds whose variable is true -/
def inputsOf (certain : List Fact) (sorted : List (Fact × Nat)) (w : Nat → Bool) : List Fact :=
  certain ++ (((List.range sorted.length).zip sorted).filter fun (i, _) => w i).map fun (_, (f, _)) => f

/-- stratified reading of the NOT rules: negated atoms are evaluated against the stratum-0 model `M0` -/
def negHeads (negRules : List Rule) (M0 S : List Fact) : List Fact :=
  negRules.flatMap fun r =>
    ((joinAll r.prem S [[]]).filter fun b =>
        r.neg.all fun np => match instPatB b np with
          | some nf => !M0.contains nf
          | none => false).flatMap fun b => r.concl.map (instV (valOf b))

/-- closure under the positive rules and the NOT rules (negation read against `M0`) -/
def closureNeg (pos negs : List Rule) (M0 : List Fact) : Nat → List Fact → Option (List Fact)
  | 0, _ => none
  | n + 1, S =>
    let new := ((heads pos S ++ negHeads negs M0 S).filter fun f => !S.contains f).eraseDups
    if new.isEmpty then some S else closureNeg pos negs M0 n (S ++ new)

/-- model of a program in one world -/
def modelOf (rules : List Rule) (fuel : Nat) (inputs : List Fact) : Option (List Fact) :=
  let pos := rules.filter (·.neg.isEmpty)
  let negs := rules.filter (fun r => !r.neg.isEmpty)
  match closure pos fuel inputs with
  | none => none
  | some M0 => if negs.isEmpty then some M0 else closureNeg pos negs M0 fuel M0

def tblOf (sorted : List (Fact × Nat)) (x : Nat) : Nat := (sorted[x]?.map (·.2)).getD 0

/-- possible-worlds probability numerators (over `D ^ n`) of every fact that is derivable in some world -/
def probSpec (D : Nat) (rules : List Rule) (certain : List Fact) (seeds : List (Fact × Nat)) (fuel : Nat) :
    Option (List (Fact × Nat)) :=
  let sorted := sortSeeds seeds
  let xs := List.range sorted.length
  let ws := worldsV xs
  let models := ws.map fun w => (weightV D (tblOf sorted) xs w, modelOf rules fuel (inputsOf certain sorted w))
  if models.any (·.2.isNone) then none else
  let cands := (models.flatMap fun m => m.2.getD []).eraseDups
  some (cands.map fun f => (f, (models.map fun m => m.1 * b2n ((m.2.getD []).contains f)).sum))

/-- min-max reading: for each fact the largest `α ∈ 1..D` such that it is derivable from the certain facts and the
    seeds with numerator ≥ α (0 = not derivable at any positive threshold) -/
def cutSpec (D : Nat) (rules : List Rule) (certain : List Fact) (seeds : List (Fact × Nat)) (fuel : Nat) :
    Option (List (Fact × Nat)) :=
  let levels := (List.range D).map (· + 1)
  let models := levels.map fun α =>
    (α, modelOf rules fuel (certain ++ (seeds.filter fun s => decide (α ≤ s.2)).map (·.1)))
  if models.any (·.2.isNone) then none else
  let cands := (models.flatMap fun m => m.2.getD []).eraseDups
  some (cands.map fun f => (f, (models.map fun m => if (m.2.getD []).contains f then m.1 else 0).foldl max 0))

/-- Boolean reading: plain derivability from the certain facts and the seeds with positive probability -/
def boolSpec (rules : List Rule) (certain : List Fact) (seeds : List (Fact × Nat)) (fuel : Nat) :
    Option (List Fact) :=
  modelOf rules fuel (certain ++ (seeds.filter fun s => decide (0 < s.2)).map (·.1))

end Kolibrie.Prov
