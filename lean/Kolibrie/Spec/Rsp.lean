import Kolibrie.Model.Rsp
/-
Specification for C10: what a firing must emit, as a function of the current window content (and, for the
stream operator, of the previous firing's answers) only.  No store, no memory of older firings.
-/
namespace Kolibrie.Rsp

/-- the answers over exactly this window's content plus what the rules derive from it -/
def specRows (cfg : Cfg) (content : List Triple) : List Row :=
  let base := dedup content
  cfg.query (base ++ cfg.derive base)

/-- the declared stream operator relative to the previous firing's answers -/
def specEmit (op : StreamOp) (prev cur : List Row) : List Row :=
  match op with
  | .rstream => cur
  | .istream => cur.filter fun b => !decide (b ∈ prev)
  | .dstream => (dedup prev).filter fun b => !decide (b ∈ cur)

/-- the stream operator's specification over a sequence of answer lists -/
def specEmitRun (op : StreamOp) (prev : List Row) : List (List Row) → List (List Row)
  | [] => []
  | rows :: rest => specEmit op prev rows :: specEmitRun op rows rest

def specRunFrom (cfg : Cfg) (prev : List Row) : List (List Triple) → List (List Row)
  | [] => []
  | c :: cs => let rows := specRows cfg c; specEmit cfg.op prev rows :: specRunFrom cfg rows cs

/-- the specified emission of every firing of a history of window contents -/
def specRun (cfg : Cfg) (hist : List (List Triple)) : List (List Row) := specRunFrom cfg [] hist

/-- two emission sequences agree firing by firing, as multisets (row order inside one firing is hash-map order) -/
def SeqPerm {α} : List (List α) → List (List α) → Prop
  | [], [] => True
  | a :: as, b :: bs => a.Perm b ∧ SeqPerm as bs
  | _, _ => False

/-- forced hypothesis of the unrepaired code: no firing's raw content contains a triple that the previous firing
    derived.  `derivedOf` is the sequence of derived sets (previous firing's first). -/
def noClashFrom (cfg : Cfg) (prevDerived : List Triple) : List (List Triple) → Bool
  | [] => true
  | c :: cs =>
    (c.all fun t => !decide (t ∈ prevDerived)) && noClashFrom cfg (cfg.derive (dedup c)) cs

def NoRawDerivedClash (cfg : Cfg) (hist : List (List Triple)) : Bool := noClashFrom cfg [] hist

end Kolibrie.Rsp
