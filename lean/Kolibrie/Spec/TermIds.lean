/-
Specification for C15.

1. `Den d q id τ` — the lexical denotation of an identifier: a plain id denotes the string the dictionary holds
   for it, a quoted id denotes the triple of the denotations of its components.
2. `Abs` — the simplest possible dictionary: the list of distinct terms in order of first appearance; the
   identifier of a term is its position (plus the range base).  Everything the property says about one
   dictionary history (same term ⇒ same id, distinct terms ⇒ distinct ids, decode ∘ encode = id, ids handed out
   earlier never change, quoted ids structural and in their own range) is immediate for it.
3. `LDB` — a database as a *lexical* dataset (sets of term trees); `lunion` is plain set union (probability
   seeds: the second database overrides, as `HashMap::insert` does).
-/
import Kolibrie.Model.Dict
namespace Kolibrie.Dict
open Kolibrie.Extracted

/-! ## 1. lexical denotation -/

inductive Den (d : Dict) (q : QStore) : Nat → LTerm → Prop
  | plain {id s} : isQuoted id = false → d.decode id = some s → Den d q id (.plain s)
  | quoted {id a b c ta tb tc} : isQuoted id = true → q.decode id = some (a, b, c) →
      Den d q a ta → Den d q b tb → Den d q c tc → Den d q id (.quoted ta tb tc)

/-! ## 2. first-appearance dictionary -/

/-- distinct items in order of first appearance; the identifier of an item is `base` + its position -/
structure FA (κ : Type) where
  base : Nat
  items : List κ
deriving Repr

def idxOf? {α} [BEq α] (a : α) : List α → Option Nat
  | [] => none
  | b :: l => if b == a then some 0 else (idxOf? a l).map (· + 1)

/-- identifier of `k`; a new item gets the next free position, unless the range `[base, limit)` is used up -/
def FA.encode {κ} [BEq κ] (a : FA κ) (limit : Nat) (k : κ) : Except Err (FA κ × Nat) :=
  match idxOf? k a.items with
  | some n => .ok (a, a.base + n)
  | none =>
    if a.base + a.items.length < limit then .ok ({ a with items := a.items ++ [k] }, a.base + a.items.length)
    else .error .panic

def FA.decode {κ} (a : FA κ) (id : Nat) : Option κ :=
  if a.base ≤ id then a.items[id - a.base]? else none

structure Abs where
  strs : FA String      -- plain terms, ids from `base` (0 for a new dictionary) below `quotedBit`
  comps : FA Comp       -- quoted triples, ids from `quotedBit` up to `u32::MAX - 1`
deriving Repr

def Abs.empty : Abs := ⟨⟨0, []⟩, ⟨quotedBit, []⟩⟩

def Abs.encode (a : Abs) (s : String) : Except Err (Abs × Nat) :=
  match a.strs.encode quotedBit s with
  | .ok (f, id) => .ok ({ a with strs := f }, id)
  | .error e => .error e

def Abs.decode (a : Abs) (id : Nat) : Option String := a.strs.decode id

def Abs.qencode (a : Abs) (c : Comp) : Except Err (Abs × Nat) :=
  match a.comps.encode u32Max c with
  | .ok (f, id) => .ok ({ a with comps := f }, id)
  | .error e => .error e

def Abs.qdecode (a : Abs) (id : Nat) : Option Comp := a.comps.decode id

/-- the range test of the specification: quoted ids are exactly the ids from `quotedBit` up -/
def specIsQuoted (id : Nat) : Bool := decide (quotedBit ≤ id)

def Abs.termF (a : Abs) : Nat → Nat → Except Err (Option LTerm)
  | 0, _ => .error .fuel
  | f + 1, id =>
    if specIsQuoted id then
      match a.qdecode id with
      | none => .ok none
      | some (s, p, o) =>
        match a.termF f s with
        | .ok (some ts) =>
          match a.termF f p with
          | .ok (some tp) =>
            match a.termF f o with
            | .ok (some to) => .ok (some (.quoted ts tp to))
            | r => r
          | r => r
        | r => r
    else .ok ((a.decode id).map .plain)

def Abs.term (a : Abs) (id : Nat) : Except Err (Option LTerm) := a.termF (fuelFor id) id

/-! ## histories of calls on one dictionary / one quoted store (a panicking call changes nothing, as in Rust) -/

def encRun (d : Dict) : List String → Dict
  | [] => d
  | s :: rest => match d.encode s with
      | .ok (d', _) => encRun d' rest
      | .error _ => encRun d rest

def qRun (q : QStore) : List Comp → QStore
  | [] => q
  | c :: rest => match q.encode c with
      | .ok (q', _) => qRun q' rest
      | .error _ => qRun q rest

/-- one call of a mixed history, and what it returns -/
inductive SOp
  | enc (s : String) | dec (i : Nat) | qenc (c : Comp) | qdec (i : Nat)
deriving Repr

inductive SOut
  | id (n : Nat) | panic | str (o : Option String) | comp (o : Option Comp)
deriving DecidableEq, Repr

def outOf {σ} (st : σ) : Except Err (σ × Nat) → σ × SOut
  | .ok (st', i) => (st', .id i)
  | .error _ => (st, .panic)

/-- the model: the real data structures -/
def mStep (st : Dict × QStore) : SOp → (Dict × QStore) × SOut
  | .enc s => let r := outOf st.1 (st.1.encode s); ((r.1, st.2), r.2)
  | .dec i => (st, .str (st.1.decode i))
  | .qenc c => let r := outOf st.2 (st.2.encode c); ((st.1, r.1), r.2)
  | .qdec i => (st, .comp (st.2.decode i))

/-- the specification: first-appearance lists -/
def aStep (a : Abs) : SOp → Abs × SOut
  | .enc s => outOf a (a.encode s)
  | .dec i => (a, .str (a.decode i))
  | .qenc c => outOf a (a.qencode c)
  | .qdec i => (a, .comp (a.qdecode i))

def mRun (st : Dict × QStore) : List SOp → List SOut
  | [] => []
  | op :: rest => (mStep st op).2 :: mRun (mStep st op).1 rest

def aRun (a : Abs) : List SOp → List SOut
  | [] => []
  | op :: rest => (aStep a op).2 :: aRun (aStep a op).1 rest

/-- a quoted component refers to an already allocated quoted triple (what `encode_term_star` guarantees) -/
def NoFwd (q : QStore) (c : Comp) : Prop :=
  (isQuoted c.1 = true → c.1 < q.next) ∧ (isQuoted c.2.1 = true → c.2.1 < q.next) ∧ (isQuoted c.2.2 = true → c.2.2 < q.next)

def WfHist (q : QStore) : List Comp → Prop
  | [] => True
  | c :: rest => NoFwd q c ∧ match q.encode c with
      | .ok (q', _) => WfHist q' rest
      | .error _ => WfHist q rest

/-! ## 3. lexical datasets -/

abbrev OT := Option LTerm        -- `none`: the id does not decode (`decode_any` returned `None`)

structure LQuad where
  s : OT
  p : OT
  o : OT
  g : Option OT                  -- `none` = default graph
deriving DecidableEq, Repr

abbrev LSeed := (OT × OT × OT) × Nat

structure LDB where
  terms : List OT                -- every term some identifier stands for (dictionary + quoted store)
  graphs : List OT               -- named-graph identities (incl. empty graphs)
  quads : List LQuad
  seeds : List LSeed
deriving Repr

/-- `decode_any`, fuel exhaustion read as "does not decode" (the driver reports ill-founded stores separately) -/
def DB.den (db : DB) (id : Nat) : OT :=
  match decodeTerm db.d db.q id with
  | .ok r => r
  | .error _ => none

def DB.denTriple (db : DB) (c : Comp) : OT × OT × OT := (db.den c.1, db.den c.2.1, db.den c.2.2)

def DB.denQuad (db : DB) (qd : QuadI) : LQuad := ⟨db.den qd.s, db.den qd.p, db.den qd.o, qd.g.map db.den⟩

/-- the lexical dataset a database denotes: `decode_any` over every identifier, graph, quad and seed -/
def DB.lex (db : DB) : LDB :=
  { terms := (keys db.d.i2s ++ keys db.q.i2c).map db.den,
    graphs := db.graphs.map db.den,
    quads := db.quads.map db.denQuad,
    seeds := db.seeds.map (fun e => (db.denTriple e.1, e.2)) }

/-- set union of lexical datasets; for a triple seeded in both, the second database's probability stands -/
def lunion (a b : LDB) : LDB :=
  { terms := a.terms ++ b.terms,
    graphs := a.graphs ++ b.graphs,
    quads := a.quads ++ b.quads,
    seeds := a.seeds.filter (fun e => !(b.seeds.any (fun f => f.1 == e.1))) ++ b.seeds }

/-- two lexical datasets are the same *sets* -/
def LDB.SetEq (x y : LDB) : Prop :=
  (∀ t, t ∈ x.terms ↔ t ∈ y.terms) ∧ (∀ g, g ∈ x.graphs ↔ g ∈ y.graphs) ∧
  (∀ qd, qd ∈ x.quads ↔ qd ∈ y.quads) ∧ (∀ s, s ∈ x.seeds ↔ s ∈ y.seeds)

/-- every id that occurs anywhere in the database decodes, and no quoted triple refers forward
    (what the driver reports as `dangling_ids` / `forward_ref`) -/
def validId (d : Dict) (q : QStore) (id : Nat) : Bool :=
  if isQuoted id then (q.decode id).isSome else (d.decode id).isSome

def QStore.wf (q : QStore) : Bool :=
  q.i2c.all (fun e => (!isQuoted e.2.1 || decide (e.2.1 < e.1)) && (!isQuoted e.2.2.1 || decide (e.2.2.1 < e.1)) &&
                      (!isQuoted e.2.2.2 || decide (e.2.2.2 < e.1)))

def DB.closed (db : DB) : Bool :=
  db.q.i2c.all (fun e => validId db.d db.q e.2.1 && validId db.d db.q e.2.2.1 && validId db.d db.q e.2.2.2) &&
  db.graphs.all (validId db.d db.q) &&
  db.quads.all (fun qd => validId db.d db.q qd.s && validId db.d db.q qd.p && validId db.d db.q qd.o &&
                          (match qd.g with | some g => validId db.d db.q g | none => true)) &&
  db.seeds.all (fun e => validId db.d db.q e.1.1 && validId db.d db.q e.1.2.1 && validId db.d db.q e.1.2.2)

/-- two dictionaries use some number for different strings (the trigger of the `Dictionary::merge` defect) -/
def idsClash (a b : Dict) : Bool :=
  a.i2s.any fun e => match b.decode e.1 with | some s => s != e.2 | none => false

/-- number of ids the union has to allocate: terms of `b` that `a` has no identifier for -/
def newPlain (a b : DB) : Nat :=
  ((keys b.d.s2i).filter (fun s => (a.d.s2i.lookup s).isNone)).length

/-- number of quoted terms of `b` that `a` has no identifier for -/
def newQuoted (a b : DB) : Nat :=
  let ta := (keys a.q.i2c).map a.den
  (((keys b.q.i2c).map b.den).filter (fun t => !(ta.contains t))).length

end Kolibrie.Dict
