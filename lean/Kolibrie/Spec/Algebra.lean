/-
Specification for C01/C02: the SPARQL 1.1 algebra of the supported fragment, evaluated bottom-up.
No incoming bindings, no plan, no join algorithm: every group is evaluated on its own and joined.
-/
import Kolibrie.Model.Engine
namespace Kolibrie.Engine

/-- SPARQL three-valued filter evaluation: `none` is the error value -/
def Cond.eval3 (c : Cond) (row : Row) : Option Bool :=
  match c with
  | .cmp v op rhs =>
      match Row.get row v with
      | none => none
      | some l => match rhs with
          | .var w => (Row.get row w).map (fun r => compareLexical l op r)
          | .const r => some (compareLexical l op r)
  | .and a b =>
      match a.eval3 row, b.eval3 row with
      | some false, _ => some false
      | _, some false => some false
      | some true, some true => some true
      | _, _ => none
  | .or a b =>
      match a.eval3 row, b.eval3 row with
      | some true, _ => some true
      | _, some true => some true
      | some false, some false => some false
      | _, _ => none
  | .not a => (a.eval3 row).map (!·)

/-- a FILTER keeps a solution iff the expression evaluates to `true` (errors drop the solution) -/
def keeps (c : Cond) (row : Row) : Bool := c.eval3 row == some true

/-- `Extend(μ, out, CONCAT(args))`: an unbound argument is an error, which leaves `out` unbound;
    a solution that already binds `out` is left unchanged (SPARQL forbids that case syntactically) -/
def extendRow (args : List Operand) (out : Var) (row : Row) : Row :=
  let bound := args.all (fun a => match a with | .var v => (Row.get row v).isSome | .const _ => true)
  if bound && (Row.get row out).isNone then Row.insert row out (concatArgs args row) else row

mutual
/-- the algebra: bag of solutions of a group graph pattern under a dataset view / active graph -/
def sem (db : DB) (ctx : Ctx) : Pat → List Row
  | .unit => [[]]
  | .bgp tps => tps.foldl (fun acc (s, p, o) => nlJoin acc (scan db ctx ⟨s, p, o, .dflt⟩ [[]])) [[]]
  | .group elems =>
      let rows := semGroup db ctx [[]] elems
      semFilters rows elems
  | .union bs => semUnion db ctx bs
  | .graph name p =>
      match name with
      | .dflt => sem db { ctx with active := none } p
      | .named g => if visibleNamed db ctx g then sem db { ctx with active := some g } p else []
      | .var v => (ctx.view.named.filter (fun g => db.graphExists g)).flatMap
          (fun g => nlJoin [[(v, g)]] (sem db { ctx with active := some g } p))
  | .filter c => [[]].filter (keeps c)
  | .bind args out => [extendRow args out []]
  | .values vars rows => valuesRows vars rows
  | .sub p spec => finalizeSub spec (sem db ctx p)

def semGroup (db : DB) (ctx : Ctx) (acc : List Row) : List Pat → List Row
  | [] => acc
  | .filter _ :: rest => semGroup db ctx acc rest
  | .bind args out :: rest => semGroup db ctx (acc.map (extendRow args out)) rest
  | e :: rest => semGroup db ctx (nlJoin acc (sem db ctx e)) rest

def semUnion (db : DB) (ctx : Ctx) : List Pat → List Row
  | [] => []
  | b :: rest => sem db ctx b ++ semUnion db ctx rest

def semFilters (rows : List Row) : List Pat → List Row
  | [] => rows
  | .filter c :: rest => semFilters (rows.filter (keeps c)) rest
  | _ :: rest => semFilters rows rest
end

/-- the answer of a SELECT query according to the algebra -/
def specSelect (db : DB) (q : Select) : List (List (Option Val)) :=
  finalizeSelect q (sem db ⟨datasetView db q, none⟩ q.where_)

/-! ## the side condition under which every plan provably agrees with the algebra -/

def subsetB (a b : List Var) : Bool := a.all (fun v => b.contains v)

def Operand.vars : Operand → List Var
  | .var v => [v]
  | .const _ => []

mutual
/-- variables bound in *every* solution of the pattern -/
def certainVars : Pat → List Var
  | .unit => []
  | .bgp tps => tps.flatMap (fun (s, p, o) => s.vars ++ p.vars ++ o.vars)
  | .group elems => certainList [] elems
  | .union bs => certainInter bs
  | .graph name p => (match name with | .var v => [v] | _ => []) ++ certainVars p
  | .filter _ => []
  | .bind _ _ => []            -- conservative: a BIND may fail to bind
  | .values vars rows => vars.filter (fun v => rows.all (fun cells =>
        ((vars.zip cells).any (fun (w, c) => w == v && c.isSome))))
  | .sub p spec => match spec.proj with
      | none => certainVars p
      | some ps => (certainVars p).filter (fun v => ps.any (fun i => match i with | .var w => w == v | _ => false))
/-- certainly-bound variables of a group, left to right (`acc` = certain so far); a BIND whose arguments are
    certainly bound and whose target is new certainly binds its target -/
def certainList (acc : List Var) : List Pat → List Var
  | [] => acc
  | .bind args out :: rest =>
      if subsetB (args.flatMap Operand.vars) acc then certainList (out :: acc) rest else certainList acc rest
  | p :: rest => certainList (certainVars p ++ acc) rest
def certainInter : List Pat → List Var
  | [] => []
  | [p] => certainVars p
  | p :: rest => (certainVars p).filter (fun v => (certainInter rest).contains v)
end

mutual
/-- `seen`: variables that incoming bindings may carry into this pattern under some join algorithm.
    Well-scoped: every FILTER variable is certainly bound by its own group, every BIND argument is certainly
    bound by what precedes it, every BIND target is fresh. -/
def wellScoped (seen : List Var) : Pat → Bool
  | .unit => true
  | .bgp _ => true
  | .group elems => wsGroup seen [] elems && wsFilters (certainList [] elems) elems
  | .union bs => wsAll seen bs
  | .graph name p => wellScoped ((match name with | .var v => [v] | _ => []) ++ seen) p
  | .filter _ => false          -- a FILTER outside a group never occurs in parsed queries
  | .bind args out => subsetB (args.flatMap Operand.vars) [] && !seen.contains out
  | .values _ _ => true
  | .sub p _ => wellScoped [] p
/-- walk a group left to right: `cert` = certainly bound so far -/
def wsGroup (seen cert : List Var) : List Pat → Bool
  | [] => true
  | .filter _ :: rest => wsGroup seen cert rest
  | .bind args out :: rest =>
      subsetB (args.flatMap Operand.vars) cert && !seen.contains out && wsGroup (out :: seen) (out :: cert) rest
  | e :: rest => wellScoped seen e && wsGroup (patVars e ++ seen) (certainVars e ++ cert) rest
def wsAll (seen : List Var) : List Pat → Bool
  | [] => true
  | p :: rest => wellScoped seen p && wsAll seen rest
def wsFilters (cert : List Var) : List Pat → Bool
  | [] => true
  | .filter c :: rest => subsetB c.vars cert && wsFilters cert rest
  | _ :: rest => wsFilters cert rest
end

end Kolibrie.Engine
