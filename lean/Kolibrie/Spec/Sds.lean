import Kolibrie.Model.Sds
import Kolibrie.Spec.Prov
/-
Specification for C12.

`expStar` — the expiry of a fact at an evaluation time is the largest threshold `τ` such that the fact is derivable
from the alive base facts whose own expiry is at least `τ` (= max over derivations of min over the premises' expiry =
the latest time until which some derivation stays fully supported).  From-scratch reasoning yields exactly the facts
with some positive threshold.
`consistentStep` — the property's own hypothesis on consecutive evaluation times (window consistency), on the
translated (annotated) alive-fact lists.
-/
namespace Kolibrie.Prov

/-- alive base facts whose expiry is at least `τ` -/
def baseAt (base : List (Fact × Nat)) (τ : Nat) : List Fact := (base.filter fun e => decide (τ ≤ e.2)).map (·.1)

/-- for every derivable fact the largest base expiry `τ` at which it is still derivable; `none` = out of fuel -/
def expStar (rules : List Rule) (base : List (Fact × Nat)) (fuel : Nat) : Option (List (Fact × Nat)) :=
  let levels := (base.map (·.2)).eraseDups
  let models := levels.map fun τ => (τ, closure rules fuel (baseAt base τ))
  if models.any (·.2.isNone) then none else
  let cands := (models.flatMap fun m => m.2.getD []).eraseDups
  some (cands.map fun f => (f, (models.map fun m => if (m.2.getD []).contains f then m.1 else 0).foldl max 0))

/-- each triple is listed once -/
def functionalB (base : List (Fact × Nat)) : Bool :=
  base.all fun e => base.all fun e' => !(e.1 == e'.1) || e.2 == e'.2

/-- window consistency between two consecutive evaluations (`prevBase` at an earlier time, `base` at `now`):
    every triple is listed once, everything listed is alive, and whatever was listed before and has not expired
    by `now` is still listed, with an expiry that did not decrease (latest arrival time) -/
def consistentStep (prevBase base : List (Fact × Nat)) (now : Nat) : Bool :=
  functionalB base && base.all (fun e => decide (now < e.2 ∧ e.2 ≤ u64Max)) &&
  prevBase.all fun e => decide (e.2 ≤ now) || base.any fun e' => e'.1 == e.1 && decide (e.2 ≤ e'.2)

end Kolibrie.Prov
