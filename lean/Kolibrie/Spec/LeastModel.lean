import Kolibrie.Model.Datalog
/-
Specification for C05.

* `Derivable val P F` — the textbook least model of a positive program: the least set of facts containing `F`
  and closed under every ground instance (total valuation `σ` of the variables) of every rule whose filters hold.
* `Strat val P F` — the stratified model for one stratum of negation: negated atoms are judged against the least
  model of the negation-free rules.
* `specModel` — an executable computation of that model (naive iteration to a fixpoint, negation frozen on the
  lower stratum), used by the driver as the expected output; `Props/C05.lean` proves that whenever it reports a
  fixpoint its result is exactly `Strat` (= `Derivable` for negation-free programs).
-/
namespace Kolibrie.Datalog

def Term.eval (σ : Nat → Nat) : Term → Nat
  | .const c => c
  | .var v => σ v

/-- ground instance of a pattern under a total valuation -/
def Pat.eval (σ : Nat → Nat) (p : Pat) : Fact := ⟨p.s.eval σ, p.p.eval σ, p.o.eval σ⟩

/-- the filters of a rule under a total valuation -/
def FiltersHold (val : Nat → Int) (σ : Nat → Nat) (fs : List Filter) : Prop :=
  filtersOk val (fun v => some (σ v)) fs = true

/-- least model of the rules read as a positive program (`negative` is not consulted) -/
inductive Derivable (val : Nat → Int) (P : List Rule) (F : List Fact) : Fact → Prop
  | base {f : Fact} : f ∈ F → Derivable val P F f
  | step {r : Rule} {c : Pat} (σ : Nat → Nat) : r ∈ P →
      (∀ p ∈ r.premise, Derivable val P F (p.eval σ)) → FiltersHold val σ r.filters →
      c ∈ r.conclusion → Derivable val P F (c.eval σ)

def posRules (P : List Rule) : List Rule := P.filter fun r => r.negative.isEmpty
def negRules (P : List Rule) : List Rule := P.filter fun r => !r.negative.isEmpty

/-- stratified model, one stratum of negation: a negated atom holds iff it is not in the least model of the
    negation-free rules -/
inductive Strat (val : Nat → Int) (P : List Rule) (F : List Fact) : Fact → Prop
  | low {f : Fact} : Derivable val (posRules P) F f → Strat val P F f
  | step {r : Rule} {c : Pat} (σ : Nat → Nat) : r ∈ P →
      (∀ p ∈ r.premise, Strat val P F (p.eval σ)) →
      (∀ n ∈ r.negative, ¬ Derivable val (posRules P) F (n.eval σ)) →
      FiltersHold val σ r.filters → c ∈ r.conclusion → Strat val P F (c.eval σ)

/-! ### executable specification -/

/-- all immediate consequences of `S`; negated atoms are looked up in `low` -/
def tpStep (val : Nat → Int) (low : List Fact) (P : List Rule) (S : List Fact) : List Fact :=
  P.flatMap fun r =>
    fire val r ((solveFrom S r.premise [[]]).filter fun row => r.negative.all (negOk low row))

/-- naive iteration until nothing new appears; `none` = out of fuel -/
def lfpFrom (val : Nat → Int) (low : List Fact) (P : List Rule) : Nat → List Fact → Option (List Fact)
  | 0, _ => none
  | fuel + 1, S =>
      let new := freshOf S (tpStep val low P S)
      if new.isEmpty then some S else lfpFrom val low P fuel (S ++ new)

/-- least model of the negation-free rules, then all rules with negation judged against it -/
def specModel (val : Nat → Int) (P : List Rule) (fuel : Nat) (F : List Fact) : Option (List Fact) :=
  (lfpFrom val [] (posRules P) fuel F).bind fun m0 => lfpFrom val m0 P fuel m0

/-! ### scope of the property (decidable; reported by the driver as `H`) -/

def termClash : Term → Term → Bool
  | .const a, .const b => a != b
  | _, _ => false

/-- two patterns have no common ground instance because of a constant mismatch -/
def patClash (a b : Pat) : Bool := termClash a.s b.s || termClash a.p b.p || termClash a.o b.o

/-- heads of NOT-rules feed no positive premise of any rule -/
def negHeadsFeedNoPremise (P : List Rule) : Bool :=
  (negRules P).all fun r => r.conclusion.all fun c => P.all fun r' => r'.premise.all fun p => patClash c p

/-- heads of NOT-rules are never negated (otherwise the program has more than one stratum of negation) -/
def negHeadsNotNegated (P : List Rule) : Bool :=
  (negRules P).all fun r => r.conclusion.all fun c => P.all fun r' => r'.negative.all fun n => patClash c n

/-- rules whose conclusions can depend on a NOT-rule: the NOT-rules and, transitively, every rule with a premise
    that may match a conclusion of such a rule (`fuel` rounds of closure; `P.length` rounds suffice) -/
def upperRules (P : List Rule) : Nat → List Rule
  | 0 => negRules P
  | k + 1 =>
      let up := upperRules P k
      P.filter fun r => !r.negative.isEmpty ||
        r.premise.any fun p => up.any fun r' => r'.conclusion.any fun c => !patClash c p

/-- syntactic stratification: nothing that depends on a NOT-rule is ever negated -/
def stratified (P : List Rule) : Bool :=
  (upperRules P P.length).all fun r => r.conclusion.all fun c => P.all fun r' => r'.negative.all fun n => patClash c n

def allSafe (P : List Rule) : Bool := P.all Rule.safe

/-- what the parallel strategy handles: one or two premises, constant predicates, no filters, no negation -/
def Rule.parOk (r : Rule) : Bool :=
  decide (r.premise.length ∈ Extracted.parallelArities)
  && r.premise.all (fun p => match p.p with | .const _ => true | .var _ => false)
  && r.filters.isEmpty && r.negative.isEmpty

def allParOk (P : List Rule) : Bool := P.all Rule.parOk

end Kolibrie.Datalog
