import Kolibrie.Model.RspMulti
/-
Specification side of C11.
* `Sub a r`     — solution `a` is the restriction of `r` to `a`'s variables
* `reported`    — the contents window `w` itself reported in an event sequence
* `blockAnswers`— the answers of window `w`'s block over one reported content
* `VocabDisjoint` — forced hypothesis of the shared-store code: no triple reported by one window can match a pattern of
  another window's block (decided by the driver: trigger `windows_share_matching_vocabulary`)
The *specified output* of a run is `mrun {cfg with shared := false}`: the same coordinator over per-window stores.
-/
namespace Kolibrie.Rsp

def Sub (a r : Row) : Prop := ∀ k v, lookup a k = some v → lookup r k = some v

/-- decidable version of `Sub` on the bindings of `a` -/
def subB (a r : Row) : Bool := a.all fun kv => lookup r kv.1 == some kv.2

/-- is `r`, restricted to block `w`'s variables, an answer of that block over some content window `w` reported? -/
def blockOK (plan : List Pat) (contents : List (List Triple)) (r : Row) : Bool :=
  contents.any fun c => (evalBGP (dedup c) plan).any fun a => subB a r

def reported (w : Nat) : List MEv → List (List Triple)
  | [] => []
  | .fire w' c :: es => if w' = w then c :: reported w es else reported w es
  | .poll :: es => reported w es

/-- can the pattern match the triple at all (constants agree)? -/
def termCompat : Term → Nat → Bool
  | .const c, x => c == x
  | .var _, _ => true

def patCompat (p : Pat) (t : Triple) : Bool := termCompat p.s t.s && termCompat p.p t.p && termCompat p.o t.o

def relevant (pats : List Pat) (t : Triple) : Bool := pats.any fun p => patCompat p t

/-- no content reported by window `w` contains a triple relevant to another window's block -/
def VocabDisjoint (cfg : MCfg) (evs : List MEv) : Bool :=
  evs.all fun e => match e with
    | .fire w c => c.all fun t => (List.range cfg.plans.length).all fun j =>
        j == w || !relevant (cfg.plans.getD j []) t
    | .poll => true

/-- window indices are below the number of windows -/
def WellFormed (cfg : MCfg) (evs : List MEv) : Bool :=
  evs.all fun e => match e with
    | .fire w _ => decide (w < cfg.plans.length)
    | .poll => true

/-- rows a multi-thread run may emit under any timing: joins of answers over contents each window itself reported -/
def allowedRows (cfg : MCfg) (evs : List MEv) : List Row :=
  let per := (List.range cfg.plans.length).map fun w =>
    (reported w evs).flatMap fun c => evalBGP (dedup c) (cfg.plans.getD w [])
  let joined := joinAll per
  if cfg.staticPlan.isEmpty then joined else naturalJoin joined (staticRows cfg)

end Kolibrie.Rsp
