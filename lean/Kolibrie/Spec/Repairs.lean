import Kolibrie.Model.Repairs
/-
Specification for C19: consistency w.r.t. denial constraints, subset-maximal consistent subsets (repairs),
answers true in every repair.  Sets of facts are lists read as sets (membership only).
-/
namespace Kolibrie.RepairSpec
open Kolibrie.Terms Kolibrie.Repairs

/-- a set of facts violates a set of denial constraints: some (non-empty) constraint body has a ground instance
    inside the set.  (A constraint with an empty body can never fire in the code — `join_rule` iterates over
    premise positions — so it is vacuous here too.) -/
def Violated (C : List (List Pattern)) (S : List Fact) : Prop :=
  ∃ c ∈ C, c ≠ [] ∧ ∃ σ : String → Nat, ∀ p ∈ c, p.inst σ ∈ S

/-- executable form: left-to-right backtracking over the body -/
def solve (S : List Fact) : List Pattern → Binding → Bool
  | [], _ => true
  | p :: ps, b => S.any fun f =>
      match matchPat p f b with
      | some b' => solve S ps b'
      | none => false

def specViolates (C : List (List Pattern)) (S : List Fact) : Bool :=
  C.any fun c => !c.isEmpty && solve S c []

section
variable {α : Type}

/-- `S` is a repair of `F`: a consistent subset such that every consistent subset of `F` above it adds nothing -/
def IsRepair (viol : List α → Bool) (F S : List α) : Prop :=
  S ⊆ F ∧ viol S = false ∧ ∀ T, T ⊆ F → S ⊆ T → viol T = false → T ⊆ S

/-- the consistency test only depends on the set denoted by a list -/
def SetInv (viol : List α → Bool) : Prop :=
  ∀ A B : List α, (∀ x, x ∈ A ↔ x ∈ B) → viol A = viol B

/-- all sublists (one per subset when the list is duplicate-free) -/
def subs : List α → List (List α)
  | [] => [[]]
  | a :: l => (subs l).map (a :: ·) ++ subs l

variable [DecidableEq α]

/-- executable enumeration of the repairs: check every subset against every subset -/
def allRepairs (viol : List α → Bool) (F : List α) : List (List α) :=
  (subs F).filter fun S => !viol S && (subs F).all fun T => !(sup T S) || viol T || sup S T

end

/-- answers of a goal pattern that hold in every repair (as bindings of the goal's variables) -/
def iarAnswers (viol : List Fact → Bool) (F : List Fact) (q : Pattern) : List Binding :=
  let reps := allRepairs viol F
  F.filterMap fun f =>
    match matchPat q f [] with
    | some b => if reps.all fun S => decide (f ∈ S) then some b else none
    | none => none

end Kolibrie.RepairSpec
