/-
Specification for C03 (W3C SPARQL 1.1 Update): `D' = (D ∖ Del) ∪ Ins`, both sets computed from the
pre-operation dataset; counts = quads that actually changed; a rejected request changes nothing.
-/
import Kolibrie.Model.Update
namespace Kolibrie.Update
open Kolibrie.Engine

/-- the standard effect, as sets -/
def specApply (db : DB) (dels inss : List Quad) : DB × Summary :=
  let kept := db.quads.filter (fun q => !dels.contains q)
  let added := (inss.filter (fun q => !kept.contains q)).eraseDups
  ({ quads := kept ++ added,
     graphs := inss.foldl (fun gs q => match q.g with
        | some n => if gs.contains n then gs else gs ++ [n] | none => gs) db.graphs },
   ⟨added.length, ((dels.filter (fun q => db.quads.contains q)).eraseDups).length⟩)

def specUpdate (db : DB) (u : Upd) (base : Nat) : Option (DB × Summary) :=
  if !u.valid then none else
  match u with
  | .insertData qs => some (specApply db [] (instTemplates db qs [[]] base))
  | .deleteData qs => some (specApply db (instTemplates db qs [[]] base) [])
  | .modify del ins w =>
      let rows := sem db ⟨View.fromDb db, none⟩ w
      some (specApply db ((del.map (fun ts => instTemplates db ts rows base)).getD [])
                         ((ins.map (fun ts => instTemplates db ts rows base)).getD []))
  | .deleteWhere qs =>
      let rows := sem db ⟨View.fromDb db, none⟩ (quadsToGroup qs)
      some (specApply db (instTemplates db qs rows base) [])

def specHistory (db : DB) (us : List Upd) : List (Option Summary) × DB := historyWith specUpdate db us

end Kolibrie.Update
