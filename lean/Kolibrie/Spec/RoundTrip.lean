import Kolibrie.Model.Lines
/-
Specification side of C14: the round trip must be the identity on the lexical quads, and the explicit, decidable
predicates that delimit (a) the property's own quantifier ("IRIs syntactically valid, literals that cannot be
mistaken for an IRI, blank node or quoted triple") and (b) the hypotheses forced by the code that exists.
-/
namespace Kolibrie.RoundTrip
open Kolibrie.Lines

/-- characters allowed inside `<…>` by the N-Triples/Turtle `IRIREF` production (no escapes), minus Unicode whitespace -/
def iriChar (c : Char) : Bool :=
  c.toNat > 0x20 && !rustWs c && c != '<' && c != '>' && c != '"' && c != '{' && c != '}' && c != '|' &&
  c != '^' && c != '`' && c != '\\'

/-- a syntactically valid absolute IRI: `scheme:` followed by IRIREF characters -/
def validIri (s : Str) : Bool := looksLikeAbsoluteIri s && s.all iriChar

/-- ASCII letters and digits, `_`, `-` (by code point, so that range facts are arithmetic) -/
def labelChar (c : Char) : Bool :=
  let n := c.toNat
  (48 ≤ n && n ≤ 57) || (65 ≤ n && n ≤ 90) || (97 ≤ n && n ≤ 122) || n == 95 || n == 45

/-- a blank node as the dictionary stores it: `_:` + label -/
def validBlank (s : Str) : Bool :=
  match s with
  | '_' :: ':' :: l => l.all labelChar
  | _ => false

/-- a literal value the generators would take for an IRI, a blank node or a quoted triple (excluded by the property) -/
def mistakable (o : Str) : Bool :=
  looksLikeAbsoluteIri o || startsWith ['_', ':'] o || startsWith ['<', '<'] o

/-- FORCED by the code (`encode_term_star` re-cleans the already decoded value): a literal value with leading or
    trailing whitespace, a leading `"`, or the shape `<…>` does not survive import -/
def edgeShape (o : Str) : Bool :=
  trim o != o || startsWith ['"'] o || (startsWith ['<'] o && endsWith ['>'] o)

/-- literal values inside the property's quantifier -/
def literalOk (o : Str) : Bool := !mistakable o

inductive Pos | subj | pred | obj | graph
  deriving DecidableEq

def inScopePlain : Pos → Str → Bool
  | .subj, s => validIri s || validBlank s
  | .pred, s => validIri s
  | .obj, s => validIri s || validBlank s || literalOk s
  | .graph, s => validIri s || validBlank s

/-- the property's quantifier, per term position (quoted triples: subject or object position only) -/
def inScope : Pos → LTerm → Bool
  | pos, .plain s => inScopePlain pos s
  | .subj, .quoted a b c => inScope .subj a && inScope .pred b && inScope .obj c
  | .obj, .quoted a b c => inScope .subj a && inScope .pred b && inScope .obj c
  | _, .quoted _ _ _ => false

def inScopeQuad (q : LQuad) : Bool :=
  inScope .subj q.s && inScope .pred q.p && inScope .obj q.o &&
  (match q.g with | none => true | some g => inScope .graph g)

/-- FORCED: `decode_term` renders the components of a quoted triple bare (`<< s p o >>` without `<>`/quotes), so only
    components that are single bare tokens survive: non-empty, no whitespace, none of `< > "`. -/
def simpleToken (s : Str) : Bool :=
  !s.isEmpty && s.all (fun c => !rustWs c && c != '<' && c != '>' && c != '"')

def innerSimple : LTerm → Bool
  | .plain s => simpleToken s
  | .quoted a b c => innerSimple a && innerSimple b && innerSimple c

def quotedOk : LTerm → Bool
  | .plain _ => true
  | .quoted a b c => innerSimple a && innerSimple b && innerSimple c

/-- FORCED (Turtle only): `flush_object` looks for the annotation brackets `{|` … `|}` in the raw object text, also inside
    a quoted literal -/
def annotationMarker (o : Str) : Bool := (findSub ['{', '|'] o 0).isSome && (findSub ['|', '}'] o 0).isSome

def isLiteralValue (o : Str) : Bool := !(validIri o || validBlank o)

/-- names of the forced hypotheses a quad violates (reported in the driver's `H` section) -/
def forcedViolations (fmt : String) (q : LQuad) : List String :=
  let h1 := match q.o with
    | .plain o => if isLiteralValue o && edgeShape o then ["lit_edge_shape"] else []
    | _ => []
  let h2 := if quotedOk q.s && quotedOk q.o then [] else ["quoted_inner_not_simple"]
  let h3 := match q.o with
    | .plain o => if fmt == "ttl" && isLiteralValue o && annotationMarker o then ["ttl_annotation_marker"] else []
    | _ => []
  h1 ++ h2 ++ h3

/-- the specification of export → import: the same quads (N-Quads: all graphs; N-Triples/Turtle: default graph) -/
def expected (fmt : String) (d : List LQuad) : List LQuad :=
  if fmt == "nq" then d else d.filter (fun q => q.g.isNone)

end Kolibrie.RoundTrip
