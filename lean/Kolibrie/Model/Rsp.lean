/-
Model of the RSP engine's per-window processing (C10) and of the multi-window join (C11).
Transcribes (defects included):
  kolibrie/src/rsp_engine.rs   create_window_processor! (prev_window_triples), register_window!, emit_results,
                               natural_join, join_window_results, process_single_thread_window_results
  kolibrie/src/rsp/simple_r2r.rs  SimpleR2R::{add, remove, materialize (derived_triples), execute_query}
  kolibrie/src/rsp/r2s.rs         Relation2StreamOperator::eval (last_result)
  kolibrie/src/rsp/s2r.rs         CSPARQLWindow::{scope, add_to_window, flush}   (only to obtain window contents)
HashMap/HashSet are duplicate-free lists (iteration order abstracted: all statements are up to `List.Perm`).
-/
namespace Kolibrie.Rsp

structure Triple where
  s : Nat
  p : Nat
  o : Nat
deriving DecidableEq, Repr

inductive Term
  | var (n : Nat)
  | const (n : Nat)
deriving DecidableEq, Repr

structure Pat where
  s : Term
  p : Term
  o : Term
deriving DecidableEq, Repr

/-- a solution: variable ↦ value, in order of first binding (canonical for a fixed query) -/
abbrev Row := List (Nat × Nat)

def lookup (r : Row) (v : Nat) : Option Nat :=
  match r with
  | [] => none
  | (k, x) :: rest => if k = v then some x else lookup rest v

def matchTerm (t : Term) (x : Nat) (r : Row) : Option Row :=
  match t with
  | .const c => if c = x then some r else none
  | .var v =>
    match lookup r v with
    | some y => if y = x then some r else none
    | none => some (r ++ [(v, x)])

def matchPat (pat : Pat) (r : Row) (t : Triple) : Option Row :=
  (matchTerm pat.s t.s r).bind fun r1 => (matchTerm pat.p t.p r1).bind fun r2 => matchTerm pat.o t.o r2

/-- one join step: extend every partial solution by every compatible triple (bag semantics) -/
def joinPat (store : List Triple) (rows : List Row) (pat : Pat) : List Row :=
  rows.flatMap fun r => store.filterMap (matchPat pat r)

/-- basic graph pattern over a set of triples (the window plans are BGPs over the store's default graph) -/
def evalBGP (store : List Triple) (pats : List Pat) : List Row :=
  pats.foldl (joinPat store) [[]]

/-! ### rules (simple Datalog as `SimpleR2R::load_rules` + `infer_new_facts_semi_naive` support) -/

structure Rule where
  body : List Pat
  head : List Pat
deriving Repr

def instTerm (r : Row) : Term → Option Nat
  | .const c => some c
  | .var v => lookup r v

def instPat (r : Row) (p : Pat) : Option Triple :=
  (instTerm r p.s).bind fun s => (instTerm r p.p).bind fun pp => (instTerm r p.o).map fun o => ⟨s, pp, o⟩

def consequences (rules : List Rule) (facts : List Triple) : List Triple :=
  rules.flatMap fun rl => (evalBGP facts rl.body).flatMap fun row => rl.head.filterMap (instPat row)

/-- duplicate-free version keeping one copy of every member -/
def dedup {α} [DecidableEq α] : List α → List α
  | [] => []
  | a :: l => if a ∈ dedup l then dedup l else a :: dedup l

/-- facts derived in one round that are not known yet (`inferred_facts_this_round`, a set) -/
def roundNew (rules : List Rule) (facts : List Triple) : List Triple :=
  dedup ((consequences rules facts).filter fun t => !decide (t ∈ facts))

/-- `infer_with_strategy`: rounds until nothing new (fuel = number of rounds allowed) -/
def closure (rules : List Rule) : Nat → List Triple → List Triple
  | 0, f => f
  | n + 1, f => closure rules n (f ++ roundNew rules f)

/-- `infer_new_facts_semi_naive`: only the facts that were not in the dataset -/
def deriveN (rules : List Rule) (fuel : Nat) (s : List Triple) : List Triple :=
  (closure rules fuel s).filter fun t => !decide (t ∈ s)

/-- did the iteration reach its fixpoint within the fuel? -/
def closedAt (rules : List Rule) (fuel : Nat) (s : List Triple) : Bool :=
  (roundNew rules (closure rules fuel s)).isEmpty

/-! ### the store (default graph of `SimpleR2R.item`): a set of triples -/

def insertT (s : List Triple) (t : Triple) : List Triple := if t ∈ s then s else s ++ [t]
def eraseT (s : List Triple) (t : Triple) : List Triple := s.filter fun x => !decide (x = t)

inductive StreamOp | rstream | istream | dstream
deriving DecidableEq, Repr

/-- `Relation2StreamOperator::eval`: emitted rows and the new `last_result` -/
def r2s (op : StreamOp) (last : List Row) (rows : List Row) : List Row × List Row :=
  match op with
  | .rstream => (rows, last)
  | .istream => (rows.filter (fun b => !decide (b ∈ last)), dedup rows)
  | .dstream => (last.filter (fun b => !decide (b ∈ rows)), dedup rows)

/-- what is plugged into a window processor: the reasoner, the window plan, the stream operator and whether
    `SimpleR2R::add` forgets a re-added triple from `derived_triples` (the repaired code does; extracted from source) -/
structure Cfg where
  derive : List Triple → List Triple
  query : List Triple → List Row
  op : StreamOp
  dropOnAdd : Bool

/-- state that survives between firings -/
structure St where
  store : List Triple        -- SimpleR2R.item (default graph)
  prevRaw : List Triple      -- prev_window_triples of the processor closure
  prevDerived : List Triple  -- SimpleR2R.derived_triples
  last : List Row            -- Relation2StreamOperator.last_result
deriving Repr

def St.init : St := ⟨[], [], [], []⟩

/-- `store.add(t)` for every item of the content (`SimpleR2R::add`) -/
def loadContent (dropOnAdd : Bool) (content : List Triple) (s d : List Triple) : List Triple × List Triple :=
  content.foldl (fun (acc : List Triple × List Triple) t =>
    (insertT acc.1 t, if dropOnAdd then eraseT acc.2 t else acc.2)) (s, d)

/-- the store part of one firing: evict previous raw content, load the current one, `materialize`, run the plan -/
def process (cfg : Cfg) (st : St) (content : List Triple) : St × List Row :=
  let s0 := st.prevRaw.foldl eraseT st.store
  let (s1, d1) := loadContent cfg.dropOnAdd content s0 st.prevDerived
  let s2 := d1.foldl eraseT s1                    -- materialize(): evict last cycle's derived triples
  let derived := cfg.derive s2
  let s3 := derived.foldl insertT s2
  ({ st with store := s3, prevRaw := content, prevDerived := derived }, cfg.query s3)

/-- one firing of the window processor -/
def fire (cfg : Cfg) (st : St) (content : List Triple) : St × List Row :=
  let (st1, rows) := process cfg st content
  let (out, last') := r2s cfg.op st1.last rows
  ({ st1 with last := last' }, out)

/-- single-threaded run: the emission of every firing, in order -/
def runFrom (cfg : Cfg) (st : St) : List (List Triple) → List (List Row)
  | [] => []
  | c :: cs => let (st', out) := fire cfg st c; out :: runFrom cfg st' cs

def run (cfg : Cfg) (hist : List (List Triple)) : List (List Row) := runFrom cfg St.init hist

/-- the state after a history of firings -/
def stateAfter (cfg : Cfg) (st : St) (hist : List (List Triple)) : St :=
  hist.foldl (fun st c => (fire cfg st c).1) st

/-- the stream operator alone, run over a sequence of answer lists -/
def r2sRun (op : StreamOp) (last : List Row) : List (List Row) → List (List Row)
  | [] => []
  | rows :: rest => let (out, last') := r2s op last rows; out :: r2sRun op last' rest

/-- the concrete configuration: Datalog rules, BGP plan -/
def mkCfg (rules : List Rule) (fuel : Nat) (pats : List Pat) (op : StreamOp) (dropOnAdd : Bool) : Cfg :=
  { derive := fun s => if rules.isEmpty then [] else deriveN rules fuel s,
    query := fun s => evalBGP s pats, op := op, dropOnAdd := dropOnAdd }

/-! ### the worker pipeline of `register_window!(MultiThread)`: producer → FIFO channel → one worker

The producer (the thread calling `add`) pushes fired window contents into the channel; the worker receives one,
takes the store mutex, processes, releases it, applies R2S and calls the consumer.  The worker is split into the
three phases between which the producer can be scheduled. -/

inductive Phase
  | idle
  | got (content : List Triple)   -- received, store mutex not yet taken
  | done (out : List Row)         -- processed under the mutex, rows not yet handed to the consumer

structure Pipe where
  pending : List (List Triple)   -- contents the window will still fire (producer's future)
  chan : List (List Triple)      -- FIFO channel
  phase : Phase
  st : St
  emitted : List (List Row)      -- what the consumer has seen, per firing

inductive Step | push | recv | work | emit
deriving DecidableEq, Repr

/-- one scheduler choice; a choice that is not enabled leaves the system unchanged -/
def Pipe.step (cfg : Cfg) (p : Pipe) : Step → Pipe
  | .push => match p.pending with
      | [] => p
      | c :: cs => { p with pending := cs, chan := p.chan ++ [c] }
  | .recv => match p.phase, p.chan with
      | .idle, c :: cs => { p with chan := cs, phase := .got c }
      | _, _ => p
  | .work => match p.phase with
      | .got c => let (st', out) := fire cfg p.st c; { p with st := st', phase := .done out }
      | _ => p
  | .emit => match p.phase with
      | .done out => { p with phase := .idle, emitted := p.emitted ++ [out] }
      | _ => p

def Pipe.init (hist : List (List Triple)) : Pipe := ⟨hist, [], .idle, St.init, []⟩

def Pipe.runSched (cfg : Cfg) (p : Pipe) (sched : List Step) : Pipe := sched.foldl (Pipe.step cfg) p

/-- everything has been produced, consumed and emitted -/
def Pipe.finished (p : Pipe) : Bool :=
  p.pending.isEmpty && p.chan.isEmpty && (match p.phase with | .idle => true | _ => false)

/-! ### window operator (only used by the drivers to obtain the fired contents; proved about in C09) -/

structure Win where
  opn : Nat
  cls : Nat
  content : List Triple      -- keys of `elements`, insertion order
deriving Repr

structure WState where
  active : List Win
  appTime : Nat
deriving Repr

def WState.init : WState := ⟨[], 0⟩

/-- `scope`: the windows to open for event time `t`. `c_sup = ⌈t/slide⌉·slide`; opens `c_sup - width + k·slide ≤ t`,
    negative opens clipped to 0 by the `as usize` cast, close computed before clipping -/
def scopeList (width slide t : Nat) : List (Nat × Nat) :=
  let csup := ((t + slide - 1) / slide) * slide
  -- o_i = csup - width + k*slide as an integer; loop runs at least once and while o_i ≤ t
  let rec go (fuel : Nat) (k : Nat) (acc : List (Nat × Nat)) : List (Nat × Nat) :=
    match fuel with
    | 0 => acc
    | f + 1 =>
      let oi : Int := (csup : Int) - width + k * slide
      let w := (oi.toNat, (oi + width).toNat)
      let acc := acc ++ [w]
      if oi + slide > t then acc else go f (k + 1) acc
  go (width / slide + t + 2) 0 []

def scope (width slide t : Nat) (ws : List Win) : List Win :=
  (scopeList width slide t).foldl (fun ws (w : Nat × Nat) =>
    if ws.any (fun x => x.opn == w.1 && x.cls == w.2) then ws else ws ++ [⟨w.1, w.2, []⟩]) ws

def maxClose : List Win → Option Win
  | [] => none
  | w :: ws => match maxClose ws with
      | none => some w
      | some m => if m.cls > w.cls then some m else some w

/-- `add_to_window` (OnWindowClose, TimeDriven): new state and the content fired, if any -/
def WState.add (width slide : Nat) (st : WState) (x : Triple) (t : Nat) : WState × Option (List Triple) :=
  let pre := scope width slide t st.active
  let post := pre.filterMap fun w =>
    if w.opn ≤ t ∧ t < w.cls then some { w with content := insertT w.content x } else none
  let cand := maxClose (pre.filter fun w => decide (w.cls ≤ t))
  match cand with
  | some w => if t > st.appTime then (⟨post, t⟩, some w.content) else (⟨post, st.appTime⟩, none)
  | none => (⟨post, st.appTime⟩, none)

/-- `flush`: union of all active windows, reported if non-empty -/
def WState.flush (st : WState) : Option (List Triple) :=
  let merged := st.active.foldl (fun acc w => w.content.foldl insertT acc) []
  if merged.isEmpty then none else some merged

end Kolibrie.Rsp
