import Kolibrie.Extracted
/-
Token-level model of the unified SPARQL SELECT parser (`kolibrie/src/parser.rs`: `parse_group_graph_pattern`,
`sparql_group_primary`, `sparql_triples_statement`, `sparql_filter_*`, `sparql_subquery`, `sparql_select_core`,
`sparql_projection_items`, `sparql_group_by_clause`, `sparql_order_by_clause`, `sparql_limit_clause`) for the
supported fragment, the syntax tree it builds (`shared/src/query.rs`: `GroupGraphPattern`, `SelectQuery`,
`FilterExpression`), a printer and a lexer.  Import-free (only `Kolibrie.Extracted`).

Lexemes are `List Char`.  The parser mirrors the decisions of the Rust code (which alternative is tried first,
UNION only between braced groups, single-element groups collapse, optional dots, the nesting-depth guard of
`SparqlNestingGuard` with the extracted limit).
-/
namespace Kolibrie.Syntax

abbrev Lexeme := List Char

inductive Tok
  | kw (k : String)       -- keyword, canonical upper case
  | term (t : Lexeme)     -- variable / IRI / prefixed name / literal / number, verbatim
  | sym (s : String)      -- punctuation and operators
  deriving DecidableEq, Repr

/-! ## Syntax tree -/

inductive FExpr
  | cmp (l : Lexeme) (op : String) (r : Lexeme)
  | and (a b : FExpr)
  | or (a b : FExpr)
  | not (a : FExpr)
  deriving DecidableEq, Repr

mutual
inductive Pat
  | unit
  | bgp (s : Lexeme) (pos : List (Lexeme × Lexeme))   -- one triples-same-subject statement: `(s, p, o)` for each pair
  | join (ps : PatList)
  | union (ps : PatList)
  | graph (name : Lexeme) (p : Pat)
  | filter (e : FExpr)
  | sub (q : Sel)
inductive PatList
  | nil
  | cons (p : Pat) (ps : PatList)
inductive Sel
  | mk (distinct : Bool) (vars : List Lexeme) (pat : Pat) (groupBy : List Lexeme)
       (order : List (Lexeme × Bool)) (limit : Option Nat)     -- `vars = []` is `*`; order flag `true` = DESC
end

def PatList.length : PatList → Nat
  | .nil => 0
  | .cons _ ps => ps.length + 1

/-! ## Printer (token level) -/

/-- where the optional `.` after a group element is printed -/
inductive Dots | all | none | between
  deriving DecidableEq, Repr

def natDigits (n : Nat) : Lexeme := Nat.toDigits 10 n

def sy (s : String) : Tok := .sym s
def kwd (s : String) : Tok := .kw s

def toksPos : List (Lexeme × Lexeme) → List Tok
  | [] => []
  | [(p, o)] => [.term p, .term o]
  | (p, o) :: rest => .term p :: .term o :: sy ";" :: toksPos rest

/-- binary operands are always parenthesised, so the printed expression parses back with any precedence rules -/
def toksF : FExpr → List Tok
  | .cmp l op r => [.term l, sy op, .term r]
  | .and a b => sy "(" :: toksF a ++ sy ")" :: sy "&&" :: sy "(" :: toksF b ++ [sy ")"]
  | .or a b => sy "(" :: toksF a ++ sy ")" :: sy "||" :: sy "(" :: toksF b ++ [sy ")"]
  | .not a => sy "!" :: sy "(" :: toksF a ++ [sy ")"]

def toksVars : List Lexeme → List Tok
  | [] => [sy "*"]
  | vs => vs.map .term

def toksOrder : List (Lexeme × Bool) → List Tok
  | [] => []
  | (v, false) :: r => .term v :: toksOrder r
  | (v, true) :: r => kwd "DESC" :: sy "(" :: .term v :: sy ")" :: toksOrder r

def dotTok (d : Dots) (last : Bool) : List Tok :=
  match d with
  | .all => [sy "."]
  | .none => []
  | .between => if last then [] else [sy "."]

/-- `parse_group_graph_pattern` accepts the optional `.` only after triples / GRAPH / UNION / group elements:
    the FILTER (BIND, VALUES) branches `continue` before the dot is looked at, so `FILTER(…) .` is a parse error
    in the code — the printer never emits it -/
def isFilter : Pat → Bool
  | .filter _ => true
  | _ => false

mutual
/-- a pattern printed as a group element -/
def toksItem (d : Dots) : Pat → List Tok
  | .unit => [sy "{", sy "}"]
  | .bgp s pos => .term s :: toksPos pos
  | .join ps => sy "{" :: toksItems d ps ++ [sy "}"]
  | .union ps => toksAlts d ps
  | .graph n p => kwd "GRAPH" :: .term n :: toksBraced d p
  | .filter e => kwd "FILTER" :: sy "(" :: toksF e ++ [sy ")"]
  | .sub q => sy "{" :: toksSel d q ++ [sy "}"]
/-- a pattern printed as a braced group `{ … }` whose parse is exactly that pattern -/
def toksBraced (d : Dots) : Pat → List Tok
  | .unit => [sy "{", sy "}"]
  | .join ps => sy "{" :: toksItems d ps ++ [sy "}"]
  | .bgp s pos => sy "{" :: .term s :: toksPos pos ++ dotTok d true ++ [sy "}"]
  | .union ps => sy "{" :: toksAlts d ps ++ dotTok d true ++ [sy "}"]
  | .graph n p => sy "{" :: kwd "GRAPH" :: .term n :: toksBraced d p ++ dotTok d true ++ [sy "}"]
  | .filter e => sy "{" :: kwd "FILTER" :: sy "(" :: toksF e ++ [sy ")", sy "}"]
  | .sub q => sy "{" :: sy "{" :: toksSel d q ++ sy "}" :: dotTok d true ++ [sy "}"]
def toksItems (d : Dots) : PatList → List Tok
  | .nil => []
  | .cons p .nil => toksItem d p ++ (if isFilter p then [] else dotTok d true)
  | .cons p ps => toksItem d p ++ (if isFilter p then [] else dotTok d false) ++ toksItems d ps
def toksAlts (d : Dots) : PatList → List Tok
  | .nil => []
  | .cons p .nil => toksBraced d p
  | .cons p ps => toksBraced d p ++ kwd "UNION" :: toksAlts d ps
def toksSel (d : Dots) : Sel → List Tok
  | .mk dist vars pat gb ob lim =>
    kwd "SELECT" :: (if dist then [kwd "DISTINCT"] else []) ++ toksVars vars ++ kwd "WHERE" :: toksBraced d pat ++
      (if gb.isEmpty then [] else kwd "GROUP" :: kwd "BY" :: gb.map .term) ++
      (if ob.isEmpty then [] else kwd "ORDER" :: kwd "BY" :: toksOrder ob) ++
      (match lim with | none => [] | some n => [kwd "LIMIT", .term (natDigits n)])
end

/-! ## Token-level parser -/

def guardOk (depth : Nat) : Bool := depth < Kolibrie.Extracted.maxNestingDepth

def isVarTok : Tok → Bool
  | .term (c :: _) => c == '?' || c == '$'
  | _ => false

/-- `sparql_filter_operator`: the extracted operator list -/
def isCmpOp (s : String) : Bool := Kolibrie.Extracted.filterOperators.contains s

/-- the `;`-separated predicate–object list of `sparql_triples_statement` (no `,` in the fragment) -/
def parsePos : Nat → List Tok → Option (List (Lexeme × Lexeme) × List Tok)
  | 0, _ => none
  | fuel + 1, .term p :: .term o :: .sym ";" :: .term p2 :: rest =>
    match parsePos fuel (.term p2 :: rest) with
    | some (pos, r) => some ((p, o) :: pos, r)
    | none => none
  | _ + 1, .term p :: .term o :: .sym ";" :: rest => some ([(p, o)], rest)   -- trailing `;` before `.` / `}`
  | _ + 1, .term p :: .term o :: rest => some ([(p, o)], rest)
  | _ + 1, _ => none

mutual
/-- `sparql_filter_atom` (depth = guard counter on entry) -/
def parseAtom : Nat → Nat → List Tok → Option (FExpr × List Tok)
  | 0, _, _ => none
  | fuel + 1, depth, toks =>
    if !guardOk depth then none else
    match toks with
    | .sym "!" :: rest =>
      (match parseAtom fuel (depth + 1) rest with
       | some (e, r) => some (.not e, r)
       | none => none)
    | .term l :: .sym op :: .term r :: rest =>
      -- `sparql_filter_comparison`: both operands pass the guard of `sparql_filter_operand`
      if isCmpOp op && guardOk (depth + 1) then some (.cmp l op r, rest) else none
    | .sym "(" :: rest =>
      (match parseOr fuel (depth + 1) rest with
       | some (e, .sym ")" :: r) => some (e, r)
       | _ => none)
    | _ => none
/-- `sparql_filter_and`: left-associative -/
def parseAndTail : Nat → Nat → FExpr → List Tok → Option (FExpr × List Tok)
  | 0, _, _, _ => none
  | fuel + 1, depth, acc, .sym "&&" :: rest =>
    (match parseAtom fuel depth rest with
     | some (e, r) => parseAndTail fuel depth (.and acc e) r
     | none => none)
  | _ + 1, _, acc, toks => some (acc, toks)
def parseAnd : Nat → Nat → List Tok → Option (FExpr × List Tok)
  | 0, _, _ => none
  | fuel + 1, depth, toks =>
    match parseAtom fuel depth toks with
    | some (e, r) => parseAndTail fuel depth e r
    | none => none
def parseOrTail : Nat → Nat → FExpr → List Tok → Option (FExpr × List Tok)
  | 0, _, _, _ => none
  | fuel + 1, depth, acc, .sym "||" :: rest =>
    (match parseAnd fuel depth rest with
     | some (e, r) => parseOrTail fuel depth (.or acc e) r
     | none => none)
  | _ + 1, _, acc, toks => some (acc, toks)
/-- `sparql_filter_or` -/
def parseOr : Nat → Nat → List Tok → Option (FExpr × List Tok)
  | 0, _, _ => none
  | fuel + 1, depth, toks =>
    match parseAnd fuel depth toks with
    | some (e, r) => parseOrTail fuel depth e r
    | none => none
end

def parseVars : List Tok → List Lexeme × List Tok
  | .term (c :: cs) :: rest =>
    if c == '?' || c == '$' then let (vs, r) := parseVars rest; ((c :: cs) :: vs, r) else ([], .term (c :: cs) :: rest)
  | toks => ([], toks)

/-- `sparql_order_by_clause` conditions -/
def parseOrder : Nat → List Tok → List (Lexeme × Bool) × List Tok
  | 0, toks => ([], toks)
  | fuel + 1, .kw "DESC" :: .sym "(" :: .term v :: .sym ")" :: rest =>
    let (os, r) := parseOrder fuel rest; ((v, true) :: os, r)
  | fuel + 1, .kw "ASC" :: .sym "(" :: .term v :: .sym ")" :: rest =>
    let (os, r) := parseOrder fuel rest; ((v, false) :: os, r)
  | fuel + 1, .term (c :: cs) :: rest =>
    if c == '?' || c == '$' then let (os, r) := parseOrder fuel rest; ((c :: cs, false) :: os, r)
    else ([], .term (c :: cs) :: rest)
  | _ + 1, toks => ([], toks)

def allDigits (l : Lexeme) : Bool := !l.isEmpty && l.all Char.isDigit
def lexNat (l : Lexeme) : Nat := Nat.ofDigitChars 10 l 0

def dropDot : List Tok → List Tok
  | .sym "." :: r => r
  | toks => toks

/-- `sparql_group_by_clause` (when the keyword GROUP is present) -/
def parseGroupBy (toks : List Tok) : Option (List Lexeme × List Tok) :=
  match toks with
  | .kw "GROUP" :: .kw "BY" :: r => let (vs, r') := parseVars r; if vs.isEmpty then none else some (vs, r')
  | .kw "GROUP" :: _ => none
  | _ => some ([], toks)

/-- `sparql_order_by_clause` (when the keyword ORDER is present) -/
def parseOrderBy (toks : List Tok) : Option (List (Lexeme × Bool) × List Tok) :=
  match toks with
  | .kw "ORDER" :: .kw "BY" :: r => let (os, r') := parseOrder r.length r; if os.isEmpty then none else some (os, r')
  | .kw "ORDER" :: _ => none
  | _ => some ([], toks)

/-- `sparql_limit_clause` (when the keyword LIMIT is present) -/
def parseLimit (toks : List Tok) : Option (Option Nat × List Tok) :=
  match toks with
  | .kw "LIMIT" :: .term n :: r => if allDigits n then some (some (lexNat n), r) else none
  | .kw "LIMIT" :: _ => none
  | _ => some (none, toks)

/-- solution modifiers after the group of `sparql_select_core` -/
def parseModifiers (toks : List Tok) : Option (List Lexeme × List (Lexeme × Bool) × Option Nat × List Tok) :=
  match parseGroupBy toks with
  | none => none
  | some (gb, r1) =>
    match parseOrderBy r1 with
    | none => none
    | some (ob, r2) =>
      match parseLimit r2 with
      | none => none
      | some (lim, r3) => some (gb, ob, lim, r3)

mutual
/-- `parse_group_graph_pattern` (depth = guard counter on entry) -/
def parseBraced : Nat → Nat → List Tok → Option (Pat × List Tok)
  | 0, _, _ => none
  | fuel + 1, depth, toks =>
    if !guardOk depth then none else
    match toks with
    | .sym "{" :: .kw "SELECT" :: rest =>
      -- `{ SELECT … }` is a sub-select wherever a group may appear (fixes/C16_subselect_in_group.patch)
      (match parseSel fuel (depth + 1) (.kw "SELECT" :: rest) with
       | some (q, .sym "}" :: r) => some (.sub q, r)
       | _ => none)
    | .sym "{" :: rest =>
      (match parseItems fuel (depth + 1) rest with
       | some (ps, .sym "}" :: r) =>
         (match ps with
          | .nil => some (.unit, r)
          | .cons p .nil => some (p, r)
          | _ => some (.join ps, r))
       | _ => none)
    | _ => none
/-- the element loop of `parse_group_graph_pattern`, up to (not including) the closing brace -/
def parseItems : Nat → Nat → List Tok → Option (PatList × List Tok)
  | 0, _, _ => none
  | fuel + 1, depth, toks =>
    match toks with
    | .sym "}" :: _ => some (.nil, toks)
    | _ =>
      match parseElem fuel depth toks with
      | none => none
      | some (p, dotOk, r) =>
        match parseItems fuel depth (if dotOk then dropDot r else r) with
        | some (ps, r') => some (.cons p ps, r')
        | none => none
/-- one element of the loop; the flag says whether the optional `.` is looked at afterwards (the FILTER branch
    `continue`s before it) -/
def parseElem : Nat → Nat → List Tok → Option (Pat × Bool × List Tok)
  | 0, _, _ => none
  | fuel + 1, depth, toks =>
    match toks with
    | .kw "FILTER" :: .sym "(" :: rest =>
      (match parseOr fuel depth rest with
       | some (e, .sym ")" :: r) => some (.filter e, false, r)
       | _ => none)
    | _ =>
      let firstBraced := match toks with | .sym "{" :: _ => true | _ => false
      match parsePrimary fuel depth toks with
      | none => none
      | some (first, r1) =>
        match parseUnionTail fuel depth firstBraced r1 with
        | none => none
        | some (alts, r2) =>
          some ((match alts with | .nil => first | _ => Pat.union (.cons first alts)), true, r2)
/-- the `while let Ok(..) = sparql_keyword(input, "UNION")` loop -/
def parseUnionTail : Nat → Nat → Bool → List Tok → Option (PatList × List Tok)
  | 0, _, _, _ => none
  | fuel + 1, depth, firstBraced, .kw "UNION" :: rest =>
    (match rest with
     | .sym "{" :: _ =>
       if !firstBraced then none else
       (match parsePrimary fuel depth rest with
        | some (p, r) =>
          (match parseUnionTail fuel depth firstBraced r with
           | some (ps, r') => some (.cons p ps, r')
           | none => none)
        | none => none)
     | _ => none)
  | _ + 1, _, _, toks => some (.nil, toks)
/-- `sparql_group_primary` -/
def parsePrimary : Nat → Nat → List Tok → Option (Pat × List Tok)
  | 0, _, _ => none
  | fuel + 1, depth, toks =>
    match toks with
    | .kw "GRAPH" :: .term n :: rest =>
      (match parseBraced fuel depth rest with
       | some (p, r) => some (.graph n p, r)
       | none => none)
    | .sym "{" :: .kw "SELECT" :: rest =>
      (match parseSel fuel depth (.kw "SELECT" :: rest) with
       | some (q, .sym "}" :: r) => some (.sub q, r)
       | _ => none)
    | .sym "{" :: _ => parseBraced fuel depth toks
    | .term s :: rest =>
      (match parsePos (fuel + 1) rest with
       | some (pos, r) => some (.bgp s pos, r)
       | none => none)
    | _ => none
/-- `sparql_select_core` without dataset clauses -/
def parseSel : Nat → Nat → List Tok → Option (Sel × List Tok)
  | 0, _, _ => none
  | fuel + 1, depth, toks =>
    match toks with
    | .kw "SELECT" :: rest =>
      let (dist, r0) := match rest with | .kw "DISTINCT" :: r => (true, r) | _ => (false, rest)
      let pr : Option (List Lexeme × List Tok) :=
        match r0 with
        | .sym "*" :: r => some ([], r)
        | _ => let (vs, r) := parseVars r0; if vs.isEmpty then none else some (vs, r)
      (match pr with
       | none => none
       | some (vars, r1) =>
         let r2 := match r1 with | .kw "WHERE" :: r => r | _ => r1
         match parseBraced fuel depth r2 with
         | none => none
         | some (pat, r3) =>
           match parseModifiers r3 with
           | none => none
           | some (gb, ob, lim, r4) => some (.mk dist vars pat gb ob lim, r4))
    | _ => none
end

/-- whole-input parse of a SELECT query: acceptance requires that every token was consumed
    (`parse_sparql_query` / `parse_combined_query`: `remaining.is_empty()`) -/
def parseTokFuel (fuel : Nat) (toks : List Tok) : Option Sel :=
  match parseSel fuel 0 toks with
  | some (q, []) => some q
  | _ => none

/-- the fuel is generous: every call consumes one unit and the call depth is bounded by a small multiple of the
    number of tokens -/
def parseTok (toks : List Tok) : Option Sel := parseTokFuel (64 * toks.length + 64) toks

/-! ## Lexer -/

def keywords : List String :=
  ["SELECT", "DISTINCT", "WHERE", "GRAPH", "UNION", "FILTER", "GROUP", "BY", "ORDER", "LIMIT", "ASC", "DESC"]

def isWs (c : Char) : Bool := c == ' ' || c == '\n' || c == '\t' || c == '\r'
def isWordChar (c : Char) : Bool := c.isAlphanum || c == '_' || c == ':' || c == '-'
def isVarChar (c : Char) : Bool := c.isAlphanum || c == '_'
def isIriChar (c : Char) : Bool :=
  !(c.toNat ≤ 0x20 || c == '<' || c == '>' || c == '"' || c == '{' || c == '}' || c == '|' || c == '^' || c == '`' || c == '\\')
def isLitChar (c : Char) : Bool := !(c == '"' || c == '\\' || c == '\n' || c == '\r')

def upper (l : List Char) : String := String.ofList (l.map Char.toUpper)

/-- closing `>` of an IRI that starts at the head of the list (after `<`) -/
def iriBody : List Char → Option (List Char × List Char)
  | [] => none
  | c :: cs =>
    if c == '>' then some ([], cs)
    else if isIriChar c then (match iriBody cs with | some (b, r) => some (c :: b, r) | none => none)
    else none

def litBody : List Char → Option (List Char × List Char)
  | [] => none
  | c :: cs =>
    if c == '"' then some ([], cs)
    else if isLitChar c then (match litBody cs with | some (b, r) => some (c :: b, r) | none => none)
    else none

def skipComment : List Char → List Char
  | [] => []
  | c :: cs => if c == '\n' || c == '\r' then c :: cs else skipComment cs

/-- one token from a list that does not start with whitespace or a comment -/
def lexOne : List Char → Option (Tok × List Char)
  | [] => none
  | c :: cs =>
    if c == '?' || c == '$' then
      let name := cs.takeWhile isVarChar
      if name.isEmpty then none else some (.term (c :: name), cs.dropWhile isVarChar)
    else if c == '<' then
      match iriBody cs with
      | some (b, r) => some (.term ('<' :: b ++ ['>']), r)
      | none => (match cs with | '=' :: r => some (.sym "<=", r) | _ => some (.sym "<", cs))
    else if c == '"' then
      match litBody cs with
      | some (b, r) => some (.term ('"' :: b ++ ['"']), r)
      | none => none
    else if c.isDigit then
      some (.term (c :: cs.takeWhile Char.isDigit), cs.dropWhile Char.isDigit)
    else if c.isAlpha then
      let w := c :: cs.takeWhile isWordChar
      let r := cs.dropWhile isWordChar
      if keywords.contains (upper w) then some (.kw (upper w), r) else some (.term w, r)
    else if c == '&' then (match cs with | '&' :: r => some (.sym "&&", r) | _ => none)
    else if c == '|' then (match cs with | '|' :: r => some (.sym "||", r) | _ => none)
    else if c == '!' then (match cs with | '=' :: r => some (.sym "!=", r) | _ => some (.sym "!", cs))
    else if c == '>' then (match cs with | '=' :: r => some (.sym ">=", r) | _ => some (.sym ">", cs))
    else if c == '=' || c == '{' || c == '}' || c == '(' || c == ')' || c == '.' || c == ';' || c == ',' || c == '*' then
      some (.sym (String.singleton c), cs)
    else none

/-- the lexer: `none` on a character sequence outside the fragment -/
def lex : Nat → List Char → Option (List Tok)
  | 0, _ => none
  | _ + 1, [] => some []
  | fuel + 1, c :: cs =>
    if isWs c then lex fuel cs
    else if c == '#' then lex fuel (skipComment cs)
    else match lexOne (c :: cs) with
      | some (t, r) => (match lex fuel r with | some ts => some (t :: ts) | none => none)
      | none => none

def tokens (cs : List Char) : Option (List Tok) := lex (cs.length + 1) cs

/-! ## Rendering tokens with a layout -/

/-- one piece of a separator: a whitespace character or a `#…` comment closed by a newline -/
inductive Piece
  | sp | nl | tab | cr
  | comment (text : List Char)
  deriving DecidableEq, Repr

def Piece.render : Piece → List Char
  | .sp => [' '] | .nl => ['\n'] | .tab => ['\t'] | .cr => ['\r']
  | .comment t => '#' :: t ++ ['\n']

def Piece.ok : Piece → Bool
  | .comment t => t.all (fun c => !(c == '\n' || c == '\r'))
  | _ => true

def renderSep (ps : List Piece) : List Char := ps.flatMap Piece.render

/-- a layout: the separator printed before token `i` and the case variant used for keyword token `i` -/
structure Layout where
  sep : Nat → List Piece
  kwCase : Nat → Nat

def altCase : Bool → List Char → List Char
  | _, [] => []
  | lower, c :: cs => (if lower then c.toLower else c.toUpper) :: altCase (!lower) cs

def kwText (variant : Nat) (k : String) : List Char :=
  match variant % 3 with
  | 0 => k.toList
  | 1 => k.toList.map Char.toLower
  | _ => altCase true k.toList

def tokText (variant : Nat) : Tok → List Char
  | .kw k => kwText variant k
  | .term t => t
  | .sym s => s.toList

/-- tokens `i, i+1, …` rendered with their separators -/
def render (l : Layout) : Nat → List Tok → List Char
  | _, [] => []
  | i, t :: ts => renderSep (l.sep i) ++ tokText (l.kwCase i) t ++ render l (i + 1) ts

/-- pretty-printer: syntax tree → text, for a dot style and a layout (trailing newline-free) -/
def pp (q : Sel) (d : Dots) (l : Layout) : List Char := render l 0 (toksSel d q)

/-! ## Well-formedness of lexemes (the fragment the theorems speak about) -/

def isVarLex (l : Lexeme) : Bool :=
  match l with
  | c :: n => (c == '?' || c == '$') && !n.isEmpty && n.all isVarChar
  | [] => false
def isIriLex (l : Lexeme) : Bool :=
  match l with
  | '<' :: r => (match r.reverse with | '>' :: b => b.all isIriChar | _ => false)
  | _ => false
def isLitLex (l : Lexeme) : Bool :=
  match l with
  | '"' :: r => (match r.reverse with | '"' :: b => b.all isLitChar | _ => false)
  | _ => false
def isNumLex (l : Lexeme) : Bool := !l.isEmpty && l.all Char.isDigit
/-- prefixed name / bare identifier: starts with a letter, word characters only, not a keyword -/
def isNameLex (l : Lexeme) : Bool :=
  match l with
  | c :: n => c.isAlpha && n.all isWordChar && !keywords.contains (upper l)
  | [] => false

/-- a lexeme the lexer reads back verbatim -/
def isTermLex (l : Lexeme) : Bool := isVarLex l || isIriLex l || isLitLex l || isNumLex l || isNameLex l
/-- a lexeme that cannot be mistaken for a variable (subjects, predicates, objects, graph names may be variables
    too; this class is for positions where the parser looks at the sigil) -/
def isNonVarLex (l : Lexeme) : Bool := isIriLex l || isLitLex l || isNumLex l || isNameLex l

/-! ## Compact prefix code of syntax trees (requests and canonical replies) -/

def hexDigit (n : Nat) : Char :=
  if n < 10 then Char.ofNat (n + 48) else Char.ofNat (n - 10 + 97)
def hexOfChars (l : List Char) : String :=
  if l.isEmpty then "-" else
  String.ofList ((String.ofList l).toUTF8.toList.flatMap fun b => [hexDigit (b.toNat / 16), hexDigit (b.toNat % 16)])

def encF : FExpr → List String
  | .cmp l op r => ["C", hexOfChars l, op, hexOfChars r]
  | .and a b => "A" :: encF a ++ encF b
  | .or a b => "O" :: encF a ++ encF b
  | .not a => "X" :: encF a

mutual
def encPat : Pat → List String
  | .unit => ["U"]
  | .bgp s pos => "B" :: hexOfChars s :: toString pos.length :: pos.flatMap (fun po => [hexOfChars po.1, hexOfChars po.2])
  | .join ps => "J" :: toString ps.length :: encList ps
  | .union ps => "N" :: toString ps.length :: encList ps
  | .graph n p => "G" :: hexOfChars n :: encPat p
  | .filter e => "F" :: encF e
  | .sub q => "Q" :: encSel q
def encList : PatList → List String
  | .nil => []
  | .cons p ps => encPat p ++ encList ps
def encSel : Sel → List String
  | .mk dist vars pat gb ob lim =>
    "S" :: (if dist then "1" else "0") :: toString vars.length :: vars.map hexOfChars ++ encPat pat ++
      toString gb.length :: gb.map hexOfChars ++
      toString ob.length :: ob.flatMap (fun o => [hexOfChars o.1, if o.2 then "1" else "0"]) ++
      [match lim with | none => "-" | some n => toString n]
end

def encode (q : Sel) : String := ",".intercalate (encSel q)

end Kolibrie.Syntax
