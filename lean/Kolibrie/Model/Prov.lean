import Kolibrie.Extracted
/-
Model for C06 / C12: provenance-annotated semi-naive Datalog.

Transcribes (defects and quirks included)
  datalog/src/reasoning/materialisation/provenance_semi_naive.rs
      ProvenanceSemiNaiveStrategy::{find_premise_solutions_with_triples, infer_round},
      Reasoner::infer_new_facts_with_provenance (seed numbering), semi_naive_with_initial_tags(_and_delta),
      run_negative_stratum_pass
  datalog/src/reasoning/materialisation/provenance_infer_generic.rs   (driver loop)
  shared/src/tag_store.rs   TagStore::{get_tag, set_tag, update_disjunction}
  shared/src/provenance.rs  BooleanProvenance, MinMaxProbability, ExpirationProvenance, DnfWmcProvenance
                            (remove_subsumed, remove_contradictory, negate, shannon_wmc)
  shared/src/join_algorithm.rs  perform_hash_join_for_rules, reduced to its observable: every binding is extended by
                            every compatible fact (constants, repeated variables, variable predicates honoured).

Conventions: ids are `Nat` (u32 without overflow); `HashMap`/`HashSet`/`BTreeSet` are lists read through membership
only; probabilities are numerators `k` over a fixed denominator `D` (f64 in the code; see Props/C06 assumptions).
Import-free apart from `Kolibrie.Extracted` (regenerated semiring operation bodies).
-/
namespace Kolibrie.Prov

/-- insertion sort (structural, so that closed runs of the model evaluate inside the kernel) -/
def insertBy {α} (le : α → α → Bool) (a : α) : List α → List α
  | [] => [a]
  | b :: l => if le a b then a :: b :: l else b :: insertBy le a l

def sortBy' {α} (le : α → α → Bool) : List α → List α
  | [] => []
  | a :: l => insertBy le a (sortBy' le l)

/-! ## Datalog core -/

inductive Term where
  | var (v : String)
  | const (n : Nat)
  deriving DecidableEq, Repr

structure Fact where
  s : Nat
  p : Nat
  o : Nat
  deriving DecidableEq, Repr

structure Pat where
  s : Term
  p : Term
  o : Term
  deriving DecidableEq, Repr

structure Rule where
  prem : List Pat
  neg : List Pat
  concl : List Pat
  deriving DecidableEq, Repr

def termVars : Term → List String
  | .var v => [v]
  | .const _ => []

def patVars (p : Pat) : List String := termVars p.s ++ termVars p.p ++ termVars p.o

/-- every head variable occurs in a positive premise (otherwise the code invents `ml_output_placeholder` terms /
    id 0, which the model does not transcribe) -/
def safeRule (r : Rule) : Bool :=
  r.concl.all fun c => (patVars c).all fun v => r.prem.any fun p => (patVars p).contains v

/-- `check_rule_safety`: every variable of a NOT atom occurs in a positive premise -/
def safeNeg (r : Rule) : Bool :=
  r.neg.all fun c => (patVars c).all fun v => r.prem.any fun p => (patVars p).contains v

abbrev Binding := List (String × Nat)

def bget : Binding → String → Option Nat
  | [], _ => none
  | (k, x) :: r, v => if k = v then some x else bget r v

/-- value of a variable under a binding; unbound variables read `0`
    (`get_id_from_term`: `unwrap_or_else(|| … 0)`) -/
def valOf (b : Binding) (v : String) : Nat := (bget b v).getD 0

def matchTerm (t : Term) (x : Nat) (b : Binding) : Option Binding :=
  match t with
  | .const c => if c = x then some b else none
  | .var v =>
    match bget b v with
    | some y => if y = x then some b else none
    | none => some ((v, x) :: b)

def matchPat (p : Pat) (f : Fact) (b : Binding) : Option Binding :=
  (matchTerm p.s f.s b).bind fun b1 => (matchTerm p.p f.p b1).bind fun b2 => matchTerm p.o f.o b2

/-- `join_premise_with_hash_join`: all extensions of the current bindings by facts matching the premise -/
def joinPrem (p : Pat) (facts : List Fact) (bs : List Binding) : List Binding :=
  bs.flatMap fun b => facts.filterMap fun f => matchPat p f b

def joinAll (ps : List Pat) (facts : List Fact) (bs : List Binding) : List Binding :=
  ps.foldl (fun bs p => joinPrem p facts bs) bs

/-- total instantiation under a valuation -/
def instTermV (σ : String → Nat) : Term → Nat
  | .const c => c
  | .var v => σ v

def instV (σ : String → Nat) (p : Pat) : Fact := ⟨instTermV σ p.s, instTermV σ p.p, instTermV σ p.o⟩

/-- `resolve_term` -/
def instTermB (b : Binding) : Term → Option Nat
  | .const c => some c
  | .var v => bget b v

/-- one entry of `resolve_premise_triples` (`filter_map`: unresolvable patterns are skipped) -/
def instPatB (b : Binding) (p : Pat) : Option Fact :=
  (instTermB b p.s).bind fun s => (instTermB b p.p).bind fun q => (instTermB b p.o).map fun o => ⟨s, q, o⟩

/-- a rule instance found by the join: matched premise triples and instantiated conclusions -/
structure Job where
  prems : List Fact
  concls : List Fact
  deriving DecidableEq, Repr

/-- bindings of `find_premise_solutions_with_triples` for delta position `i` -/
def solutionsAt (r : Rule) (all delta : List Fact) (i : Nat) : List Binding :=
  match r.prem[i]? with
  | none => []
  | some pi => joinAll (r.prem.eraseIdx i) all (joinPrem pi delta [[]])

def solutions (r : Rule) (all delta : List Fact) : List Binding :=
  (List.range r.prem.length).flatMap (solutionsAt r all delta)

def jobOf (r : Rule) (b : Binding) : Job :=
  ⟨r.prem.filterMap (instPatB b), r.concl.map (instV (valOf b))⟩

/-- every derivation examined in one round (`seen_derivations` de-duplication included) -/
def jobs (rules : List Rule) (all delta : List Fact) : List Job :=
  rules.flatMap fun r => ((solutions r all delta).map (jobOf r)).eraseDups

/-! ## Provenance semiring interface (`trait Provenance`) and the tag store -/

structure Prov (T : Type) where
  zero : T
  one : T
  disj : T → T → T
  conj : T → T → T
  neg : T → T
  /-- `tag == provenance.zero()` -/
  isZero : T → Bool
  /-- `is_saturated(old, new)` -/
  saturated : T → T → Bool

abbrev Tags (T : Type) := List (Fact × T)

def lookupTag {T} : Tags T → Fact → Option T
  | [], _ => none
  | (g, t) :: r, f => if g = f then some t else lookupTag r f

/-- `TagStore::get_tag`: absent = `one()` -/
def getTag {T} (P : Prov T) (ts : Tags T) (f : Fact) : T := (lookupTag ts f).getD P.one

/-- `TagStore::set_tag` (the removal of entries equal to `one()` is unobservable through `get_tag`) -/
def setTag {T} (ts : Tags T) (f : Fact) (t : T) : Tags T := (f, t) :: ts

/-! ## One round of `ProvenanceSemiNaiveStrategy::infer_round` -/

structure RState (T : Type) where
  tags : Tags T
  newFacts : List Fact
  improved : List Fact

def processConcl {T} (P : Prov T) (known : List Fact) (ctag : T) (st : RState T) (c : Fact) : RState T :=
  let isNew := !known.contains c
  if isNew && !st.newFacts.contains c then
    { st with tags := setTag st.tags c ctag, newFacts := st.newFacts ++ [c] }
  else
    let old := getTag P st.tags c
    let comb := P.disj old ctag
    if P.saturated old comb then st
    else { st with tags := setTag st.tags c comb,
                   improved := if isNew then st.improved else st.improved ++ [c] }

def conjTags {T} (P : Prov T) (ts : Tags T) (fs : List Fact) : T :=
  fs.foldl (fun acc f => P.conj acc (getTag P ts f)) P.one

def processJob {T} (P : Prov T) (known : List Fact) (st : RState T) (j : Job) : RState T :=
  let ctag := conjTags P st.tags j.prems
  if P.isZero ctag then st else j.concls.foldl (processConcl P known ctag) st

def round {T} (P : Prov T) (rules : List Rule) (all delta : List Fact) (tags : Tags T) : RState T :=
  (jobs rules all delta).foldl (processJob P all) ⟨tags, [], []⟩

/-- driver loop of `infer_with_provenance_strategy_and_rules`; `delta` is the effective delta of the next round
    (first round: all facts or the explicit initial delta; later: facts appended last round ++ `delta_improved`).
    `none` = out of fuel. -/
def iter {T} (P : Prov T) (rules : List Rule) : Nat → List Fact → List Fact → Tags T → Option (List Fact × Tags T)
  | 0, _, _, _ => none
  | fuel + 1, all, delta, tags =>
    let st := round P rules all delta tags
    if st.newFacts.isEmpty && st.improved.isEmpty then some (all, st.tags)
    else iter P rules fuel (all ++ st.newFacts) (st.newFacts ++ st.improved) st.tags

/-! ## `run_negative_stratum_pass` -/

structure NState (T : Type) where
  tags : Tags T
  derived : List Fact

/-- contribution of the negated atoms, with the early `break` on zero -/
def negTag {T} (P : Prov T) (allSet : List Fact) (ts : Tags T) (b : Binding) (negs : List Pat) : T :=
  negs.foldl (fun acc np =>
    if P.isZero acc then acc else
    let contrib := match instPatB b np with
      | some nf => if allSet.contains nf then P.neg (getTag P ts nf) else P.one
      | none => P.zero
    P.conj acc contrib) P.one

def negConcl {T} (P : Prov T) (allSet : List Fact) (ctag : T) (st : NState T) (c : Fact) : NState T :=
  if !allSet.contains c && !st.derived.contains c then
    { tags := setTag st.tags c ctag, derived := st.derived ++ [c] }
  else
    let old := getTag P st.tags c
    let comb := P.disj old ctag
    if P.saturated old comb then st else { st with tags := setTag st.tags c comb }

def negBinding {T} (P : Prov T) (all : List Fact) (r : Rule) (st : NState T) (b : Binding) : NState T :=
  let posTag := conjTags P st.tags (r.prem.filterMap (instPatB b))
  if P.isZero posTag then st else
  let nt := negTag P all st.tags b r.neg
  let ctag := P.conj posTag nt
  if P.isZero ctag then st else
  (r.concl.map (instV (valOf b))).foldl (negConcl P all ctag) st

def negPass {T} (P : Prov T) (negRules : List Rule) (all : List Fact) (tags : Tags T) : NState T :=
  negRules.foldl (fun st r => (joinAll r.prem all [[]]).foldl (negBinding P all r) st) ⟨tags, []⟩

/-! ## `Reasoner::infer_new_facts_with_provenance` -/

def factLt (a b : Fact) : Bool :=
  a.s < b.s || (a.s == b.s && (a.p < b.p || (a.p == b.p && a.o < b.o)))

def factLe (a b : Fact) : Bool := !factLt b a

/-- seeds sorted by triple; index = seed id -/
def sortSeeds (seeds : List (Fact × Nat)) : List (Fact × Nat) := sortBy' (fun a b => factLe a.1 b.1) seeds

def seedTags {T} (mk : Nat → Nat → T) (sorted : List (Fact × Nat)) : Tags T :=
  (List.range sorted.length).zip sorted |>.foldl (fun ts (id, (f, k)) => setTag ts f (mk k id)) []

structure Outcome (T : Type) where
  all : List Fact
  newFacts : List Fact
  tags : Tags T

/-- `mk k id` = `tag_from_probability_with_id(k/D, id)`; `facts` = dataset (certain and tagged triples);
    `seeds` = `probability_seeds` -/
def inferProv {T} (P : Prov T) (mk : Nat → Nat → T) (rules : List Rule) (facts : List Fact)
    (seeds : List (Fact × Nat)) (fuel : Nat) : Option (Outcome T) :=
  let tags0 := seedTags mk (sortSeeds seeds)
  let pos := rules.filter (·.neg.isEmpty)
  let negs := rules.filter (fun r => !r.neg.isEmpty)
  match iter P pos fuel facts facts tags0 with
  | none => none
  | some (all, tags) =>
    if negs.isEmpty then some ⟨all, all.drop facts.length, tags⟩
    else
      let ns := negPass P negs all tags
      some ⟨all ++ ns.derived, all.drop facts.length ++ ns.derived, ns.tags⟩

/-! ## Semiring instances (`shared/src/provenance.rs`); operation bodies come from `Kolibrie.Extracted` -/

def boolProv : Prov Bool :=
  { zero := false, one := true, disj := Extracted.boolDisj, conj := Extracted.boolConj, neg := fun a => !a,
    isZero := fun t => t == false, saturated := fun a b => a == b }

/-- `MinMaxProbability` over numerators (`k/D`); `is_saturated` is `|old-new| < 1e-9`, i.e. equality on a grid -/
def minmaxProv (D : Nat) : Prov Nat :=
  { zero := 0, one := D, disj := Extracted.minmaxDisj, conj := Extracted.minmaxConj, neg := fun a => D - a,
    isZero := fun t => t == 0, saturated := fun a b => a == b }

def u64Max : Nat := 18446744073709551615

def expProv : Prov Nat :=
  { zero := 0, one := u64Max, disj := Extracted.expDisj, conj := Extracted.expConj, neg := fun _ => 0,
    isZero := fun t => t == 0, saturated := fun a b => a == b }

/-! ## DNF tags (`DnfWmcProvenance`): literal `(v, pol)` is coded `2*v + (1 if pol)` -/

abbrev Clause := List Nat
abbrev Dnf := List Clause

def litVar (l : Nat) : Nat := l / 2
def litPol (l : Nat) : Bool := l % 2 == 1
def litFlip (l : Nat) : Nat := if l % 2 == 1 then l - 1 else l + 1
def mkLit (v : Nat) (pol : Bool) : Nat := 2 * v + (if pol then 1 else 0)

/-- `BTreeSet::is_subset` -/
def csub (a b : Clause) : Bool := a.all fun l => b.contains l
/-- `BTreeSet` equality (extensional) -/
def ceq (a b : Clause) : Bool := csub a b && csub b a
/-- set union of two clauses, kept sorted and duplicate-free as a `BTreeSet` iterates -/
def cunion (a b : Clause) : Clause := sortBy' (fun x y => decide (x ≤ y)) ((a ++ b).eraseDups)

def dmem (c : Clause) (φ : Dnf) : Bool := φ.any (ceq c)
def dsub (φ ψ : Dnf) : Bool := φ.all fun c => dmem c ψ
/-- `WmcFormula` equality (extensional) -/
def deq (φ ψ : Dnf) : Bool := dsub φ ψ && dsub ψ φ
def dinsert (c : Clause) (φ : Dnf) : Dnf := if dmem c φ then φ else φ ++ [c]
def dunion (φ ψ : Dnf) : Dnf := ψ.foldl (fun acc c => dinsert c acc) (φ.foldl (fun acc c => dinsert c acc) [])

/-- `remove_subsumed` -/
def removeSubsumed (φ : Dnf) : Dnf :=
  φ.filter fun c1 => !(φ.any fun c2 => !(ceq c2 c1) && csub c2 c1)

def contradictory (c : Clause) : Bool := c.any fun l => c.contains (litFlip l)
/-- `remove_contradictory` -/
def removeContradictory (φ : Dnf) : Dnf := φ.filter fun c => !contradictory c

def dnfZero : Dnf := []
def dnfOne : Dnf := [[]]
def dnfDisj (a b : Dnf) : Dnf := removeSubsumed (dunion a b)
def product (a b : Dnf) : Dnf := a.flatMap fun ca => b.map fun cb => cunion ca cb
def dnfConj (a b : Dnf) : Dnf :=
  if a.isEmpty || b.isEmpty then dnfZero
  else removeSubsumed (removeContradictory (dunion (product a b) []))
def dnfNeg (a : Dnf) : Dnf :=
  if a.isEmpty then dnfOne
  else if a.any (·.isEmpty) then dnfZero
  else a.foldl (fun res clause => if res.isEmpty then res else dnfConj res (clause.map fun l => [litFlip l])) dnfOne

def dnfProv : Prov Dnf :=
  { zero := dnfZero, one := dnfOne, disj := dnfDisj, conj := dnfConj, neg := dnfNeg,
    isZero := fun t => t.isEmpty, saturated := deq }

def evalClause (w : Nat → Bool) (c : Clause) : Bool := c.all fun l => w (litVar l) == litPol l
def evalDnf (w : Nat → Bool) (φ : Dnf) : Bool := φ.any (evalClause w)

def mentions (x : Nat) (φ : Dnf) : Bool := φ.any fun c => c.any fun l => litVar l == x

/-- `phi_true` / `phi_false` of `shannon_wmc` -/
def restrict (x : Nat) (val : Bool) (φ : Dnf) : Dnf :=
  (φ.filter fun c => !c.contains (mkLit x (!val))).map fun c => c.filter fun l => litVar l != x

/-- `shannon_wmc` over numerators: the code conditions on the smallest variable occurring in the formula; `vars` is
    the ascending list of seed ids, variables that do not occur are skipped (conditioning on them changes nothing).
    `tbl x` is the numerator of `P(x)`, the result is a numerator over `D ^ vars.length`. -/
def shannon (D : Nat) (tbl : Nat → Nat) : List Nat → Dnf → Nat
  | [], φ => if φ.any (·.isEmpty) then 1 else 0
  | x :: xs, φ =>
    if φ.isEmpty then 0
    else if φ.any (·.isEmpty) then D ^ (xs.length + 1)
    else if mentions x φ then
      tbl x * shannon D tbl xs (restrict x true φ) + (D - tbl x) * shannon D tbl xs (restrict x false φ)
    else D * shannon D tbl xs φ

end Kolibrie.Prov
