import Kolibrie.Extracted
/-
Model of Kolibrie's forward-chaining rule materialisation — C05.

Transcribed from
  datalog/src/reasoning/materialisation/infer_generic.rs      `infer_with_strategy`            → `drive`
  datalog/src/reasoning/materialisation/my_naive.rs           `NaiveStrategy`                  → `roundNaive`
  datalog/src/reasoning/materialisation/semi_naive.rs         `SemiNaiveStrategy`              → `roundSemi`
  datalog/src/reasoning/materialisation/semi_naive_parallel.rs                                  → `parRound`, `parDrive`
  datalog/src/reasoning/materialisation/provenance_semi_naive.rs (BooleanProvenance, no seeds)  → `provModel`, `negPass`
  datalog/src/reasoning/rules.rs       `matches_rule_pattern`, `evaluate_filters`               → `matchPat`, `evalFilter`
  shared/src/join_algorithm.rs         `perform_hash_join_for_rules` (observable behaviour)      → `joinPremise`
  shared/src/rule_index.rs             `query_candidate_rules(None, Some(p), None)`              → `candidate`
  shared/src/rule.rs                   `check_rule_safety`                                       → `negSafe`

Conventions: dictionary ids are `Nat`; variable names are numbered (`v<n>` on the Rust side); a binding row
(`BTreeMap<String,String>` / `HashMap<String,u32>`) is an association list; `Vec<Triple>` is a list;
`HashSet<Triple>` is a duplicate-free list whose order never influences a result set (all theorems are about
membership).  `val : Nat → Int` is the numeric reading of a dictionary id (`decode(id).parse::<f64>().unwrap_or(0.0)`).
Import-free apart from `Kolibrie.Extracted` (compiled into the driver).
-/
namespace Kolibrie.Datalog

inductive Term where
  | var (v : Nat)
  | const (c : Nat)
deriving DecidableEq, Repr

structure Pat where
  s : Term
  p : Term
  o : Term
deriving DecidableEq, Repr

structure Fact where
  s : Nat
  p : Nat
  o : Nat
deriving DecidableEq, Repr

/-- `FilterCondition.operator`: the six strings `evaluate_filters` knows; anything else passes. -/
inductive CmpOp where
  | gt | lt | ge | le | eq | ne | other
deriving DecidableEq, Repr

/-- `FilterCondition.value`: a numeric literal, or the name of a variable -/
inductive Rhs where
  | num (n : Int)
  | var (v : Nat)
deriving DecidableEq, Repr

structure Filter where
  v : Nat
  op : CmpOp
  rhs : Rhs
deriving DecidableEq, Repr

structure Rule where
  premise : List Pat
  negative : List Pat
  filters : List Filter
  conclusion : List Pat
deriving DecidableEq, Repr

abbrev Row := List (Nat × Nat)

def Row.get (r : Row) (v : Nat) : Option Nat := List.lookup v r

/-- one position of `matches_rule_pattern`: a constant must be equal, a bound variable must be equal,
    an unbound variable is bound -/
def matchTerm (t : Term) (x : Nat) (row : Row) : Option Row :=
  match t with
  | .const c => if c = x then some row else none
  | .var v =>
      match row.get v with
      | some y => if y = x then some row else none
      | none => some ((v, x) :: row)

/-- `matches_rule_pattern`: subject, predicate, object in this order; all-or-nothing -/
def matchPat (p : Pat) (f : Fact) (row : Row) : Option Row :=
  (matchTerm p.s f.s row).bind fun r1 => (matchTerm p.p f.p r1).bind fun r2 => matchTerm p.o f.o r2

/-- Observable behaviour of `perform_hash_join_for_rules` on the homogeneous binding sets that rule
    evaluation produces: every fact (in order) extends every compatible row.  The Rust code pre-filters the
    facts on constant positions and on `?v p ?v`, groups the rows by which of subject/object variable they
    bind, and binds or checks a variable predicate per row; the resulting multiset of rows is this one. -/
def joinPremise (p : Pat) (facts : List Fact) (rows : List Row) : List Row :=
  facts.flatMap fun f => rows.filterMap (matchPat p f)

/-- premises joined left to right against the same fact list (`for premise in &rule.premise`);
    the `if cur.is_empty() { break }` of the Rust loops is unobservable because joining `[]` gives `[]` -/
def solveFrom (facts : List Fact) : List Pat → List Row → List Row
  | [], rows => rows
  | p :: ps, rows => solveFrom facts ps (joinPremise p facts rows)

/-- numeric comparison of `evaluate_filters` (`true` = the binding survives) -/
def numCmp (op : CmpOp) (a b : Int) : Bool :=
  match op with
  | .gt => decide (b < a)
  | .lt => decide (a < b)
  | .ge => decide (b ≤ a)
  | .le => decide (a ≤ b)
  | .eq => decide (a = b)
  | .ne => decide (a ≠ b)
  | .other => true

/-- one filter of `evaluate_filters` over a partial valuation `g` -/
def evalFilter (val : Nat → Int) (g : Nat → Option Nat) (f : Filter) : Bool :=
  match g f.v with
  | none => true                                  -- unbound filter variable: the filter is skipped
  | some l =>
      match f.rhs with
      | .num n => numCmp f.op (val l) n
      | .var w =>
          match g w with
          | some r =>                             -- both bound: only `=` / `!=` compare (by id)
              (match f.op with
               | .eq => decide (l = r)
               | .ne => decide (l ≠ r)
               | _ => true)
          | none => numCmp f.op (val l) 0         -- `"v7".parse::<f64>().unwrap_or(0.0)`

def filtersOk (val : Nat → Int) (g : Nat → Option Nat) (fs : List Filter) : Bool :=
  fs.all (evalFilter val g)

/-- `get_id_from_term` (an unbound variable yields id 0 with a warning; the `ml_output_placeholder`
    branch for an unbound object variable is outside the model: safe rules never reach it) -/
def Term.inst (row : Row) : Term → Nat
  | .const c => c
  | .var v => (row.get v).getD 0

/-- `replace_variables_with_bound_values` -/
def Pat.inst (row : Row) (p : Pat) : Fact := ⟨p.s.inst row, p.p.inst row, p.o.inst row⟩

/-- conclusions of a rule under the bindings that pass the filters -/
def fire (val : Nat → Int) (r : Rule) (rows : List Row) : List Fact :=
  (rows.filter fun row => filtersOk val row.get r.filters).flatMap fun row => r.conclusion.map (Pat.inst row)

/-- insertion of candidate facts into the round's `HashSet` unless already known: the members of `l` that are
    not in `known`, each once -/
def freshOf (known : List Fact) : List Fact → List Fact
  | [] => []
  | f :: l =>
      let rest := freshOf known l
      if f ∈ known ∨ f ∈ rest then rest else f :: rest

/-- `NaiveStrategy::find_premise_solutions` -/
def solNaive (all : List Fact) (r : Rule) : List Row :=
  if r.premise.isEmpty then [] else solveFrom all r.premise [[]]

/-- `NaiveStrategy::infer_round` (`known_facts` is the set of `all_facts`) -/
def roundNaive (val : Nat → Int) (rules : List Rule) (all : List Fact) : List Fact :=
  freshOf all (rules.flatMap fun r => fire val r (solNaive all r))

/-- `SemiNaiveStrategy::find_premise_solutions`, iteration `i`: premise `i` joined with the delta first, then
    every other premise `j ≠ i` in order with all facts -/
def solSemiAt (all delta : List Fact) (prems : List Pat) (i : Nat) : List Row :=
  match prems[i]? with
  | none => []
  | some p => solveFrom all (prems.drop (i + 1)) (solveFrom all (prems.take i) (joinPremise p delta [[]]))

def solSemi (all delta : List Fact) (r : Rule) : List Row :=
  (List.range r.premise.length).flatMap (solSemiAt all delta r.premise)

/-- `SemiNaiveStrategy::infer_round`; the state is `start_idx_for_delta` -/
def roundSemi (val : Nat → Int) (rules : List Rule) (start : Nat) (all : List Fact) : Nat × List Fact :=
  let delta := all.drop start
  (all.length, freshOf all (rules.flatMap fun r => fire val r (solSemi all delta r)))

/-- `infer_with_strategy`: loop until a round infers nothing; `none` = out of fuel.
    `round` carries the strategy state.  Facts are appended unless known (`if !known_facts.contains`). -/
def drive {σ : Type} (round : σ → List Fact → σ × List Fact) : Nat → σ → List Fact → Option (List Fact)
  | 0, _, _ => none
  | fuel + 1, st, all =>
      let r := round st all
      if r.2.isEmpty then some all
      else drive round fuel r.1 (all ++ freshOf all r.2)

def inferNaive (val : Nat → Int) (rules : List Rule) (fuel : Nat) (facts : List Fact) : Option (List Fact) :=
  drive (fun (_ : Unit) all => ((), roundNaive val rules all)) fuel () facts

def inferSemi (val : Nat → Int) (rules : List Rule) (fuel : Nat) (facts : List Fact) : Option (List Fact) :=
  drive (roundSemi val rules) fuel 0 facts

/-! ### `infer_new_facts_semi_naive_parallel` — as written -/

/-- `rule_index.query_candidate_rules(None, Some(p), None)`: rules with *some* premise whose predicate is the
    constant `p` (variable predicates are indexed under `WILDCARD = u32::MAX`, never a fact's predicate) -/
def candidate (r : Rule) (t : Fact) : Bool := r.premise.any fun p => p.p == Term.const t.p

def concl (r : Rule) (row : Row) : List Fact := r.conclusion.map (Pat.inst row)

/-- facts produced for one delta triple `t1` and one candidate rule: `match rule.premise.len()` has arms for
    the arities listed in `Extracted.parallelArities` (1 and 2) only; filters and `negative_premise` are never
    consulted -/
def parFireRule (all : List Fact) (t1 : Fact) (r : Rule) : List Fact :=
  match r.premise with
  | [p0] =>
      if 1 ∈ Extracted.parallelArities then
        (matchPat p0 t1 []).toList.flatMap (concl r)
      else []
  | [p0, p1] =>
      if 2 ∈ Extracted.parallelArities then
        ((matchPat p0 t1 []).toList.flatMap fun b1 => all.flatMap fun t2 => (matchPat p1 t2 b1).toList.flatMap (concl r))
        ++ ((matchPat p1 t1 []).toList.flatMap fun b1 => all.flatMap fun t2 => (matchPat p0 t2 b1).toList.flatMap (concl r))
      else []
  | _ => []

def parRound (rules : List Rule) (all delta : List Fact) : List Fact :=
  freshOf all (delta.flatMap fun t1 => (rules.filter fun r => candidate r t1).flatMap (parFireRule all t1))

def parDrive (rules : List Rule) : Nat → List Fact → List Fact → Option (List Fact)
  | 0, _, _ => none
  | fuel + 1, all, delta =>
      let new := parRound rules all delta
      if new.isEmpty then some all else parDrive rules fuel (all ++ new) new

def inferPar (rules : List Rule) (fuel : Nat) (facts : List Fact) : Option (List Fact) :=
  parDrive rules fuel facts facts

/-! ### `infer_new_facts_with_provenance(BooleanProvenance)` without probability seeds

Every tag is `one()` (= `true`), `set_tag(_, true)` stores nothing and `update_disjunction` never changes a tag,
so `tag_changed` is always `false`; what remains is the stratified driver. -/

/-- `resolve_term` -/
def Term.resolve (row : Row) : Term → Option Nat
  | .const c => some c
  | .var v => row.get v

def Pat.resolve (row : Row) (p : Pat) : Option Fact :=
  (p.s.resolve row).bind fun s => (p.p.resolve row).bind fun pp => (p.o.resolve row).map fun o => ⟨s, pp, o⟩

/-- a negated atom lets the rule fire iff it resolves to a ground triple that is absent -/
def negOk (all : List Fact) (row : Row) (n : Pat) : Bool :=
  match n.resolve row with
  | some t => !decide (t ∈ all)
  | none => false

/-- `run_negative_stratum_pass`: one pass over the closure `all`; rules do not see each other's conclusions -/
def negPass (val : Nat → Int) (negRules : List Rule) (all : List Fact) : List Fact :=
  freshOf all (negRules.flatMap fun r =>
    fire val r ((solveFrom all r.premise [[]]).filter fun row => r.negative.all (negOk all row)))

/-- `semi_naive_with_initial_tags` -/
def provModel (val : Nat → Int) (rules : List Rule) (fuel : Nat) (facts : List Fact) : Option (List Fact) :=
  let pos := rules.filter fun r => r.negative.isEmpty
  let neg := rules.filter fun r => !r.negative.isEmpty
  (inferSemi val pos fuel facts).map fun m0 => if neg.isEmpty then m0 else m0 ++ negPass val neg m0

/-! ### syntactic conditions -/

def Term.vars : Term → List Nat
  | .var v => [v]
  | .const _ => []

def Pat.vars (p : Pat) : List Nat := p.s.vars ++ p.p.vars ++ p.o.vars

def patsVars (ps : List Pat) : List Nat := ps.flatMap Pat.vars

def Filter.vars (f : Filter) : List Nat :=
  f.v :: (match f.rhs with | .var w => [w] | .num _ => [])

/-- `check_rule_safety`: every variable of a negated atom occurs in a positive premise -/
def negSafe (r : Rule) : Bool :=
  (patsVars r.negative).all fun v => decide (v ∈ patsVars r.premise)

/-- safe Datalog rule: at least one premise; head, filter and negated variables are bound by the premises -/
def Rule.safe (r : Rule) : Bool :=
  !r.premise.isEmpty
  && (patsVars r.conclusion).all (fun v => decide (v ∈ patsVars r.premise))
  && (r.filters.flatMap Filter.vars).all (fun v => decide (v ∈ patsVars r.premise))
  && negSafe r

end Kolibrie.Datalog
