import Kolibrie.Model.Rsp
/-
Model of multi-window continuous queries (C11), single-thread coordination:
  kolibrie/src/rsp_engine.rs   RSPEngine::new (ONE r2r store shared by all window processors), create_window_processor!
                               (has_joins branch: rows sent to the result channel), add_to_stream,
                               process_single_thread_window_results (drain, `extend`, policy), emit_results,
                               join_window_results, natural_join, static_db / add_static_ntriples
`shared := true` is the code that exists: every window evicts/loads its content in the same store and its plan scans
that store's default graph.  `shared := false` gives every window its own store (the architecture the property
describes); everything else is identical.  No rules here (C10 covers materialisation); RSTREAM.
-/
namespace Kolibrie.Rsp

inductive Policy | wait | steal
deriving DecidableEq, Repr

structure MCfg where
  plans : List (List Pat)        -- one BGP per WINDOW block
  staticPlan : List Pat          -- patterns outside the window blocks ([] = no static plan)
  staticData : List Triple       -- static_db
  policy : Policy                -- Timeout is treated as Wait by the single-thread coordinator
  shared : Bool

structure MSt where
  stores : List (List Triple)    -- shared: only slot 0 is used
  prevRaws : List (List Triple)  -- prev_window_triples of each processor closure
  chan : List (Nat × List Row)   -- window_result channel
  lastMat : List (Nat × List Row) -- single_thread_last_materialized (window ↦ rows)
deriving Repr

def MSt.init (n : Nat) : MSt := ⟨List.replicate n [], List.replicate n [], [], []⟩

def MCfg.withShared (cfg : MCfg) (b : Bool) : MCfg := { cfg with shared := b }

def MCfg.slot (cfg : MCfg) (w : Nat) : Nat := if cfg.shared then 0 else w

/-- one firing of window `w`'s processor: evict its previous content, load the current one, run its plan over the
    store, send the rows to the coordinator -/
def fireW (cfg : MCfg) (st : MSt) (w : Nat) (content : List Triple) : MSt :=
  let k := cfg.slot w
  let s0 := (st.prevRaws.getD w []).foldl eraseT (st.stores.getD k [])
  let s1 := content.foldl insertT s0
  let rows := evalBGP s1 (cfg.plans.getD w [])
  { st with stores := st.stores.set k s1, prevRaws := st.prevRaws.set w content, chan := st.chan ++ [(w, rows)] }

/-! ### natural join -/

def compatible (a b : Row) : Bool :=
  a.all fun kv => match lookup b kv.1 with
    | some v => v == kv.2
    | none => true

def mergeRow (a b : Row) : Row := a ++ b.filter fun kv => (lookup a kv.1).isNone

/-- `natural_join` -/
def naturalJoin (l r : List Row) : List Row :=
  l.flatMap fun a => r.filterMap fun b => if compatible a b then some (mergeRow a b) else none

/-- `join_window_results`: fold of natural joins over the per-window row sets -/
def joinAll : List (List Row) → List Row
  | [] => []
  | first :: rest => rest.foldl naturalJoin first

/-- `last_mat.entry(w).or_default().extend(rows)` -/
def extendAt : List (Nat × List Row) → Nat → List Row → List (Nat × List Row)
  | [], w, rows => [(w, rows)]
  | (k, old) :: rest, w, rows => if k = w then (k, old ++ rows) :: rest else (k, old) :: extendAt rest w rows

def drain (lm : List (Nat × List Row)) (chan : List (Nat × List Row)) : List (Nat × List Row) :=
  chan.foldl (fun lm e => extendAt lm e.1 e.2) lm

/-- the static plan over `static_db` (a set of triples: loading the same triple twice stores it once) -/
def staticRows (cfg : MCfg) : List Row := evalBGP (dedup cfg.staticData) cfg.staticPlan

/-- `emit_results` (RSTREAM): join of all windows' rows, then the static join -/
def emitRows (cfg : MCfg) (lm : List (Nat × List Row)) : List Row :=
  let joined := joinAll (lm.map (·.2))
  if cfg.staticPlan.isEmpty then joined else naturalJoin joined (staticRows cfg)

/-- one call of `emit_results`: the `last_materialized` map it joined and the rows it handed to the consumer -/
structure Emission where
  lm : List (Nat × List Row)
  rows : List Row
deriving Repr

/-- `process_single_thread_window_results`: new state and the emission, if one happened -/
def poll (cfg : MCfg) (st : MSt) : MSt × Option Emission :=
  if st.chan.isEmpty then (st, none) else
  let lm := drain st.lastMat st.chan
  if lm.length == cfg.plans.length then
    ({ st with chan := [], lastMat := match cfg.policy with | .wait => [] | .steal => lm }, some ⟨lm, emitRows cfg lm⟩)
  else ({ st with chan := [], lastMat := lm }, none)

inductive MEv
  | fire (w : Nat) (content : List Triple)
  | poll
deriving Repr

def mstep (cfg : MCfg) (st : MSt) : MEv → MSt × Option Emission
  | .fire w c => (fireW cfg st w c, none)
  | .poll => poll cfg st

/-- all emissions of an event sequence, in order -/
def mrunFrom (cfg : MCfg) (st : MSt) : List MEv → List Emission
  | [] => []
  | e :: es =>
    match mstep cfg st e with
    | (st', some out) => out :: mrunFrom cfg st' es
    | (st', none) => mrunFrom cfg st' es

def mrunE (cfg : MCfg) (evs : List MEv) : List Emission := mrunFrom cfg (MSt.init cfg.plans.length) evs

/-- the rows of every emission -/
def mrun (cfg : MCfg) (evs : List MEv) : List (List Row) := (mrunE cfg evs).map (·.rows)

/-- the state after an event sequence -/
def mstateFrom (cfg : MCfg) (st : MSt) (evs : List MEv) : MSt := evs.foldl (fun st e => (mstep cfg st e).1) st

def mstateAfter (cfg : MCfg) (evs : List MEv) : MSt := mstateFrom cfg (MSt.init cfg.plans.length) evs

end Kolibrie.Rsp
