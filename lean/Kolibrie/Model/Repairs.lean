import Kolibrie.Model.Terms
/-
Model of the inconsistency-tolerant part of `datalog/src/reasoning.rs` (`violates_constraints`,
`compute_repairs`), `reasoning/rules.rs` (`matches_rule_pattern`, `join_rule`, `join_remaining`),
`reasoning/repairs.rs` (`query_with_repairs`) and
`reasoning/materialisation/semi_naive_with_repairs.rs` — C19.

A `HashSet<Triple>` is a duplicate-free list in its iteration order.  The *order oracle* of the design is the
order of the initial fact list: `HashSet::clone` keeps the table layout and `remove` only clears a slot, so every
set handled by `compute_repairs` iterates in the order of the initial set with some elements missing
(`List.erase`).  All theorems quantify over every initial order.

`searchOld` is the work-list search exactly as written at the pinned commit (the maximality test only looks at
repairs found *earlier*).  `computeRepairs` is the search followed by the final maximality filter and the
deterministic ordering added by `fixes/C19_maximal_repairs.patch`.
-/
namespace Kolibrie.Repairs
open Kolibrie.Terms

/-! ### `matches_rule_pattern`, `join_rule` -/

/-- `HashMap<String, u32>` as an association list (a key is inserted only when absent) -/
abbrev Binding := List (String × Nat)

def lookup (v : String) : Binding → Option Nat
  | [] => none
  | (w, x) :: b => if v = w then some x else lookup v b

/-- one position of `matches_rule_pattern` -/
def matchTerm (t : Term) (x : Nat) (b : Binding) : Option Binding :=
  match t with
  | .var v =>
    match lookup v b with
    | some y => if y = x then some b else none
    | none => some ((v, x) :: b)
  | .const c => if c = x then some b else none

/-- `matches_rule_pattern` (bindings are committed only when all three positions match) -/
def matchPat (q : Pattern) (f : Fact) (b : Binding) : Option Binding :=
  match matchTerm q.s f.s b with
  | none => none
  | some b1 =>
    match matchTerm q.p f.p b1 with
    | none => none
    | some b2 => matchTerm q.o f.o b2

/-- `join_remaining`: premises `j, j+1, …` of the list, skipping index `i` -/
def joinRem (all : List Fact) : List Pattern → Nat → Nat → List Binding → List Binding
  | [], _, _, rs => rs
  | p :: ps, j, i, rs =>
    if j = i then joinRem all ps (j + 1) i rs
    else joinRem all ps (j + 1) i (rs.flatMap fun pb => all.filterMap fun f => matchPat p f pb)

/-- `join_rule(rule, all_facts, delta)` -/
def joinRule (prem : List Pattern) (all delta : List Fact) : List Binding :=
  (List.range prem.length).flatMap fun i =>
    delta.flatMap fun f =>
      match prem[i]? with
      | none => []
      | some p =>
        match matchPat p f [] with
        | some b => joinRem all prem 0 i [b]
        | none => []

/-- `violates_constraints`: some constraint's premises join to at least one binding (filters and negative
    premises of a constraint are not looked at by the code) -/
def violates (C : List (List Pattern)) (S : List Fact) : Bool :=
  C.any fun c => !(joinRule c S S).isEmpty

/-! ### `compute_repairs` -/

section Search
variable {α : Type} [DecidableEq α]

/-- `HashSet::is_superset` -/
def sup (a b : List α) : Bool := b.all fun x => decide (x ∈ a)

/-- `HashSet == HashSet` -/
def setEq (a b : List α) : Bool := sup a b && sup b a

structure St (α : Type) where
  repairs : List (List α)
  queue : List (List α)      -- head = top of the stack (`Vec::pop`)
  seen : List (List α)       -- `BTreeSet<Vec<Triple>>` keyed by the iteration-order vector

/-- one iteration of `while let Some(current_set) = work_queue.pop()` (queue non-empty) -/
def searchStep (viol : List α → Bool) (cur : List α) (rest : List (List α)) (st : St α) : St α :=
  if cur ∈ st.seen then { st with queue := rest }
  else
    let seen' := cur :: st.seen
    if !viol cur then
      let isMax := st.repairs.all fun r => !(sup r cur) || setEq r cur
      { repairs := if isMax then st.repairs ++ [cur] else st.repairs, queue := rest, seen := seen' }
    else
      -- `for fact in current_set.iter()`: push `current_set − fact` unless already seen; the last pushed is popped first
      let news := (cur.map fun f => cur.erase f).filter fun s => decide (s ∉ seen')
      { repairs := st.repairs, queue := news.reverse ++ rest, seen := seen' }

/-- the work-list loop; `none` = out of fuel -/
def searchLoop (viol : List α → Bool) : Nat → St α → Option (List (List α))
  | 0, _ => none
  | fuel + 1, st =>
    match st.queue with
    | [] => some st.repairs
    | cur :: rest => searchLoop viol fuel (searchStep viol cur rest st)

/-- `compute_repairs` at the pinned commit -/
def searchOld (viol : List α → Bool) (fuel : Nat) (F : List α) : Option (List (List α)) :=
  searchLoop viol fuel ⟨[], [F], []⟩

/-- the final filter of the fix: drop every candidate that has a strict superset among the candidates -/
def maximalOnly (R : List (List α)) : List (List α) :=
  R.filter fun r => !(R.any fun o => sup o r && !(sup r o))

end Search

/-- key of the deterministic ordering: the sorted element vector -/
def sortedKey (r : List Fact) : List Fact := r.mergeSort Fact.le

/-- `compute_repairs` with `fixes/C19_maximal_repairs.patch`: search, final maximality filter, deterministic order -/
def computeRepairs (viol : List Fact → Bool) (fuel : Nat) (F : List Fact) : Option (List (List Fact)) :=
  (searchOld viol fuel F).map fun R =>
    (maximalOnly R).mergeSort fun a b => factsLe (sortedKey a) (sortedKey b)

/-- enough fuel for every run: each subset is expanded at most once and pushes at most `|F|` sets -/
def repairFuel (n : Nat) : Nat := 2 ^ n * (n + 1) + 2

/-! ### `query_with_repairs` -/

def queryWithRepairs (repairs : List (List Fact)) (q : Pattern) : List Binding :=
  match repairs with
  | [] => []
  | first :: rest =>
    (first.filterMap fun f => matchPat q f []).filter fun b =>
      rest.all fun r => r.any fun f => matchPat q f [] == some b

/-! ### `infer_new_facts_semi_naive_with_repairs` -/

/-- `get_id_from_term` for a bound variable (unbound ⇒ 0 as for subject/predicate; generators only produce
    safe rules, for which the case does not arise) -/
def termId (b : Binding) : Term → Nat
  | .var v => (lookup v b).getD 0
  | .const c => c

def instB (q : Pattern) (b : Binding) : Fact := ⟨termId b q.s, termId b q.p, termId b q.o⟩

/-- `Iterator::max_by_key(|r| r.len())`: the last maximal element -/
def maxByLen {α} : List (List α) → Option (List α)
  | [] => none
  | r :: rs => some (rs.foldl (fun best x => if x.length ≥ best.length then x else best) r)

structure Acc where
  all : List Fact
  delta : List Fact
  inferred : List Fact

/-- the innermost block: candidate fact `f` -/
def addCandidate (C : List (List Pattern)) (a : Acc) (f : Fact) : Acc :=
  let temp := if f ∈ a.all then a.all else a.all ++ [f]
  if !violates C temp then
    if f ∉ a.all then ⟨a.all ++ [f], a.delta ++ [f], a.inferred ++ [f]⟩ else a
  else a

/-- one pass of the outer `loop` body over all rules; `ord` is the iteration order of the joined bindings -/
def inferRound (C : List (List Pattern)) (rules : List Rule) (ord : List Binding → List Binding)
    (all delta inferred : List Fact) : Acc :=
  rules.foldl (fun a rule =>
    (ord (joinRule rule.premise a.all delta)).foldl (fun a b =>
      rule.conclusion.foldl (fun a c => addCandidate C a (instB c b)) a) a) ⟨all, [], inferred⟩

def inferLoop (C : List (List Pattern)) (rules : List Rule) (ord : List Binding → List Binding) :
    Nat → List Fact → List Fact → List Fact → Option (List Fact × List Fact)
  | 0, _, _, _ => none
  | fuel + 1, all, delta, inferred =>
    let a := inferRound C rules ord all delta inferred
    if a.delta.isEmpty then some (a.all, a.inferred) else inferLoop C rules ord fuel a.all a.delta a.inferred

/-- `infer_new_facts_semi_naive_with_repairs`: (final fact set, inferred facts); `none` = out of fuel -/
def inferWithRepairs (C : List (List Pattern)) (rules : List Rule) (ord : List Binding → List Binding)
    (fuelR fuelI : Nat) (F : List Fact) : Option (List Fact × List Fact) :=
  if violates C F then
    match computeRepairs (violates C) fuelR F with
    | none => none
    | some reps =>
      match maxByLen reps with
      | some best => inferLoop C rules ord fuelI best best []
      | none => inferLoop C rules ord fuelI F F []
  else inferLoop C rules ord fuelI F F []

end Kolibrie.Repairs
