/-
UTF-8 byte strings as `List UInt8` — the representation the byte-offset code of `parser.rs` and
`error_handler.rs` works on (Rust `&str` indexed by byte offsets).  Import-free.

* `isBoundary`  = Rust `str::is_char_boundary`
* `decodeAt`    = `s[i..].chars().next()` (code point and encoded length); `none` past the end
* `floorB/ceilB` = the two `while !input.is_char_boundary(..)` loops of `format_parse_error` (after the fix)
-/
namespace Kolibrie.Utf8

abbrev Bytes := List UInt8

/-- continuation byte `10xxxxxx` -/
def isCont (b : UInt8) : Bool := b.toNat / 64 == 2

/-- Rust `str::is_char_boundary(i)`: `0` and `len` are boundaries, past the end is not, otherwise the byte at
    `i` must not be a continuation byte -/
def isBoundary (s : Bytes) (i : Nat) : Bool :=
  if i == 0 then true
  else match s[i]? with
    | none => i == s.length
    | some b => !isCont b

/-- encoded length announced by a lead byte (what `chars().next()` consumes on valid UTF-8) -/
def leadLen (b : UInt8) : Nat :=
  if b.toNat < 0x80 then 1 else if b.toNat < 0xE0 then 2 else if b.toNat < 0xF0 then 3 else 4

/-- code point of the character whose encoding starts the list (valid UTF-8 assumed; no validation) -/
def decodeHead : Bytes → Option (Nat × Nat)
  | [] => none
  | b :: t =>
    let n := leadLen b
    if n == 1 then some (b.toNat, 1)
    else
      let conts := t.take (n - 1)
      let init := if n == 2 then b.toNat % 32 else if n == 3 then b.toNat % 16 else b.toNat % 8
      some (conts.foldl (fun acc c => acc * 64 + c.toNat % 64) init, n)

/-- `s[i..].chars().next()` with its encoded length -/
def decodeAt (s : Bytes) (i : Nat) : Option (Nat × Nat) := decodeHead (s.drop i)

/-- structural well-formedness used by the boundary theorems: the string is a concatenation of characters, each
    a non-continuation lead byte followed by exactly `leadLen lead - 1` continuation bytes.  Every valid UTF-8
    string satisfies it (it is weaker than validity: no overlong/surrogate/range checks). -/
def wellFormed : Nat → Bytes → Bool
  | _, [] => true
  | 0, _ => false
  | fuel + 1, b :: t =>
    !isCont b && (t.take (leadLen b - 1)).length == leadLen b - 1 && (t.take (leadLen b - 1)).all isCont &&
      wellFormed fuel (t.drop (leadLen b - 1))

def WF (s : Bytes) : Prop := wellFormed s.length s = true

/-- `while !input.is_char_boundary(offset) { offset -= 1 }` -/
def floorB (s : Bytes) : Nat → Nat
  | 0 => 0
  | i + 1 => if isBoundary s (i + 1) then i + 1 else floorB s i

/-- `while !input.is_char_boundary(end) { end += 1 }`, fuel = `len - end` -/
def ceilB (s : Bytes) (i : Nat) : Nat → Nat
  | 0 => i
  | f + 1 => if isBoundary s i then i else ceilB s (i + 1) f

end Kolibrie.Utf8
