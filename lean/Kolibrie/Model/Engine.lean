/-
Model of the query executor — C01, C02 (and the WHERE part of C03).

Transcribes `streamertail_optimizer/execution/engine.rs` (`execute_with_ids_and_input` and its helpers),
`types.rs` (`Condition::evaluate_filter_with_ids`), `utils.rs` (`build_logical_plan_from_group_in_scope`,
`append_join`) and `execute_query.rs` (`finalize_select`, `aggregate_rows`, `apply_order_by`,
`build_dataset_view`) over *lexical values* (strings) instead of dictionary ids: the dictionary is a
bijection (C15), so ids and lexical terms are interchangeable observables; the harness decodes every id.

Graphs: `none` = `GraphId::Default`, `some name` = `GraphId::Named(encode name)`.
Import-free (compiled into the driver).
-/
namespace Kolibrie.Engine

abbrev Var := Nat
abbrev Val := String

/-! ## solution mappings: association lists sorted by variable, keys unique (`HashMap<String,u32>`) -/

abbrev Row := List (Var × Val)

def Row.get (r : Row) (v : Var) : Option Val :=
  match r with
  | [] => none
  | (k, x) :: rest => if k == v then some x else Row.get rest v

/-- `HashMap::insert` (overwrites), keeping the list sorted by key -/
def Row.insert (r : Row) (v : Var) (x : Val) : Row :=
  match r with
  | [] => [(v, x)]
  | (k, y) :: rest =>
      if v < k then (v, x) :: (k, y) :: rest
      else if v == k then (k, x) :: rest
      else (k, y) :: Row.insert rest v x

def Row.vars (r : Row) : List Var := r.map (·.1)

/-- the compatibility test of `merge_rows`: every left entry agrees with the right row -/
def compatB (l r : Row) : Bool :=
  l.all (fun e => match Row.get r e.1 with | some y => e.2 == y | none => true)

/-- the union computed by `merge_rows`: the left row, then the right entries that are new -/
def unionRows (l r : Row) : Row :=
  r.foldl (fun acc e => match Row.get acc e.1 with | some _ => acc | none => Row.insert acc e.1 e.2) l

/-- `merge_rows`: `none` on a conflicting shared variable, else left ∪ (right entries not in left) -/
def mergeRows (l r : Row) : Option Row :=
  if compatB l r then some (unionRows l r) else none

/-- `join_solution_sequences` (nested loop; order: left-major) -/
def nlJoin (l r : List Row) : List Row :=
  l.flatMap (fun a => r.filterMap (fun b => mergeRows a b))

/-! ## hash join as written (`hash_join_solution_sequences`) -/

def rowVarsAll (rs : List Row) : List Var := rs.flatMap Row.vars

/-- `shared_variables`: variables bound by some row on both sides (order irrelevant for the result) -/
def sharedVars (l r : List Row) : List Var :=
  ((rowVarsAll r).filter (fun v => (rowVarsAll l).contains v)).eraseDups

/-- `join_key`: `none` when a key variable is unbound in the row -/
def joinKey (row : Row) (vars : List Var) : Option (List Val) := vars.mapM (Row.get row)

def hashJoin (l r : List Row) : List Row :=
  if l.isEmpty || r.isEmpty then [] else
  let keys := sharedVars l r
  if keys.isEmpty then nlJoin l r else
  let keyed := r.filter (fun b => (joinKey b keys).isSome)
  let unkeyed := r.filter (fun b => (joinKey b keys).isNone)
  l.flatMap (fun a =>
    match joinKey a keys with
    | some k =>
        -- bucket of the key (in right order), then the unhashable rows
        ((keyed.filter (fun b => joinKey b keys == some k)) ++ unkeyed).filterMap (fun b => mergeRows a b)
    | none => r.filterMap (fun b => mergeRows a b))

/-! ## dataset -/

structure Quad where
  s : Val
  p : Val
  o : Val
  g : Option Val
deriving DecidableEq, Repr

structure DB where
  quads : List Quad            -- duplicate-free (C04)
  graphs : List Val            -- named-graph catalog (identities, incl. empty graphs)
deriving Repr

/-- `graph_exists` for a named graph -/
def DB.graphExists (db : DB) (g : Val) : Bool := db.graphs.contains g || db.quads.any (fun q => q.g == some g)

/-- `named_graphs()`, sorted (the engine sorts visible graphs by id; the observable order of rows is not
    compared, so only the *set* matters; we sort lexically to be deterministic) -/
def DB.namedGraphs (db : DB) : List Val :=
  (db.graphs ++ db.quads.filterMap (·.g)).eraseDups

/-- `DatasetView` -/
structure View where
  dflt : List (Option Val)     -- physical graphs merged into the query default graph (deduplicated list)
  named : List Val             -- graphs visible to GRAPH
deriving Repr

def View.fromDb (db : DB) : View := ⟨[none], db.namedGraphs⟩

/-- `DatasetView::new`: defaults deduplicated in order, named keep only named graphs -/
def View.mk' (dflt : List (Option Val)) (named : List Val) : View := ⟨dflt.eraseDups, named.eraseDups⟩

structure Ctx where
  view : View
  active : Option Val          -- `active_graph` (only ever a named graph)
deriving Repr

/-! ## patterns and scans -/

inductive Term
  | const (c : Val)
  | var (v : Var)
deriving DecidableEq, Repr

inductive GTerm
  | dflt
  | named (g : Val)
  | var (v : Var)
deriving DecidableEq, Repr

structure QPat where
  s : Term
  p : Term
  o : Term
  g : GTerm
deriving DecidableEq, Repr

def Term.vars : Term → List Var
  | .const _ => []
  | .var v => [v]

def QPat.vars (q : QPat) : List Var :=
  (q.s.vars ++ q.p.vars ++ q.o.vars ++ (match q.g with | .var v => [v] | _ => [])).eraseDups

/-- `match_quad` for one position: extend the bindings or fail -/
def matchTerm (t : Term) (x : Val) (b : Row) : Option Row :=
  match t with
  | .const c => if c == x then some b else none
  | .var v => match Row.get b v with
      | some y => if y == x then some b else none
      | none => some (Row.insert b v x)

/-- `match_quad` -/
def matchTriple (pat : QPat) (s p o : Val) (seed : Row) : Option Row :=
  (matchTerm pat.s s seed).bind fun b => (matchTerm pat.p p b).bind fun b => matchTerm pat.o o b

/-- `bound_term_value` + `query_graph`: the index lookup is modelled as a filter of the quad set (C04) -/
def boundOf (t : Term) (row : Row) : Option Val :=
  match t with | .const c => some c | .var v => Row.get row v

def keyOk (k : Option Val) (x : Val) : Bool := match k with | some y => y == x | none => true

def queryGraph (db : DB) (g : Option Val) (pat : QPat) (row : Row) : List Quad :=
  db.quads.filter (fun q => q.g == g && keyOk (boundOf pat.s row) q.s && keyOk (boundOf pat.p row) q.p
    && keyOk (boundOf pat.o row) q.o)

/-- the seed of `scan_one_graph`: bind (or check) the graph variable -/
def graphSeed (gbind : Option (Var × Val)) (row : Row) : Option Row :=
  match gbind with
  | none => some row
  | some (v, gv) => match Row.get row v with
      | some e => if e == gv then some row else none
      | none => some (Row.insert row v gv)

/-- `scan_one_graph` -/
def scanOneGraph (db : DB) (pat : QPat) (g : Option Val) (gbind : Option (Var × Val)) (row : Row) : List Row :=
  (queryGraph db g pat row).filterMap (fun q =>
    (graphSeed gbind row).bind (fun sd => matchTriple pat q.s q.p q.o sd))

/-- `scan_query_default`: merged default graph, each triple once -/
def scanDefault (db : DB) (pat : QPat) (view : View) (row : Row) : List Row :=
  let triples := (view.dflt.flatMap (fun g => (queryGraph db g pat row).map (fun q => (q.s, q.p, q.o)))).eraseDups
  triples.filterMap (fun (s, p, o) => matchTriple pat s p o row)

def visibleNamed (db : DB) (ctx : Ctx) (g : Val) : Bool := ctx.view.named.contains g && db.graphExists g

/-- `execute_quad_scan_with_ids`, one incoming row -/
def scanRow (db : DB) (ctx : Ctx) (pat : QPat) (row : Row) : List Row :=
  match pat.g with
  | .dflt => match ctx.active with
      | some g => scanOneGraph db pat (some g) none row
      | none => scanDefault db pat ctx.view row
  | .named g => if visibleNamed db ctx g then scanOneGraph db pat (some g) none row else []
  | .var v => match Row.get row v with
      | some g => if visibleNamed db ctx g then scanOneGraph db pat (some g) (some (v, g)) row else []
      | none => (ctx.view.named.filter (fun g => db.graphExists g)).flatMap
          (fun g => scanOneGraph db pat (some g) (some (v, g)) row)

def scan (db : DB) (ctx : Ctx) (pat : QPat) (inc : List Row) : List Row := inc.flatMap (scanRow db ctx pat)

/-! ## filter conditions (`ConditionExpression`, the comparison fragment) -/

inductive Operand
  | var (v : Var)
  | const (c : Val)
deriving DecidableEq, Repr

inductive Cond
  | cmp (lhs : Var) (op : String) (rhs : Operand)
  | and (a b : Cond)
  | or (a b : Cond)
  | not (a : Cond)
deriving Repr

def digitsVal (cs : List Char) : Option Nat :=
  cs.foldl (fun acc c => acc.bind fun n => if c.isDigit then some (n * 10 + (c.toNat - '0'.toNat)) else none) (some 0)

/-- integer reading of a lexical value (`parse::<f64>()` restricted to `-?[0-9]+`, the generated fragment) -/
def parseInt (s : Val) : Option Int :=
  match s.toList with
  | [] => none
  | '-' :: rest => if rest.isEmpty then none else (digitsVal rest).map (fun n => -(Int.ofNat n))
  | cs => (digitsVal cs).map Int.ofNat

/-- `compare_lexical`: `=`/`!=` lexical, the order operators numeric with `unwrap_or(0.0)` -/
def compareLexical (l : Val) (op : String) (r : Val) : Bool :=
  let ln := (parseInt l).getD 0
  let rn := (parseInt r).getD 0
  if op == "=" then l == r
  else if op == "!=" then l != r
  else if op == ">" then decide (ln > rn)
  else if op == ">=" then decide (ln ≥ rn)
  else if op == "<" then decide (ln < rn)
  else if op == "<=" then decide (ln ≤ rn)
  else false

/-- `evaluate_filter_with_ids` (two-valued, as written: an unbound variable makes a comparison `false`,
    and `Not` simply negates) -/
def Cond.eval (c : Cond) (row : Row) : Bool :=
  match c with
  | .cmp v op rhs =>
      match Row.get row v with
      | none => false
      | some l => match rhs with
          | .var w => match Row.get row w with
              | none => false
              | some r => compareLexical l op r
          | .const r => compareLexical l op r
  | .and a b => a.eval row && b.eval row
  | .or a b => a.eval row || b.eval row
  | .not a => !a.eval row

def Cond.vars : Cond → List Var
  | .cmp v _ (.var w) => [v, w]
  | .cmp v _ (.const _) => [v]
  | .and a b => a.vars ++ b.vars
  | .or a b => a.vars ++ b.vars
  | .not a => a.vars

/-! ## sub-select modifiers (`SubquerySpec`, `finalize_subquery`) -/

inductive Agg | count | sum | avg | min | max
deriving DecidableEq, Repr

inductive ProjItem
  | var (v : Var)
  | agg (k : Agg) (input : Var) (out : Var)
deriving Repr

structure Spec where
  proj : Option (List ProjItem)     -- `none` = `SELECT *`
  distinct : Bool
  groupVars : List Var
  order : List (Var × Bool)         -- (variable, descending?)
  limit : Option Nat
deriving Repr

def ProjItem.out : ProjItem → Var
  | .var v => v
  | .agg _ _ o => o

def ProjItem.isAgg : ProjItem → Bool
  | .var _ => false
  | .agg _ _ _ => true

/-- does the projection contain an aggregate? -/
def hasAgg (ps : List ProjItem) : Bool := ps.any ProjItem.isAgg

def intToVal (i : Int) : Val := toString i

/-- aggregate of the *parsable* values of a group; results are integers in the generated fragment
    (`AVG` is only compared when the quotient is exact — the driver reports `avg-inexact` otherwise) -/
def aggValue (k : Agg) (vals : List Val) : Option Val :=
  let nums := vals.filterMap parseInt
  match k with
  | .count => some (toString vals.length)
  | .sum => some (intToVal (nums.foldl (· + ·) 0))
  | .avg => if nums.isEmpty then none else
      let s := nums.foldl (· + ·) 0
      let n : Int := Int.ofNat nums.length
      if s % n == 0 then some (intToVal (s / n)) else some "inexact"
  | .min => match nums with
      | [] => none
      | x :: xs => some (intToVal (xs.foldl (fun a b => if b < a then b else a) x))
  | .max => match nums with
      | [] => none
      | x :: xs => some (intToVal (xs.foldl (fun a b => if b > a then b else a) x))

def Row.erase (r : Row) (v : Var) : Row := r.filter (fun (k, _) => k != v)

def groupKey (gv : List Var) (r : Row) : List (Option Val) := gv.map (Row.get r)

/-- group rows by key, groups in first-occurrence order (the code uses a `BTreeMap`; group order is not
    observable after canonical sorting unless ORDER BY/LIMIT follow, where ties are compared as sets) -/
def groupRows (gv : List Var) (rows : List Row) : List (List Row) :=
  let keys := (rows.map (groupKey gv)).eraseDups
  keys.map (fun k => rows.filter (fun r => groupKey gv r == k))

/-- `aggregate_subquery_rows` / `aggregate_rows` -/
def aggregate (aggs : List ProjItem) (gv : List Var) (rows : List Row) : List Row :=
  let aggs := aggs.filter (fun p => match p with | .agg .. => true | _ => false)
  if aggs.isEmpty && gv.isEmpty then rows else
  let groups := groupRows gv rows
  let groups := if groups.isEmpty && gv.isEmpty then [[]] else groups
  groups.map (fun grp =>
    let base : Row := grp.head?.getD []
    aggs.foldl (fun res p => match p with
      | .agg k input out =>
          match aggValue k (grp.filterMap (fun r => Row.get r input)) with
          | some v => Row.insert res out v
          | none => Row.erase res out
      | .var _ => res) base)

/-- comparison used by `apply_order_by`: numeric when both parse, else lexical; `< 0`, `0`, `> 0` -/
def cmpVals (a b : Val) : Int :=
  match parseInt a, parseInt b with
  | some x, some y => if x < y then -1 else if x > y then 1 else 0
  | _, _ => if a < b then -1 else if b < a then 1 else 0

def cmpRows (order : List (Var × Bool)) (a b : Row) : Int :=
  match order with
  | [] => 0
  | (v, desc) :: rest =>
      let c := cmpVals ((Row.get a v).getD "") ((Row.get b v).getD "")
      let c := if desc then -c else c
      if c != 0 then c else cmpRows rest a b

/-- stable insertion sort by `cmpRows` (Rust's `sort_by` is stable) -/
def insertBy (order : List (Var × Bool)) (x : Row) : List Row → List Row
  | [] => [x]
  | y :: ys => if cmpRows order x y < 0 then x :: y :: ys else y :: insertBy order x ys

def sortRows (order : List (Var × Bool)) (rows : List Row) : List Row :=
  rows.foldr (fun x acc => insertBy order x acc) []

def Row.restrict (r : Row) (vs : List Var) : Row := r.filter (fun (k, _) => vs.contains k)

/-- `finalize_subquery`: aggregate → order → project → distinct → limit -/
def finalizeSub (spec : Spec) (rows : List Row) : List Row :=
  let rows := aggregate (spec.proj.getD []) spec.groupVars rows
  let rows := if spec.order.isEmpty then rows else sortRows spec.order rows
  let rows := match spec.proj with
    | none => rows
    | some ps => rows.map (fun r => Row.restrict r (ps.map ProjItem.out))
  let rows := if spec.distinct then rows.eraseDups else rows
  match spec.limit with
  | none => rows
  | some n => rows.take n

/-! ## physical plans and the executor -/

inductive Plan
  | unit
  | empty                                   -- `Union { branches: [] }`
  | scan (pat : QPat)                       -- TableScan / IndexScan (same executor)
  | union (l r : Plan)                      -- n-ary `Union` nested to the right
  | graph (input : Plan) (g : GTerm)
  | filter (input : Plan) (c : Cond)
  | project (input : Plan) (vs : List Var)
  | bindJoin (l r : Plan)
  | hashJoin (l r : Plan)
  | nlJoin (l r : Plan)
  | star (pats : List QPat)                 -- StarJoin: the patterns are scanned in sequence (default scope)
  | values (vars : List Var) (rows : List (List (Option Val)))
  | subquery (inner : Plan) (spec : Spec)
  | bind (input : Plan) (args : List Operand) (out : Var)   -- BIND(CONCAT(args) AS ?out)
deriving Repr

/-- one cell of a VALUES row: `UNDEF` binds nothing -/
def valuesStep (acc : Row) (vc : Var × Option Val) : Row :=
  match vc.2 with
  | some x => Row.insert acc vc.1 x
  | none => acc

def valuesRows (vars : List Var) (rows : List (List (Option Val))) : List Row :=
  rows.map (fun cells => (vars.zip cells).foldl valuesStep [])

/-- CONCAT argument: an unbound variable contributes the empty string -/
def concatArgs (args : List Operand) (row : Row) : Val :=
  String.join (args.map (fun a => match a with | .var v => (Row.get row v).getD "" | .const c => c))

/-- `execute_graph_with_ids` for `GRAPH ?v`, one incoming row, given the child executor -/
def graphVarRow (db : DB) (ctx : Ctx) (v : Var) (child : Ctx → List Row → List Row) (row : Row) : List Row :=
  match Row.get row v with
  | some g => if visibleNamed db ctx g then child { ctx with active := some g } [row] else []
  | none => (ctx.view.named.filter (fun g => db.graphExists g)).flatMap
      (fun g => child { ctx with active := some g } [Row.insert row v g])

/-- `execute_with_ids_and_input` -/
def exec (db : DB) : Plan → Ctx → List Row → List Row
  | _, _, [] => []
  | .unit, _, inc => inc
  | .empty, _, _ => []
  | .scan pat, ctx, inc => scan db ctx pat inc
  | .union l r, ctx, inc => exec db l ctx inc ++ exec db r ctx inc
  | .graph input g, ctx, inc =>
      match g with
      | .dflt => exec db input { ctx with active := none } inc
      | .named gn => if visibleNamed db ctx gn then exec db input { ctx with active := some gn } inc else []
      | .var v => inc.flatMap (graphVarRow db ctx v (fun c i => exec db input c i))
  | .filter input c, ctx, inc => (exec db input ctx inc).filter c.eval
  | .project input vs, ctx, inc => (exec db input ctx inc).map (fun r => Row.restrict r vs)
  | .bindJoin l r, ctx, inc => exec db r ctx (exec db l ctx inc)
  | .hashJoin l r, ctx, inc =>
      let lr := exec db l ctx inc
      if lr.isEmpty then [] else hashJoin lr (exec db r ctx [[]])
  | .nlJoin l r, ctx, inc =>
      let lr := exec db l ctx inc
      if lr.isEmpty then [] else nlJoin lr (exec db r ctx [[]])
  | .star pats, ctx, inc => pats.foldl (fun acc p => scan db ctx { p with g := .dflt } acc) inc
  | .values vars rows, _, inc => nlJoin inc (valuesRows vars rows)
  | .subquery inner spec, ctx, inc => nlJoin inc (finalizeSub spec (exec db inner ctx [[]]))
  | .bind input args out, ctx, inc =>
      (exec db input ctx inc).map (fun r => Row.insert r out (concatArgs args r))

/-- `execute_bind_join` with chunking: the left solutions are cut into chunks of `n` and fed separately -/
def chunks {α} (n : Nat) (l : List α) : List (List α) :=
  if h : n = 0 ∨ l.length ≤ n then [l] else
    l.take n :: chunks n (l.drop n)
termination_by l.length
decreasing_by simp only [List.length_drop]; omega

def execChunked (db : DB) (p : Plan) (ctx : Ctx) (n : Nat) (inc : List Row) : List Row :=
  (chunks n inc).flatMap (exec db p ctx)

/-! ## the group-pattern syntax tree and its lowering (`build_logical_plan_from_group_in_scope`) -/

inductive Pat
  | unit
  | bgp (tps : List (Term × Term × Term))
  | group (elems : List Pat)                 -- `GroupGraphPattern::Join`
  | union (branches : List Pat)
  | graph (name : GTerm) (p : Pat)
  | filter (c : Cond)
  | bind (args : List Operand) (out : Var)
  | values (vars : List Var) (rows : List (List (Option Val)))
  | sub (p : Pat) (spec : Spec)
deriving Repr

/-- the logical algebra produced by the lowering (`LogicalOperator`): joins carry no algorithm yet -/
inductive Logical
  | unit
  | empty
  | scan (pat : QPat)
  | union (l r : Logical)
  | graph (input : Logical) (g : GTerm)
  | filter (input : Logical) (c : Cond)
  | join (l r : Logical)
  | values (vars : List Var) (rows : List (List (Option Val)))
  | subquery (inner : Logical) (spec : Spec)
  | bind (input : Logical) (args : List Operand) (out : Var)
deriving Repr

/-- `append_join`: the unit pattern is a join identity -/
def appendJoin (l r : Logical) : Logical :=
  match l, r with
  | .unit, r => r
  | l, .unit => l
  | l, r => .join l r

/-- `build_logical_plan_from_subquery_in_scope`: a subquery starts a fresh variable scope, so a *variable* graph scope
    is not carried onto its scans (the enclosing Graph operator supplies the active graph through the context) -/
def subScope : GTerm → GTerm
  | .var _ => .dflt
  | s => s

mutual
/-- `build_logical_plan_from_group_in_scope`: graph scope carried onto the scans -/
def lower (scope : GTerm) : Pat → Logical
  | .unit => .unit
  | .bgp tps => tps.foldl (fun acc (s, p, o) => appendJoin acc (.scan ⟨s, p, o, scope⟩)) .unit
  | .group elems =>
      -- direct FILTERs are deferred to the end of their group
      lowerFilters (lowerGroup scope .unit elems) elems
  | .union branches => lowerUnion scope branches
  | .graph name p => .graph (lower name p) name
  | .filter c => .filter .unit c
  | .bind args out => .bind .unit args out
  | .values vars rows => .values vars rows
  | .sub p spec => .subquery (lower (subScope scope) p) spec

def lowerGroup (scope : GTerm) (plan : Logical) : List Pat → Logical
  | [] => plan
  | .filter _ :: rest => lowerGroup scope plan rest
  | .bind args out :: rest => lowerGroup scope (.bind plan args out) rest
  | e :: rest => lowerGroup scope (appendJoin plan (lower scope e)) rest

def lowerUnion (scope : GTerm) : List Pat → Logical
  | [] => .empty
  | b :: rest => .union (lower scope b) (lowerUnion scope rest)

def lowerFilters (plan : Logical) : List Pat → Logical
  | [] => plan
  | .filter c :: rest => lowerFilters (.filter plan c) rest
  | _ :: rest => lowerFilters plan rest
end

/-- how the three join algorithms are assigned to the join nodes (the cost model's choice, not modelled) -/
inductive JoinAlg | bind | hash | nl
deriving DecidableEq, Repr

def mkJoin (alg : JoinAlg) (l r : Plan) : Plan :=
  match alg with | .bind => .bindJoin l r | .hash => .hashJoin l r | .nl => .nlJoin l r

/-- `find_best_plan_recursive` with the cost model replaced by an oracle: `algs` lists the algorithm of the
    k-th join node visited; returns the physical plan and the unused part of the oracle -/
def implement (algs : List JoinAlg) : Logical → Plan × List JoinAlg
  | .unit => (.unit, algs)
  | .empty => (.empty, algs)
  | .scan pat => (.scan pat, algs)
  | .union l r =>
      let (pl, algs) := implement algs l
      let (pr, algs) := implement algs r
      (.union pl pr, algs)
  | .graph i g => let (pi, algs) := implement algs i; (.graph pi g, algs)
  | .filter i c => let (pi, algs) := implement algs i; (.filter pi c, algs)
  | .join l r =>
      let alg := algs.head?.getD .bind
      let (pl, algs) := implement algs.tail l
      let (pr, algs) := implement algs r
      (mkJoin alg pl pr, algs)
  | .values vars rows => (.values vars rows, algs)
  | .subquery i spec => let (pi, algs) := implement algs i; (.subquery pi spec, algs)
  | .bind i args out => let (pi, algs) := implement algs i; (.bind pi args out, algs)

/-! ## SELECT (`execute_select`, `finalize_select`) -/

structure Select where
  spec : Spec                        -- projection/aggregates, DISTINCT, GROUP BY, ORDER BY, LIMIT
  from_ : List Val
  fromNamed : List Val
  where_ : Pat
deriving Repr

/-- `build_dataset_view` -/
def datasetView (db : DB) (q : Select) : View :=
  if q.from_.isEmpty && q.fromNamed.isEmpty then View.fromDb db
  else View.mk' (q.from_.map some) q.fromNamed

mutual
/-- `collect_pattern_variables` (column order of `SELECT *`) -/
def patVars : Pat → List Var
  | .unit => []
  | .filter _ => []
  | .bgp tps => tps.flatMap (fun (s, p, o) => s.vars ++ p.vars ++ o.vars)
  | .group elems => patVarsList elems
  | .union bs => patVarsList bs
  | .graph name p => (match name with | .var v => [v] | _ => []) ++ patVars p
  | .bind _ out => [out]
  | .values vars _ => vars
  | .sub p spec => match spec.proj with
      | none => patVars p
      | some ps => ps.map ProjItem.out
def patVarsList : List Pat → List Var
  | [] => []
  | p :: rest => patVars p ++ patVarsList rest
end

def columns (q : Select) : List Var :=
  match q.spec.proj with
  | none => (patVars q.where_).eraseDups
  | some ps => ps.map ProjItem.out

/-- `finalize_select`: aggregate (if any aggregate is projected) → order → distinct on the projected
    columns → limit → project.  Output: one list of optional values per row, in column order. -/
def finalizeSelect (q : Select) (rows : List Row) : List (List (Option Val)) :=
  let cols := columns q
  let rows := if hasAgg (q.spec.proj.getD []) then aggregate (q.spec.proj.getD []) q.spec.groupVars rows else rows
  let rows := if q.spec.order.isEmpty then rows else sortRows q.spec.order rows
  let key (r : Row) := cols.map (Row.get r)
  let rows := if q.spec.distinct then
      rows.foldl (fun (acc : List Row) r => if acc.any (fun a => key a == key r) then acc else acc ++ [r]) []
    else rows
  let rows := match q.spec.limit with | none => rows | some n => rows.take n
  rows.map key

/-- the whole SELECT pipeline with a join-algorithm oracle -/
def runSelect (db : DB) (q : Select) (algs : List JoinAlg) : List (List (Option Val)) :=
  let view := datasetView db q
  let plan := (implement algs (lower .dflt q.where_)).1
  finalizeSelect q (exec db plan ⟨view, none⟩ [[]])

end Kolibrie.Engine
