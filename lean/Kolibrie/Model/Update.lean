/-
Model of SPARQL Update execution — C03.

Transcribes `execute_query.rs`: `execute_update_operation`, `execute_modify`, `instantiate_templates`,
`instantiate_quad` (legality checks), `allocate_blank_node`, `apply_mutations`, and the syntactic validation
of `parser.rs: sparql_update_core` (variables in DATA blocks, blank nodes in DELETE).
The WHERE clause is evaluated by `Engine.sem` (the algebra; its correspondence with the executor is C01/C02).
-/
import Kolibrie.Model.Engine
import Kolibrie.Spec.Algebra
namespace Kolibrie.Update
open Kolibrie.Engine

inductive TTerm
  | var (v : Var)
  | const (c : Val)
  | bnode (label : String)
deriving DecidableEq, Repr

structure QT where
  s : TTerm
  p : TTerm
  o : TTerm
  g : Option TTerm          -- `none` = default graph; `some (var|const)`
deriving Repr

inductive Upd
  | insertData (qs : List QT)
  | deleteData (qs : List QT)
  | modify (del : Option (List QT)) (ins : Option (List QT)) (w : Pat)
  | deleteWhere (qs : List QT)
deriving Repr

def TTerm.isVar : TTerm → Bool | .var _ => true | _ => false
def TTerm.isBnode : TTerm → Bool | .bnode _ => true | _ => false

def QT.hasVar (q : QT) : Bool :=
  q.s.isVar || q.p.isVar || q.o.isVar || (match q.g with | some t => t.isVar | none => false)
def QT.hasBnode (q : QT) : Bool := q.s.isBnode || q.p.isBnode || q.o.isBnode

/-- `sparql_update_core`: what the parser rejects -/
def Upd.valid : Upd → Bool
  | .insertData qs => !qs.any QT.hasVar
  | .deleteData qs => !qs.any QT.hasVar && !qs.any QT.hasBnode
  | .modify del _ _ => !(del.getD []).any QT.hasBnode
  | .deleteWhere qs => !qs.any QT.hasBnode

/-- `is_probable_absolute_iri` -/
def probableIri (v : Val) : Bool :=
  match v.toList.span (· != ':') with
  | (scheme, ':' :: _) =>
      (match scheme with
       | [] => false
       | c :: rest => c.isAlpha && rest.all (fun d => d.isAlphanum || d == '+' || d == '-' || d == '.'))
  | _ => false

def isBlank (v : Val) : Bool := v.startsWith "_:"

def legalSubject (db : DB) (v : Val) : Bool :=
  isBlank v || probableIri v || db.graphExists v || db.quads.any (fun q => q.s == v)
def legalPredicate (db : DB) (v : Val) : Bool :=
  !isBlank v && (probableIri v || db.graphExists v || db.quads.any (fun q => q.p == v))
def legalGraph (db : DB) (v : Val) : Bool := !isBlank v && (probableIri v || db.graphExists v)

/-- the fresh label handed out by `allocate_blank_node` for solution number `k` -/
def freshBlank (k : Nat) (label : String) : Val := "_:kolibrie-update-" ++ toString k ++ "-" ++ label

/-- `instantiate_term` (quoted-triple templates out of scope) -/
def instTerm (t : TTerm) (row : Row) (k : Nat) : Option Val :=
  match t with
  | .var v => Row.get row v
  | .const c => some c
  | .bnode l => some (freshBlank k l)

/-- `instantiate_quad`: `none` = the quad is skipped (unbound variable or illegal position) -/
def instQuad (db : DB) (t : QT) (row : Row) (k : Nat) : Option Quad := do
  let s ← instTerm t.s row k
  if t.s.isVar && !legalSubject db s then none else
  let p ← instTerm t.p row k
  if t.p.isVar && !legalPredicate db p then none else
  let o ← instTerm t.o row k
  match t.g with
  | none => some ⟨s, p, o, none⟩
  | some gt => do
      let g ← instTerm gt row k
      if gt.isVar && !legalGraph db g then none else some ⟨s, p, o, some g⟩

/-- `instantiate_templates`: one blank-node allocation per solution (solution `i` gets number `base + i`) -/
def instTemplates (db : DB) (ts : List QT) (rows : List Row) (base : Nat) : List Quad :=
  ((rows.zipIdx).flatMap (fun (row, i) => ts.filterMap (fun t => instQuad db t row (base + i)))).eraseDups

/-- `sparql_quads_to_group` for `DELETE WHERE` -/
def ttermToTerm : TTerm → Term
  | .var v => .var v
  | .const c => .const c
  | .bnode l => .const ("_:" ++ l)
def quadsToGroup (qs : List QT) : Pat :=
  .group (qs.map (fun q =>
    let bgp := Pat.bgp [(ttermToTerm q.s, ttermToTerm q.p, ttermToTerm q.o)]
    match q.g with
    | none => bgp
    | some (.var v) => .graph (.var v) bgp
    | some (.const c) => .graph (.named c) bgp
    | some (.bnode l) => .graph (.named ("_:" ++ l)) bgp))

structure Summary where
  inserted : Nat
  deleted : Nat
deriving DecidableEq, Repr

/-- `DatasetIndex::delete_quad` / `insert_quad` on the abstract store (C04), with change reporting -/
def deleteQuad (db : DB) (q : Quad) : DB × Bool :=
  if db.quads.contains q then ({ db with quads := db.quads.filter (· != q) }, true) else (db, false)

def touchGraph (db : DB) (g : Option Val) : DB :=
  match g with
  | some n => if db.graphs.contains n then db else { db with graphs := db.graphs ++ [n] }
  | none => db

def insertQuad (db : DB) (q : Quad) : DB × Bool :=
  let db := touchGraph db q.g
  if db.quads.contains q then (db, false) else ({ db with quads := db.quads ++ [q] }, true)

/-- `apply_mutations`: all deletions, then all insertions, counting the calls that changed the store -/
def applyMutations (db : DB) (dels inss : List Quad) : DB × Summary :=
  let (db, nd) := dels.foldl (fun (acc : DB × Nat) q =>
      let (d, b) := deleteQuad acc.1 q; (d, if b then acc.2 + 1 else acc.2)) (db, 0)
  let (db, ni) := inss.foldl (fun (acc : DB × Nat) q =>
      let (d, b) := insertQuad acc.1 q; (d, if b then acc.2 + 1 else acc.2)) (db, 0)
  (db, ⟨ni, nd⟩)

/-- the store remembers, as catalog entries, the graphs of the quads it holds (C04's invariant) -/
def normalise (db : DB) : DB := { db with graphs := (db.graphs ++ db.quads.filterMap (·.g)).eraseDups }

/-- one update request: `none` = rejected -/
def applyUpdate (db : DB) (u : Upd) (base : Nat) : Option (DB × Summary) :=
  if !u.valid then none else
  match u with
  | .insertData qs => some (applyMutations db [] (instTemplates db qs [[]] base))
  | .deleteData qs => some (applyMutations db (instTemplates db qs [[]] base) [])
  | .modify del ins w =>
      let rows := sem db ⟨View.fromDb db, none⟩ w
      let dels := match del with | some ts => instTemplates db ts rows base | none => []
      let inss := match ins with | some ts => instTemplates db ts rows base | none => []
      some (applyMutations db dels inss)
  | .deleteWhere qs =>
      let rows := sem db ⟨View.fromDb db, none⟩ (quadsToGroup qs)
      some (applyMutations db (instTemplates db qs rows base) [])

/-- a history under a step function: rejected requests leave the state untouched; blank-node numbering
    advances by 1000 per request -/
def historyWith (step : DB → Upd → Nat → Option (DB × Summary)) (db : DB) (us : List Upd) :
    List (Option Summary) × DB :=
  let r := us.foldl (fun (acc : List (Option Summary) × DB × Nat) u =>
      match step acc.2.1 u acc.2.2 with
      | some (db', s) => (acc.1 ++ [some s], db', acc.2.2 + 1000)
      | none => (acc.1 ++ [none], acc.2.1, acc.2.2 + 1000)) ([], db, 0)
  (r.1, r.2.1)

def runHistory (db : DB) (us : List Upd) : List (Option Summary) × DB := historyWith applyUpdate db us

end Kolibrie.Update
