import Kolibrie.Model.Utf8
import Kolibrie.Extracted
/-
(imports: `Model/Utf8` for `Bytes`/`isBoundary`/`decodeAt`/`WF`, and the generated `Kolibrie.Extracted` for the character
tables that `tools/extract.py` regenerates from the Rust source.)

Byte-level transcription of the hand-written SPARQL token scanners of `kolibrie/src/parser.rs`:

  sparql_skip_ws, sparql_variable, sparql_unicode_escape_len, sparql_pn_chars_base/_u/pn_chars,
  sparql_invalid_pn_prefix, sparql_iri, sparql_blank_node, sparql_prefixed_name, sparql_numeric_literal,
  sparql_quoted_literal

The Rust code indexes `&str` by *byte* offsets; a slice whose end points are not char boundaries (or out of
range) panics.  Here a string is `Bytes = List UInt8`, every index is an **absolute** byte index into the one
string `s` the outermost scanner was called with (the Rust code re-slices `input`; `&input[k..]` with `input`
starting at `w` is the absolute index `w + k`), and every Rust slicing operation is an explicit `isBoundary`
check that yields `Res.panic` when it fails.  "The scanners never panic on a `&str`" is therefore a theorem
(`Lemmas/Scan.lean`), not an assumption.

Characters: `decodeAt s i = some (cp, n)` is `s[i..].chars().next()` with `n = len_utf8()`.  A Rust `char`
compared with an ASCII literal (`character == '.'`) is the pair test `isCh c 0x2E` (`cp = 0x2E ∧ n = 1`): on
valid UTF-8 the two coincide, and the pair form keeps the model meaningful under the weaker structural
hypothesis `WF` (which does not exclude overlong encodings).

Character classes beyond ASCII (`char::is_alphabetic/is_numeric/is_whitespace`) are an oracle `CharClass`.

Loops run on fuel `s.length + 1`; running out of fuel is the distinct result `Res.fuel`, and `…_no_fuel`
theorems show it never happens.
-/
namespace Kolibrie.Scan
open Kolibrie.Utf8

/-- oracle for Rust's Unicode tables (only consulted for code points ≥ 128) -/
structure CharClass where
  alpha : Nat → Bool
  numeric : Nat → Bool
  white : Nat → Bool

/-- scanner result.  `ok consumed tokStart tokLen`: `consumed = input.len() - remaining.len()`, the token is
    `input[tokStart .. tokStart+tokLen]`.  `err kind off len`: nom `ErrorKind` (Debug spelling) and the position of
    the error's `input` slice inside the scanner's input.  `panic`: the Rust code would panic (bad slice).
    `fuel`: the model's loop budget ran out (never happens). -/
inductive Res where
  | ok (consumed tokStart tokLen : Nat)
  | err (kind : String) (off len : Nat)
  | panic
  | fuel
  deriving DecidableEq, Repr, Inhabited

/-- byte at `i` as a number, `256` when out of range (`bytes.get(i)` = `None`) -/
def bAt (s : Bytes) (i : Nat) : Nat :=
  match s[i]? with
  | some b => b.toNat
  | none => 256

def isDigitB (b : Nat) : Bool := 0x30 ≤ b && b ≤ 0x39
def isAlphaB (b : Nat) : Bool := (0x41 ≤ b && b ≤ 0x5A) || (0x61 ≤ b && b ≤ 0x7A)
def isAlnumB (b : Nat) : Bool := isAlphaB b || isDigitB b
def isHexB (b : Nat) : Bool := isDigitB b || (0x41 ≤ b && b ≤ 0x46) || (0x61 ≤ b && b ≤ 0x66)

/-- `char::is_alphabetic` -/
def isAlpha (cls : CharClass) (cp : Nat) : Bool := if cp < 128 then isAlphaB cp else cls.alpha cp
/-- `char::is_numeric` -/
def isNumeric (cls : CharClass) (cp : Nat) : Bool := if cp < 128 then isDigitB cp else cls.numeric cp
/-- `char::is_whitespace` (ASCII: U+0009..U+000D, U+0020) -/
def isWhite (cls : CharClass) (cp : Nat) : Bool :=
  if cp < 128 then (9 ≤ cp && cp ≤ 13) || cp == 32 else cls.white cp
/-- `char::is_alphanumeric` -/
def isAlnum (cls : CharClass) (cp : Nat) : Bool := isAlpha cls cp || isNumeric cls cp

/-- `character == '<ascii literal>'` -/
def isCh (c : Nat × Nat) (x : Nat) : Bool := c.1 == x && c.2 == 1

def inRanges (rs : List (Nat × Nat)) (cp : Nat) : Bool := rs.any (fun r => r.1 ≤ cp && cp ≤ r.2)

/-- the `matches!` ranges of `sparql_pn_chars_base` — regenerated from the Rust source by `tools/extract.py`
    (`ex_pn_chars_ranges`) on every run -/
def pnBaseRanges : List (Nat × Nat) := Kolibrie.Extracted.pnBaseRanges

/-- the `matches!` alternatives of `sparql_pn_chars` (`'-' | U+00B7 | U+0300..=U+036F | U+203F..=U+2040`), extracted -/
def pnExtraRanges : List (Nat × Nat) := Kolibrie.Extracted.pnExtraRanges

/-- `sparql_pn_chars_base`: `is_ascii_alphabetic() || is_alphabetic() || ranges` -/
def pnCharsBase (cls : CharClass) (cp : Nat) : Bool := isAlpha cls cp || inRanges pnBaseRanges cp
/-- `sparql_pn_chars_u` -/
def pnCharsU (cls : CharClass) (cp : Nat) : Bool := cp == 0x5F || pnCharsBase cls cp
/-- `sparql_pn_chars` -/
def pnChars (cls : CharClass) (cp : Nat) : Bool :=
  pnCharsU cls cp || isDigitB cp || inRanges pnExtraRanges cp

/-- `chars()` loop: the first index at or after `i` whose character fails `p` (or the end) -/
def spanChars (p : Nat → Bool) (s : Bytes) : Nat → Nat → Option Nat
  | 0, _ => none
  | f + 1, i =>
    match decodeAt s i with
    | some (cp, n) => if p cp then spanChars p s f (i + n) else some i
    | none => some i

/-- `k + ` number of bytes from `k` on that fail `stop` (= index of the first `stop` byte, or `s.length`) -/
def findByte (stop : Nat → Bool) (s : Bytes) (k : Nat) : Nat :=
  k + ((s.drop k).takeWhile (fun b => !stop b.toNat)).length

/-- number of bytes from `k` on that satisfy `p` (`bytes().take_while(p).count()`) -/
def runLen (p : Nat → Bool) (s : Bytes) (k : Nat) : Nat :=
  ((s.drop k).takeWhile (fun b => p b.toNat)).length

/-! ### sparql_skip_ws -/

/-- one `loop` of `sparql_skip_ws`, `i` = start of the current `input` -/
def skipWsLoop (cls : CharClass) (s : Bytes) : Nat → Nat → Res
  | 0, _ => .fuel
  | f + 1, i =>
    -- input.trim_start_matches(char::is_whitespace)
    match spanChars (isWhite cls) s (s.length + 1) i with
    | none => .fuel
    | some j =>
      if bAt s j == 0x23 then                       -- strip_prefix('#')
        let nl := findByte (fun b => b == 0x0D || b == 0x0A) s (j + 1)
        if nl < s.length then
          if isBoundary s nl then skipWsLoop cls s f nl else .panic     -- &comment[newline..]
        else skipWsLoop cls s f s.length                                 -- map_or("", …)
      else if j == i then .ok j 0 0                  -- input.len() == before
      else skipWsLoop cls s f j

/-- `sparql_skip_ws(&s[b..])`; `.ok w 0 0` = the returned slice starts at `w` -/
def skipWsAt (cls : CharClass) (s : Bytes) (b : Nat) : Res := skipWsLoop cls s (s.length + 1) b

/-! ### sparql_variable -/

def varAt (cls : CharClass) (s : Bytes) (b : Nat) : Res :=
  match skipWsAt cls s b with
  | .ok w _ _ =>
    match decodeAt s w with
    | none => .err "Eof" w (s.length - w)
    | some c =>
      if !(isCh c 0x3F || isCh c 0x24) then .err "Char" w (s.length - w)   -- '?' | '$'
      else
        let ns := w + c.2
        if !isBoundary s ns then .panic                                    -- &input[name_start..]
        else
          match spanChars (fun cp => isAlnum cls cp || cp == 0x5F) s (s.length + 1) ns with
          | none => .fuel
          | some ne =>
            if ne == ns then .err "TakeWhile1" w (s.length - w)
            else if !isBoundary s ne then .panic                           -- &input[name_end..], &input[..name_end]
            else .ok ne w (ne - w)
  | r => r

/-! ### sparql_unicode_escape_len -/

def hexDigitVal (b : Nat) : Nat :=
  if isDigitB b then b - 0x30 else if 0x41 ≤ b && b ≤ 0x46 then b - 0x41 + 10 else b - 0x61 + 10

/-- `u32::from_str_radix(&s[i..i+n], 16)` on `n ≤ 8` hex digits -/
def hexVal (s : Bytes) (i n : Nat) : Nat :=
  ((s.drop i).take n).foldl (fun a b => a * 16 + hexDigitVal b.toNat) 0

/-- `n` bytes exist from `i` and all are ASCII hex digits -/
def allHex (s : Bytes) (i n : Nat) : Bool :=
  i + n ≤ s.length && ((s.drop i).take n).all (fun b => isHexB b.toNat)

/-- `char::from_u32(v).is_some()` -/
def validScalar (v : Nat) : Bool := v < 0xD800 || (0xDFFF < v && v ≤ 0x10FFFF)

inductive EscRes where
  | no                 -- `None`
  | len (n : Nat)      -- `Some(n)`
  | panic
  deriving DecidableEq, Repr

/-- `sparql_unicode_escape_len(&s[i..])` (the caller has checked `s[i] == '\\'`) -/
def uEscLen (s : Bytes) (i : Nat) : EscRes :=
  let digits := if bAt s (i + 1) == 0x75 then 4 else if bAt s (i + 1) == 0x55 then 8 else 0
  if digits == 0 then .no
  else
    let e := 2 + digits
    if !allHex s (i + 2) digits then .no                                  -- bytes.get(2..end)?, all hexdigit
    else if !(isBoundary s (i + 2) && isBoundary s (i + e)) then .panic   -- &input[2..end]
    else if !validScalar (hexVal s (i + 2) digits) then .no               -- char::from_u32(value)?
    else .len e

/-! ### sparql_iri -/

def iriLoop (s : Bytes) (w : Nat) : Nat → Nat → Res
  | 0, _ => .fuel
  | f + 1, i =>
    if i < s.length then
      if !isBoundary s i then .panic                                       -- &input[index..]
      else if bAt s i == 0x3E then                                         -- '>'
        if isBoundary s (i + 1) then .ok (i + 1) w (i + 1 - w) else .panic  -- &input[end..], &input[..end]
      else if bAt s i == 0x5C then                                         -- '\\'
        match uEscLen s i with
        | .no => .err "Escaped" i (s.length - i)
        | .panic => .panic
        | .len e => iriLoop s w f (i + e)
      else
        match decodeAt s i with
        | none => .panic                                                   -- expect("valid UTF-8 boundary")
        | some c =>
          -- character <= '\u{20}' || matches!(character, '<' | '"' | '{' | '}' | '|' | '^' | '`')  (table extracted)
          if c.1 ≤ 0x20 || Kolibrie.Extracted.iriForbidden.contains c.1 then
            .err "Verify" i (s.length - i)
          else iriLoop s w f (i + c.2)
    else .err "TakeUntil" w (s.length - w)

def iriAt (cls : CharClass) (s : Bytes) (b : Nat) : Res :=
  match skipWsAt cls s b with
  | .ok w _ _ =>
    if bAt s w != 0x3C then .err "Char" w (s.length - w)                  -- !starts_with('<')
    else iriLoop s w (s.length + 1) (w + 1)
  | r => r

/-! ### sparql_blank_node -/

/-- `Ok((&body[token_end..], &input[..2 + token_end]))`, `te` absolute -/
def tokEnd (s : Bytes) (w te : Nat) : Res :=
  if isBoundary s te then .ok te w (te - w) else .panic

def bnodeLoop (cls : CharClass) (s : Bytes) (w : Nat) : Nat → Nat → Nat → Res
  | 0, _, _ => .fuel
  | f + 1, i, te =>
    if i < s.length then
      if !isBoundary s i then .panic                                       -- &body[index..]
      else
        match decodeAt s i with
        | none => .panic
        | some c =>
          if pnChars cls c.1 then bnodeLoop cls s w f (i + c.2) (i + c.2)
          else if isCh c 0x2E then bnodeLoop cls s w f (i + 1) te          -- '.'
          else tokEnd s w te
    else tokEnd s w te

def bnodeAt (cls : CharClass) (s : Bytes) (b : Nat) : Res :=
  match skipWsAt cls s b with
  | .ok w _ _ =>
    if !(bAt s w == 0x5F && bAt s (w + 1) == 0x3A) then .err "Tag" w (s.length - w)     -- strip_prefix("_:")
    else
      match decodeAt s (w + 2) with
      | none => .err "TakeWhile1" w (s.length - w)
      | some c =>
        if !(pnCharsU cls c.1 || isDigitB c.1) then .err "Verify" (w + 2) (s.length - (w + 2))
        else bnodeLoop cls s w (s.length + 1) (w + 2 + c.2) (w + 2 + c.2)
  | r => r

/-! ### sparql_invalid_pn_prefix / sparql_prefixed_name -/

inductive PfxRes where
  | valid              -- `None`
  | bad (off : Nat)    -- `Some(&prefix[off..])` (absolute offset; the slice ends at the colon)
  | panic
  | fuel
  deriving DecidableEq, Repr

/-- the `for … in prefix[first.len_utf8()..].char_indices()` loop, `j` absolute, `colon` = end of the prefix -/
def pfxLoop (cls : CharClass) (s : Bytes) (colon : Nat) : Nat → Nat → Bool → PfxRes
  | 0, _, _ => .fuel
  | f + 1, j, dot =>
    if j < colon then
      match decodeAt s j with
      | none => .panic
      | some c =>
        if isCh c 0x2E then pfxLoop cls s colon f (j + c.2) true
        else if pnChars cls c.1 then pfxLoop cls s colon f (j + c.2) false
        else if isBoundary s j then .bad j else .panic                     -- &prefix[first.len_utf8() + offset..]
    else if dot then
      if 1 ≤ colon && isBoundary s (colon - 1) then .bad (colon - 1) else .panic   -- &prefix[prefix.len() - 1..]
    else .valid

/-- `sparql_invalid_pn_prefix(&s[w..colon])` -/
def invalidPfx (cls : CharClass) (s : Bytes) (w colon : Nat) : PfxRes :=
  if colon ≤ w then .valid                                                 -- prefix.chars().next() == None
  else
    match decodeAt s w with
    | none => .valid
    | some c =>
      if !pnCharsBase cls c.1 then .bad w
      else if !(isBoundary s (w + c.2) && w + c.2 ≤ colon) then .panic     -- &prefix[first.len_utf8()..]
      else pfxLoop cls s colon (s.length + 1) (w + c.2) false

/-- the characters allowed after `\\` in a local name (extracted from `sparql_prefixed_name`) -/
def localEscapes : List Nat := Kolibrie.Extracted.localEscapes

/-- the `ordinary` test of the local-name loop (first character: `PN_CHARS_U | [0-9] | ':'`) -/
def pnOrdinary (cls : CharClass) (first : Bool) (cp : Nat) : Bool :=
  if first then pnCharsU cls cp || isDigitB cp || cp == 0x3A else pnChars cls cp || cp == 0x3A

def pnameLoop (cls : CharClass) (s : Bytes) (w : Nat) : Nat → Nat → Nat → Bool → Res
  | 0, _, _, _ => .fuel
  | f + 1, i, te, first =>
    if i < s.length then
      if !isBoundary s i then .panic                                       -- &local[index..]
      else
        match decodeAt s i with
        | none => .panic
        | some c =>
          if pnOrdinary cls first c.1 then pnameLoop cls s w f (i + c.2) (i + c.2) false
          else if isCh c 0x2E then                                         -- '.'
            if first then tokEnd s w te else pnameLoop cls s w f (i + 1) te first
          else if isCh c 0x25 then                                         -- '%'
            if s.length - i < 3 || !isHexB (bAt s (i + 1)) || !isHexB (bAt s (i + 2)) then
              .err "Escaped" i (s.length - i)
            else pnameLoop cls s w f (i + 3) (i + 3) false
          else if isCh c 0x5C then                                         -- '\\'
            if !isBoundary s (i + 1) then .panic                           -- &tail[1..]
            else
              match decodeAt s (i + 1) with
              | none => .err "Escaped" i (s.length - i)
              | some e =>
                if !localEscapes.contains e.1 then .err "Escaped" i (s.length - i)
                else pnameLoop cls s w f (i + 1 + e.2) (i + 1 + e.2) false
          else tokEnd s w te
    else tokEnd s w te

def pnameAt (cls : CharClass) (s : Bytes) (b : Nat) : Res :=
  match skipWsAt cls s b with
  | .ok w _ _ =>
    let colon := findByte (fun x => x == 0x3A) s w                        -- input.find(':')
    if s.length ≤ colon then .err "Verify" w (s.length - w)
    else if !(isBoundary s colon && w ≤ colon) then .panic                 -- &input[..colon]
    else
      match invalidPfx cls s w colon with
      | .bad off => .err "Verify" off (colon - off)
      | .panic => .panic
      | .fuel => .fuel
      | .valid =>
        if !isBoundary s (colon + 1) then .panic                           -- &input[colon + 1..]
        else pnameLoop cls s w (s.length + 1) (colon + 1) (colon + 1) true
  | r => r

/-! ### sparql_numeric_literal -/

/-- `usize::from(matches!(bytes.get(i), Some(b'+') | Some(b'-')))` added to `i` -/
def numSignEnd (s : Bytes) (i : Nat) : Nat := if bAt s i == 0x2B || bAt s i == 0x2D then i + 1 else i
/-- `while bytes.get(index).is_some_and(u8::is_ascii_digit) { index += 1 }` -/
def digitsEnd (s : Bytes) (i : Nat) : Nat := i + runLen isDigitB s i
/-- `bytes.get(index) == Some(&b'.') && bytes.get(index + 1).is_some_and(u8::is_ascii_digit)` -/
def numHasFrac (s : Bytes) (i : Nat) : Bool := bAt s i == 0x2E && isDigitB (bAt s (i + 1))
def numFracEnd (s : Bytes) (i : Nat) : Nat := if numHasFrac s i then digitsEnd s (i + 1) else i
def numFracDigits (s : Bytes) (i : Nat) : Nat := if numHasFrac s i then runLen isDigitB s (i + 1) else 0
/-- the exponent part: `index = exponent_marker` again when no digit follows `e[+-]` -/
def numExpEnd (s : Bytes) (i : Nat) : Nat :=
  if bAt s i == 0x65 || bAt s i == 0x45 then
    if digitsEnd s (numSignEnd s (i + 1)) == numSignEnd s (i + 1) then i else digitsEnd s (numSignEnd s (i + 1))
  else i

/-- the final look-ahead of `sparql_numeric_literal`, `e` = final `index` -/
def numFinish (cls : CharClass) (s : Bytes) (w e : Nat) : Res :=
  if !isBoundary s e then .panic                                           -- &input[index..]
  else
    match decodeAt s e with
    | some c =>
      if isAlpha cls c.1 || c.1 == 0x5F then .err "Verify" w (s.length - w)
      else .ok e w (e - w)
    | none => .ok e w (e - w)

def numAt (cls : CharClass) (s : Bytes) (b : Nat) : Res :=
  match skipWsAt cls s b with
  | .ok w _ _ =>
    -- integer_digits == 0 && fractional_digits == 0
    if digitsEnd s (numSignEnd s w) - numSignEnd s w == 0 && numFracDigits s (digitsEnd s (numSignEnd s w)) == 0 then
      .err "Digit" w (s.length - w)
    else numFinish cls s w (numExpEnd s (numFracEnd s (digitsEnd s (numSignEnd s w))))
  | r => r

/-! ### sparql_quoted_literal -/

/-- `input[i..].starts_with(delimiter)` for the delimiter made of `dl` copies of the quote byte `q` -/
def startsDelim (s : Bytes) (i q : Nat) (triple : Bool) : Bool :=
  bAt s i == q && (!triple || (bAt s (i + 1) == q && bAt s (i + 2) == q))

/-- simple escapes `t b n r f " ' \` (extracted from `sparql_quoted_literal`) -/
def simpleEscapes : List Nat := Kolibrie.Extracted.simpleEscapes

/-- the body loop; `.ok closeEnd 0 0` = `close_end = Some(closeEnd)` -/
def litLoop (s : Bytes) (w q : Nat) (triple : Bool) : Nat → Nat → Res
  | 0, _ => .fuel
  | f + 1, i =>
    if i < s.length then
      if !isBoundary s i then .panic                                       -- &input[index..]
      else if startsDelim s i q triple then .ok (i + (if triple then 3 else 1)) 0 0
      else
        match decodeAt s i with
        | none => .panic
        | some c =>
          if !triple && (isCh c 0x0D || isCh c 0x0A) then .err "Escaped" i (s.length - i)
          else if isCh c 0x5C then
            if !isBoundary s (i + 1) then .panic                           -- &input[index + 1..]
            else
              match decodeAt s (i + 1) with
              | none => .err "Escaped" i (s.length - i)
              | some e =>
                if simpleEscapes.contains e.1 then litLoop s w q triple f (i + 1 + e.2)
                else if e.1 == 0x75 || e.1 == 0x55 then
                  let digits := if e.1 == 0x75 then 4 else 8
                  let h := i + 1 + e.2
                  if !isBoundary s h then .panic                           -- &escape[escaped.len_utf8()..]
                  else if !allHex s h digits then .err "Escaped" i (s.length - i)
                  else if !isBoundary s (h + digits) then .panic           -- &hexadecimal[..digits]
                  else if !validScalar (hexVal s h digits) then .err "Escaped" i (s.length - i)
                  else litLoop s w q triple f (i + 1 + e.2 + digits)
                else .err "Escaped" i (s.length - i)
          else litLoop s w q triple f (i + c.2)
    else .err "Escaped" w (s.length - w)

/-- the `while language.as_bytes().get(language_end) == Some(&b'-')` loop; `e` = absolute `language_end`,
    `le` = start of `suffix` (for the error slice); `.ok e 0 0` = final `language_end` -/
def langLoop (s : Bytes) (le : Nat) : Nat → Nat → Res
  | 0, _ => .fuel
  | f + 1, e =>
    if bAt s e == 0x2D then
      let st := e + 1
      if !isBoundary s st then .panic                                      -- &language[subtag_start..]
      else
        let n := runLen isAlnumB s st
        if n == 0 then .err "Verify" le (s.length - le)
        else langLoop s le f (st + n)
    else .ok e 0 0

/-- everything after the closing delimiter (`le` = `close_end`): language tag, datatype, or nothing -/
def litSuffix (cls : CharClass) (s : Bytes) (w le : Nat) : Res :=
  if !isBoundary s le then .panic                                          -- &input[literal_end..]
  else if bAt s le == 0x40 then                                            -- strip_prefix('@')
    if runLen isAlphaB s (le + 1) == 0 then .err "Verify" le (s.length - le)
    else
      match langLoop s le (s.length + 1) (le + 1 + runLen isAlphaB s (le + 1)) with
      | .ok e _ _ =>
        if !isBoundary s e then .panic                                     -- &language[language_end..]
        else
          match decodeAt s e with
          | some d =>
            if isAlnumB d.1 || d.1 == 0x2D || d.1 == 0x5F then .err "Verify" le (s.length - le)
            else tokEnd s w e
          | none => tokEnd s w e
      | r => r
  else if bAt s le == 0x5E && bAt s (le + 1) == 0x5E then                  -- strip_prefix("^^")
    match skipWsAt cls s (le + 2) with
    | .ok d _ _ =>
      match iriAt cls s d with                                             -- sparql_iri(..).or_else(sparql_prefixed_name)?
      | .ok n _ _ => tokEnd s w n
      | .err _ _ _ =>
        match pnameAt cls s d with
        | .ok n _ _ => tokEnd s w n
        | r => r
      | r => r
    | r => r
  else tokEnd s w le

/-- `input.starts_with(&quote.to_string().repeat(3))`, `q` = the quote byte -/
def litTriple (s : Bytes) (w q : Nat) : Bool := bAt s w == q && bAt s (w + 1) == q && bAt s (w + 2) == q

def litAt (cls : CharClass) (s : Bytes) (b : Nat) : Res :=
  match skipWsAt cls s b with
  | .ok w _ _ =>
    match decodeAt s w with
    | none => .err "Char" w (s.length - w)
    | some c =>
      if !(isCh c 0x27 || isCh c 0x22) then .err "Char" w (s.length - w)
      else
        match litLoop s w c.1 (litTriple s w c.1) (s.length + 1) (w + (if litTriple s w c.1 then 3 else 1)) with
        | .ok le _ _ => litSuffix cls s w le
        | r => r
  | r => r

/-! ### entry points (the scanner is called on the whole of `s`) -/

def skipWs (cls : CharClass) (s : Bytes) : Res := skipWsAt cls s 0
def scanVar (cls : CharClass) (s : Bytes) : Res := varAt cls s 0
def scanIri (cls : CharClass) (s : Bytes) : Res := iriAt cls s 0
def scanBnode (cls : CharClass) (s : Bytes) : Res := bnodeAt cls s 0
def scanPname (cls : CharClass) (s : Bytes) : Res := pnameAt cls s 0
def scanNum (cls : CharClass) (s : Bytes) : Res := numAt cls s 0
def scanLit (cls : CharClass) (s : Bytes) : Res := litAt cls s 0

end Kolibrie.Scan
