import Kolibrie.Extracted
/-!
# Model of `CSPARQLWindow` (`kolibrie/src/rsp/s2r.rs`) — transcription of the code that exists

* `Win`    = one entry of `active_windows : HashMap<Window, ContentContainer<I>>` (key `(open, close)`, the content
             is the *set* of items: `ContentContainer.elements` is a map keyed by item, so re-adding an item does
             not duplicate it).
* `scope`  = `CSPARQLWindow::scope` (`t_0 = 0`).  The Rust code computes in `f64`:
             `c_sup = ceil(|t - t_0| / slide) * slide`, `o_i = c_sup - width` (possibly negative), and in a
             `loop { … }` (do-while) creates `Window { open: o_i as usize, close: (o_i + width) as usize }` if absent,
             then `o_i += slide; if o_i > t { break }`.  `as usize` saturates negative floats to 0.  Here the loop
             variable is the *close* `c = o_i + width` (a natural number), `open = c - width` is truncated
             subtraction (= the saturating cast), and `o_i > t` is `c > t + width`.  (Exact for values < 2^53.)
* `report` = `Report::report` (all strategies must agree; `OnContentChange` is not modelled).
* `addToWindow` = `CSPARQLWindow::add_to_window`: scope; `test` = windows (after scope) that contain the event
             time, each with the item added, the others are evicted; the reported window is chosen among
             `self.active_windows` *after scope but before the item is added* (`max_by` close among those the report
             strategies accept); it fires only under `Tick::TimeDriven` and `ts > app_time`, which then sets
             `app_time = ts`; finally `active_windows = test`.

The three comparison guards and the `max_by` direction are *not written here*: they are the definitions
`memberGuard`, `reportGuard`, `fireGuard`, `pickLatest` regenerated from `s2r.rs` by `tools/extract.py`.
-/
namespace Kolibrie.Window
open Kolibrie.Extracted

structure Win where
  wopen : Nat
  close : Nat
  content : List Nat
deriving Repr, DecidableEq

inductive Strategy
  | nonEmptyContent
  | onWindowClose
  | periodic (p : Nat)
deriving Repr, DecidableEq

inductive Tick
  | timeDriven
  | tupleDriven
  | batchDriven
deriving Repr, DecidableEq

structure Cfg where
  width : Nat
  slide : Nat
  strategies : List Strategy
  tick : Tick
deriving Repr

structure State where
  active : List Win
  appTime : Nat
deriving Repr

def init : State := ⟨[], 0⟩

/-- `ContentContainer::add`: the elements are keyed by item -/
def insertItem (l : List Nat) (x : Nat) : List Nat := if x ∈ l then l else l ++ [x]

def hasKey (ws : List Win) (o c : Nat) : Bool := ws.any (fun w => w.wopen == o && w.close == c)

/-- `if let None = self.active_windows.get(&window) { insert(window, ContentContainer::new()) }` -/
def ensure (o c : Nat) (ws : List Win) : List Win :=
  if hasKey ws o c then ws else ws ++ [⟨o, c, []⟩]

/-- `c_sup`: `ceil(t / slide) * slide` -/
def cSup (slide t : Nat) : Nat := ((t + slide - 1) / slide) * slide

/-- the `loop` of `scope`, on the close `c` of the window to create; `fuel` bounds the iterations -/
def scopeLoop (width slide t : Nat) : Nat → Nat → List Win → List Win
  | 0, _, ws => ws
  | fuel + 1, c, ws =>
    let ws' := ensure (c - width) c ws
    let c' := c + slide
    if c' > t + width then ws' else scopeLoop width slide t fuel c' ws'

/-- `CSPARQLWindow::scope`; at most `width / slide + 1 ≤ width + 1` iterations happen when `slide ≥ 1` -/
def scope (width slide t : Nat) (ws : List Win) : List Win :=
  scopeLoop width slide t (width + 1) (cSup slide t) ws

/-- `Report::report`: `self.strategies.iter().all(…)` -/
def report (strats : List Strategy) (w : Win) (ts : Nat) : Bool :=
  strats.all fun s => match s with
    | .nonEmptyContent => decide (w.content.length > 0)
    | .onWindowClose => reportGuard w.wopen w.close ts
    | .periodic p => ts % p == 0

/-- `Iterator::max_by` (the last of several maxima wins) / `min_by` (the first of several minima wins) on `close` -/
def pick : List Win → Option Win
  | [] => none
  | w :: rest =>
    match pick rest with
    | none => some w
    | some m =>
      if pickLatest then (if w.close > m.close then some w else some m)
      else (if w.close ≤ m.close then some w else some m)

/-- the filter_map closure: keep the windows containing the event time, with the item added -/
def assign (x t : Nat) (ws : List Win) : List Win :=
  ws.filterMap fun w =>
    if memberGuard w.wopen w.close t then some { w with content := insertItem w.content x } else none

/-- `add_to_window(event_item = x, ts = t)` → new state and, if the callback is invoked, `(close, content)` of
the window handed to it (the implementation hands over the content only; `close` is kept for the theorems) -/
def addToWindow (cfg : Cfg) (st : State) (x t : Nat) : State × Option (Nat × List Nat) :=
  let pre := scope cfg.width cfg.slide t st.active
  let post := assign x t pre
  match pick (pre.filter fun w => report cfg.strategies w t) with
  | some mw =>
    match cfg.tick with
    | .timeDriven =>
      if fireGuard t st.appTime then (⟨post, t⟩, some (mw.close, mw.content))
      else (⟨post, st.appTime⟩, none)
    | _ => (⟨post, st.appTime⟩, none)
  | none => (⟨post, st.appTime⟩, none)

/-- one invocation of the consumer callback -/
structure Firing where
  idx : Nat          -- position of the triggering item in the stream
  trigger : Nat      -- its timestamp
  close : Nat        -- close of the reported window (not observable through the API)
  content : List Nat -- items handed to the consumer
deriving Repr, DecidableEq

/-- feed `rest` (pairs `(item, timestamp)`) starting at stream position `i` -/
def runFrom (cfg : Cfg) : State → Nat → List (Nat × Nat) → List Firing
  | _, _, [] => []
  | st, i, (x, t) :: rest =>
    match addToWindow cfg st x t with
    | (st', some (c, content)) => ⟨i, t, c, content⟩ :: runFrom cfg st' (i + 1) rest
    | (st', none) => runFrom cfg st' (i + 1) rest

def run (cfg : Cfg) (stream : List (Nat × Nat)) : List Firing := runFrom cfg init 0 stream

/-- the state after a prefix (for the invariant) -/
def stateAfter (cfg : Cfg) (st : State) : List (Nat × Nat) → State
  | [] => st
  | (x, t) :: rest => stateAfter cfg (addToWindow cfg st x t).1 rest

/-- the combination the property speaks about: report on window close, time-driven tick -/
def stdCfg (width slide : Nat) : Cfg := ⟨width, slide, [.onWindowClose], .timeDriven⟩

end Kolibrie.Window
