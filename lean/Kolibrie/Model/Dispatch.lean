import Kolibrie.Model.Utf8
/-
Model of the string entry points (`kolibrie/src/execute_query.rs`, `sparql_database.rs`, `error_handler.rs`).
Import-free (only `Model/Utf8`).

Transcribed:
* `parse_request(input, allow_data_aliases)`  — which of the two parser configurations is consulted;
* `execute_sparql_query`      (query-only entry; `handle_http_sparql_query` wraps it 1:1);
* `execute_update_request`    (`execute_sparql_update` = flag false, `execute_sparql_update_compat` = flag true);
* `SparqlDatabase::handle_update` (strict attempt, then the legacy-alias attempt);
* `prepare_extensions`        (prefix merge, MODEL / NEURAL RELATION / TRAIN registration, training);
* `execute_select`            (neural-relation materialisation for the predicates of the query, then evaluation);
* `format_parse_error`        (offset, the two char-boundary loops, span, line/column) — as repaired by
                              `fixes/C17_error_span_char_boundary.patch`.

Not modelled (oracles): the parser itself (`Req.strict`, `Req.alias` are what `parse_combined_query_with_options`
returns for the two flag values), the evaluation engine, ML training and materialisation (`Engine`).
-/
namespace Kolibrie.Dispatch
open Kolibrie.Utf8

inductive Entry | query | httpQuery | update | httpUpdate
  deriving DecidableEq, Repr

/-- result kind of `parse_combined_query_with_options` followed by the `remaining.trim().is_empty()` test -/
inductive Parsed | select | update | ext | err | trailing
  deriving DecidableEq, Repr

inductive Outcome
  | parseError    -- `Err(format_parse_error ..)` / "unexpected trailing SPARQL input"
  | refused       -- "expected a SPARQL query, found an Update operation"
  | notUpdate     -- "expected a SPARQL Update operation[, found SELECT]"
  | select        -- `execute_select` ran (rows or an evaluation error)
  | update        -- `execute_update_operation` ran
  | updateAlias   -- `handle_update`: second attempt with legacy aliases succeeded
  | extOk         -- extension-only request, `Ok(vec![])`
  | extError      -- extension-only request whose TRAIN step failed
  | failed        -- `handle_update`: "Update Failed"
  deriving DecidableEq, Repr

abbrev Quad := Nat × Nat × Nat × Nat

/-- stored quads and graph catalog: what the property says a query entry cannot change -/
structure Dataset where
  quads : List Quad
  graphs : List Nat
  deriving DecidableEq, Repr

structure Db where
  data : Dataset
  prefixes : List (String × String)
  relations : List String   -- predicates with a registered NEURAL RELATION
  trained : List String     -- ... whose MODEL has a trained artifact
  deriving Repr

/-- everything the entry points look at in a request -/
structure Req where
  strict : Parsed                     -- `parse_combined_query(input)`
  alias : Parsed                      -- `parse_combined_query_with_options(input, true)`
  prefixes : List (String × String)   -- PREFIX declarations
  decls : List String                 -- NEURAL RELATION declarations (resolved predicate)
  trains : List String                -- TRAIN NEURAL RELATION declarations
  preds : List String                 -- resolved predicates of the triple patterns (`collect_triple_patterns`)

/-- the un-modelled components -/
structure Engine where
  evalOk : Dataset → Bool                     -- evaluation is a function of the dataset only
  materialize : Dataset → String → Dataset    -- `materialize_neural_relation` (remove old, add predicted triples)
  applyUpdate : Dataset → Option Dataset      -- `execute_update_operation`; `none` = evaluation error
  trainOk : String → Bool

def parseRequest (aliasFlag : Bool) (r : Req) : Parsed := if aliasFlag then r.alias else r.strict

def insertNew (l : List String) (x : String) : List String := if x ∈ l then l else x :: l

/-- the TRAIN loop of `prepare_extensions`: declarations run in order; the first failure aborts with an error -/
def trainAll (eng : Engine) (d : Db) : List String → Db × Bool
  | [] => (d, true)
  | p :: ps =>
    if p ∈ d.relations then
      if eng.trainOk p then trainAll eng { d with trained := insertNew d.trained p } ps else (d, false)
    else trainAll eng d ps

/-- `prepare_extensions`: never touches `data` -/
def prepareExtensions (eng : Engine) (d : Db) (r : Req) : Db × Bool :=
  trainAll eng { d with prefixes := d.prefixes ++ r.prefixes, relations := r.decls.foldl insertNew d.relations } r.trains

/-- `materialize_neural_relations_for_patterns`: stops at the first relation without artifact -/
def materializeAll (eng : Engine) (d : Db) : List String → Db × Bool
  | [] => (d, true)
  | p :: ps =>
    if p ∈ d.relations then
      if p ∈ d.trained then materializeAll eng { d with data := eng.materialize d.data p } ps
      else (d, false)
    else materializeAll eng d ps

/-- `execute_select`: materialisation, then evaluation (a pure function of the dataset) -/
def executeSelect (eng : Engine) (d : Db) (r : Req) : Db :=
  (materializeAll eng d r.preds).1

/-- `execute_sparql_query` -/
def queryEntry (eng : Engine) (d : Db) (r : Req) : Db × Outcome :=
  match parseRequest false r with
  | .err | .trailing => (d, .parseError)
  | .update => (d, .refused)
  | .select =>
    let (d1, ok) := prepareExtensions eng d r
    if ok then (executeSelect eng d1 r, .select) else (d1, .select)
  | .ext =>
    let (d1, ok) := prepareExtensions eng d r
    (d1, if ok then .extOk else .extError)

/-- `execute_update_request(sparql, db, allow_data_aliases)`; `none` in the third component = an `Err` -/
def updateRequest (eng : Engine) (aliasFlag : Bool) (d : Db) (r : Req) : Db × Outcome × Bool :=
  match parseRequest aliasFlag r with
  | .err | .trailing => (d, .parseError, false)
  | p =>
    let (d1, ok) := prepareExtensions eng d r
    if !ok then (d1, .update, false) else
    match p with
    | .update =>
      let d2 := (materializeAll eng d1 r.preds)
      if !d2.2 then (d2.1, .update, false) else
      match eng.applyUpdate d2.1.data with
      | some data' => ({ d2.1 with data := data' }, .update, true)
      | none => (d2.1, .update, false)
    | _ => (d1, .notUpdate, false)

/-- `SparqlDatabase::handle_update` -/
def handleUpdate (eng : Engine) (d : Db) (r : Req) : Db × Outcome :=
  let (d1, _, ok1) := updateRequest eng false d r
  if ok1 then (d1, .update) else
  let (d2, _, ok2) := updateRequest eng true d1 r
  if ok2 then (d2, .updateAlias) else (d2, .failed)

def runEntry (eng : Engine) (e : Entry) (d : Db) (r : Req) : Db × Outcome :=
  match e with
  | .query | .httpQuery => queryEntry eng d r
  | .update => let (d1, o, _) := updateRequest eng false d r; (d1, o)
  | .httpUpdate => handleUpdate eng d r

/-- the decision part alone (which path is taken), as a function of the two parser results;
    evaluation, training and update execution are assumed to succeed -/
def dispatch (e : Entry) (strict alias : Parsed) : Outcome :=
  match e with
  | .query | .httpQuery =>
    (match strict with
     | .err | .trailing => .parseError | .update => .refused | .select => .select | .ext => .extOk)
  | .update =>
    (match strict with
     | .err | .trailing => .parseError | .update => .update | .select | .ext => .notUpdate)
  | .httpUpdate =>
    (match strict with
     | .update => .update
     | _ => match alias with | .update => .updateAlias | _ => .failed)

/-! ## `format_parse_error` index arithmetic (repaired version) -/

/-- `offset`, snapped down to a char boundary; `elen` = byte length of the error's remaining input -/
def errorOffset (s : Bytes) (elen : Nat) : Nat := floorB s (s.length - elen)

/-- the annotated span `offset .. span_end` -/
def errorSpan (s : Bytes) (elen : Nat) : Nat × Nat :=
  let a := errorOffset s elen
  let e0 := min (a + 1) s.length
  (a, ceilB s e0 (s.length - e0))

/-- the span of the code before the repair: `offset .. min (offset+1) len` -/
def errorSpanUnfixed (s : Bytes) (elen : Nat) : Nat × Nat :=
  let a := s.length - elen
  (a, min (a + 1) s.length)

/-- line and column of the `char_indices` loop: characters (= non-continuation bytes) before `offset` -/
def lineCol (s : Bytes) (offset : Nat) : Nat × Nat :=
  (s.take offset).foldl (fun (lc : Nat × Nat) b =>
    if b == 10 then (lc.1 + 1, 1) else if isCont b then lc else (lc.1, lc.2 + 1)) (1, 1)

end Kolibrie.Dispatch
