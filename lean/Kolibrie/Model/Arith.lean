/-! Token-level model of the FILTER arithmetic parser of `kolibrie/src/parser.rs`
    (`sparql_filter_operand`, `sparql_filter_product`, `sparql_filter_arithmetic`): two precedence levels, each a
    loop-and-fold, i.e. chains group to the LEFT; parentheses restart at the lowest level. Operands are opaque tokens. -/
namespace Kolibrie.Arith

inductive AExpr where
  | opnd (tok : String)
  | add (l r : AExpr)
  | sub (l r : AExpr)
  | mul (l r : AExpr)
  | div (l r : AExpr)
deriving DecidableEq, Repr, Inhabited

inductive Tok where
  | atom (s : String)
  | op (c : Char)        -- one of + - * /
  | lp
  | rp
deriving DecidableEq, Repr

/-- precedence level of the top operator: 0 = additive, 1 = multiplicative, 2 = operand -/
def AExpr.level : AExpr → Nat
  | .opnd _ => 2
  | .add _ _ | .sub _ _ => 0
  | .mul _ _ | .div _ _ => 1

/-- parenthesise a printed sub-expression of level `lvl` where the grammar needs it (`lvl < need`) or, with `extra`,
    around every binary sub-expression -/
def wrap (extra : Bool) (need lvl : Nat) (body : List Tok) : List Tok :=
  if lvl < need || (extra && lvl < 2) then Tok.lp :: body ++ [Tok.rp] else body

/-- minimal-parentheses printer for the left-associative grammar (`extra`: redundant pairs as well) -/
def printTop (extra : Bool) : AExpr → List Tok
  | .opnd s => [Tok.atom s]
  | .add l r => wrap extra 0 l.level (printTop extra l) ++ Tok.op '+' :: wrap extra 1 r.level (printTop extra r)
  | .sub l r => wrap extra 0 l.level (printTop extra l) ++ Tok.op '-' :: wrap extra 1 r.level (printTop extra r)
  | .mul l r => wrap extra 1 l.level (printTop extra l) ++ Tok.op '*' :: wrap extra 2 r.level (printTop extra r)
  | .div l r => wrap extra 1 l.level (printTop extra l) ++ Tok.op '/' :: wrap extra 2 r.level (printTop extra r)

def printA (extra : Bool) (e : AExpr) : List Tok := printTop extra e

mutual
/-- `sparql_filter_operand` -/
def parseOperand : Nat → List Tok → Option (AExpr × List Tok)
  | 0, _ => none
  | fuel + 1, Tok.lp :: rest =>
      match parseSum fuel rest with
      | some (e, Tok.rp :: rest') => some (e, rest')
      | _ => none
  | _ + 1, Tok.atom s :: rest => some (.opnd s, rest)
  | _ + 1, _ => none
/-- the loop of `sparql_filter_product`: fold `* /` operands to the left -/
def productLoop : Nat → AExpr → List Tok → Option (AExpr × List Tok)
  | 0, _, _ => none
  | fuel + 1, acc, Tok.op c :: rest =>
      if c = '*' ∨ c = '/' then
        match parseOperand fuel rest with
        | some (r, rest') => productLoop fuel (if c = '*' then .mul acc r else .div acc r) rest'
        | none => none
      else some (acc, Tok.op c :: rest)
  | _ + 1, acc, rest => some (acc, rest)
def parseProduct : Nat → List Tok → Option (AExpr × List Tok)
  | 0, _ => none
  | fuel + 1, ts =>
      match parseOperand fuel ts with
      | some (e, rest) => productLoop fuel e rest
      | none => none
/-- the loop of `sparql_filter_arithmetic`: fold `+ -` products to the left -/
def sumLoop : Nat → AExpr → List Tok → Option (AExpr × List Tok)
  | 0, _, _ => none
  | fuel + 1, acc, Tok.op c :: rest =>
      if c = '+' ∨ c = '-' then
        match parseProduct fuel rest with
        | some (r, rest') => sumLoop fuel (if c = '+' then .add acc r else .sub acc r) rest'
        | none => none
      else some (acc, Tok.op c :: rest)
  | _ + 1, acc, rest => some (acc, rest)
def parseSum : Nat → List Tok → Option (AExpr × List Tok)
  | 0, _ => none
  | fuel + 1, ts =>
      match parseProduct fuel ts with
      | some (e, rest) => sumLoop fuel e rest
      | none => none
end

/-- the whole token list must be consumed (the fuel is generous: `Lemmas/Arith.lean` shows `7 * nodes + 2` suffices) -/
def parseA (ts : List Tok) : Option AExpr :=
  match parseSum (8 * ts.length + 8) ts with
  | some (e, []) => some e
  | _ => none

/-- value of an expression under a valuation of the operands (integers suffice to tell groupings apart) -/
def eval (v : String → Int) : AExpr → Int
  | .opnd s => v s
  | .add l r => eval v l + eval v r
  | .sub l r => eval v l - eval v r
  | .mul l r => eval v l * eval v r
  | .div l r => eval v l / eval v r

end Kolibrie.Arith
