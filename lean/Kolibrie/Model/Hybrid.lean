/-
Model of `shared/src/hybrid.rs` (C08): the hash-consed lineage store (`LineageStore::{literal, not, and, or,
canonical_nary, metadata}`), the best-first proof enumeration (`enumerate_proofs`), the interval computation
(`interval_from_enumeration`), the certified lower bound (`retained_proof_wmc`), the fixed-k evaluator
(`evaluate_topk`) and the escalation controller (`evaluate_hybrid_controlled`, reached through
`evaluate_hybrid_with_clock`), parameterised by

* a clock `Nat → Nat` — the value (µs) returned by the i-th call of `HybridClock::now` — and
* an SDD oracle saying, per SDD invocation, how many deadline checkpoints it performs and whether it stays
  inside the node budget (the SDD library itself is the subject of C07; here it is a black box that, when it
  completes, returns the exact weighted model count).

Numbers: every probability is `num/den`.  All probabilities the code computes are represented by their
*mass* `p · total` where `total = ∏ den` over the independent seeds and the exclusive groups of the
snapshot, so the model needs natural numbers only.  Thresholds are numerators over the common denominator
`cd` of the configuration.

Import-free.
-/
namespace Kolibrie.Hybrid

/-! ## lineage formulas -/

/-- tree view of a lineage DAG node (sharing is irrelevant for everything modelled here) -/
inductive L where
  | fls | tru
  | lit (s : Nat)
  | and (cs : List L)
  | or (cs : List L)
  | not (c : L)
  deriving Repr, Inhabited

mutual
/-- truth of a formula in the world whose true seeds are `w` -/
def sem (w : List Nat) : L → Bool
  | .fls => false
  | .tru => true
  | .lit s => w.contains s
  | .and cs => semAll w cs
  | .or cs => semAny w cs
  | .not c => !sem w c
def semAll (w : List Nat) : List L → Bool
  | [] => true
  | c :: cs => sem w c && semAll w cs
def semAny (w : List Nat) : List L → Bool
  | [] => false
  | c :: cs => sem w c || semAny w cs
end

mutual
/-- seed `x` occurs in the formula -/
def mentions (x : Nat) : L → Bool
  | .fls => false
  | .tru => false
  | .lit s => s == x
  | .and cs => mentionsAny x cs
  | .or cs => mentionsAny x cs
  | .not c => mentions x c
def mentionsAny (x : Nat) : List L → Bool
  | [] => false
  | c :: cs => mentions x c || mentionsAny x cs
end

mutual
/-- `metadata.has_negation` -/
def hasNeg : L → Bool
  | .fls => false
  | .tru => false
  | .lit _ => false
  | .and cs => hasNegAny cs
  | .or cs => hasNegAny cs
  | .not _ => true
def hasNegAny : List L → Bool
  | [] => false
  | c :: cs => hasNeg c || hasNegAny cs
end

mutual
/-- all literals of the formula satisfy `p` (used for `has_exclusive_group` and missing seeds) -/
def allLits (p : Nat → Bool) : L → Bool
  | .fls => true
  | .tru => true
  | .lit s => p s
  | .and cs => allLitsL p cs
  | .or cs => allLitsL p cs
  | .not c => allLits p c
def allLitsL (p : Nat → Bool) : List L → Bool
  | [] => true
  | c :: cs => allLits p c && allLitsL p cs
end

/-! ## seeds -/

structure Seed where
  id : Nat
  num : Nat
  den : Nat
  grp : Option Nat
  deriving Repr, DecidableEq, Inhabited

def lookup (ss : List Seed) (id : Nat) : Option Seed := ss.find? (fun s => s.id == id)

def isExclusive (ss : List Seed) (id : Nat) : Bool :=
  match lookup ss id with
  | some s => s.grp.isSome
  | none => false

/-- a unit of independence: one independent seed or one exclusive group -/
inductive U where
  | ind (s : Seed)
  | grp (ms : List Seed)
  deriving Repr

def insDedup (x : Nat) (l : List Nat) : List Nat := if l.contains x then l else l ++ [x]

def groupIds (ss : List Seed) : List Nat :=
  (ss.filterMap (·.grp)).foldl (fun acc g => insDedup g acc) []

def units (ss : List Seed) : List U :=
  (ss.filter (fun s => s.grp.isNone)).map U.ind ++
  (groupIds ss).map (fun g => U.grp (ss.filter (fun s => s.grp == some g)))

def sumNum : List Seed → Nat
  | [] => 0
  | m :: ms => m.num + sumNum ms

def U.den : U → Nat
  | .ind s => s.den
  | .grp ms => sumNum ms

/-- the common scale of all masses -/
def total : List U → Nat
  | [] => 1
  | u :: us => u.den * total us

def U.ids : U → List Nat
  | .ind s => [s.id]
  | .grp ms => ms.map (·.id)

def unitIds (us : List U) : List Nat := us.flatMap U.ids

/-- the snapshot is a well-formed family of distributions: distinct ids, `num ≤ den` for independent seeds, and
    every member of an exclusive group carries the group's total as denominator (the group sums to 1) -/
def seedsOk (ss : List Seed) : Bool :=
  decide (unitIds (units ss)).Nodup &&
  ss.all (fun s => match s.grp with
    | none => decide (s.num ≤ s.den)
    | some g => s.den == sumNum (ss.filter (fun m => m.grp == some g)))

/-! ## exact weighted model count (what a completed SDD compilation returns, scaled by `total`) -/

def sumOver (ms : List Seed) (f : Seed → Nat) : Nat :=
  match ms with
  | [] => 0
  | m :: ms => f m + sumOver ms f

/-- `∑_{worlds w ⊇ acc-choices} weight w · [φ true in w]`, branching only on seeds the formula mentions -/
def massU : List U → List Nat → L → Nat
  | [], w, φ => if sem w φ then 1 else 0
  | .ind s :: us, w, φ =>
      if mentions s.id φ then s.num * massU us (s.id :: w) φ + (s.den - s.num) * massU us w φ
      else s.den * massU us w φ
  | .grp ms :: us, w, φ =>
      if ms.any (fun m => mentions m.id φ) then sumOver ms (fun m => m.num * massU us (m.id :: w) φ)
      else sumNum ms * massU us w φ

def mass (ss : List Seed) (φ : L) : Nat := massU (units ss) [] φ

/-! ## the lineage store -/

inductive Node where
  | fls | tru
  | lit (s : Nat)
  | and (cs : List Nat)
  | or (cs : List Nat)
  | not (c : Nat)
  deriving Repr, DecidableEq, Inhabited

/-- `nodes[i]` is the node with `LineageId(i)`; `trees[i]` its tree view (kept alongside so that no recursion
    through the arena is needed) -/
structure Store where
  nodes : List Node
  trees : List L
  deriving Repr

def Store.new : Store := { nodes := [.fls, .tru], trees := [.fls, .tru] }

def Store.node (st : Store) (id : Nat) : Node := st.nodes.getD id .fls
def Store.tree (st : Store) (id : Nat) : L := st.trees.getD id .fls

def findIdx (n : Node) : List Node → Nat → Option Nat
  | [], _ => none
  | m :: ms, i => if m = n then some i else findIdx n ms (i + 1)

/-- `self.unique.get(node)` -/
def Store.find (st : Store) (n : Node) : Option Nat := findIdx n st.nodes 0

def Store.treeOfNode (st : Store) : Node → L
  | .fls => .fls
  | .tru => .tru
  | .lit s => .lit s
  | .and cs => .and (cs.map st.tree)
  | .or cs => .or (cs.map st.tree)
  | .not c => .not (st.tree c)

def Store.intern (st : Store) (n : Node) : Store × Nat :=
  match st.find n with
  | some i => (st, i)
  | none => ({ nodes := st.nodes ++ [n], trees := st.trees ++ [st.treeOfNode n] }, st.nodes.length)

def Store.literal (st : Store) (s : Nat) : Store × Nat := st.intern (.lit s)

def Store.not (st : Store) (id : Nat) : Store × Nat :=
  match st.node id with
  | .fls => (st, 1)
  | .tru => (st, 0)
  | .not inner => (st, inner)
  | _ => st.intern (.not id)

/-- the first loop of `canonical_nary`: `none` = an annihilator was met -/
def flatten (st : Store) (isAnd : Bool) (identity annihilator : Nat) : List Nat → List Nat → Option (List Nat)
  | [], acc => some acc
  | item :: rest, acc =>
      if item = annihilator then none
      else if item = identity then flatten st isAnd identity annihilator rest acc
      else match isAnd, st.node item with
        | true, .and cs => flatten st isAnd identity annihilator rest (acc ++ cs)
        | false, .or cs => flatten st isAnd identity annihilator rest (acc ++ cs)
        | _, _ => flatten st isAnd identity annihilator rest (acc ++ [item])

def insSorted (x : Nat) : List Nat → List Nat
  | [] => [x]
  | a :: l => if x < a then x :: a :: l else if x = a then a :: l else a :: insSorted x l

/-- `sort_unstable(); dedup()` -/
def sortDedup (l : List Nat) : List Nat := l.foldl (fun acc x => insSorted x acc) []

/-- the complement scan of `canonical_nary` -/
def hasComplement (st : Store) (flat : List Nat) : Bool :=
  flat.any fun item =>
    match st.node item with
    | .not inner => flat.contains inner
    | _ => match st.find (.not item) with
      | some negated => flat.contains negated
      | none => false

def Store.canonicalNary (st : Store) (isAnd : Bool) (items : List Nat) : Store × Nat :=
  let identity := if isAnd then 1 else 0
  let annihilator := if isAnd then 0 else 1
  match flatten st isAnd identity annihilator items [] with
  | none => (st, annihilator)
  | some flattened =>
    let flat := sortDedup flattened
    if hasComplement st flat then (st, annihilator)
    else match flat with
      | [] => (st, identity)
      | [only] => (st, only)
      | _ => st.intern (if isAnd then .and flat else .or flat)

def Store.and (st : Store) (items : List Nat) := st.canonicalNary true items
def Store.or (st : Store) (items : List Nat) := st.canonicalNary false items

structure Metadata where
  monotone : Bool
  hasNegation : Bool
  hasExclusive : Bool
  deriving Repr, DecidableEq

/-- `LineageStore::metadata` (the arena built through the public API is acyclic: `has_cycle = false`) -/
def metadata (ss : List Seed) (root : L) : Metadata :=
  { monotone := !hasNeg root, hasNegation := hasNeg root,
    hasExclusive := !allLits (fun s => !isExclusive ss s) root }

/-! ## proofs -/

abbrev Proof := List Nat

def subset (a b : Proof) : Bool := a.all (fun x => b.contains x)

/-- conjunction of the seeds of a proof / disjunction of proofs as formulas -/
def conj (p : Proof) : L := .and (p.map .lit)
def dnf (ps : List Proof) : L := .or (ps.map conj)

/-- `proof_probability · total`: product of the probabilities of the proof's seeds (`none`: a seed is missing).
    Exclusive members never reach this function through the public entry points (both guard on
    `has_exclusive_group`); for them the factor of the first member found is used. -/
def unitFactor (p : Proof) : U → Nat
  | .ind s => if p.contains s.id then s.num else s.den
  | .grp ms => match ms.find? (fun m => p.contains m.id) with
    | some m => m.num
    | none => sumNum ms

def prodFactors (p : Proof) : List U → Nat
  | [] => 1
  | u :: us => unitFactor p u * prodFactors p us

def proofMass (ss : List Seed) (p : Proof) : Option Nat :=
  if p.all (fun x => (lookup ss x).isSome) then some (prodFactors p (units ss)) else none

/-! ## results -/

inductive Decision where
  | Alert | NoAlert | Indeterminate
  deriving Repr, DecidableEq

inductive Reason where
  | TopKExhausted | LowerBoundCrossedThreshold | UpperBoundBelowThreshold | ExactSdd
  | NegationRequiresExact | ExclusivityRequiresExact | NearThreshold | MarginalGain
  | TopKBudget | SddBudget | SddNodeBudget | MissingSeed | DiagnosticOnly
  deriving Repr, DecidableEq

inductive Residual where
  | Exhausted
  | Bounded (m : Nat)
  | Unknown
  deriving Repr, DecidableEq

structure PState where
  pending : List L
  proof : Proof
  ub : Nat
  seq : Nat
  deriving Repr

structure EState where
  frontier : List PState
  emitted : List Proof
  seq : Nat
  deriving Repr

/-- `Ord for ProofSearchState`: larger upper bound first, then the smaller sequence number -/
def better (a b : PState) : Bool := b.ub < a.ub || (a.ub == b.ub && a.seq < b.seq)

/-- `BinaryHeap::pop` (sequence numbers are unique, so the maximum is unique) -/
def popMax : List PState → Option (PState × List PState)
  | [] => none
  | a :: l =>
    match popMax l with
    | none => some (a, [])
    | some (b, rest) => if better a b then some (a, l) else some (b, a :: rest)

def sumUb : List PState → Nat
  | [] => 0
  | s :: l => s.ub + sumUb l

inductive EnumOut where
  | ok (proofs : List Proof) (residual : Residual)
  | err (r : Reason)
  | fuel
  deriving Repr

/-- what happens to a popped state whose next pending node is `f` -/
inductive Expand where
  | push (new : List PState) (seq : Nat)
  | err (r : Reason)

/-- one branch per child of an `Or` node, numbered consecutively -/
def orBranches (s : PState) (pend : List L) : List L → Nat → List PState × Nat
  | [], seq => ([], seq)
  | c :: cs, seq =>
    let (bs, q) := orBranches s pend cs (seq + 1)
    ({ s with pending := c :: pend, seq := seq + 1 } :: bs, q)

def expand (ss : List Seed) (s : PState) (f : L) (pend : List L) (seq : Nat) : Expand :=
  match f with
  | .fls => .push [] seq
  | .tru => .push [{ s with pending := pend, seq := seq + 1 }] (seq + 1)
  | .lit x =>
    let pr := insSorted x s.proof
    match proofMass ss pr with
    | none => .err .MissingSeed
    | some m => .push [{ pending := pend, proof := pr, ub := m, seq := seq + 1 }] (seq + 1)
  | .not _ => .err .NegationRequiresExact
  | .and cs => .push [{ s with pending := cs ++ pend, seq := seq + 1 }] (seq + 1)
  | .or cs => let (bs, q) := orBranches s pend cs seq; .push bs q

/-- a complete proof is dropped when an emitted proof is a subset of it; otherwise it evicts its supersets -/
def emit (emitted : List Proof) (p : Proof) : Option (List Proof) :=
  if emitted.any (fun e => subset e p) then none
  else some (emitted.filter (fun e => !subset p e) ++ [p])

/-- the `while let Some(state) = frontier.pop()` loop; `i` is the index of the next clock reading -/
def enumLoop (ss : List Seed) (cap : Nat) (clock : Nat → Nat) (deadline : Nat) :
    Nat → EState → Nat → EnumOut × Nat
  | 0, _, i => (.fuel, i)
  | fuel + 1, st, i =>
    match popMax st.frontier with
    | none => (.ok st.emitted .Exhausted, i)
    | some (s, rest) =>
      if deadline ≤ clock i then (.ok st.emitted .Unknown, i + 1)
      else
        match s.pending with
        | [] =>
          match emit st.emitted s.proof with
          | none => enumLoop ss cap clock deadline fuel { st with frontier := rest } (i + 1)
          | some em =>
            if em.length = cap then
              (.ok em (.Bounded (min (sumUb rest) (total (units ss)))), i + 1)
            else enumLoop ss cap clock deadline fuel { st with frontier := rest, emitted := em } (i + 1)
        | f :: pend =>
          match expand ss s f pend st.seq with
          | .err r => (.err r, i + 1)
          | .push new q =>
            enumLoop ss cap clock deadline fuel { frontier := new ++ rest, emitted := st.emitted, seq := q } (i + 1)

def enumerateProofs (ss : List Seed) (root : L) (cap : Nat) (clock : Nat → Nat) (deadline : Nat)
    (fuel : Nat) (i : Nat) : EnumOut × Nat :=
  if cap = 0 then (.ok [] (.Bounded (total (units ss))), i)
  else enumLoop ss cap clock deadline fuel
    { frontier := [{ pending := [root], proof := [], ub := total (units ss), seq := 0 }], emitted := [], seq := 0 } i

/-- `interval_from_enumeration`: `none` = no interval (`Ok(None)` or an error, which every caller treats alike
    except `evaluate_topk`, see there) -/
def probeMass (ss : List Seed) : List Proof → Option Nat
  | [] => some 0
  | p :: ps => match proofMass ss p, probeMass ss ps with
    | some a, some b => some (a + b)
    | _, _ => none

inductive IntervalOut where
  | interval (lo hi : Nat)
  | noInterval
  | err (r : Reason)
  deriving Repr, DecidableEq

def intervalFromEnumeration (ss : List Seed) (lower : Nat) (proofs : List Proof) (retained : Nat)
    (residual : Residual) : IntervalOut :=
  let T := total (units ss)
  let frontier : Option Nat := match residual with
    | .Exhausted => some 0
    | .Bounded m => some m
    | .Unknown => none
  match frontier with
  | none => .noInterval
  | some fm =>
    match probeMass ss (proofs.drop retained) with
    | none => .err .MissingSeed
    | some pm =>
      let upper := max lower (min (lower + pm + fm) T)
      if lower ≤ upper ∧ upper ≤ T then .interval lower upper else .err .DiagnosticOnly

/-! ## clock and SDD oracle -/

/-- one SDD invocation as seen from outside: it performs `readings` deadline checkpoints (if none of them
    fails) and then either completes or reports `NodeBudgetExceeded`; `exact = false` marks a count the
    caller of the model does not know exactly (only used to annotate the reading log) -/
structure SddRun where
  readings : Nat
  nodesOk : Bool
  exact : Bool := true
  deriving Repr

inductive SddJob where
  | retained (proofs : List Proof)
  | lineage (root : L)

abbrev SddOracle := SddJob → Nat → SddRun

inductive SddOutcome where
  | ok | deadline | nodes
  deriving Repr, DecidableEq

/-- reading counter plus the log of readings that belong to SDD invocations with an inexact count -/
structure Clk where
  i : Nat
  spans : List Nat := []
  deriving Repr

def firstExpired (clock : Nat → Nat) (deadline start : Nat) : Nat → Nat → Option Nat
  | 0, _ => none
  | n + 1, m => if deadline ≤ clock (start + m) then some m else firstExpired clock deadline start n (m + 1)

/-- run one SDD invocation against the clock: checkpoint `m` fails iff `clock (i+m) ≥ deadline` -/
def sddPhase (clock : Nat → Nat) (deadline : Nat) (run : SddRun) (c : Clk) : SddOutcome × Clk :=
  let log := if run.exact then c.spans else c.spans ++ [c.i]
  match firstExpired clock deadline c.i run.readings 0 with
  | some m => (.deadline, { i := c.i + m + 1, spans := log })
  | none => (if run.nodesOk then .ok else .nodes, { i := c.i + run.readings, spans := log })

/-! ## configuration -/

structure Config where
  tn : Nat          -- threshold        = tn / cd
  en : Nat          -- band_epsilon     = en / cd
  fn : Nat          -- marginal_gain_floor = fn / cd
  cd : Nat
  kInit : Nat
  kMax : Nat
  kGrowth : Nat
  b1 : Nat          -- topk_budget (µs)
  b2 : Nat          -- sdd_budget (µs)
  nodeBudget : Nat
  deriving Repr

/-- `HybridConfig::validate` -/
def Config.valid (c : Config) : Bool :=
  decide (c.tn ≤ c.cd) && decide (c.en ≤ c.cd) && decide (1 ≤ c.kInit) && decide (c.kInit ≤ c.kMax) &&
  decide (2 ≤ c.kGrowth) && decide (0 < c.b1) && decide (0 < c.b2) && decide (2 ≤ c.nodeBudget)

structure Metrics where
  kUsed : Nat := 0
  exactUsed : Bool := false
  frontierExhausted : Bool := false
  capHit : Bool := false
  gain : Nat := 0
  width : Nat := 0
  deriving Repr, DecidableEq

inductive Result where
  | Exact (p : Nat) (d : Decision) (r : Reason) (m : Metrics)
  | Bounded (lo hi : Nat) (d : Decision) (r : Reason) (m : Metrics)
  | NeedsExact (lo hi : Option Nat) (r : Reason) (m : Metrics)
  | Fuel
  deriving Repr, DecidableEq

/-- `mass/T ≥ tn/cd` -/
def geThr (c : Config) (T m : Nat) : Bool := decide (c.tn * T ≤ m * c.cd)
/-- `mass/T < tn/cd` -/
def ltThr (c : Config) (T m : Nat) : Bool := decide (m * c.cd < c.tn * T)

def decide' (c : Config) (T m : Nat) : Decision := if geThr c T m then .Alert else .NoAlert

/-- `retained_proof_wmc` -/
def retainedWmc (ss : List Seed) (proofs : List Proof) (clock : Nat → Nat) (deadline : Nat)
    (oracle : SddOracle) (nodeBudget : Nat) (c : Clk) : Option Nat × SddOutcome × Clk :=
  if proofs.all (fun p => p.all (fun x => (lookup ss x).isSome)) then
    let (o, c') := sddPhase clock deadline (oracle (.retained proofs) nodeBudget) c
    match o with
    | .ok => (some (mass ss (dnf proofs)), o, c')
    | _ => (none, o, c')
  else (none, .nodes, c)   -- `CompileFailure::MissingSeed`; callers only distinguish it in `evaluate_topk`

/-- outcome of one iteration of the controller's `loop` -/
inductive IterOut where
  | ret (r : Result)
  | brk
  | next

structure Ctl where
  lower : Option Nat := none
  last : Option (Nat × Nat) := none
  m : Metrics := {}
  clk : Clk
  deriving Repr

/-- second half of one iteration: metrics, interval and the three certified exits, then the escalation test -/
def decideIter (ss : List Seed) (cfg : Config) (clock : Nat → Nat) (deadline : Nat) (k : Nat)
    (proofs : List Proof) (residual : Residual) (rc wmc gain : Nat) (st : Ctl) (clk3 : Clk) : IterOut × Ctl :=
  let T := total (units ss)
  let fe := residual == .Exhausted && decide (proofs.length ≤ k)
  let m : Metrics := { st.m with kUsed := rc, frontierExhausted := fe,
                                  capHit := decide (k < proofs.length) || !fe, gain := gain }
  let st1 : Ctl := { st with lower := some wmc, m := m, clk := clk3 }
  match intervalFromEnumeration ss wmc proofs rc residual with
  | .interval lo hi =>
    let m := { m with width := hi - lo }
    let st2 : Ctl := { st1 with last := some (lo, hi), m := m }
    let rd : Ctl := { st2 with clk := { clk3 with i := clk3.i + 1 } }   -- the `topk_latency` reading
    if fe then (.ret (.Exact wmc (decide' cfg T wmc) .TopKExhausted m), rd)
    else if geThr cfg T wmc then (.ret (.Bounded lo hi .Alert .LowerBoundCrossedThreshold m), rd)
    else if ltThr cfg T hi then (.ret (.Bounded lo hi .NoAlert .UpperBoundBelowThreshold m), rd)
    else
      -- |threshold − wmc| ≤ band_epsilon ; marginal_gain ≥ marginal_gain_floor
      let near := decide (cfg.tn * T ≤ wmc * cfg.cd + cfg.en * T ∧ wmc * cfg.cd ≤ cfg.tn * T + cfg.en * T)
      let climbing := decide (cfg.fn * T ≤ gain * cfg.cd)
      if cfg.kMax ≤ k || (!near && !climbing) then (.brk, st2)
      else if deadline ≤ clock clk3.i then (.brk, rd)
      else (.next, rd)
  | _ => (.brk, st1)

/-- the marginal gain of the probe proof: a second exact count over `proofs[..=k]` (0 when it fails) -/
def probeGain (ss : List Seed) (cfg : Config) (clock : Nat → Nat) (oracle : SddOracle) (deadline : Nat) (k : Nat)
    (proofs : List Proof) (wmc : Nat) (clk2 : Clk) : Nat × Clk :=
  if k < proofs.length then
    match retainedWmc ss (proofs.take (k + 1)) clock deadline oracle cfg.nodeBudget clk2 with
    | (some wp, _, c3) => (wp - wmc, c3)
    | (none, _, c3) => (0, c3)
  else (0, clk2)

/-- body of the adaptive-k loop of `evaluate_hybrid_controlled` for the current `k` -/
def iteration (ss : List Seed) (cfg : Config) (root : L) (clock : Nat → Nat) (oracle : SddOracle) (fuel : Nat)
    (deadline : Nat) (k : Nat) (st : Ctl) : IterOut × Ctl :=
  let ei := enumerateProofs ss root (k + 1) clock deadline fuel st.clk.i
  let clk1 : Clk := { st.clk with i := ei.2 }
  match ei.1 with
  | .fuel => (.ret .Fuel, { st with clk := clk1 })
  | .err _ => (.brk, { st with clk := clk1 })
  | .ok proofs residual =>
    if residual = .Unknown then (.brk, { st with clk := clk1 })
    else
      let rc := min proofs.length k
      let rw := retainedWmc ss (proofs.take rc) clock deadline oracle cfg.nodeBudget clk1
      match rw.1 with
      | none => (.brk, { st with clk := rw.2.2 })
      | some wmc =>
        let gc := probeGain ss cfg clock oracle deadline k proofs wmc rw.2.2
        decideIter ss cfg clock deadline k proofs residual rc wmc gc.1 st gc.2

def topkLoop (ss : List Seed) (cfg : Config) (root : L) (clock : Nat → Nat) (oracle : SddOracle) (fuel : Nat)
    (deadline : Nat) : Nat → Nat → Ctl → Option Result × Ctl
  | 0, _, st => (some .Fuel, st)
  | n + 1, k, st =>
    match iteration ss cfg root clock oracle fuel deadline k st with
    | (.ret r, st') => (some r, st')
    | (.brk, st') => (none, st')
    | (.next, st') => topkLoop ss cfg root clock oracle fuel deadline n (min (k * cfg.kGrowth) cfg.kMax) st'

/-- `compile_lineage_to_sdd_with_clock` followed by `wmc`: the SDD stage of the controller -/
def sddStage (ss : List Seed) (cfg : Config) (root : L) (clock : Nat → Nat) (oracle : SddOracle) (c : Clk) :
    (Except Reason Nat) × Clk :=
  let deadline := clock c.i + cfg.b2
  let c1 : Clk := { c with i := c.i + 1 }
  if !allLits (fun s => (lookup ss s).isSome) root then (.error .MissingSeed, c1)
  else
    let (o, c2) := sddPhase clock deadline (oracle (.lineage root) cfg.nodeBudget) c1
    match o with
    | .ok => (.ok (mass ss root), c2)
    | .deadline => (.error .SddBudget, c2)
    | .nodes => (.error .SddNodeBudget, c2)

/-- `evaluate_hybrid_controlled`; returns the result, the number of clock readings made and the reading log -/
def evaluateHybrid (ss : List Seed) (cfg : Config) (root : L) (clock : Nat → Nat) (oracle : SddOracle)
    (fuel : Nat) : Result × Clk :=
  if !cfg.valid then (.NeedsExact none none .DiagnosticOnly {}, { i := 0 })
  else
    let T := total (units ss)
    let md := metadata ss root
    let topkStart := clock 0
    let deadline := topkStart + cfg.b1
    let st0 : Ctl := { clk := { i := 1 } }
    let (early, st) :=
      if md.monotone && !md.hasExclusive then
        topkLoop ss cfg root clock oracle fuel deadline (cfg.kMax + 1) cfg.kInit st0
      else (none, st0)
    match early with
    | some r => (r, st.clk)
    | none =>
      -- `topk_latency`, `sdd_start`
      let c := { st.clk with i := st.clk.i + 2 }
      match sddStage ss cfg root clock oracle c with
      | (.ok p, c') =>
        (.Exact p (decide' cfg T p) .ExactSdd { st.m with exactUsed := true, width := 0 }, { c' with i := c'.i + 1 })
      | (.error r, c') =>
        let lo := match st.last with | some (l, _) => some l | none => st.lower
        let hi := st.last.map (·.2)
        (.NeedsExact lo hi r { st.m with exactUsed := true }, { c' with i := c'.i + 1 })

/-- `evaluate_topk` at a fixed `k` (system clock: never expires in the comparison) -/
inductive TopKOut where
  | ok (lower lo hi : Nat) (kUsed : Nat) (fe cap : Bool) (gain : Nat)
  | err (r : Reason)
  | fuel
  deriving Repr, DecidableEq

def evaluateTopk (ss : List Seed) (root : L) (k : Nat) (budget : Nat) (nodeBudget : Nat) (clock : Nat → Nat)
    (oracle : SddOracle) (fuel : Nat) : TopKOut :=
  if k = 0 then .err .DiagnosticOnly
  else
    let deadline := clock 0 + budget
    let md := metadata ss root
    if md.hasNegation || !md.monotone then .err .NegationRequiresExact
    else if md.hasExclusive then .err .ExclusivityRequiresExact
    else
      match enumerateProofs ss root (k + 1) clock deadline fuel 1 with
      | (.fuel, _) => .fuel
      | (.err r, _) => .err r
      | (.ok _ .Unknown, _) => .err .TopKBudget
      | (.ok proofs residual, i1) =>
        let rc := min proofs.length k
        let missing := !(proofs.all (fun p => p.all (fun x => (lookup ss x).isSome)))
        match retainedWmc ss (proofs.take rc) clock deadline oracle nodeBudget { i := i1 } with
        | (none, o, _) =>
          .err (if missing then .MissingSeed else match o with
            | .deadline => .TopKBudget | _ => .SddNodeBudget)
        | (some lower, _, c2) =>
          let gain :=
            if k < proofs.length then
              match retainedWmc ss (proofs.take (k + 1)) clock deadline oracle nodeBudget c2 with
              | (some wp, _, _) => wp - lower
              | (none, _, _) => 0
            else 0
          match intervalFromEnumeration ss lower proofs rc residual with
          | .interval lo hi =>
            let fe := residual == .Exhausted && decide (proofs.length ≤ k)
            .ok lower lo hi rc fe (decide (k < proofs.length) || !fe) gain
          | .noInterval => .err .TopKBudget
          | .err r => .err r

end Kolibrie.Hybrid
