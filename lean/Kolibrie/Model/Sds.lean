import Kolibrie.Model.Prov
/-
Model for C12: cross-window reasoning over a streaming dataset (SDS).

Transcribes
  datalog/src/cross_window_sds.rs   annotate_predicate, strip_window_prefix, all_component_iris,
                                    translate_sds_to_datalog (alive facts + expiry), translate_datalog_back
  datalog/src/reasoning/materialisation/cross_window_naive.rs         naive_sds_plus
  datalog/src/reasoning/materialisation/cross_window_incremental.rs   incremental_sds_plus (d_old / d_new split,
                                    initial tags, initial delta, result filtered by component prefix)
on top of the C06 engine (`iter`) at the (max, min) `ExpirationProvenance` semiring (`expProv`).

IRIs and local names are `List Char`; subjects/objects are ids; the dictionary is an abstract encoding
`enc : List Char → Nat` of annotated predicate strings (its injectivity is C15's business).  `u64` times are `Nat`
(`saturating_add` never saturates for the times considered); `u64::MAX` is `u64Max`.
-/
namespace Kolibrie.Prov

abbrev Str := List Char

structure WTriple where
  s : Nat
  pred : Str
  o : Nat
  t : Nat
  deriving DecidableEq, Repr

structure Window where
  iri : Str
  alpha : Nat
  triples : List WTriple
  deriving DecidableEq, Repr

structure StaticG where
  iri : Str
  triples : List (Nat × Str × Nat)
  deriving DecidableEq, Repr

structure Sds where
  windows : List Window
  statics : List StaticG
  outputs : List Str
  deriving DecidableEq, Repr

/-- `annotate_predicate` -/
def annotate (iri loc : Str) : Str := iri ++ loc

/-- `all_component_iris`: longest first -/
def componentIris (sds : Sds) : List Str :=
  sortBy' (fun a b => decide (b.length ≤ a.length))
    (sds.windows.map (·.iri) ++ sds.statics.map (·.iri) ++ sds.outputs)

/-- `strip_window_prefix`: the first listed IRI that is a prefix wins -/
def stripPrefix (ann : Str) : List Str → Option (Str × Str)
  | [] => none
  | iri :: rest => if iri.isPrefixOf ann then some (iri, ann.drop iri.length) else stripPrefix ann rest

/-- `translate_sds_to_datalog`: alive facts with annotated predicates and expiry -/
def translate (enc : Str → Nat) (sds : Sds) (now : Nat) : List (Fact × Nat) :=
  (sds.windows.flatMap fun w => w.triples.filterMap fun wt =>
      let expiry := wt.t + w.alpha
      if expiry ≤ now then none else some (⟨wt.s, enc (annotate w.iri wt.pred), wt.o⟩, expiry))
  ++ (sds.statics.flatMap fun g => g.triples.map fun (s, p, o) => (⟨s, enc (annotate g.iri p), o⟩, u64Max))

/-- does the fact's predicate carry a component prefix (`strip_window_prefix(..).is_some()`) -/
def keepOf (dec : Nat → Option Str) (comps : List Str) (f : Fact) : Bool :=
  match dec f.p with
  | some s => (stripPrefix s comps).isSome
  | none => false

/-- `naive_sds_plus`: from-scratch materialisation of the alive facts (fact set only; the plain semi-naive strategy
    it calls is C05's subject, here it is the engine at the Boolean semiring with no tags) -/
def naiveFacts (rules : List Rule) (base : List (Fact × Nat)) (fuel : Nat) : Option (List Fact) :=
  let facts := (base.map (·.1)).eraseDups
  (iter boolProv rules fuel facts facts []).map (·.1)

/-- maximum of the expiries recorded for `t` (`d_old_map`) -/
def oldExpiry (dOld : List (Fact × Nat)) (t : Fact) : Option Nat :=
  (dOld.filter fun e => e.1 == t).foldl (fun acc e => match acc with
    | none => some e.2
    | some a => some (max a e.2)) none

/-- initial `TagStore`: `set_tag` for every entry of `d_old ++ d_new` whose expiry is below `u64::MAX` -/
def initTags (entries : List (Fact × Nat)) : Tags Nat :=
  entries.foldl (fun ts e => if e.2 < u64Max then setTag ts e.1 e.2 else ts) []

/-- `incremental_sds_plus` on annotated facts: `base` = `translate_sds_to_datalog(sds_current, now)`,
    `prev` = the previous `SdsWithExpiry` flattened, `keep` = "predicate has a component prefix" -/
def incStep (rules : List Rule) (keep : Fact → Bool) (base prev : List (Fact × Nat)) (now fuel : Nat) :
    Option (List (Fact × Nat)) :=
  let dOld := prev.filter fun e => decide (e.2 > now)
  let dNew := base.filter fun e => match oldExpiry dOld e.1 with
    | none => true
    | some eo => decide (eo < e.2)
  let facts := (dOld.map (·.1) ++ dNew.map (·.1)).eraseDups
  let tags0 := initTags (dOld ++ dNew)
  let pos := rules.filter (·.neg.isEmpty)
  match iter expProv pos fuel facts (dNew.map (·.1)) tags0 with
  | none => none
  | some (all, tags) => some ((all.eraseDups.filter keep).map fun g => (g, getTag expProv tags g))

end Kolibrie.Prov
