import Kolibrie.Model.Lines
/-
Model of document loading (C13): `Dictionary::{encode, decode, merge}`, a database as dictionary + list of id quads,
`parse_ntriples` (parallel chunks of lines → string triples, concatenated in chunk order) + `encode_triples`
(sequential encoding into the shared dictionary), `parse_nquads_and_add`, `parse_turtle` (sequential, shared dictionary,
the database's prefix map), and `parse_n3` exactly as written: every chunk is parsed into a PRIVATE database (own
dictionary starting at id 0, own prefix map), its triples are inserted into the target BY THEIR PRIVATE IDS, and the
private dictionary is merged with `or_insert` semantics.
The line tokenisers are those of Model/Lines.lean.  Chunk sizes come from `Kolibrie.Extracted`.
-/
namespace Kolibrie.Load
open Kolibrie.Lines Kolibrie.Extracted

/-! ### dictionary -/

/-- the two hash maps of `Dictionary`, kept separately because `merge` updates them separately -/
structure Dict where
  s2i : List (Str × Nat)
  i2s : List (Nat × Str)
  next : Nat

def Dict.empty : Dict := ⟨[], [], 0⟩

/-- `Dictionary::encode` -/
def Dict.encode (d : Dict) (s : Str) : Dict × Nat :=
  match d.s2i.lookup s with
  | some i => (d, i)
  | none => (⟨(s, d.next) :: d.s2i, (d.next, s) :: d.i2s, d.next + 1⟩, d.next)

/-- `Dictionary::decode` -/
def Dict.decode (d : Dict) (i : Nat) : Option Str := d.i2s.lookup i

/-- `entry(k).or_insert(v)` over an association list -/
def orInsert {κ β} [BEq κ] (m : List (κ × β)) (k : κ) (v : β) : List (κ × β) :=
  match m.lookup k with
  | some _ => m
  | none => m ++ [(k, v)]

/-- `Dictionary::merge` -/
def Dict.merge (d other : Dict) : Dict :=
  ⟨other.s2i.foldl (fun m kv => orInsert m kv.1 kv.2) d.s2i,
   other.i2s.foldl (fun m kv => orInsert m kv.1 kv.2) d.i2s,
   max d.next other.next⟩

/-! ### terms and databases at the id level -/

inductive ITerm
  | leaf (i : Nat)
  | quoted (s p o : ITerm)
  deriving DecidableEq

structure IQuad where
  s : ITerm
  p : ITerm
  o : ITerm
  g : Option ITerm
  deriving DecidableEq

structure DB where
  dict : Dict
  quads : List IQuad           -- insertion order, duplicates kept (the store is a set: C04)
  prefixes : Prefixes

def DB.empty : DB := ⟨Dict.empty, [], []⟩

/-- encode a lexical term: leaves go through the dictionary left to right (subject, predicate, object) -/
def encodeL (d : Dict) : LTerm → Dict × ITerm
  | .plain s => let r := d.encode s; (r.1, .leaf r.2)
  | .quoted a b c =>
      let ra := encodeL d a
      let rb := encodeL ra.1 b
      let rc := encodeL rb.1 c
      (rc.1, .quoted ra.2 rb.2 rc.2)

def lexI (d : Dict) : ITerm → Option LTerm
  | .leaf i => (d.decode i).map .plain
  | .quoted a b c =>
      match lexI d a, lexI d b, lexI d c with
      | some x, some y, some z => some (.quoted x y z)
      | _, _, _ => none

def lexQuad (d : Dict) (q : IQuad) : Option LQuad :=
  match lexI d q.s, lexI d q.p, lexI d q.o with
  | some s, some p, some o =>
      match q.g with
      | none => some ⟨s, p, o, none⟩
      | some g => (lexI d g).map fun g => ⟨s, p, o, some g⟩
  | _, _, _ => none

/-- the observable: lexical quads of a database (`none` = an id without a dictionary entry) -/
def lex (db : DB) : List (Option LQuad) := db.quads.map (lexQuad db.dict)

/-- add one lexical quad: subject, predicate, object, then graph are encoded in this order -/
def addL (db : DB) (q : LQuad) : DB :=
  let rs := encodeL db.dict q.s
  let rp := encodeL rs.1 q.p
  let ro := encodeL rp.1 q.o
  match q.g with
  | none => { db with dict := ro.1, quads := db.quads ++ [⟨rs.2, rp.2, ro.2, none⟩] }
  | some g =>
      let rg := encodeL ro.1 g
      { db with dict := rg.1, quads := db.quads ++ [⟨rs.2, rp.2, ro.2, some rg.2⟩] }

/-- sequential encoding of a list of lexical quads (what `encode_triples` + `add_triple` do) -/
def encodeSeq (db : DB) (qs : List LQuad) : DB := qs.foldl addL db

/-! ### chunking -/

/-- `slice::chunks(n)` (fuel = length) -/
def chunksF {α} : Nat → Nat → List α → List (List α)
  | 0, _, _ => []
  | f + 1, n, l => if l.isEmpty then [] else l.take n :: chunksF f n (l.drop n)

def chunks {α} (n : Nat) (l : List α) : List (List α) := chunksF l.length n l

/-! ### N-Triples / N-Quads / Turtle -/

/-- one chunk of `parse_ntriples`: the string triples of its lines -/
def parseChunkNT (c : List Str) : List (Str × Str × Str) := c.filterMap parseLineNTs

/-- `parse_ntriples_and_add` with chunk size `n` -/
def loadNT (n : Nat) (db : DB) (doc : Str) : DB :=
  encodeSeq db (((chunks n (lines doc)).flatMap parseChunkNT).map encTriple)

/-- the document's triples as written (chunk-free) -/
def triplesNT (doc : Str) : List LQuad := (lines doc).filterMap parseLineNT

/-- `parse_nquads_and_add` -/
def loadNQ (db : DB) (doc : Str) : DB := encodeSeq db (parseNQ doc)

/-- `parse_turtle`; `none` = panic -/
def loadTTL (db : DB) (doc : Str) : Option DB :=
  (parseTTL db.prefixes doc).map fun r => { encodeSeq db r.2 with prefixes := r.1 }

/-! ### N3, as written -/

/-- `resolve_term` (fuel for the datatype recursion) -/
def resolveTerm (pf : Prefixes) : Nat → Str → Str
  | 0, term => term
  | fuel + 1, term =>
    if startsWith ['<'] term && endsWith ['>'] term then trimEndCh '>' (trimStartCh '<' term)
    else if startsWith ['"'] term then
      -- rfind('"') always succeeds here
      let revRest := term.reverse.takeWhile (· != '"')
      let rest := revRest.reverse
      let literal := term.take (term.length - rest.length)
      if startsWith ['^', '^'] rest then literal ++ ['^', '^'] ++ resolveTerm pf fuel (trim (rest.drop 2))
      else if startsWith ['@'] rest then literal ++ rest
      else literal
    else if term.contains ':' && !isHttp term then
      let pre := term.takeWhile (· != ':')
      let loc := (term.dropWhile (· != ':')).drop 1
      match pf.lookup pre with
      | some uri => uri ++ loc
      | none => term
    else term

inductive NState | subject | predicate | object
  deriving DecidableEq

/-- collect the object tokens up to (not including) the next `;` `.` `,` -/
def takeObj : List Str → Str → Str × List Str
  | [], acc => (acc, [])
  | t :: rest, acc =>
      if t = [';'] ∨ t = ['.'] ∨ t = [','] then (acc, t :: rest) else takeObj rest (acc ++ ' ' :: t)

/-- `parse_statement`: the string triples of one statement (fuel = number of tokens) -/
def parseStatementGo (pf : Prefixes) : Nat → List Str → NState → Str → Str → List (Str × Str × Str) → List (Str × Str × Str)
  | 0, _, _, _, _, acc => acc
  | _, [], _, _, _, acc => acc
  | f + 1, tok :: rest, st, subj, pred, acc =>
    if tok = [';'] then parseStatementGo pf f rest .predicate subj [] acc
    else if tok = ['.'] then acc
    else match st with
      | .subject => parseStatementGo pf f rest .predicate tok pred acc
      | .predicate => parseStatementGo pf f rest .object subj tok acc
      | .object =>
          let r := takeObj rest tok
          let t := (resolveTerm pf (subj.length + 1) subj, resolveTerm pf (pred.length + 1) pred, resolveTerm pf (r.1.length + 1) r.1)
          parseStatementGo pf f r.2 .predicate subj pred (acc ++ [t])

def parseStatement (pf : Prefixes) (stmt : Str) : List (Str × Str × Str) :=
  let toks := splitWs stmt
  parseStatementGo pf (toks.length + 1) toks .subject [] [] []

structure N3Chunk where
  pf : Prefixes
  stmt : Str
  triples : List (Str × Str × Str)

/-- one (already trimmed) line of a chunk in `parse_n3` -/
def n3Line (c : N3Chunk) (raw : Str) : N3Chunk :=
  let line := match findSub ['#'] raw 0 with
    | some k => trim (raw.take k)
    | none => raw
  if line.isEmpty then c
  else if startsWith "@prefix".toList line then
    let l := trimEndCh '.' (trimStartStr "@prefix".toList line)
    match splitWs l with
    | a :: b :: _ => { c with pf := pfxInsert (trimEndCh ':' a) (trimEndCh '>' (trimStartCh '<' b)) c.pf }
    | _ => c
  else
    let stmt := c.stmt ++ line ++ [' ']
    if endsWith ['.'] line then { c with stmt := [], triples := c.triples ++ parseStatement c.pf (trim stmt) }
    else { c with stmt := stmt }

/-- a chunk is parsed into a private database: private prefixes, private dictionary starting at 0 -/
def n3Chunk (ls : List Str) : DB :=
  let c := ls.foldl n3Line ⟨[], [], []⟩
  let db := c.triples.foldl (fun db t => addL db ⟨.plain t.1, .plain t.2.1, .plain t.2.2, none⟩) DB.empty
  { db with prefixes := c.pf }

/-- fold one chunk result into the target exactly as `parse_n3` does: triples BY PRIVATE ID, then dictionary `merge` -/
def n3Absorb (db : DB) (part : DB) : DB :=
  { dict := db.dict.merge part.dict,
    quads := db.quads ++ part.quads,
    prefixes := part.prefixes.foldl (fun pf kv => pfxInsert kv.1 kv.2 pf) db.prefixes }

/-- `parse_n3` with chunk size `n` -/
def loadN3 (n : Nat) (db : DB) (doc : Str) : DB :=
  ((chunks n ((lines doc).map trim)).map n3Chunk).foldl n3Absorb db

/-- what the document says, chunk-free: one pass over all lines with one prefix map -/
def triplesN3 (doc : Str) : List LQuad :=
  (((lines doc).map trim).foldl n3Line ⟨[], [], []⟩).triples.map fun t => ⟨.plain t.1, .plain t.2.1, .plain t.2.2, none⟩

end Kolibrie.Load
