/-
Model of `shared/src/dataset_index.rs` (`DatasetIndex`) and of
`SparqlDatabase::build_all_indexes` — C04.

The four redundant nested-map indexes are kept as four *separate* relations, each updated by
its own code path exactly as `insert_quad` / `delete_quad` do.  Graph `0` is `GraphId::Default`,
graph `n+1` is `GraphId::Named n`.  Import-free (compiled into the driver).
-/
namespace Kolibrie.Store

structure Quad where
  s : Nat
  p : Nat
  o : Nat
  g : Nat
deriving DecidableEq, Repr

/-- `HashSet::insert` on a duplicate-free list. -/
def insL {α} [DecidableEq α] (l : List α) (a : α) : List α :=
  if a ∈ l then l else l ++ [a]

/-- `HashSet::remove`. -/
def delL {α} [DecidableEq α] (l : List α) (a : α) : List α :=
  l.filter (fun b => !(b == a))

structure Store where
  gspo : List Quad
  gpos : List Quad
  gosp : List Quad
  spog : List Quad
  named : List Nat      -- the `named_graphs` catalog (graph numbers ≥ 1)
deriving Repr

def init : Store := ⟨[], [], [], [], []⟩

/-- `contains_quad`: answered from `spog` only. -/
def contains (st : Store) (q : Quad) : Bool := decide (q ∈ st.spog)

/-- `graph_exists`, with the legacy clause "a non-empty graph in `gspo` is discoverable". -/
def graphExists (st : Store) (g : Nat) : Bool :=
  g == 0 || decide (g ∈ st.named) || st.gspo.any (fun q => q.g == g)

/-- `if let GraphId::Named(graph) = … { self.named_graphs.insert(graph); }` -/
def touch (st : Store) (g : Nat) : Store :=
  if g != 0 then { st with named := insL st.named g } else st

def insertQuad (st : Store) (q : Quad) : Store × Bool :=
  let st := touch st q.g
  if contains st q then (st, false)
  else ({ st with gspo := insL st.gspo q, gpos := insL st.gpos q,
                  gosp := insL st.gosp q, spog := insL st.spog q }, true)

def deleteQuad (st : Store) (q : Quad) : Store × Bool :=
  if !contains st q then (st, false)
  else
    let st := touch st q.g
    ({ st with gspo := delL st.gspo q, gpos := delL st.gpos q,
               gosp := delL st.gosp q, spog := delL st.spog q }, true)

def matchQ (sp pp op : Option Nat) (q : Quad) : Bool :=
  (match sp with | some x => q.s == x | none => true) &&
  (match pp with | some x => q.p == x | none => true) &&
  (match op with | some x => q.o == x | none => true)

/-- `query_graph`: the pattern shape selects the index that serves it. -/
def queryGraph (st : Store) (g : Nat) (sp pp op : Option Nat) : List Quad :=
  let pick (idx : List Quad) := idx.filter (fun q => q.g == g && matchQ sp pp op q)
  match sp, pp, op with
  | some _, some _, some _ => pick st.spog
  | some _, some _, none   => pick st.gspo
  | some _, none,   some _ => pick st.gosp
  | none,   some _, some _ => pick st.gpos
  | some _, none,   none   => pick st.gspo
  | none,   some _, none   => pick st.gpos
  | none,   none,   some _ => pick st.gosp
  | none,   none,   none   => pick st.gspo

/-- union of the catalog with the graphs discoverable through `gspo` (unsorted, duplicate-free). -/
def namedGraphs (st : Store) : List Nat :=
  (st.gspo.filter (fun q => q.g != 0)).foldl (fun acc q => insL acc q.g) st.named

def graphs (st : Store) : List Nat := 0 :: namedGraphs st

/-- `visible_graphs.map_or(true, |visible| visible.contains(g))` -/
def visibleIn (vis : Option (List Nat)) (g : Nat) : Bool :=
  match vis with | none => true | some v => decide (g ∈ v)

/-- the loop over the graph catalog in `query_named_graphs` -/
def namedLoop (st : Store) (sp pp op : Option Nat) (vis : Option (List Nat)) : List Quad :=
  (namedGraphs st).flatMap (fun g => if visibleIn vis g then queryGraph st g sp pp op else [])

/-- `query_named_graphs`; `vis = none` means every named graph is visible. -/
def queryNamed (st : Store) (sp pp op : Option Nat) (vis : Option (List Nat)) : List Quad :=
  match sp, pp, op with
  | some ss, some pp', some oo =>
      if st.spog.any (fun q => q.s == ss && q.p == pp' && q.o == oo) then
        st.spog.filter (fun q => q.s == ss && q.p == pp' && q.o == oo && q.g != 0 && visibleIn vis q.g)
      else namedLoop st sp pp op vis
  | _, _, _ => namedLoop st sp pp op vis

def queryQuads (st : Store) (sp pp op : Option Nat) (g : Option Nat) : List Quad :=
  match g with
  | some g => queryGraph st g sp pp op
  | none => queryGraph st 0 sp pp op ++ queryNamed st sp pp op none

/-- `query_merged_graphs`: triples (graph field forced to 0), each once. -/
def queryMerged (st : Store) (srcs : List Nat) (sp pp op : Option Nat) : List Quad :=
  (srcs.flatMap (fun g => (queryGraph st g sp pp op).map (fun q => { q with g := 0 }))).foldl insL []

def graphsForTriple (st : Store) (s p o : Nat) : List Nat :=
  (st.spog.filter (fun q => q.s == s && q.p == p && q.o == o)).map (·.g)

def allQuads (st : Store) : List Quad :=
  (graphs st).flatMap (fun g => queryGraph st g none none none)

def lenGraph (st : Store) (g : Nat) : Nat := (queryGraph st g none none none).length

def createGraph (st : Store) (g : Nat) : Store × Bool :=
  if g == 0 then (st, false)
  else
    let existed := graphExists st g
    ({ st with named := insL st.named g }, !existed)

def clearGraph (st : Store) (g : Nat) : Store :=
  let st := if graphExists st g then touch st g else st
  (queryGraph st g none none none).foldl (fun acc q => (deleteQuad acc q).1) st

def dropGraph (st : Store) (g : Nat) : Store × Bool :=
  if g == 0 then (clearGraph st 0, true)
  else if !graphExists st g then (st, false)
  else
    let st := clearGraph st g
    ({ st with named := delL st.named g }, true)

def clearAll (_ : Store) : Store := init

/-- `SparqlDatabase::build_all_indexes`. -/
def rebuild (st : Store) : Store :=
  let quads := allQuads st
  let ngs := namedGraphs st
  let st1 := ngs.foldl (fun acc g => (createGraph acc g).1) init
  quads.foldl (fun acc q => (insertQuad acc q).1) st1

inductive Op
  | ins (q : Quad) | del (q : Quad) | create (g : Nat) | clear (g : Nat) | drop (g : Nat)
  | clearAll | rebuild
deriving Repr

/-- one API call: new state and the call's Boolean result (`true` for calls returning `()`). -/
def step (st : Store) : Op → Store × Bool
  | .ins q => insertQuad st q
  | .del q => deleteQuad st q
  | .create g => createGraph st g
  | .clear g => (clearGraph st g, true)
  | .drop g => dropGraph st g
  | .clearAll => (clearAll st, true)
  | .rebuild => (rebuild st, true)

def run (ops : List Op) : Store := ops.foldl (fun st op => (step st op).1) init

end Kolibrie.Store
