/-
Shared vocabulary of the Datalog-side models (C18, C19): `shared/src/terms.rs` (`Term`, `TriplePattern`),
`shared/src/triple.rs` (`Triple`).  Quoted-triple terms are out of scope.  Import-free.
-/
namespace Kolibrie.Terms

/-- `Term::Variable(String) | Term::Constant(u32)` -/
inductive Term where
  | var (name : String)
  | const (id : Nat)
deriving DecidableEq, Repr

/-- `TriplePattern = (Term, Term, Term)` -/
structure Pattern where
  s : Term
  p : Term
  o : Term
deriving DecidableEq, Repr

/-- `Triple { subject, predicate, object }` -/
structure Fact where
  s : Nat
  p : Nat
  o : Nat
deriving DecidableEq, Repr

/-- a rule without filters and without negative premises (the fragment both properties speak about) -/
structure Rule where
  premise : List Pattern
  conclusion : List Pattern
deriving DecidableEq, Repr

/-- ground valuation applied to a term -/
def Term.eval (σ : String → Nat) : Term → Nat
  | .var v => σ v
  | .const c => c

/-- ground instance of a pattern under a valuation -/
def Pattern.inst (σ : String → Nat) (q : Pattern) : Fact :=
  ⟨q.s.eval σ, q.p.eval σ, q.o.eval σ⟩

/-- `Triple::to_pattern` -/
def Fact.toPattern (f : Fact) : Pattern := ⟨.const f.s, .const f.p, .const f.o⟩

def Term.vars : Term → List String
  | .var v => [v]
  | .const _ => []

def Pattern.vars (q : Pattern) : List String := q.s.vars ++ q.p.vars ++ q.o.vars

/-- derived `Ord` of `Triple` (lexicographic) as a Boolean `≤` -/
def Fact.le (a b : Fact) : Bool :=
  if a.s < b.s then true else if b.s < a.s then false
  else if a.p < b.p then true else if b.p < a.p then false
  else decide (a.o ≤ b.o)

/-- `Vec<Triple>` lexicographic `≤` -/
def factsLe : List Fact → List Fact → Bool
  | [], _ => true
  | _ :: _, [] => false
  | a :: l, b :: r => if a = b then factsLe l r else a.le b

end Kolibrie.Terms
