import Kolibrie.Extracted
/-
Line-level model of Kolibrie's RDF text import/export (`kolibrie/src/sparql_database.rs`), shared by C14 and C13.
Strings are `List Char` (Rust `char` = Unicode scalar value = Lean `Char`).  Everything is a transcription of the
code that exists (quirks included): Rust `str::trim`, `str::lines`, `escape_ntriples_literal`,
`decode_ntriples_literal`, `looks_like_absolute_iri`, `parse_ntriples_parts` (character state machine; the
`peek()`-and-consume branches are encoded as a pending mode that the next character resolves),
`clean_ntriples_term`, `encode_term_star` + `split_quoted_triple_content`, `decode_term` (rendering),
`generate_nquads / generate_ntriples / generate_turtle`, `parse_nquads_and_add`, `parse_ntriples(+encode_triples)`,
`tokenize_turtle_star_line`, `clean_turtle_term`, `resolve_query_term`, `parse_turtle`.
The escape/decode tables come from `Kolibrie.Extracted` (regenerated from the source on every run).
-/
namespace Kolibrie.Lines
open Kolibrie.Extracted

abbrev Str := List Char

/-! ### Rust std string helpers -/

/-- `char::is_whitespace` (Unicode `White_Space`) -/
def rustWs (c : Char) : Bool :=
  let n := c.toNat
  (9 ≤ n && n ≤ 13) || n == 32 || n == 0x85 || n == 0xA0 || n == 0x1680 || (0x2000 ≤ n && n ≤ 0x200A) ||
  n == 0x2028 || n == 0x2029 || n == 0x202F || n == 0x205F || n == 0x3000

def trimStart (s : Str) : Str := s.dropWhile rustWs
def trimEnd (s : Str) : Str := (s.reverse.dropWhile rustWs).reverse
/-- `str::trim` -/
def trim (s : Str) : Str := trimEnd (trimStart s)

def startsWith (p s : Str) : Bool := p.isPrefixOf s
def endsWith (p s : Str) : Bool := p.isSuffixOf s

/-- `s[1 .. len-1]` -/
def sliceMid (t : Str) : Str := (t.drop 1).dropLast

def trimStartCh (c : Char) (s : Str) : Str := s.dropWhile (· == c)
def trimEndCh (c : Char) (s : Str) : Str := (s.reverse.dropWhile (· == c)).reverse
/-- `trim_matches(c)` -/
def trimCh (c : Char) (s : Str) : Str := trimEndCh c (trimStartCh c s)

/-- `trim_start_matches(pat)` for a string pattern: strips the pattern repeatedly (fuel = length) -/
def trimStartStr (p : Str) (s : Str) : Str :=
  if p.isEmpty then s else
  let rec go : Nat → Str → Str
    | 0, s => s
    | f + 1, s => if p.isPrefixOf s then go f (s.drop p.length) else s
  go s.length s

/-- `str::lines`: split at `\n`; a `\r` directly before the `\n` is dropped; no empty last line -/
def stripCr (l : Str) : Str :=
  match l.reverse with
  | '\r' :: r => r.reverse
  | _ => l

def linesGo : Str → Str → List Str
  | [], cur => if cur.isEmpty then [] else [cur.reverse]
  | c :: rest, cur => if c = '\n' then stripCr cur.reverse :: linesGo rest [] else linesGo rest (c :: cur)

def lines (s : Str) : List Str := linesGo s []

/-- `split_whitespace` -/
def splitWsGo : Str → Str → List Str
  | [], cur => if cur.isEmpty then [] else [cur.reverse]
  | c :: rest, cur =>
      if rustWs c then (if cur.isEmpty then splitWsGo rest [] else cur.reverse :: splitWsGo rest [])
      else splitWsGo rest (c :: cur)
def splitWs (s : Str) : List Str := splitWsGo s []

/-- `str::find(pat)` as a character index -/
def findSub (p : Str) : Str → Nat → Option Nat
  | [], i => if p.isEmpty then some i else none
  | c :: rest, i => if p.isPrefixOf (c :: rest) then some i else findSub p rest (i + 1)

def joinSp : List Str → Str
  | [] => []
  | [a] => a
  | a :: rest => a ++ ' ' :: joinSp rest

/-! ### literal escaping / decoding (tables extracted from the source) -/

def escapeChar (c : Char) : Str :=
  match escapeTable.lookup c with
  | some r => r
  | none => [c]

/-- `escape_ntriples_literal` -/
def escape (s : Str) : Str := s.flatMap escapeChar

def hexVal (c : Char) : Option Nat :=
  if '0' ≤ c ∧ c ≤ '9' then some (c.toNat - 48)
  else if 'a' ≤ c ∧ c ≤ 'f' then some (c.toNat - 87)
  else if 'A' ≤ c ∧ c ≤ 'F' then some (c.toNat - 55)
  else none

/-- `char::from_u32` -/
def charOfScalar (n : Nat) : Option Char :=
  if n < 0xD800 ∨ (0xDFFF < n ∧ n < 0x110000) then some (Char.ofNat n) else none

inductive DMode
  | normal
  | esc
  | hex (left : Nat) (acc : Nat)

/-- body of `decode_ntriples_literal` after the opening quote: value (reversed accumulator) and the suffix after the
    escape-aware closing quote -/
def decodeGo : Str → DMode → Str → Option (Str × Str)
  | [], _, _ => none
  | c :: rest, .normal, acc =>
      if c = '"' then some (acc.reverse, rest)
      else if c = '\\' then decodeGo rest .esc acc
      else decodeGo rest .normal (c :: acc)
  | c :: rest, .esc, acc =>
      if c = 'u' then decodeGo rest (.hex 4 0) acc
      else if c = 'U' then decodeGo rest (.hex 8 0) acc
      else match decodeTable.lookup c with
        | some ch => decodeGo rest .normal (ch :: acc)
        | none => none
  | c :: rest, .hex (k + 1) v, acc =>
      match hexVal c with
      | none => none
      | some d =>
          if k = 0 then
            match charOfScalar (v * 16 + d) with
            | some ch => decodeGo rest .normal (ch :: acc)
            | none => none
          else decodeGo rest (.hex k (v * 16 + d)) acc
  | _ :: _, .hex 0 _, _ => none

/-- `decode_ntriples_literal` -/
def decodeLit (term : Str) : Option (Str × Str) :=
  match term with
  | c :: body => if c = '"' then decodeGo body .normal [] else none
  | [] => none

/-- `looks_like_absolute_iri` -/
def looksLikeAbsoluteIri (v : Str) : Bool :=
  v.contains ':' &&
  match v.takeWhile (· != ':') with
  | [] => false
  | f :: r => f.isAlpha && r.all (fun c => c.isAlphanum || c == '+' || c == '-' || c == '.')

/-! ### `parse_ntriples_parts` -/

inductive Pend
  | none | lt | gt | quote | caret | dt | dtUri | lang
  deriving DecidableEq, Repr

structure PS where
  parts : List Str
  cur : Str
  inUri : Bool
  inLit : Bool
  esc : Bool
  depth : Nat
  pend : Pend

def PS.init : PS := ⟨[], [], false, false, false, 0, .none⟩

def PS.push (st : PS) (c : Char) : PS := { st with cur := st.cur ++ [c] }
def PS.emit (st : PS) : PS := { st with parts := st.parts ++ [trim st.cur], cur := [] }
def PS.emit0 (st : PS) : PS := if st.depth = 0 then st.emit else st

/-- `char::is_alphanumeric`, approximated above ASCII (every non-ASCII character counts as alphanumeric) -/
def alnumU (c : Char) : Bool := c.isAlphanum || c.toNat ≥ 128

/-- the `'<'` arm once the following character (if any) is known; `true` = that character was consumed -/
def resolveLt (st : PS) (next : Option Char) : PS × Bool :=
  if next = some '<' ∧ st.inUri = false then
    ({ st with cur := st.cur ++ ['<', '<'], depth := st.depth + 1 }, true)
  else if st.depth > 0 then
    if next = some '<' then ({ st with cur := st.cur ++ ['<', '<'], depth := st.depth + 1 }, true)
    else (st.push '<', false)
  else ({ st.push '<' with inUri := true }, false)

/-- one iteration of the main `while let Some(ch)` loop with nothing pending -/
def normal (st : PS) (c : Char) : PS :=
  if c = '<' ∧ st.inLit = false ∧ st.esc = false then { st with pend := .lt }
  else if c = '>' ∧ st.inLit = false ∧ st.esc = false then
    if st.depth > 0 ∧ st.inUri = false then { st.push c with pend := .gt }
    else if st.inUri then ({ st with inUri := false }.push c).emit0
    else st.push c
  else if c = '"' ∧ st.inUri = false ∧ st.esc = false then
    if st.inLit then { { st with inLit := false }.push c with pend := .quote }
    else { st with inLit := true }.push c
  else if c = '\\' ∧ (st.inUri ∨ st.inLit) ∧ st.esc = false then { st with esc := true }.push c
  else if (c = ' ' ∨ c = '\t') ∧ st.inUri = false ∧ st.inLit = false ∧ st.esc = false ∧ st.depth = 0 then
    if st.cur.isEmpty then st else st.emit
  else { st with esc := false }.push c

def step (st : PS) (c : Char) : PS :=
  match st.pend with
  | .none => normal st c
  | .lt =>
      let r := resolveLt { st with pend := .none } (some c)
      if r.2 then r.1 else normal r.1 c
  | .gt =>
      if c = '>' then ({ st.push c with depth := st.depth - 1, pend := .none }).emit0
      else normal { st with pend := .none } c
  | .quote =>
      if c = '^' then { st.push c with pend := .caret }
      else if c = '@' then { st.push c with pend := .lang }
      else normal ({ st with pend := .none }).emit0 c
  | .caret =>
      if c = '^' then { st.push c with pend := .dt }
      else normal ({ st with pend := .none }).emit0 c
  | .dt =>
      if c = '<' then { st.push c with pend := .dtUri }
      else if rustWs c then normal ({ st with pend := .none }).emit0 c
      else st.push c
  | .dtUri =>
      if c = '>' then ({ st.push c with pend := .none }).emit0 else st.push c
  | .lang =>
      if alnumU c ∨ c = '-' then st.push c
      else normal ({ st with pend := .none }).emit0 c

def finish (st : PS) : List Str :=
  let st' := match st.pend with
    | .none => st
    | .lt => (resolveLt { st with pend := .none } none).1
    | .gt => st
    | _ => st.emit0
  if st'.cur.isEmpty then st'.parts else st'.parts ++ [trim st'.cur]

/-- `parse_ntriples_parts` -/
def partsLine (line : Str) : List Str := finish (line.foldl step PS.init)

/-- `clean_ntriples_term` -/
def cleanNT (term : Str) : Str :=
  let t := trim term
  if startsWith ['<', '<'] t && endsWith ['>', '>'] t then t
  else if startsWith ['<'] t && endsWith ['>'] t then sliceMid t
  else if startsWith ['"'] t then
    match decodeLit t with
    | some (v, rest) =>
        if rest.isEmpty then v
        else if startsWith ['^', '^'] rest then v
        else if startsWith ['@'] rest then v ++ rest
        else t
    | none => t
  else t

/-! ### lexical terms, `decode_term`, `split_quoted_triple_content`, `encode_term_star` -/

inductive LTerm
  | plain (s : Str)
  | quoted (s p o : LTerm)
  deriving DecidableEq, Repr

/-- `Dictionary::decode_term` / `decode_any` -/
def render : LTerm → Str
  | .plain s => s
  | .quoted s p o => ['<', '<', ' '] ++ render s ++ ' ' :: render p ++ ' ' :: render o ++ [' ', '>', '>']

structure QS where
  parts : List Str
  cur : Str
  depth : Nat
  inUri : Bool
  inLit : Bool
  esc : Bool

def qstep (st : QS) (ch : Char) : QS :=
  if st.esc then { st with cur := st.cur ++ [ch], esc := false }
  else if ch = '\\' ∧ st.inLit then { st with cur := st.cur ++ [ch], esc := true }
  else if ch = '"' ∧ st.inUri = false then { st with cur := st.cur ++ [ch], inLit := !st.inLit }
  else if ch = '<' ∧ st.inLit = false then
    let cur' := st.cur ++ [ch]
    if endsWith ['<', '<'] cur' then { st with cur := cur', depth := st.depth + 1 }
    else if st.depth = 0 then { st with cur := cur', inUri := true }
    else { st with cur := cur' }
  else if ch = '>' ∧ st.inLit = false then
    let cur' := st.cur ++ [ch]
    if st.inUri then { st with cur := cur', inUri := false }
    else if endsWith ['>', '>'] cur' ∧ st.depth > 0 then { st with cur := cur', depth := st.depth - 1 }
    else { st with cur := cur' }
  else if (ch = ' ' ∨ ch = '\t' ∨ ch = '\n' ∨ ch = '\r') ∧ st.depth = 0 ∧ st.inUri = false ∧ st.inLit = false then
    let t := trim st.cur
    if t.isEmpty then st else { st with parts := st.parts ++ [t], cur := [] }
  else { st with cur := st.cur ++ [ch] }

/-- `split_quoted_triple_content` -/
def splitQuoted (content : Str) : Str × Str × Str :=
  let st := content.foldl qstep ⟨[], [], 0, false, false, false⟩
  let t := trim st.cur
  let parts := if t.isEmpty then st.parts else st.parts ++ [t]
  match parts with
  | a :: b :: c :: rest => (a, b, joinSp (c :: rest))
  | [a, b] => (a, b, [])
  | [a] => (a, [], [])
  | [] => ([], [], [])

/-- `encode_term_star` followed by decoding the id structurally (fuel ≥ length of the term suffices) -/
def encodeTermStar : Nat → Str → LTerm
  | 0, term => .plain (trim term)
  | fuel + 1, term =>
    let t := trim term
    if startsWith ['<', '<'] t && endsWith ['>', '>'] t then
      let inner := trim ((t.drop 2).take (t.length - 4))
      let r := splitQuoted inner
      .quoted (encodeTermStar fuel r.1) (encodeTermStar fuel r.2.1) (encodeTermStar fuel r.2.2)
    else if startsWith ['<'] t && endsWith ['>'] t then .plain (sliceMid t)
    else if startsWith ['"'] t then
      match decodeLit t with
      | some (v, _) => .plain v
      | none => .plain (trimCh '"' t)
    else .plain t

def encTerm (t : Str) : LTerm := encodeTermStar (t.length + 1) t

/-! ### quads, generators -/

structure LQuad where
  s : LTerm
  p : LTerm
  o : LTerm
  g : Option LTerm
  deriving DecidableEq, Repr

def angle (s : Str) : Str := '<' :: s ++ ['>']
def quote (s : Str) : Str := '"' :: escape s ++ ['"']

def nqSubj (s : Str) : Str :=
  if startsWith ['<', '<'] s || startsWith ['_', ':'] s then s else angle s
def nqObj (o : Str) : Str :=
  if startsWith ['<', '<'] o || startsWith ['_', ':'] o then o
  else if looksLikeAbsoluteIri o then angle o else quote o
def nqGraph (g : Str) : Str := if startsWith ['_', ':'] g then g else angle g

/-- one line of `generate_nquads` (without the `\n`) from the decoded strings -/
def genLineNQ (s p o : Str) (g : Option Str) : Str :=
  nqSubj s ++ ' ' :: angle p ++ ' ' :: nqObj o ++
    (match g with
     | none => [' ', '.']
     | some g => ' ' :: nqGraph g ++ [' ', '.'])

def genNQ (qs : List LQuad) : Str :=
  qs.flatMap fun q => genLineNQ (render q.s) (render q.p) (render q.o) (q.g.map render) ++ ['\n']

def isHttp (o : Str) : Bool :=
  startsWith "http://".toList o || startsWith "https://".toList o

def ntSubj (s : Str) : Str := if startsWith ['<', '<'] s then s else angle s
/-- object rendering of `generate_ntriples` / `generate_turtle` (literal escaped: repaired code, fixes/C14_escape_nt_ttl.patch) -/
def ntObj (o : Str) : Str :=
  if startsWith ['<', '<'] o then o else if isHttp o then angle o else quote o

def genLineNT (s p o : Str) : Str := ntSubj s ++ ' ' :: angle p ++ ' ' :: ntObj o ++ [' ', '.']

/-- `generate_ntriples`: default graph only -/
def genNT (qs : List LQuad) : Str :=
  (qs.filter (fun q => q.g.isNone)).flatMap fun q => genLineNT (render q.s) (render q.p) (render q.o) ++ ['\n']

/-- lexicographic order on code points = byte order of the UTF-8 `String`s in the `BTreeMap` -/
def strLt : Str → Str → Bool
  | [], [] => false
  | [], _ :: _ => true
  | _ :: _, [] => false
  | a :: l, b :: r => if a < b then true else if b < a then false else strLt l r

/-- insert into an association list sorted by key (`BTreeMap::entry(k).or_default()` then `f`) -/
def bmUpd {β} (k : Str) (dflt : β) (f : β → β) : List (Str × β) → List (Str × β)
  | [] => [(k, f dflt)]
  | (k', v) :: rest =>
      if k = k' then (k', f v) :: rest
      else if strLt k k' then (k, f dflt) :: (k', v) :: rest
      else (k', v) :: bmUpd k dflt f rest

def ttlObjects : List Str → Nat → Str
  | [], _ => []
  | o :: rest, j => (if j > 0 then [' ', ','] else []) ++ ' ' :: ntObj o ++ ttlObjects rest (j + 1)

def ttlPreds : List (Str × List Str) → Nat → Nat → Str
  | [], _, _ => []
  | (p, objs) :: rest, i, n =>
      (if i = 0 then [' '] else " ; ".toList) ++ angle p ++ ttlObjects objs 0 ++
      (if i = n - 1 then " .\n".toList else []) ++ ttlPreds rest (i + 1) n

/-- `generate_turtle` (prefix declarations first; default graph only; repaired code: predicates of one subject are
    separated by ` ; ` on ONE line, because `parse_turtle` reads line by line) -/
def genTTL (prefixes : List (Str × Str)) (qs : List LQuad) : Str :=
  let pre := prefixes.flatMap fun (k, v) => "@prefix ".toList ++ k ++ ": <".toList ++ v ++ "> .\n".toList
  let pre := if prefixes.isEmpty then pre else pre ++ ['\n']
  let groups := (qs.filter (fun q => q.g.isNone)).foldl
    (fun m q => bmUpd (render q.s) [] (fun pm => bmUpd (render q.p) [] (fun os => os ++ [render q.o]) pm) m) []
  pre ++ groups.flatMap fun (s, preds) => ntSubj s ++ ttlPreds preds 0 preds.length

/-! ### N-Quads / N-Triples readers -/

/-- the common prologue of the line loops: trim, skip blank/comment, require and strip the final dot -/
def stripDot (raw : Str) : Option Str :=
  let line := trim raw
  if line.isEmpty || startsWith ['#'] line then none
  else if endsWith ['.'] line then some (trim line.dropLast) else none

/-- `parse_nquads_line` + the encoding done by `parse_nquads_and_add` / `add_quad_parts` -/
def parseLineNQ (raw : Str) : Option LQuad :=
  match stripDot raw with
  | none => none
  | some l =>
    match partsLine l with
    | [a, b, c] => some ⟨encTerm (cleanNT a), encTerm (cleanNT b), encTerm (cleanNT c), none⟩
    | [a, b, c, d] => some ⟨encTerm (cleanNT a), encTerm (cleanNT b), encTerm (cleanNT c), some (.plain (cleanNT d))⟩
    | _ => none

def parseNQ (doc : Str) : List LQuad := (lines doc).filterMap parseLineNQ

def rdfType : Str := "http://www.w3.org/1999/02/22-rdf-syntax-ns#type".toList

/-- `parse_ntriples_line`: the string triple of one line -/
def parseLineNTs (raw : Str) : Option (Str × Str × Str) :=
  match stripDot raw with
  | none => none
  | some l =>
    match partsLine l with
    | [a, b, c] => some (cleanNT a, if b = ['a'] then rdfType else cleanNT b, cleanNT c)
    | _ => none

def encTriple (t : Str × Str × Str) : LQuad := ⟨encTerm t.1, encTerm t.2.1, encTerm t.2.2, none⟩

def parseLineNT (raw : Str) : Option LQuad := (parseLineNTs raw).map encTriple

/-- `parse_ntriples_and_add` seen lexically (chunking is the subject of C13; see Model/Load.lean) -/
def parseNT (doc : Str) : List LQuad := (lines doc).filterMap parseLineNT

/-! ### Turtle reader -/

inductive TPend
  | none | lt | gt
  deriving DecidableEq

structure TS where
  toks : List Str
  cur : Str
  depth : Nat
  inUri : Bool
  inLit : Bool
  esc : Bool
  pend : TPend

def TS.push (st : TS) (c : Char) : TS := { st with cur := st.cur ++ [c] }
def TS.emit (st : TS) : TS := { st with toks := st.toks ++ [trim st.cur], cur := [] }
def TS.flush (st : TS) : TS :=
  let t := trim st.cur
  if t.isEmpty then st else { st with toks := st.toks ++ [t], cur := [] }

def tResolveLt (st : TS) (next : Option Char) : TS × Bool :=
  if next = some '<' ∧ st.inUri = false then
    ({ st with cur := st.cur ++ ['<', '<'], depth := st.depth + 1 }, true)
  else if st.depth > 0 then
    if next = some '<' then ({ st with cur := st.cur ++ ['<', '<'], depth := st.depth + 1 }, true)
    else (st.push '<', false)
  else ({ st.push '<' with inUri := true }, false)

def tnormal (st : TS) (ch : Char) : TS :=
  if st.esc then { st.push ch with esc := false }
  else if ch = '\\' ∧ st.inLit then { st.push ch with esc := true }
  else if ch = '"' ∧ ((st.inUri = false ∧ st.depth = 0) ∨ st.depth > 0) then { st.push ch with inLit := !st.inLit }
  else if ch = '<' ∧ st.inLit = false then { st with pend := .lt }
  else if ch = '>' ∧ st.inLit = false then
    if st.depth > 0 ∧ st.inUri = false then { st.push ch with pend := .gt }
    else if st.inUri then
      let st1 := { st with inUri := false }.push ch
      if st1.depth = 0 then st1.emit else st1
    else st.push ch
  else if (ch = ';' ∨ ch = ',' ∨ ch = '.') ∧ st.depth = 0 ∧ st.inUri = false ∧ st.inLit = false then
    let st1 := st.flush
    { st1 with toks := st1.toks ++ [[ch]] }
  else if (ch = ' ' ∨ ch = '\t' ∨ ch = '\n' ∨ ch = '\r') ∧ st.depth = 0 ∧ st.inUri = false ∧ st.inLit = false then
    st.flush
  else st.push ch

def tstep (st : TS) (ch : Char) : TS :=
  match st.pend with
  | .none => tnormal st ch
  | .lt =>
      let r := tResolveLt { st with pend := .none } (some ch)
      if r.2 then r.1 else tnormal r.1 ch
  | .gt =>
      if ch = '>' then
        let st1 := { st.push ch with depth := st.depth - 1, pend := .none }
        if st1.depth = 0 then st1.emit else st1
      else tnormal { st with pend := .none } ch

/-- `tokenize_turtle_star_line` -/
def ttlTokens (line : Str) : List Str :=
  let st := line.foldl tstep ⟨[], [], 0, false, false, false, .none⟩
  let st := match st.pend with
    | .lt => (tResolveLt { st with pend := .none } none).1
    | _ => st
  st.flush.toks

/-- `clean_turtle_term` (repaired: a quoted term is unescaped with `decode_ntriples_literal`); `none` = the
    slice `term[1..len-1]` panics (term is the single character `"`) -/
def cleanTurtle (term : Str) : Option Str :=
  let t := trim term
  if startsWith ['<', '<'] t then some t
  else if startsWith ['<'] t && endsWith ['>'] t then some (sliceMid t)
  else if startsWith ['"'] t && endsWith ['"'] t then
    match decodeLit t with
    | some (v, []) => some v
    | _ => if t.length < 2 then none else some (sliceMid t)
  else some (trimCh '"' t)

abbrev Prefixes := List (Str × Str)

def pfxInsert (k v : Str) : Prefixes → Prefixes
  | [] => [(k, v)]
  | (k', v') :: rest => if k = k' then (k, v) :: rest else (k', v') :: pfxInsert k v rest

/-- `resolve_query_term` -/
def resolveQ (pf : Prefixes) (term : Str) : Str :=
  if startsWith ['<', '<'] term && endsWith ['>', '>'] term then term
  else if startsWith ['<'] term && endsWith ['>'] term then trimEndCh '>' (trimStartCh '<' term)
  else if startsWith ['"'] term && endsWith ['"'] term then trimCh '"' term
  else if term.contains ':' && !isHttp term then
    let pre := term.takeWhile (· != ':')
    let loc := (term.dropWhile (· != ':')).drop 1
    match pf.lookup pre with
    | some uri => uri ++ loc
    | none => term
  else term

/-- `resolve_turtle_term`: only a bare prefixed name is prefix-expanded; an `<iri>` or a "literal" is complete -/
def resolveTTL (pf : Prefixes) (raw : Str) : Option Str :=
  (cleanTurtle raw).map fun cleaned =>
    let t := trim raw
    if startsWith ['<'] t || startsWith ['"'] t then cleaned else resolveQ pf cleaned

/-- first split of `splitn(2, char::is_whitespace)` -/
def splitFirstWs : Str → Str → Option (Str × Str)
  | [], _ => none
  | c :: rest, acc => if rustWs c then some (acc.reverse, rest) else splitFirstWs rest (c :: acc)

/-- `flush_object`: triples emitted for (subject, predicate, object tokens); `none` = panic -/
def ttlFlush (pf : Prefixes) (sRaw pRaw : Option Str) (objToks : List Str) : Option (List LQuad) :=
  match sRaw, pRaw with
  | some sRaw, some pRaw =>
    if objToks.isEmpty then some [] else
    let objectRaw := joinSp objToks
    let split : Option (Str × List (Str × Str)) :=
      match findSub ['{', '|'] objectRaw 0 with
      | some a =>
          let obj := trim (objectRaw.take a)
          match findSub ['|', '}'] objectRaw 0 with
          | some e =>
              if e < a + 2 then none else
              let content := trim ((objectRaw.drop (a + 2)).take (e - (a + 2)))
              match splitFirstWs content [] with
              | some (x, y) => some (obj, [(x, y)])
              | none => some (obj, [])
          | none => some (objectRaw, [])
      | none => some (objectRaw, [])
    match split with
    | none => none
    | some (objectPart, anns) =>
      match resolveTTL pf sRaw, resolveTTL pf pRaw, resolveTTL pf objectPart with
      | some subject, some predicate, some object =>
        let main : LQuad :=
          if startsWith ['<', '<'] subject || startsWith ['<', '<'] object then
            ⟨encTerm subject, encTerm predicate, encTerm object, none⟩
          else ⟨.plain subject, .plain predicate, .plain object, none⟩
        let annq : Option (List LQuad) := anns.mapM fun (ap, ao) =>
          match resolveTTL pf ap, resolveTTL pf ao with
          | some rap, some rao =>
            let qt := "<< ".toList ++ subject ++ ' ' :: predicate ++ ' ' :: object ++ " >>".toList
            some ⟨encTerm qt, encTerm rap, encTerm rao, none⟩
          | _, _ => none
        annq.map (fun l => main :: l)
      | _, _, _ => none
  | _, _ => some []

structure TStmt where
  subj : Option Str
  pred : Option Str
  objs : List Str
  expS : Bool
  expP : Bool
  expO : Bool
  out : List LQuad

/-- the token loop of `parse_turtle` for one line; `none` = panic -/
def ttlStmt (pf : Prefixes) : List Str → TStmt → Option (List LQuad)
  | [], st => (ttlFlush pf st.subj st.pred st.objs).map (fun l => st.out ++ l)
  | tok :: rest, st =>
    if tok = ['.'] then
      match ttlFlush pf st.subj st.pred st.objs with
      | none => none
      | some l => ttlStmt pf rest { st with subj := none, pred := none, objs := if st.subj.isSome && st.pred.isSome then [] else st.objs,
                                            expS := true, expP := false, expO := false, out := st.out ++ l }
    else if tok = [';'] then
      match ttlFlush pf st.subj st.pred st.objs with
      | none => none
      | some l => ttlStmt pf rest { st with pred := none, objs := if st.subj.isSome && st.pred.isSome then [] else st.objs,
                                            expP := true, expO := false, out := st.out ++ l }
    else if tok = [','] then
      match ttlFlush pf st.subj st.pred st.objs with
      | none => none
      | some l => ttlStmt pf rest { st with objs := if st.subj.isSome && st.pred.isSome then [] else st.objs,
                                            expO := true, out := st.out ++ l }
    else if st.expS then ttlStmt pf rest { st with subj := some tok, expS := false, expP := true }
    else if st.expP then ttlStmt pf rest { st with pred := some tok, expP := false, expO := true }
    else ttlStmt pf rest { st with objs := st.objs ++ [tok] }

/-- one line of `parse_turtle`: new prefixes and the triples added; `none` = panic -/
def ttlLine (pf : Prefixes) (raw : Str) : Option (Prefixes × List LQuad) :=
  let line := trim raw
  if line.isEmpty || startsWith ['#'] line then some (pf, [])
  else if startsWith "@prefix".toList line || startsWith "PREFIX".toList line then
    let pl := trim (trimEndCh '.' (trimStartStr "PREFIX".toList (trimStartStr "@prefix".toList line)))
    match splitWs pl with
    | a :: b :: _ => some (pfxInsert (trimEndCh ':' a) (trimEndCh '>' (trimStartCh '<' b)) pf, [])
    | _ => some (pf, [])
  else
    (ttlStmt pf (ttlTokens line) ⟨none, none, [], true, false, false, []⟩).map (fun l => (pf, l))

def parseTTLGo (pf : Prefixes) : List Str → List LQuad → Option (Prefixes × List LQuad)
  | [], acc => some (pf, acc)
  | l :: rest, acc =>
    match ttlLine pf l with
    | none => none
    | some (pf', qs) => parseTTLGo pf' rest (acc ++ qs)

/-- `parse_turtle` into a database whose prefix map is `pf`; `none` = panic -/
def parseTTL (pf : Prefixes) (doc : Str) : Option (Prefixes × List LQuad) := parseTTLGo pf (lines doc) []

end Kolibrie.Lines
