import Kolibrie.Extracted
/-
Model of `shared/src/sdd.rs` (`SddManager`) and `shared/src/diff_sdd.rs` (`wmc_gradient`).

The arena manager is transcribed: `nodes` (append-only arena, ids = indexes, 0 = FALSE, 1 = TRUE), the unique
table, the apply / negate caches (hash maps → association lists, newest binding first), the vtree arena with
`vtree_root` and `var_to_vtree`, the weight vectors.

Every operation of the Rust code exists twice: plain (`apply`, `negate`, `literal`, `exactly_one`, …) and
interruptible (`try_apply`, …, threaded through an `SddOperationBudget`).  The two copies differ only in the
`budget.checkpoint()` / `budget.before_allocation()` calls.  The model has ONE body per operation,
parameterised by a `Budget` (deadline oracle: "is the deadline still available at the k-th checkpoint?", and an
optional node limit).  The plain operation is that body under `Budget.unlimited` (oracle constantly `true`, no
node limit), for which every checkpoint is a no-op; both Rust twins are compared against it by the
correspondence run.  The checkpoints are placed exactly where the `try_*` functions place them.

Recursion: the only recursion cycle of the Rust code goes through `apply` and `negate`
(`apply → apply_inner → {normalize_to, apply_same_vtree → expand → negate, unique_d → compress → apply}`,
`negate → negate, unique_d → compress → apply`).  The bodies below take the two recursive entry points as a
record `Rec`; `recN fuel` ties the knot with fuel (fuel exhaustion is the error `Err.fuel`, reported by the
driver as inconclusive, never as agreement).

Panics of the Rust code (`unreachable!`, `vtree_left on leaf`, `unwrap` on `None`) are the error `Err.panic`.
`HashMap` iteration order in `compress` is modelled by first-occurrence order of the subs.
Rust `f64` weights are exact rationals here (core `Rat`).
`wmc` / `enumerate_models` are memoised / plain top-down recursions over the arena in Rust; the model fills a
table over the arena bottom-up (children have smaller ids than parents), which computes the same function.
-/
namespace Kolibrie.Sdd

abbrev Id := Nat
abbrev Elem := Id × Id

/-- `SddId::FALSE`, `SddId::TRUE` -/
def FALSE : Id := Kolibrie.Extracted.sddFalseId
def TRUE : Id := Kolibrie.Extracted.sddTrueId

/-- `SddNode` (also used as `UniqueKey`, which has the same non-constant constructors) -/
inductive Node where
  | ff
  | tt
  | lit (v : Nat) (pol : Bool)
  | dec (vt : Nat) (els : List Elem)
  deriving DecidableEq, Repr, Inhabited

inductive VNode where
  | leaf (v : Nat)
  | internal (l r : Nat)
  deriving DecidableEq, Repr, Inhabited

inductive Kind where
  | indep
  | excl (g : Nat)
  deriving DecidableEq, Repr, Inhabited

inductive Op where
  | and
  | or
  deriving DecidableEq, Repr, Inhabited

inductive Err where
  | deadline
  | nodeBudget
  | fuel
  | panic
  deriving DecidableEq, Repr, Inhabited

structure Mgr where
  nodes : List Node := [.ff, .tt]
  unique : List (Node × Id) := []
  applyCache : List ((Id × Id × Op) × Id) := []
  negCache : List (Id × Id) := []
  vnodes : List VNode := []
  vroot : Option Nat := none
  var2vt : List (Nat × Nat) := []
  posW : List Rat := []
  negW : List Rat := []
  kinds : List Kind := []
  deriving Inhabited

def Mgr.new : Mgr := {}

/-- association-list lookup (first binding wins = latest insert) -/
def alookup {α β} [DecidableEq α] (k : α) : List (α × β) → Option β
  | [] => none
  | (k', v) :: l => if k = k' then some v else alookup k l

def node (m : Mgr) (id : Id) : Node := m.nodes.getD id .ff

/-! ### variables and the vtree -/

def clamp01 (q : Rat) : Rat := if q < 0 then 0 else if 1 < q then 1 else q

/-- `Vec::resize(n, x)` when `n > len` -/
def resizeTo {α} (l : List α) (n : Nat) (x : α) : List α := l ++ List.replicate (n - l.length) x

/-- `ensure_variable_weights` -/
def ensureVariableWeights (m : Mgr) (var : Nat) (pos neg : Rat) (kind : Kind) : Mgr :=
  let m := if var ≥ m.posW.length then
      { m with posW := resizeTo m.posW (var + 1) 0, negW := resizeTo m.negW (var + 1) 1,
               kinds := resizeTo m.kinds (var + 1) .indep }
    else m
  let m := { m with posW := m.posW.set var (clamp01 pos), negW := m.negW.set var (clamp01 neg),
                    kinds := m.kinds.set var kind }
  match alookup var m.var2vt with
  | some _ => m
  | none =>
    let leafId := m.vnodes.length
    let m := { m with vnodes := m.vnodes ++ [VNode.leaf var], var2vt := (var, leafId) :: m.var2vt }
    match m.vroot with
    | none => { m with vroot := some leafId }
    | some oldRoot =>
      let internalId := m.vnodes.length
      { m with vnodes := m.vnodes ++ [VNode.internal leafId oldRoot], vroot := some internalId }

/-- `ensure_variable` -/
def ensureVariable (m : Mgr) (var : Nat) (prob : Rat) : Mgr :=
  let p := clamp01 prob
  ensureVariableWeights m var p (1 - p) .indep

/-- `vtree_of` -/
def vtreeOf (m : Mgr) (id : Id) : Option Nat :=
  match node m id with
  | .tt | .ff => none
  | .lit v _ => alookup v m.var2vt
  | .dec vt _ => some vt

/-- `is_descendant_of` (recursion down the vtree arena; fuel = number of vtree nodes + 1 suffices because
children have smaller indexes than their parent) -/
def isDescF (vn : List VNode) : Nat → Nat → Nat → Bool
  | 0, _, _ => false
  | f + 1, d, a =>
    if d = a then true else
    match vn[a]? with
    | some (.internal l r) => isDescF vn f d l || isDescF vn f d r
    | _ => false

def isDesc (m : Mgr) (d a : Nat) : Bool := isDescF m.vnodes (m.vnodes.length + 1) d a

/-- the scan of `vtree_ancestors` for the first internal node having `n` as a child -/
def findParent (vn : List VNode) (n : Nat) : Option Nat :=
  vn.findIdx? (fun x => match x with | .internal l r => l = n || r = n | .leaf _ => false)

/-- `vtree_ancestors` -/
def ancestorsF (vn : List VNode) : Nat → Nat → List Nat
  | 0, n => [n]
  | f + 1, n => n :: (match findParent vn n with
      | some idx => ancestorsF vn f idx
      | none => [])

def ancestors (m : Mgr) (n : Nat) : List Nat := ancestorsF m.vnodes (m.vnodes.length + 1) n

/-- `find_lca`; `none` = the `unwrap` of an absent root panics -/
def findLca (m : Mgr) (a b : Nat) : Option Nat :=
  let bs := ancestors m b
  match (ancestors m a).find? (fun x => bs.contains x) with
  | some x => some x
  | none => m.vroot

/-! ### the state-and-error monad of an operation -/

/-- `SddOperationBudget`: `oracle k` = "the deadline is still available at the k-th checkpoint of this
operation" (k counts from 0), `maxNodes` = node limit (`none` for the plain operations). -/
structure Budget where
  oracle : Nat → Bool
  maxNodes : Option Nat

def Budget.unlimited : Budget := ⟨fun _ => true, none⟩

structure St where
  m : Mgr
  ticks : Nat := 0

def M (α : Type) := St → Except Err α × St

instance : Monad M where
  pure a := fun s => (.ok a, s)
  bind x f := fun s =>
    match x s with
    | (.ok a, s') => f a s'
    | (.error e, s') => (.error e, s')

def failM {α} (e : Err) : M α := fun s => (.error e, s)
def getM : M Mgr := fun s => (.ok s.m, s)
def modifyM (f : Mgr → Mgr) : M Unit := fun s => (.ok (), { s with m := f s.m })

def ofOption {α} : Option α → M α
  | some a => pure a
  | none => failM .panic

/-- `SddOperationBudget::checkpoint` -/
def checkpoint (b : Budget) : M Unit := fun s =>
  if b.oracle s.ticks then (.ok (), { s with ticks := s.ticks + 1 })
  else (.error .deadline, { s with ticks := s.ticks + 1 })

/-- `SddOperationBudget::before_allocation(self.nodes.len())` -/
def beforeAllocation (b : Budget) : M Unit := do
  checkpoint b
  let m ← getM
  match b.maxNodes with
  | some n => if m.nodes.length ≥ n then failM .nodeBudget else pure ()
  | none => pure ()

/-- push a node and register it in the unique table -/
def pushNode (nd : Node) : M Id := do
  let m ← getM
  let id := m.nodes.length
  modifyM (fun m => { m with nodes := m.nodes ++ [nd], unique := (nd, id) :: m.unique })
  pure id

/-- `literal` / `try_literal` -/
def literal (b : Budget) (v : Nat) (pol : Bool) : M Id := do
  checkpoint b
  let m ← getM
  match alookup (Node.lit v pol) m.unique with
  | some id => pure id
  | none => do
    beforeAllocation b
    pushNode (.lit v pol)

/-- `vtree_left` / `vtree_right` (panic on a leaf) -/
def vtLeft (m : Mgr) (v : Nat) : Option Nat :=
  match m.vnodes[v]? with
  | some (.internal l _) => some l
  | _ => none

def vtRight (m : Mgr) (v : Nat) : Option Nat :=
  match m.vnodes[v]? with
  | some (.internal _ r) => some r
  | _ => none

/-- the two recursive entry points -/
structure Rec where
  apply : Id → Id → Op → M Id
  negate : Id → M Id

/-- lexicographic order of `(u32, u32)` used by `elements.sort()` -/
def elemLe (x y : Elem) : Bool := x.1 < y.1 || (x.1 = y.1 && x.2 ≤ y.2)

def sortElems (els : List Elem) : List Elem := els.mergeSort elemLe

/-- the trimming rules applied (twice) by `unique_d` and (once) by `make_decision_raw`:
`[] → FALSE`, `[(TRUE, s)] → s`, `[(p1, TRUE), (p2, FALSE)] → p1`, `[(p1, FALSE), (p2, TRUE)] → p2` -/
def trim : List Elem → Option Id
  | [] => some FALSE
  | [(p, s)] => if p = TRUE then some s else none
  | [(p1, s1), (p2, s2)] =>
    if s1 = TRUE ∧ s2 = FALSE then some p1
    else if s2 = TRUE ∧ s1 = FALSE then some p2
    else none
  | _ => none

/-- tail shared by `unique_d` and `make_decision_raw`: sort, unique-table lookup, allocate -/
def internDecision (b : Budget) (vt : Nat) (els : List Elem) : M Id := do
  let els := sortElems els
  let m ← getM
  match alookup (Node.dec vt els) m.unique with
  | some id => pure id
  | none => do
    beforeAllocation b
    pushNode (.dec vt els)

/-- `make_decision_raw` / `try_make_decision_raw` -/
def makeDecisionRaw (b : Budget) (vt : Nat) (els : List Elem) : M Id := do
  checkpoint b
  let els := els.filter (fun e => e.1 ≠ FALSE)
  match trim els with
  | some r => pure r
  | none => internDecision b vt els

/-- grouping of `compress`: subs in first-occurrence order, primes in element order -/
def groupAdd (sub prime : Id) : List (Id × List Id) → List (Id × List Id)
  | [] => [(sub, [prime])]
  | (s, ps) :: rest => if s = sub then (s, ps ++ [prime]) :: rest else (s, ps) :: groupAdd sub prime rest

def groupBySub (els : List Elem) : List (Id × List Id) :=
  els.foldl (fun acc e => groupAdd e.2 e.1 acc) []

/-- `primes.into_iter().reduce(|a, b| self.apply(a, b, Or))` -/
def orAll (r : Rec) (acc : Id) : List Id → M Id
  | [] => pure acc
  | p :: ps => do
    let acc' ← r.apply acc p .or
    orAll r acc' ps

def mergeGroups (r : Rec) : List (Id × List Id) → M (List Elem)
  | [] => pure []
  | (sub, primes) :: rest => do
    let merged ← match primes with
      | [] => failM .panic
      | p :: ps => orAll r p ps
    let tl ← mergeGroups r rest
    pure ((merged, sub) :: tl)

/-- `compress` / `try_compress` -/
def compress (b : Budget) (r : Rec) (els : List Elem) : M (List Elem) := do
  checkpoint b
  let groups := groupBySub els
  if groups.length = els.length then pure els
  else mergeGroups r groups

/-- `unique_d` / `try_unique_d` -/
def uniqueD (b : Budget) (r : Rec) (vt : Nat) (els : List Elem) : M Id := do
  checkpoint b
  let els := els.filter (fun e => e.1 ≠ FALSE)
  match trim els with
  | some x => pure x
  | none => do
    let els ← compress b r els
    match trim els with
    | some x => pure x
    | none => internDecision b vt els

/-- the `_ =>` arm of `expand` / `try_expand`: the operand sits strictly below `vt` -/
def expandOther (r : Rec) (m : Mgr) (id : Id) (vt : Nat) : M (List Elem) := do
  let left ← ofOption (vtLeft m vt)
  let nv ← ofOption (vtreeOf m id)
  if nv = left || isDesc m nv left then do
    let neg ← r.negate id
    pure [(id, TRUE), (neg, FALSE)]
  else pure [(TRUE, id)]

/-- `expand` / `try_expand` -/
def expand (b : Budget) (r : Rec) (id : Id) (vt : Nat) : M (List Elem) := do
  checkpoint b
  if id = TRUE then pure [(TRUE, TRUE)]
  else if id = FALSE then pure [(TRUE, FALSE)]
  else do
    let m ← getM
    match node m id with
    | .dec dv els => if dv = vt then pure els else expandOther r m id vt
    | _ => expandOther r m id vt

/-- inner loop of `apply_same_vtree` -/
def crossInner (b : Budget) (r : Rec) (op : Op) (pa sa : Id) : List Elem → M (List Elem)
  | [] => pure []
  | (pb, sb) :: rest => do
    checkpoint b
    let prime ← r.apply pa pb .and
    if prime = FALSE then crossInner b r op pa sa rest
    else do
      let sub ← r.apply sa sb op
      let tl ← crossInner b r op pa sa rest
      pure ((prime, sub) :: tl)

def crossOuter (b : Budget) (r : Rec) (op : Op) (bes : List Elem) : List Elem → M (List Elem)
  | [] => pure []
  | (pa, sa) :: rest => do
    let hd ← crossInner b r op pa sa bes
    let tl ← crossOuter b r op bes rest
    pure (hd ++ tl)

/-- `apply_same_vtree` / `try_apply_same_vtree` -/
def applySame (b : Budget) (r : Rec) (a c : Id) (op : Op) (vt : Nat) : M Id := do
  let aes ← expand b r a vt
  let bes ← expand b r c vt
  let res ← crossOuter b r op bes aes
  uniqueD b r vt res

/-- `normalize_to` / `try_normalize_to` -/
def normalizeTo (b : Budget) (r : Rec) (id : Id) (target : Nat) : M Id := do
  checkpoint b
  if id = TRUE ∨ id = FALSE then pure id
  else do
    let m ← getM
    match vtreeOf m id with
    | some cur =>
      if cur = target then pure id
      else do
        let left ← ofOption (vtLeft m target)
        let right ← ofOption (vtRight m target)
        if isDesc m cur left then do
          let neg ← r.negate id
          makeDecisionRaw b target [(id, TRUE), (neg, FALSE)]
        else if isDesc m cur right then
          uniqueD b r target [(TRUE, id)]
        else pure id
    | none => pure id

/-- `apply_different_vtree` = `apply_expanded` (and their `try_` twins): normalise both, then same-vtree apply -/
def applyNormalized (b : Budget) (r : Rec) (a c : Id) (op : Op) (target : Nat) : M Id := do
  let an ← normalizeTo b r a target
  let cn ← normalizeTo b r c target
  applySame b r an cn op target

/-- `apply_inner` / `try_apply_inner` -/
def applyInner (b : Budget) (r : Rec) (a c : Id) (op : Op) : M Id := do
  checkpoint b
  let m ← getM
  match vtreeOf m a, vtreeOf m c with
  | none, none => failM .panic
  | none, some v => applyNormalized b r a c op v
  | some v, none => applyNormalized b r a c op v
  | some va, some vc =>
    if va = vc then applySame b r a c op va
    else if isDesc m va vc then applyNormalized b r a c op vc
    else if isDesc m vc va then applyNormalized b r a c op va
    else do
      let lca ← ofOption (findLca m va vc)
      applyNormalized b r a c op lca

/-- terminal cases of `apply` -/
def applyTerminal (a c : Id) (op : Op) : Option Id :=
  match op with
  | .and =>
    if a = FALSE ∨ c = FALSE then some FALSE
    else if a = TRUE then some c
    else if c = TRUE then some a
    else if a = c then some a
    else none
  | .or =>
    if a = TRUE ∨ c = TRUE then some TRUE
    else if a = FALSE then some c
    else if c = FALSE then some a
    else if a = c then some a
    else none

/-- complementary literals: `x AND NOT x = FALSE`, `x OR NOT x = TRUE` -/
def complementary (m : Mgr) (a c : Id) : Bool :=
  match node m a, node m c with
  | .lit va pa, .lit vc pc => va = vc && pa ≠ pc
  | _, _ => false

def cacheKey (a c : Id) (op : Op) : Id × Id × Op := if a ≤ c then (a, c, op) else (c, a, op)

/-- `apply` / `try_apply` -/
def applyBody (b : Budget) (r : Rec) (a c : Id) (op : Op) : M Id := do
  checkpoint b
  match applyTerminal a c op with
  | some x => pure x
  | none => do
    let m ← getM
    if complementary m a c then
      pure (match op with | .and => FALSE | .or => TRUE)
    else
      let key := cacheKey a c op
      match alookup key m.applyCache with
      | some cached => pure cached
      | none => do
        let result ← applyInner b r a c op
        modifyM (fun m => { m with applyCache := (key, result) :: m.applyCache })
        pure result

/-- the loop of `negate` over the elements of a decision node -/
def negateSubs (r : Rec) : List Elem → M (List Elem)
  | [] => pure []
  | (p, s) :: rest => do
    let ns ← r.negate s
    let tl ← negateSubs r rest
    pure ((p, ns) :: tl)

/-- the `match self.nodes[id]` of `negate` / `try_negate` -/
def negateNode (b : Budget) (r : Rec) (m : Mgr) (id : Id) : M Id :=
  match node m id with
  | .lit v pol => literal b v (!pol)
  | .dec vt els => do
    let negs ← negateSubs r els
    uniqueD b r vt negs
  | _ => failM .panic

/-- `negate` / `try_negate` -/
def negateBody (b : Budget) (r : Rec) (id : Id) : M Id := do
  checkpoint b
  if id = FALSE then pure TRUE
  else if id = TRUE then pure FALSE
  else do
    let m ← getM
    match alookup id m.negCache with
    | some cached => pure cached
    | none => do
      let result ← negateNode b r m id
      modifyM (fun m => { m with negCache := (id, result) :: m.negCache })
      pure result

/-- tie the recursive knot with fuel -/
def recN (b : Budget) : Nat → Rec
  | 0 => ⟨fun _ _ _ => failM .fuel, fun _ => failM .fuel⟩
  | n + 1 =>
    let r := recN b n
    ⟨applyBody b r, negateBody b r⟩

def apply (b : Budget) (fuel : Nat) (a c : Id) (op : Op) : M Id := (recN b fuel).apply a c op
def negate (b : Budget) (fuel : Nat) (a : Id) : M Id := (recN b fuel).negate a

/-- `rest.iter().fold(TRUE, |acc, r| apply(acc, literal(r, false), And))` -/
def allFalse (b : Budget) (fuel : Nat) (acc : Id) : List Nat → M Id
  | [] => pure acc
  | v :: rest => do
    let lf ← literal b v false
    let acc' ← apply b fuel acc lf .and
    allFalse b fuel acc' rest

/-- `exactly_one` / `try_exactly_one` -/
def exactlyOne (b : Budget) (fuel : Nat) : List Nat → M Id
  | [] => do checkpoint b; pure FALSE
  | [v] => do checkpoint b; literal b v true
  | v :: w :: rest' => do
    checkpoint b
    let rest := w :: rest'
    let litT ← literal b v true
    let litF ← literal b v false
    let af ← allFalse b fuel TRUE rest
    let left ← apply b fuel litT af .and
    let rc ← exactlyOne b fuel rest
    let right ← apply b fuel litF rc .and
    apply b fuel left right .or

/-- run an operation on a manager with a fresh budget -/
def run {α} (x : M α) (m : Mgr) : Except Err α × Mgr :=
  let (r, s) := x ⟨m, 0⟩
  (r, s.m)

/-! ### read-only queries -/

/-- value table of `wmc_inner` over the arena, bottom-up -/
def wmcNode (pw nw : List Rat) (acc : List Rat) : Node → Rat
  | .ff => 0
  | .tt => 1
  | .lit v pol =>
    if pol then pw.getD v (Kolibrie.Extracted.sddDefaultPos : Nat) else nw.getD v (Kolibrie.Extracted.sddDefaultNeg : Nat)
  | .dec _ els => (els.map (fun e => acc.getD e.1 0 * acc.getD e.2 0)).sum

def wmcAll (pw nw : List Rat) (nodes : List Node) : List Rat :=
  nodes.foldl (fun acc nd => acc ++ [wmcNode pw nw acc nd]) []

/-- `wmc` with explicit weight vectors -/
def wmcW (m : Mgr) (pw nw : List Rat) (id : Id) : Rat := (wmcAll pw nw m.nodes).getD id 0

/-- `wmc` -/
def wmc (m : Mgr) (id : Id) : Rat := wmcW m m.posW m.negW id

/-- `set_pos_weight` / `set_neg_weight`: `if id < len { w[id] = x }` — `List.set` ignores out-of-range -/
def setW (l : List Rat) (v : Nat) (x : Rat) : List Rat := l.set v x

/-- one entry of `wmc_gradient` -/
def gradVar (m : Mgr) (id : Id) (v : Nat) : Rat :=
  let a := wmcW m (setW m.posW v 1) (setW m.negW v 0) id
  match m.kinds.getD v .indep with
  | .indep =>
    let c := wmcW m (setW m.posW v 0) (setW m.negW v 1) id
    a - c
  | .excl _ => a

/-- `wmc_gradient`: registered variables (keys of `var_to_vtree`) with their gradient; the Rust map omits
entries with `|grad| ≤ 1e-15`, i.e. (exact arithmetic) zero entries -/
def wmcGradient (m : Mgr) (id : Id) : List (Nat × Rat) :=
  (m.var2vt.map (fun p => (p.1, gradVar m id p.1))).filter (fun p => p.2 ≠ 0)

/-- insertion into a sorted duplicate-free list (`BTreeSet<(u32, bool)>::insert`) -/
def litLe (x y : Nat × Bool) : Bool := x.1 < y.1 || (x.1 = y.1 && (!x.2 || y.2))

def setInsert (x : Nat × Bool) : List (Nat × Bool) → List (Nat × Bool)
  | [] => [x]
  | y :: l => if x = y then y :: l else if litLe x y then x :: y :: l else y :: setInsert x l

def setUnion (a b : List (Nat × Bool)) : List (Nat × Bool) := b.foldl (fun acc x => setInsert x acc) a

def modelsNode (acc : List (List (List (Nat × Bool)))) : Node → List (List (Nat × Bool))
  | .ff => []
  | .tt => [[]]
  | .lit v pol => [[(v, pol)]]
  | .dec _ els =>
    els.flatMap (fun e =>
      if e.2 = FALSE then []
      else
        let pm := acc.getD e.1 []
        let sm := acc.getD e.2 []
        pm.flatMap (fun p => sm.map (fun s => setUnion p s)))

def modelsAll (nodes : List Node) : List (List (List (Nat × Bool))) :=
  nodes.foldl (fun acc nd => acc ++ [modelsNode acc nd]) []

/-- `enumerate_models` -/
def enumerateModels (m : Mgr) (id : Id) : List (List (Nat × Bool)) := (modelsAll m.nodes).getD id []

/-! ### denotation (used by the specification and the theorems; the driver prints truth tables with it) -/

abbrev Asg := Nat → Bool

def evalNode (σ : Asg) (acc : List Bool) : Node → Bool
  | .ff => false
  | .tt => true
  | .lit v pol => σ v == pol
  | .dec _ els => els.any (fun e => acc.getD e.1 false && acc.getD e.2 false)

def evalAll (σ : Asg) (nodes : List Node) : List Bool :=
  nodes.foldl (fun acc nd => acc ++ [evalNode σ acc nd]) []

/-- the Boolean function denoted by handle `id` -/
def den (m : Mgr) (id : Id) (σ : Asg) : Bool := (evalAll σ m.nodes).getD id false

/-! ### the ordering discipline of the arena (decidable; checked by the driver on every final manager) -/

/-- a prime of a decision node on variable `x`: TRUE or a literal of `x` -/
def primeOk (m : Mgr) (x : Nat) (p : Id) : Bool :=
  p = TRUE || (match node m p with | .lit v _ => v = x | _ => false)

/-- a sub of a decision node whose left leaf has vtree index `l`: a constant, or a node strictly below `l` -/
def subOk (m : Mgr) (l : Nat) (s : Id) : Bool :=
  match node m s with
  | .ff | .tt => true
  | _ => (match vtreeOf m s with | some k => k < l | none => false)

def nodeOk (m : Mgr) (i : Nat) : Node → Bool
  | .ff | .tt => true
  | .lit v _ => (match alookup v m.var2vt with
      | some p => m.vnodes[p]? = some (VNode.leaf v)
      | none => false)
  | .dec vt els =>
    match m.vnodes[vt]? with
    | some (.internal l _) =>
      l < vt && (match m.vnodes[l]? with
        | some (.leaf x) =>
          alookup x m.var2vt = some l &&
            els.all (fun e => primeOk m x e.1 && subOk m l e.2 && e.1 < i && e.2 < i)
        | _ => false)
    | _ => false

/-- every literal belongs to a registered variable whose leaf is its vtree node; every decision node sits at an
internal vtree node whose left child is a leaf (right-linear vtree), its primes are TRUE or literals of that
leaf's variable, its subs are constants or sit strictly below that leaf -/
def ordOk (m : Mgr) : Bool := (List.range m.nodes.length).all (fun i => nodeOk m i (node m i))

end Kolibrie.Sdd
