/-
Model of `shared/src/dictionary.rs` (`Dictionary::{encode, decode, decode_term, merge}`),
`shared/src/quoted_triple_store.rs` (`QuotedTripleStore::{encode, decode}`, `is_quoted_triple_id`) and
`kolibrie/src/sparql_database.rs` (`reencode_term_id`, `SparqlDatabase::{union, decode_any, encode_term_star,
add_triple_parts, add_tagged_triple, add_quad_parts}`) — C15.

`HashMap`s are association lists with `HashMap::insert` / `entry().or_insert()` semantics (`put` / `putNew`);
the two directions of each dictionary are kept as two **separate** maps updated in lock-step exactly as the code
does.  `u32` ids are `Nat`; the two places where the code can panic on id exhaustion (`assert!(next_id <
QUOTED_TRIPLE_ID_BIT)` and `next_qt_id += 1` under overflow checks) are modelled (`Err.panic`).  `Err.fuel` is
the model's own "recursion budget exhausted" and never stands for an implementation outcome.
Import-free (compiled into the driver).
-/
import Kolibrie.Extracted
namespace Kolibrie.Dict
open Kolibrie.Extracted

inductive Err
  | panic | fuel
deriving DecidableEq, Repr

/-- `HashMap::insert` -/
def put {κ ν} [BEq κ] (l : List (κ × ν)) (k : κ) (v : ν) : List (κ × ν) :=
  (k, v) :: l.filter (fun e => !(e.1 == k))

/-- `HashMap::entry(k).or_insert(v)` -/
def putNew {κ ν} [BEq κ] (l : List (κ × ν)) (k : κ) (v : ν) : List (κ × ν) :=
  match l.lookup k with
  | some _ => l
  | none => (k, v) :: l

/-- `HashSet::insert` on a duplicate-free list -/
def insL {α} [DecidableEq α] (l : List α) (a : α) : List α :=
  if a ∈ l then l else l ++ [a]

/-! ## `Dictionary` -/

structure Dict where
  s2i : List (String × Nat)     -- string_to_id
  i2s : List (Nat × String)     -- id_to_string
  next : Nat                    -- next_id
deriving Repr

def Dict.empty : Dict := ⟨[], [], 0⟩

/-- `Dictionary::encode` (the `assert!` is the `else` branch) -/
def Dict.encode (d : Dict) (s : String) : Except Err (Dict × Nat) :=
  match d.s2i.lookup s with
  | some id => .ok (d, id)
  | none =>
    if d.next < quotedBit then
      .ok (⟨put d.s2i s d.next, put d.i2s d.next s, d.next + 1⟩, d.next)
    else .error .panic

/-- `Dictionary::decode` -/
def Dict.decode (d : Dict) (id : Nat) : Option String := d.i2s.lookup id

/-- `Dictionary::merge` (the operation with the id-clash defect; used by `parse_n3`, see C13) -/
def Dict.merge (d o : Dict) : Dict :=
  ⟨o.s2i.foldl (fun acc e => putNew acc e.1 e.2) d.s2i,
   o.i2s.foldl (fun acc e => putNew acc e.1 e.2) d.i2s,
   max d.next o.next⟩

/-! ## `QuotedTripleStore` -/

abbrev Comp := Nat × Nat × Nat

def u32Max : Nat := 4294967295

/-- `is_quoted_triple_id`: `id & QUOTED_TRIPLE_ID_BIT != 0` -/
def isQuoted (id : Nat) : Bool := (id &&& quotedBit) != 0

structure QStore where
  i2c : List (Nat × Comp)       -- id_to_components
  c2i : List (Comp × Nat)       -- components_to_id
  next : Nat                    -- next_qt_id
deriving Repr

def QStore.empty : QStore := ⟨[], [], quotedBit⟩

/-- `QuotedTripleStore::encode`; `next_qt_id += 1` panics at `u32::MAX` (overflow checks are on in the
    repository's test profile and in the harness) -/
def QStore.encode (q : QStore) (c : Comp) : Except Err (QStore × Nat) :=
  match q.c2i.lookup c with
  | some id => .ok (q, id)
  | none =>
    if q.next < u32Max then
      .ok (⟨put q.i2c q.next c, put q.c2i c q.next, q.next + 1⟩, q.next)
    else .error .panic

/-- `QuotedTripleStore::decode` -/
def QStore.decode (q : QStore) (id : Nat) : Option Comp := q.i2c.lookup id

/-! ## lexical terms, `decode_term` / `decode_any` -/

inductive LTerm
  | plain (s : String)
  | quoted (s p o : LTerm)
deriving DecidableEq, Repr

/-- recursion budget that suffices for `id` in a store whose nesting is well-founded (a component that is a quoted
    id is smaller than the id it is a component of): every level of nesting strictly decreases the id -/
def fuelFor (id : Nat) : Nat := id + 1

/-- `Dictionary::decode_term` (returns the term tree instead of the `<< s p o >>` string; `?` = early `None`) -/
def decodeTermF (d : Dict) (q : QStore) : Nat → Nat → Except Err (Option LTerm)
  | 0, _ => .error .fuel
  | f + 1, id =>
    if isQuoted id then
      match q.decode id with
      | none => .ok none
      | some (s, p, o) =>
        match decodeTermF d q f s with
        | .ok (some ts) =>
          match decodeTermF d q f p with
          | .ok (some tp) =>
            match decodeTermF d q f o with
            | .ok (some to) => .ok (some (.quoted ts tp to))
            | r => r
          | r => r
        | r => r
    else .ok ((d.decode id).map .plain)

/-- `SparqlDatabase::decode_any` = `decode_term` (both branch on `is_quoted_triple_id` first) -/
def decodeTerm (d : Dict) (q : QStore) (id : Nat) : Except Err (Option LTerm) :=
  decodeTermF d q (fuelFor id) id

/-- `SparqlDatabase::encode_term_star` on an already parsed term tree (the string splitting / `<…>` / `"…"`
    stripping is not modelled) -/
def encodeStar (d : Dict) (q : QStore) : LTerm → Except Err (Dict × QStore × Nat)
  | .plain s =>
    match d.encode s with
    | .error e => .error e
    | .ok (d1, id) => .ok (d1, q, id)
  | .quoted s p o =>
    match encodeStar d q s with
    | .error e => .error e
    | .ok (d1, q1, si) =>
    match encodeStar d1 q1 p with
    | .error e => .error e
    | .ok (d2, q2, pi) =>
    match encodeStar d2 q2 o with
    | .error e => .error e
    | .ok (d3, q3, oi) =>
    match q3.encode (si, pi, oi) with
    | .error e => .error e
    | .ok (q4, id) => .ok (d3, q4, id)

/-! ## `reencode_term_id` -/

/-- the mutable target of a re-encoding: merged dictionary, merged quoted store, translation cache -/
structure Tgt where
  d : Dict
  q : QStore
  cache : List (Nat × Nat)      -- translated_ids
deriving Repr

def reencodeF (sd : Dict) (sq : QStore) : Nat → Nat → Tgt → Except Err (Tgt × Nat)
  | 0, _, _ => .error .fuel
  | f + 1, id, t =>
    match t.cache.lookup id with
    | some tr => .ok (t, tr)
    | none =>
      if isQuoted id then
        match sq.decode id with
        | none => .error .panic
        | some (s, p, o) =>
          match reencodeF sd sq f s t with
          | .error e => .error e
          | .ok (t1, s') =>
          match reencodeF sd sq f p t1 with
          | .error e => .error e
          | .ok (t2, p') =>
          match reencodeF sd sq f o t2 with
          | .error e => .error e
          | .ok (t3, o') =>
          match t3.q.encode (s', p', o') with
          | .error e => .error e
          | .ok (q', id') => .ok (⟨t3.d, q', put t3.cache id id'⟩, id')
      else
        match sd.decode id with
        | none => .error .panic
        | some lex =>
          match t.d.encode lex with
          | .error e => .error e
          | .ok (d', id') => .ok (⟨d', t.q, put t.cache id id'⟩, id')

def reencode (sd : Dict) (sq : QStore) (id : Nat) (t : Tgt) : Except Err (Tgt × Nat) :=
  reencodeF sd sq (fuelFor id) id t

def reencList (sd : Dict) (sq : QStore) : List Nat → Tgt → Except Err (Tgt × List Nat)
  | [], t => .ok (t, [])
  | id :: rest, t =>
    match reencode sd sq id t with
    | .error e => .error e
    | .ok (t1, x) =>
      match reencList sd sq rest t1 with
      | .error e => .error e
      | .ok (t2, xs) => .ok (t2, x :: xs)

/-! ## databases and `SparqlDatabase::union` -/

structure QuadI where
  s : Nat
  p : Nat
  o : Nat
  g : Option Nat                -- `GraphId::Default` / `GraphId::Named(id)`
deriving DecidableEq, Repr

abbrev Seed := Comp × Nat       -- `(Triple, probability)`; probabilities are carried, never computed with

/-- what `union` reads of a `SparqlDatabase`.  `graphs` = `dataset_index.named_graphs()`, `quads` =
    `dataset_index.all_quads()` — that these two read paths return exactly the graph identities / quads
    written is C04's theorem (`Kolibrie.Props.C04.read_graphs`, `read_all_quads`). -/
structure DB where
  d : Dict
  q : QStore
  graphs : List Nat
  quads : List QuadI
  seeds : List Seed             -- probability_seeds : HashMap<Triple, f64>
deriving Repr

def DB.empty : DB := ⟨Dict.empty, QStore.empty, [], [], []⟩

/-- `DatasetIndex::create_graph(GraphId::Named g)` -/
def DB.createGraph (db : DB) (g : Nat) : DB := { db with graphs := insL db.graphs g }

/-- `DatasetIndex::insert_quad`: records the graph identity, then the quad -/
def DB.insertQuad (db : DB) (qd : QuadI) : DB :=
  let gs := match qd.g with | some g => insL db.graphs g | none => db.graphs
  { db with graphs := gs, quads := insL db.quads qd }

/-- `probability_seeds.insert` -/
def DB.setSeed (db : DB) (t : Comp) (p : Nat) : DB := { db with seeds := put db.seeds t p }

def reencTriple (sd : Dict) (sq : QStore) (c : Comp) (t : Tgt) : Except Err (Tgt × Comp) :=
  match reencList sd sq [c.1, c.2.1, c.2.2] t with
  | .ok (t', [s, p, o]) => .ok (t', (s, p, o))
  | .ok _ => .error .fuel          -- unreachable: `reencList` preserves length
  | .error e => .error e

def reencQuad (sd : Dict) (sq : QStore) (qd : QuadI) (t : Tgt) : Except Err (Tgt × QuadI) :=
  match reencTriple sd sq (qd.s, qd.p, qd.o) t with
  | .error e => .error e
  | .ok (t1, (s, p, o)) =>
    match qd.g with
    | none => .ok (t1, ⟨s, p, o, none⟩)
    | some g =>
      match reencode sd sq g t1 with
      | .error e => .error e
      | .ok (t2, g') => .ok (t2, ⟨s, p, o, some g'⟩)

def reencQuads (sd : Dict) (sq : QStore) : List QuadI → Tgt → Except Err (Tgt × List QuadI)
  | [], t => .ok (t, [])
  | qd :: rest, t =>
    match reencQuad sd sq qd t with
    | .error e => .error e
    | .ok (t1, x) =>
      match reencQuads sd sq rest t1 with
      | .error e => .error e
      | .ok (t2, xs) => .ok (t2, x :: xs)

def reencSeeds (sd : Dict) (sq : QStore) : List Seed → Tgt → Except Err (Tgt × List Seed)
  | [], t => .ok (t, [])
  | (c, pr) :: rest, t =>
    match reencTriple sd sq c t with
    | .error e => .error e
    | .ok (t1, c') =>
      match reencSeeds sd sq rest t1 with
      | .error e => .error e
      | .ok (t2, xs) => .ok (t2, (c', pr) :: xs)

/-- `sort_unstable` on ids (insertion sort: structural, so the model also evaluates inside the kernel) -/
def insSorted (a : Nat) : List Nat → List Nat
  | [] => [a]
  | b :: l => if a ≤ b then a :: b :: l else b :: insSorted a l

def sortNat (l : List Nat) : List Nat := l.foldr insSorted []

/-- the keys of a `HashMap` (`put`/`putNew` keep them unique) -/
def keys {κ ν} (l : List (κ × ν)) : List κ := l.map (·.1)

/-- `SparqlDatabase::union(&mut self, other)` with `a = self`, `b = other` -/
def union (a b : DB) : Except Err DB :=
  let t0 : Tgt := ⟨a.d, a.q, []⟩
  -- "Preserve the complete lexical dictionary": every dictionary id of `other`, ascending
  match reencList b.d b.q (sortNat (keys b.d.i2s)) t0 with
  | .error e => .error e
  | .ok (t1, _) =>
  -- "Preserve even currently-unreferenced quoted terms": every quoted id of `other`, ascending
  match reencList b.d b.q (sortNat (keys b.q.i2c)) t1 with
  | .error e => .error e
  | .ok (t2, _) =>
  -- fresh dataset index: self's graph identities, then self's quads
  let ds0 : DB := a.quads.foldl DB.insertQuad (a.graphs.foldl DB.createGraph DB.empty)
  -- other's graph identities, translated
  match reencList b.d b.q b.graphs t2 with
  | .error e => .error e
  | .ok (t3, gs) =>
  let ds1 := gs.foldl DB.createGraph ds0
  match reencQuads b.d b.q b.quads t3 with
  | .error e => .error e
  | .ok (t4, qs) =>
  let ds2 := qs.foldl DB.insertQuad ds1
  match reencSeeds b.d b.q b.seeds t4 with
  | .error e => .error e
  | .ok (t5, ss) =>
  .ok ⟨t5.d, t5.q, ds2.graphs, ds2.quads, ss.foldl (fun acc e => put acc e.1 e.2) a.seeds⟩

/-! ## building a database through the public API -/

inductive BOp
  | enc (s : String)                       -- `Dictionary::encode`
  | qenc (c : Comp)                        -- `QuotedTripleStore::encode`
  | star (t : LTerm)                       -- `SparqlDatabase::encode_term_star`
  | quad (qd : QuadI)                      -- `SparqlDatabase::add_quad` with explicit ids
  | create (g : Nat)                       -- `dataset_index.create_graph(Named g)`
  | seed (c : Comp) (p : Nat)              -- `probability_seeds.insert`
  | triple (s p o : String)                -- `add_triple_parts`
  | tagged (s p o : String) (pr : Nat)     -- `add_tagged_triple`
  | quadParts (s p o : LTerm) (g : String) -- `add_quad_parts`
deriving Repr

/-- three `dict.encode` calls in a row (`add_triple_parts`, `add_tagged_triple`) -/
def enc3 (d : Dict) (s p o : String) : Except Err (Dict × Comp) :=
  match d.encode s with
  | .error e => .error e
  | .ok (d1, si) =>
  match d1.encode p with
  | .error e => .error e
  | .ok (d2, pi) =>
  match d2.encode o with
  | .error e => .error e
  | .ok (d3, oi) => .ok (d3, (si, pi, oi))

/-- one API call; a panicking call leaves the database unchanged up to the sub-calls already made -/
def DB.step (db : DB) : BOp → Except Err DB
  | .enc s => match db.d.encode s with
      | .ok (d, _) => .ok { db with d := d }
      | .error e => .error e
  | .qenc c => match db.q.encode c with
      | .ok (q, _) => .ok { db with q := q }
      | .error e => .error e
  | .star t => match encodeStar db.d db.q t with
      | .ok (d, q, _) => .ok { db with d := d, q := q }
      | .error e => .error e
  | .quad qd => .ok (db.insertQuad qd)
  | .create g => .ok (db.createGraph g)
  | .seed c p => .ok (db.setSeed c p)
  | .triple s p o => match enc3 db.d s p o with
      | .ok (d, (si, pi, oi)) => .ok ({ db with d := d }.insertQuad ⟨si, pi, oi, none⟩)
      | .error e => .error e
  | .tagged s p o pr => match enc3 db.d s p o with
      | .ok (d, (si, pi, oi)) => .ok (({ db with d := d }.insertQuad ⟨si, pi, oi, none⟩).setSeed (si, pi, oi) pr)
      | .error e => .error e
  | .quadParts s p o g =>
      match encodeStar db.d db.q s with
      | .error e => .error e
      | .ok (d1, q1, si) =>
      match encodeStar d1 q1 p with
      | .error e => .error e
      | .ok (d2, q2, pi) =>
      match encodeStar d2 q2 o with
      | .error e => .error e
      | .ok (d3, q3, oi) =>
      match d3.encode g with
      | .error e => .error e
      | .ok (d4, gi) => .ok ({ db with d := d4, q := q3 }.insertQuad ⟨si, pi, oi, some gi⟩)

/-- a whole build script; the first panic aborts it -/
def DB.build : List BOp → DB → Except Err DB
  | [], db => .ok db
  | op :: rest, db => match db.step op with
      | .ok db' => DB.build rest db'
      | .error e => .error e

end Kolibrie.Dict
