import Kolibrie.Model.Terms
import Kolibrie.Extracted
/-
Model of `datalog/src/reasoning/backward_chaining.rs` — C18 — **with** `fixes/C18_rename_apart_from_goal.patch`
(generated names `v{n}` skip the names of the goal's own variables).

`unify_terms`, `resolve_term`, `substitute`, `rename_rule_variables`, `backward_chaining_helper` are transcribed;
`HashMap<String, Term>` is an association list (newest binding first; a key is only ever inserted when it is
unbound, so `insert` is `cons`).  Quoted-triple terms, rule filters and negative premises are out of scope (the
code ignores `filters` and drops `negative_premise` here).  Import-free apart from the extracted `MAX_DEPTH`.
-/
namespace Kolibrie.Sld
open Kolibrie.Terms

abbrev Subst := List (String × Term)

def lookupT (v : String) : Subst → Option Term
  | [] => none
  | (w, t) :: b => if v = w then some t else lookupT v b

/-- `resolve_term` with explicit fuel (the Rust recursion is unbounded; a chain longer than the number of
    bindings would be a cycle) -/
def resolve : Nat → Subst → Term → Term
  | 0, _, t => t
  | _ + 1, _, .const c => .const c
  | n + 1, b, .var v =>
    match lookupT v b with
    | some t => resolve n b t
    | none => .var v

def resolveT (b : Subst) (t : Term) : Term := resolve (b.length + 1) b t

/-- `substitute` (`substitute_term` coincides with `resolve_term` on variables and constants) -/
def substitute (b : Subst) (q : Pattern) : Pattern := ⟨resolveT b q.s, resolveT b q.p, resolveT b q.o⟩

/-- `unify_terms` -/
def unifyTerms (t1 t2 : Term) (b : Subst) : Option Subst :=
  match resolveT b t1, resolveT b t2 with
  | .const c1, .const c2 => if c1 = c2 then some b else none
  | .var v, .const c => some ((v, .const c) :: b)
  | .const c, .var v => some ((v, .const c) :: b)
  | .var v1, .var v2 => if v1 ≠ v2 then some ((v1, .var v2) :: b) else some b

/-- `unify_patterns` -/
def unifyPatterns (p1 p2 : Pattern) (b : Subst) : Option Subst :=
  match unifyTerms p1.s p2.s b with
  | none => none
  | some b1 =>
    match unifyTerms p1.p p2.p b1 with
    | none => none
    | some b2 => unifyTerms p1.o p2.o b2

/-! ### `rename_rule_variables` -/

/-- `format!("v{}", n)` -/
def genName (n : Nat) : String := "v" ++ toString n

/-- the `while reserved.contains(&new_v)` loop of the fix; `fuel > reserved.length` always suffices
    (`Lemmas/Sld.lean: freshName_spec`) -/
def freshName (reserved : List String) : Nat → Nat → String × Nat
  | 0, c => (genName c, c + 1)
  | fuel + 1, c => if genName c ∈ reserved then freshName reserved fuel (c + 1) else (genName c, c + 1)

abbrev VarMap := List (String × String)

def lookupV (v : String) : VarMap → Option String
  | [] => none
  | (w, n) :: m => if v = w then some n else lookupV v m

structure RState where
  map : VarMap
  counter : Nat

/-- `rename_term` -/
def renameTerm (reserved : List String) (t : Term) (st : RState) : Term × RState :=
  match t with
  | .const c => (.const c, st)
  | .var v =>
    match lookupV v st.map with
    | some nv => (.var nv, st)
    | none =>
      let (nv, c') := freshName reserved (reserved.length + 1) st.counter
      (.var nv, ⟨(v, nv) :: st.map, c'⟩)

def renamePat (reserved : List String) (q : Pattern) (st : RState) : Pattern × RState :=
  let (s, st1) := renameTerm reserved q.s st
  let (p, st2) := renameTerm reserved q.p st1
  let (o, st3) := renameTerm reserved q.o st2
  (⟨s, p, o⟩, st3)

def renamePats (reserved : List String) : List Pattern → RState → List Pattern × RState
  | [], st => ([], st)
  | q :: qs, st =>
    let (q', st1) := renamePat reserved q st
    let (qs', st2) := renamePats reserved qs st1
    (q' :: qs', st2)

/-- `rename_rule_variables`: premises first, then conclusions, one shared map -/
def renameRule (reserved : List String) (r : Rule) (c : Nat) : Rule × Nat :=
  let (prem, st1) := renamePats reserved r.premise ⟨[], c⟩
  let (concl, st2) := renamePats reserved r.conclusion st1
  (⟨prem, concl⟩, st2.counter)

/-! ### `backward_chaining_helper` -/

/-- the recursive call one level deeper: query, bindings, counter ↦ results, counter -/
abbrev Rec := Pattern → Subst → Nat → List Subst × Nat

/-- `for b in &premise_results { sub_res = helper(prem, b, depth+1, counter); new.extend(sub_res) }` -/
def solveEach (rec : Rec) (prem : Pattern) : List Subst → Nat → List Subst × Nat
  | [], c => ([], c)
  | b :: bs, c =>
    let (r, c1) := rec prem b c
    let (rs, c2) := solveEach rec prem bs c1
    (r ++ rs, c2)

/-- `for prem in &renamed_rule.premise { … }` -/
def solvePremises (rec : Rec) : List Pattern → List Subst → Nat → List Subst × Nat
  | [], bs, c => (bs, c)
  | p :: ps, bs, c =>
    let (bs', c1) := solveEach rec p bs c
    solvePremises rec ps bs' c1

/-- `for conclusion in &renamed_rule.conclusion { if let Some(rb) = unify_patterns(conclusion, &substituted, bindings) … }` -/
def tryConclusions (rec : Rec) (sub : Pattern) (b : Subst) (prems : List Pattern) :
    List Pattern → Nat → List Subst × Nat
  | [], c => ([], c)
  | concl :: cs, c =>
    match unifyPatterns concl sub b with
    | none => tryConclusions rec sub b prems cs c
    | some rb =>
      let (r, c1) := solvePremises rec prems [rb] c
      let (rs, c2) := tryConclusions rec sub b prems cs c1
      (r ++ rs, c2)

/-- `for rule in &self.rules { let renamed_rule = rename_rule_variables(rule, counter, reserved); … }` -/
def tryRules (rec : Rec) (reserved : List String) (sub : Pattern) (b : Subst) :
    List Rule → Nat → List Subst × Nat
  | [], c => ([], c)
  | rule :: rs, c =>
    let (rr, c1) := renameRule reserved rule c
    let (r, c2) := tryConclusions rec sub b rr.premise rr.conclusion c1
    let (rest, c3) := tryRules rec reserved sub b rs c2
    (r ++ rest, c3)

/-- the body of `backward_chaining_helper` below the depth test -/
def bcStep (reserved : List String) (facts : List Fact) (rules : List Rule) (rec : Rec) : Rec :=
  fun query b c =>
    let sub := substitute b query
    let factRes := facts.filterMap fun f => unifyPatterns sub f.toPattern b
    let (ruleRes, c') := tryRules rec reserved sub b rules c
    (factRes ++ ruleRes, c')

/-- `backward_chaining_helper` with `n = MAX_DEPTH + 1 - depth` levels left (`depth > MAX_DEPTH ⇒ []`) -/
def bcAux (reserved : List String) (facts : List Fact) (rules : List Rule) : Nat → Rec
  | 0 => fun _ _ c => ([], c)
  | n + 1 => bcStep reserved facts rules (bcAux reserved facts rules n)

/-- `Reasoner::backward_chaining` for an arbitrary depth limit -/
def bcWith (maxDepth : Nat) (facts : List Fact) (rules : List Rule) (goal : Pattern) : List Subst :=
  (bcAux goal.vars facts rules (maxDepth + 1) goal [] 0).1

/-- `Reasoner::backward_chaining` with the `MAX_DEPTH` found in the source -/
def bc (facts : List Fact) (rules : List Rule) (goal : Pattern) : List Subst :=
  bcWith Kolibrie.Extracted.bcMaxDepth facts rules goal

end Kolibrie.Sld
