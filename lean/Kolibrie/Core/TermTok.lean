import Kolibrie.Core.Proto
import Kolibrie.Model.Lines
/-
Protocol syntax of lexical terms and quads shared by the C14 and C13 drivers:
  term = hex(UTF-8 of the stored string) (`-` = empty) | `[`t`;`t`;`t`]` (quoted triple);  quad = `t,t,t,g` with g = `_` | term
-/
namespace Kolibrie.TermTok
open Kolibrie.Proto Kolibrie.Lines

def isHexish (c : Char) : Bool := ('0' ≤ c && c ≤ '9') || ('a' ≤ c && c ≤ 'f') || c == '-'

def parseTerm : Nat → List Char → Option (LTerm × List Char)
  | 0, _ => none
  | f + 1, '[' :: r => do
      let (a, r) ← parseTerm f r
      let r ← (match r with | ';' :: r => some r | _ => none)
      let (b, r) ← parseTerm f r
      let r ← (match r with | ';' :: r => some r | _ => none)
      let (c, r) ← parseTerm f r
      let r ← (match r with | ']' :: r => some r | _ => none)
      pure (.quoted a b c, r)
  | _ + 1, cs =>
      let h := cs.takeWhile isHexish
      if h.isEmpty then none else (unhex (String.ofList h)).map fun s => (.plain s.toList, cs.drop h.length)

def parseQuadTok (t : String) : Option LQuad := do
  let cs := t.toList
  let f := cs.length + 1
  let (s, r) ← parseTerm f cs
  let r ← (match r with | ',' :: r => some r | _ => none)
  let (p, r) ← parseTerm f r
  let r ← (match r with | ',' :: r => some r | _ => none)
  let (o, r) ← parseTerm f r
  let r ← (match r with | ',' :: r => some r | _ => none)
  if r == ['_'] then pure ⟨s, p, o, none⟩ else do
    let (g, r) ← parseTerm f r
    if r.isEmpty then pure ⟨s, p, o, some g⟩ else none

def showTerm : LTerm → String
  | .plain s => hex (String.ofList s)
  | .quoted a b c => "[" ++ showTerm a ++ ";" ++ showTerm b ++ ";" ++ showTerm c ++ "]"

def showQuad (q : LQuad) : String :=
  showTerm q.s ++ "," ++ showTerm q.p ++ "," ++ showTerm q.o ++ "," ++ (match q.g with | none => "_" | some g => showTerm g)

def dedupSorted : List String → List String
  | a :: b :: rest => if a == b then dedupSorted (b :: rest) else a :: dedupSorted (b :: rest)
  | l => l

def showQuads (qs : List LQuad) : String :=
  joinWith " " (dedupSorted (sortBy (fun a b => !(b < a)) (qs.map showQuad)))

end Kolibrie.TermTok
