/-
Line-protocol helpers shared by all drivers (import-free).
One request per line: `<model> <payload tokens…>`; one reply per line.
-/
namespace Kolibrie.Proto

def splitOnChar (s : String) (c : Char) : List String :=
  (s.splitOn (String.singleton c))

/-- tokens of a line (space separated, empty tokens dropped) -/
def tokens (line : String) : List String :=
  (line.trimAscii.toString.splitOn " ").filter (· ≠ "")

def natList (s : String) (sep : Char := ',') : Option (List Nat) :=
  if s.isEmpty then some [] else (splitOnChar s sep).mapM (·.toNat?)

/-- optional nat: `_` is `none` -/
def optNat (s : String) : Option (Option Nat) :=
  if s == "_" then some none else s.toNat?.map some

def hexVal (c : Char) : Option Nat :=
  if '0' ≤ c ∧ c ≤ '9' then some (c.toNat - '0'.toNat)
  else if 'a' ≤ c ∧ c ≤ 'f' then some (c.toNat - 'a'.toNat + 10)
  else none

def hexBytes : List Char → Option (List UInt8)
  | [] => some []
  | [_] => none
  | a :: b :: rest => do
      let x ← hexVal a; let y ← hexVal b; let r ← hexBytes rest
      pure (UInt8.ofNat (x * 16 + y) :: r)

/-- hex-encoded UTF-8 → String (`-` is the empty string) -/
def unhex (s : String) : Option String :=
  if s == "-" then some "" else do
    let bs ← hexBytes s.toList
    String.fromUTF8? (ByteArray.mk bs.toArray)

def hexDigit (n : Nat) : Char :=
  if n < 10 then Char.ofNat (n + '0'.toNat) else Char.ofNat (n - 10 + 'a'.toNat)

def hex (s : String) : String :=
  if s.isEmpty then "-" else
  String.ofList (s.toUTF8.toList.flatMap (fun b => [hexDigit (b.toNat / 16), hexDigit (b.toNat % 16)]))

/-- FNV-1a, 64 bit, over the UTF-8 bytes -/
def fnv (s : String) : UInt64 :=
  s.toUTF8.foldl (fun h b => (h ^^^ b.toUInt64) * 1099511628211) 14695981039346656037

def joinWith (sep : String) (l : List String) : String := sep.intercalate l

/-- insertion sort with a Boolean `≤` (small lists; used only for canonical output) -/
def insSorted {α} (le : α → α → Bool) (a : α) : List α → List α
  | [] => [a]
  | b :: l => if le a b then a :: b :: l else b :: insSorted le a l

def sortBy {α} (le : α → α → Bool) (l : List α) : List α := l.mergeSort le

def natListLe : List Nat → List Nat → Bool
  | [], _ => true
  | _ :: _, [] => false
  | a :: l, b :: r => if a < b then true else if b < a then false else natListLe l r

end Kolibrie.Proto
