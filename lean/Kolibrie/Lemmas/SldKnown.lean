import Kolibrie.Lemmas.SldFresh
/-! Helper lemmas for C18, part 3: which names occur where; completeness of unification; renaming apart. -/
namespace Kolibrie.Sld
open Kolibrie.Terms Kolibrie.SldSpec

section
variable (reserved : List String)

def TermKnown (c : Nat) (t : Term) : Prop := ∀ v, t = .var v → Known reserved c v
def PatKnown (c : Nat) (q : Pattern) : Prop := TermKnown reserved c q.s ∧ TermKnown reserved c q.p ∧ TermKnown reserved c q.o
def SubstKnown (c : Nat) (b : Subst) : Prop := ∀ v t, (v, t) ∈ b → Known reserved c v ∧ TermKnown reserved c t
/-- `σ'` agrees with `σ` on every name known at counter `c` -/
def AgreeOn (c : Nat) (σ σ' : String → Nat) : Prop := ∀ x, Known reserved c x → σ' x = σ x

variable {reserved}

theorem TermKnown.mono {c c' t} (h : c ≤ c') (hk : TermKnown reserved c t) : TermKnown reserved c' t :=
  fun v hv => (hk v hv).mono h
theorem PatKnown.mono {c c' q} (h : c ≤ c') (hk : PatKnown reserved c q) : PatKnown reserved c' q :=
  ⟨hk.1.mono h, hk.2.1.mono h, hk.2.2.mono h⟩
theorem SubstKnown.mono {c c' b} (h : c ≤ c') (hk : SubstKnown reserved c b) : SubstKnown reserved c' b :=
  fun v t hm => ⟨(hk v t hm).1.mono h, (hk v t hm).2.mono h⟩
theorem AgreeOn.weaken {c c' σ σ'} (h : c ≤ c') (ha : AgreeOn reserved c' σ σ') : AgreeOn reserved c σ σ' :=
  fun x hx => ha x (hx.mono h)
theorem AgreeOn.trans {c c' σ σ1 σ2} (h : c ≤ c') (h1 : AgreeOn reserved c σ σ1) (h2 : AgreeOn reserved c' σ1 σ2) :
    AgreeOn reserved c σ σ2 := fun x hx => by rw [h2 x (hx.mono h), h1 x hx]
theorem AgreeOn.refl (c σ) : AgreeOn reserved c σ σ := fun _ _ => rfl

theorem termKnown_const (c k) : TermKnown reserved c (.const k) := fun v h => by cases h

theorem eval_agree {c σ σ' t} (ha : AgreeOn reserved c σ σ') (hk : TermKnown reserved c t) : t.eval σ' = t.eval σ := by
  cases t with
  | const k => rfl
  | var v => exact ha v (hk v rfl)

theorem inst_agree {c σ σ' q} (ha : AgreeOn reserved c σ σ') (hk : PatKnown reserved c q) : q.inst σ' = q.inst σ := by
  simp [Pattern.inst, eval_agree ha hk.1, eval_agree ha hk.2.1, eval_agree ha hk.2.2]

theorem sat_agree {c σ σ' b} (ha : AgreeOn reserved c σ σ') (hk : SubstKnown reserved c b) (hs : Sat σ b) : Sat σ' b := by
  intro v t hm
  rw [ha v (hk v t hm).1, eval_agree ha (hk v t hm).2]
  exact hs v t hm

theorem resolve_known {c b} (hb : SubstKnown reserved c b) : ∀ (n : Nat) (t : Term), TermKnown reserved c t →
    TermKnown reserved c (resolve n b t) := by
  intro n
  induction n with
  | zero => intro t h; exact h
  | succ n ih =>
    intro t h
    cases t with
    | const k => exact h
    | var v =>
      simp only [resolve]
      split
      · rename_i u hu; exact ih u (hb v u (lookupT_mem hu)).2
      · exact h

theorem substitute_known {c b q} (hb : SubstKnown reserved c b) (hq : PatKnown reserved c q) :
    PatKnown reserved c (substitute b q) :=
  ⟨resolve_known hb _ _ hq.1, resolve_known hb _ _ hq.2.1, resolve_known hb _ _ hq.2.2⟩

theorem substKnown_cons {c v t b} (hv : Known reserved c v) (ht : TermKnown reserved c t) (hb : SubstKnown reserved c b) :
    SubstKnown reserved c ((v, t) :: b) := by
  intro w u hm
  rcases List.mem_cons.1 hm with h | h
  · cases h; exact ⟨hv, ht⟩
  · exact hb w u h

theorem unifyTerms_known {c t1 t2 b b'} (hb : SubstKnown reserved c b) (h1 : TermKnown reserved c t1)
    (h2 : TermKnown reserved c t2) (h : unifyTerms t1 t2 b = some b') : SubstKnown reserved c b' := by
  have r1 := resolve_known hb (b.length + 1) t1 h1
  have r2 := resolve_known hb (b.length + 1) t2 h2
  unfold unifyTerms at h
  unfold resolveT at h
  split at h
  · split at h
    · cases h; exact hb
    · cases h
  · rename_i v k e1 e2
    cases h
    exact substKnown_cons (by rw [e1] at r1; exact r1 v rfl) (termKnown_const _ _) hb
  · rename_i k v e1 e2
    cases h
    exact substKnown_cons (by rw [e2] at r2; exact r2 v rfl) (termKnown_const _ _) hb
  · rename_i v1 v2 e1 e2
    split at h
    · cases h
      exact substKnown_cons (by rw [e1] at r1; exact r1 v1 rfl) (by rw [e2] at r2; exact r2) hb
    · cases h; exact hb

theorem unifyPatterns_known {c p1 p2 b b'} (hb : SubstKnown reserved c b) (h1 : PatKnown reserved c p1)
    (h2 : PatKnown reserved c p2) (h : unifyPatterns p1 p2 b = some b') : SubstKnown reserved c b' := by
  unfold unifyPatterns at h
  split at h
  · cases h
  · rename_i b1 e1
    split at h
    · cases h
    · rename_i b2 e2
      have k1 := unifyTerms_known hb h1.1 h2.1 e1
      have k2 := unifyTerms_known k1 h1.2.1 h2.2.1 e2
      exact unifyTerms_known k2 h1.2.2 h2.2.2 h

theorem patKnown_fact (c : Nat) (f : Fact) : PatKnown reserved c f.toPattern :=
  ⟨termKnown_const _ _, termKnown_const _ _, termKnown_const _ _⟩

end

/-! ### completeness of unification -/

theorem unifyTerms_complete {σ t1 t2 b} (hs : Sat σ b) (he : t1.eval σ = t2.eval σ) :
    ∃ b', unifyTerms t1 t2 b = some b' ∧ Sat σ b' := by
  have key : (resolveT b t1).eval σ = (resolveT b t2).eval σ := by
    rw [resolveT_eval hs t1, resolveT_eval hs t2]; exact he
  unfold unifyTerms
  cases h1 : resolveT b t1 with
  | const c1 =>
    cases h2 : resolveT b t2 with
    | const c2 =>
      rw [h1, h2] at key
      have : c1 = c2 := key
      exact ⟨b, by simp [this], hs⟩
    | var v =>
      rw [h1, h2] at key
      exact ⟨(v, .const c1) :: b, rfl, sat_cons.2 ⟨key.symm, hs⟩⟩
  | var v1 =>
    cases h2 : resolveT b t2 with
    | const c2 =>
      rw [h1, h2] at key
      exact ⟨(v1, .const c2) :: b, rfl, sat_cons.2 ⟨key, hs⟩⟩
    | var v2 =>
      rw [h1, h2] at key
      by_cases hv : v1 = v2
      · exact ⟨b, by simp [hv], hs⟩
      · exact ⟨(v1, .var v2) :: b, by simp [hv], sat_cons.2 ⟨key, hs⟩⟩

theorem unifyPatterns_complete {σ p1 p2 b} (hs : Sat σ b) (he : p1.inst σ = p2.inst σ) :
    ∃ b', unifyPatterns p1 p2 b = some b' ∧ Sat σ b' := by
  simp only [Pattern.inst, Fact.mk.injEq] at he
  obtain ⟨b1, u1, s1⟩ := unifyTerms_complete hs he.1
  obtain ⟨b2, u2, s2⟩ := unifyTerms_complete s1 he.2.1
  obtain ⟨b3, u3, s3⟩ := unifyTerms_complete s2 he.2.2
  exact ⟨b3, by simp [unifyPatterns, u1, u2, u3], s3⟩

end Kolibrie.Sld
