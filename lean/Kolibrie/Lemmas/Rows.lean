import Kolibrie.Model.Engine
/-! Canonical solution mappings: rows are association lists strictly sorted by variable.
    Lookup/insert laws, extensionality, and the algebra of `mergeRows` (core Lean only). -/
namespace Kolibrie.Engine
open List

/-- strictly increasing keys -/
def Row.WF (r : Row) : Prop := r.Pairwise (fun a b => a.1 < b.1)

theorem Row.wf_nil : Row.WF [] := Pairwise.nil

theorem Row.get_nil (v : Var) : Row.get [] v = none := rfl

theorem Row.get_cons (k : Var) (x : Val) (r : Row) (v : Var) :
    Row.get ((k, x) :: r) v = if k = v then some x else Row.get r v := by
  simp [Row.get]

theorem Row.get_insert (r : Row) (v : Var) (x : Val) (w : Var) :
    Row.get (Row.insert r v x) w = if w = v then some x else Row.get r w := by
  induction r with
  | nil =>
    simp only [Row.insert, Row.get_cons, Row.get_nil]
    by_cases h : w = v
    · subst h; simp
    · have : ¬ v = w := fun e => h e.symm
      simp [h, this]
  | cons e rest ih =>
    obtain ⟨k, y⟩ := e
    unfold Row.insert
    by_cases h1 : v < k
    · simp only [h1, if_true, Row.get_cons]
      by_cases h : w = v
      · subst h; simp
      · have : ¬ v = w := fun e => h e.symm
        simp [h, this]
    · simp only [h1, if_false]
      by_cases h2 : (v == k) = true
      · have hvk : v = k := by simpa using h2
        subst hvk
        simp only [beq_self_eq_true, if_true, Row.get_cons]
        by_cases h : w = v
        · subst h; simp
        · have : ¬ v = w := fun e => h e.symm
          simp [h, this]
      · have hvk : ¬ v = k := by simpa using h2
        have h2' : (v == k) = false := by simpa using hvk
        simp only [h2', Bool.false_eq_true, if_false, Row.get_cons, ih]
        by_cases h : w = v
        · subst h
          have : ¬ k = w := fun e => hvk e.symm
          simp [this]
        · simp [h]

theorem Row.get_insert_self (r : Row) (v : Var) (x : Val) : Row.get (Row.insert r v x) v = some x := by
  simp [Row.get_insert]

theorem Row.get_insert_ne (r : Row) (v : Var) (x : Val) (w : Var) (h : w ≠ v) :
    Row.get (Row.insert r v x) w = Row.get r w := by
  simp [Row.get_insert, h]

/-- keys of `insert` -/
theorem Row.mem_insert_key (r : Row) (v : Var) (x : Val) (e : Var × Val) (h : e ∈ Row.insert r v x) :
    e.1 = v ∨ e ∈ r := by
  induction r with
  | nil => simp [Row.insert] at h; left; rw [h]
  | cons e' rest ih =>
    obtain ⟨k, y⟩ := e'
    unfold Row.insert at h
    by_cases h1 : v < k
    · simp only [h1, if_true, mem_cons] at h
      rcases h with rfl | h | h
      · left; rfl
      · right; simp [h]
      · right; simp [h]
    · simp only [h1, if_false] at h
      by_cases h2 : (v == k) = true
      · have hvk : v = k := by simpa using h2
        simp only [h2, if_true, mem_cons] at h
        rcases h with rfl | h
        · left; exact hvk.symm
        · right; simp [h]
      · have h2' : (v == k) = false := by simpa using h2
        simp only [h2', Bool.false_eq_true, if_false, mem_cons] at h
        rcases h with h | h
        · right; simp [h]
        · rcases ih h with a | a
          · left; exact a
          · right; simp [a]

theorem Row.wf_insert (r : Row) (v : Var) (x : Val) (h : Row.WF r) : Row.WF (Row.insert r v x) := by
  induction r with
  | nil => simp [Row.insert, Row.WF]
  | cons e rest ih =>
    obtain ⟨k, y⟩ := e
    have hrest : Row.WF rest := (pairwise_cons.1 h).2
    have hk : ∀ e ∈ rest, k < e.1 := (pairwise_cons.1 h).1
    unfold Row.insert
    by_cases h1 : v < k
    · simp only [h1, if_true]
      refine pairwise_cons.2 ⟨?_, h⟩
      intro e he
      rcases mem_cons.1 he with rfl | he
      · exact h1
      · exact Nat.lt_trans h1 (hk e he)
    · simp only [h1, if_false]
      by_cases h2 : (v == k) = true
      · simp only [h2, if_true]
        exact pairwise_cons.2 ⟨hk, hrest⟩
      · have hvk : ¬ v = k := by simpa using h2
        have h2' : (v == k) = false := by simpa using hvk
        simp only [h2', Bool.false_eq_true, if_false]
        refine pairwise_cons.2 ⟨?_, ih hrest⟩
        intro e he
        rcases Row.mem_insert_key rest v x e he with a | a
        · rw [a]
          rcases Nat.lt_trichotomy k v with c | c | c
          · exact c
          · exact absurd c.symm hvk
          · exact absurd c h1
        · exact hk e a

theorem Row.get_none_of_lt (r : Row) (v : Var) (h : ∀ e ∈ r, v < e.1) : Row.get r v = none := by
  induction r with
  | nil => rfl
  | cons e rest ih =>
    obtain ⟨k, y⟩ := e
    have : ¬ k = v := by
      have h0 := h (k, y) (by simp)
      intro e; subst e; exact Nat.lt_irrefl _ h0
    simp only [Row.get_cons, this, if_false]
    exact ih (fun e he => h e (by simp [he]))

/-- **extensionality**: two canonical rows with the same lookups are equal -/
theorem Row.ext (a b : Row) (ha : Row.WF a) (hb : Row.WF b) (h : ∀ v, Row.get a v = Row.get b v) : a = b := by
  induction a generalizing b with
  | nil =>
    cases b with
    | nil => rfl
    | cons e rest =>
      obtain ⟨k, y⟩ := e
      have := h k
      simp [Row.get_cons, Row.get_nil] at this
  | cons e rest ih =>
    obtain ⟨k, x⟩ := e
    have hrest : Row.WF rest := (pairwise_cons.1 ha).2
    have hk : ∀ e ∈ rest, k < e.1 := (pairwise_cons.1 ha).1
    cases b with
    | nil =>
      have := h k
      simp [Row.get_cons, Row.get_nil] at this
    | cons e' rest' =>
      obtain ⟨k', x'⟩ := e'
      have hrest' : Row.WF rest' := (pairwise_cons.1 hb).2
      have hk' : ∀ e ∈ rest', k' < e.1 := (pairwise_cons.1 hb).1
      have hkk : k = k' := by
        rcases Nat.lt_trichotomy k k' with hlt | heq | hgt
        · have h1 := h k
          have hne : ¬ k' = k := fun e => Nat.lt_irrefl _ (e ▸ hlt)
          simp only [Row.get_cons, if_true, hne, if_false] at h1
          rw [Row.get_none_of_lt rest' k (fun e he => Nat.lt_trans hlt (hk' e he))] at h1
          cases h1
        · exact heq
        · have h1 := h k'
          have hne : ¬ k = k' := fun e => Nat.lt_irrefl _ (e ▸ hgt)
          simp only [Row.get_cons, if_true, hne, if_false] at h1
          rw [Row.get_none_of_lt rest k' (fun e he => Nat.lt_trans hgt (hk e he))] at h1
          cases h1
      subst hkk
      have hx : x = x' := by
        have h1 := h k
        simp only [Row.get_cons, if_true] at h1
        exact Option.some.inj h1
      subst hx
      congr 1
      apply ih rest' hrest hrest'
      intro v
      by_cases hv : k = v
      · subst hv
        rw [Row.get_none_of_lt rest k hk, Row.get_none_of_lt rest' k hk']
      · have h1 := h v
        simpa [Row.get_cons, hv] using h1

/-- in a canonical row, entries are exactly the lookups -/
theorem Row.mem_iff_get (r : Row) (h : Row.WF r) (k : Var) (x : Val) : (k, x) ∈ r ↔ Row.get r k = some x := by
  constructor
  · intro hm
    induction r with
    | nil => simp at hm
    | cons e rest ih =>
      obtain ⟨k', y⟩ := e
      have hrest : Row.WF rest := (pairwise_cons.1 h).2
      have hk : ∀ e ∈ rest, k' < e.1 := (pairwise_cons.1 h).1
      rcases mem_cons.1 hm with heq | hm'
      · cases heq; simp [Row.get_cons]
      · have : ¬ k' = k := by
          have h0 := hk (k, x) hm'
          intro e; subst e; exact Nat.lt_irrefl _ h0
        simp only [Row.get_cons, this, if_false]
        exact ih hrest hm'
  · intro hg
    induction r with
    | nil => simp [Row.get_nil] at hg
    | cons e rest ih =>
      obtain ⟨k', y⟩ := e
      simp only [Row.get_cons] at hg
      by_cases hkk : k' = k
      · subst hkk; simp at hg; subst hg; simp
      · simp only [hkk, if_false] at hg
        exact mem_cons_of_mem _ (ih (pairwise_cons.1 h).2 hg)

/-! ### merging -/

/-- two rows agree on every shared variable -/
def compat (a b : Row) : Prop := ∀ v x y, Row.get a v = some x → Row.get b v = some y → x = y

theorem get_unionRows (l r : Row) (v : Var) :
    Row.get (unionRows l r) v = match Row.get l v with | some x => some x | none => Row.get r v := by
  unfold unionRows
  induction r generalizing l with
  | nil => simp only [foldl_nil, Row.get_nil]; cases Row.get l v <;> rfl
  | cons e rest ih =>
    obtain ⟨k, y⟩ := e
    simp only [foldl_cons]
    rw [ih]
    by_cases hkv : k = v
    · subst hkv
      cases hl : Row.get l k with
      | some x => simp [hl]
      | none => simp [hl, Row.get_insert_self, Row.get_cons]
    · have hvk : v ≠ k := fun e => hkv e.symm
      cases hlk : Row.get l k with
      | some x => simp [hlk, Row.get_cons, hkv]
      | none => simp [hlk, Row.get_insert_ne _ _ _ _ hvk, Row.get_cons, hkv]

theorem wf_unionRows (l r : Row) (h : Row.WF l) : Row.WF (unionRows l r) := by
  unfold unionRows
  induction r generalizing l with
  | nil => simpa
  | cons e rest ih =>
    obtain ⟨k, y⟩ := e
    simp only [foldl_cons]
    apply ih
    cases Row.get l k with
    | some _ => exact h
    | none => exact Row.wf_insert l k y h

theorem compatB_iff (l r : Row) (hl : Row.WF l) : compatB l r = true ↔ compat l r := by
  unfold compatB
  rw [all_eq_true]
  constructor
  · intro h v x y hx hy
    have := h (v, x) ((Row.mem_iff_get l hl v x).2 hx)
    simp only [hy] at this
    simpa using this
  · intro h e he
    obtain ⟨k, x⟩ := e
    have hx := (Row.mem_iff_get l hl k x).1 he
    have hgoal : (match Row.get r k with | some y => x == y | none => true) = true := by
      cases hy : Row.get r k with
      | none => rfl
      | some y => simp [h k x y hx hy]
    exact hgoal

theorem mergeRows_some (l r : Row) (hl : Row.WF l) (hc : compat l r) : mergeRows l r = some (unionRows l r) := by
  unfold mergeRows
  rw [if_pos ((compatB_iff l r hl).2 hc)]

theorem mergeRows_none (l r : Row) (hl : Row.WF l) (hc : ¬ compat l r) : mergeRows l r = none := by
  unfold mergeRows
  rw [if_neg (fun h => hc ((compatB_iff l r hl).1 h))]

theorem mergeRows_wf (l r m : Row) (hl : Row.WF l) (h : mergeRows l r = some m) : Row.WF m := by
  classical
  by_cases hc : compat l r
  · rw [mergeRows_some l r hl hc] at h; cases h; exact wf_unionRows l r hl
  · rw [mergeRows_none l r hl hc] at h; cases h

theorem compat_symm {a b : Row} (h : compat a b) : compat b a :=
  fun v x y hx hy => (h v y x hy hx).symm

/-- `merge_rows` is commutative on canonical rows -/
theorem mergeRows_comm (a b : Row) (ha : Row.WF a) (hb : Row.WF b) : mergeRows a b = mergeRows b a := by
  classical
  by_cases hc : compat a b
  · rw [mergeRows_some a b ha hc, mergeRows_some b a hb (compat_symm hc)]
    congr 1
    apply Row.ext _ _ (wf_unionRows a b ha) (wf_unionRows b a hb)
    intro v
    rw [get_unionRows, get_unionRows]
    cases hx : Row.get a v with
    | none => cases Row.get b v <;> rfl
    | some x =>
      cases hy : Row.get b v with
      | none => rfl
      | some y => simp [hc v x y hx hy]
  · rw [mergeRows_none a b ha hc, mergeRows_none b a hb (fun h => hc (compat_symm h))]

theorem compat_union_left (a b c : Row) (hab : compat a b) :
    compat (unionRows a b) c ↔ compat a c ∧ compat b c := by
  constructor
  · intro h
    constructor
    · intro v x y hx hy
      exact h v x y (by rw [get_unionRows, hx]) hy
    · intro v x y hx hy
      cases ha : Row.get a v with
      | none => exact h v x y (by rw [get_unionRows, ha]; exact hx) hy
      | some x' =>
        have hxx : x' = x := hab v x' x ha hx
        rw [hxx] at ha
        exact h v x y (by rw [get_unionRows, ha]) hy
  · rintro ⟨h1, h2⟩ v x y hx hy
    rw [get_unionRows] at hx
    cases ha : Row.get a v with
    | none => rw [ha] at hx; exact h2 v x y hx hy
    | some x' => rw [ha] at hx; cases hx; exact h1 v _ y ha hy

theorem compat_union_right (a b c : Row) (hbc : compat b c) :
    compat a (unionRows b c) ↔ compat a b ∧ compat a c := by
  constructor
  · intro h
    constructor
    · intro v x y hx hy
      exact h v x y hx (by rw [get_unionRows, hy])
    · intro v x y hx hy
      cases hb : Row.get b v with
      | none => exact h v x y hx (by rw [get_unionRows, hb]; exact hy)
      | some y' =>
        have hyy : y' = y := hbc v y' y hb hy
        rw [hyy] at hb
        exact h v x y hx (by rw [get_unionRows, hb])
  · rintro ⟨h1, h2⟩ v x y hx hy
    rw [get_unionRows] at hy
    cases hb : Row.get b v with
    | none => rw [hb] at hy; exact h2 v x y hx hy
    | some y' => rw [hb] at hy; cases hy; exact h1 v x _ hx hb

/-- `merge_rows` is associative on canonical rows (as partial operation) -/
theorem mergeRows_assoc (a b c : Row) (ha : Row.WF a) (hb : Row.WF b) :
    (mergeRows a b).bind (fun m => mergeRows m c) = (mergeRows b c).bind (fun n => mergeRows a n) := by
  classical
  by_cases hab : compat a b
  · rw [mergeRows_some a b ha hab]
    simp only [Option.bind_some]
    by_cases hbc : compat b c
    · rw [mergeRows_some b c hb hbc]
      simp only [Option.bind_some]
      by_cases hac : compat a c
      · rw [mergeRows_some _ c (wf_unionRows a b ha) ((compat_union_left a b c hab).2 ⟨hac, hbc⟩),
            mergeRows_some a _ ha ((compat_union_right a b c hbc).2 ⟨hab, hac⟩)]
        congr 1
        apply Row.ext _ _ (wf_unionRows _ c (wf_unionRows a b ha)) (wf_unionRows a _ ha)
        intro v
        simp only [get_unionRows]
        cases Row.get a v <;> cases Row.get b v <;> rfl
      · rw [mergeRows_none _ c (wf_unionRows a b ha) (fun h => hac ((compat_union_left a b c hab).1 h).1),
            mergeRows_none a _ ha (fun h => hac ((compat_union_right a b c hbc).1 h).2)]
    · rw [mergeRows_none b c hb hbc]
      simp only [Option.bind_none]
      exact mergeRows_none _ c (wf_unionRows a b ha) (fun h => hbc ((compat_union_left a b c hab).1 h).2)
  · rw [mergeRows_none a b ha hab]
    simp only [Option.bind_none]
    by_cases hbc : compat b c
    · rw [mergeRows_some b c hb hbc]
      simp only [Option.bind_some]
      exact (mergeRows_none a _ ha (fun h => hab ((compat_union_right a b c hbc).1 h).1)).symm
    · rw [mergeRows_none b c hb hbc]; rfl

theorem mergeRows_nil_left' (b : Row) (hb : Row.WF b) : mergeRows [] b = some b := by
  have hc : compat [] b := fun v x y hx _ => by simp [Row.get_nil] at hx
  rw [mergeRows_some [] b Row.wf_nil hc]
  congr 1
  apply Row.ext _ _ (wf_unionRows [] b Row.wf_nil) hb
  intro v; rw [get_unionRows]; simp [Row.get_nil]

end Kolibrie.Engine
