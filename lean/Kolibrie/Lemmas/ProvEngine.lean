import Kolibrie.Lemmas.ProvMatch
/-
Generic correctness of the tag-propagating semi-naive engine (`round`, `iter`) for any provenance semiring that has a
world-indexed Boolean reading (`Sem`): soundness of every reachable tag store and completeness at the fixpoint the
driver loop reports.
-/
namespace Kolibrie.Prov

/-- world-indexed reading of a provenance semiring: each world is a homomorphism into the Booleans -/
structure Sem (T : Type) (W : Type) (P : Prov T) where
  ok : W → Prop
  sem : T → W → Prop
  sem_zero : ∀ t w, ok w → P.isZero t = true → ¬ sem t w
  sem_one : ∀ w, ok w → sem P.one w
  sem_disj : ∀ a b w, sem (P.disj a b) w ↔ sem a w ∨ sem b w
  sem_conj : ∀ a b w, sem (P.conj a b) w ↔ sem a w ∧ sem b w
  sem_sat : ∀ a b w, P.saturated a b = true → (sem b w ↔ sem a w)

variable {T W : Type} {P : Prov T} (S : Sem T W P)

theorem getTag_setTag (ts : Tags T) (f g : Fact) (t : T) :
    getTag P (setTag ts f t) g = if f = g then t else getTag P ts g := by
  simp only [getTag, setTag, lookupTag]
  split <;> rfl

theorem sem_conjFold (ts : Tags T) (w : W) : ∀ (fs : List Fact) (acc : T),
    S.sem (fs.foldl (fun acc f => P.conj acc (getTag P ts f)) acc) w
      ↔ S.sem acc w ∧ ∀ f ∈ fs, S.sem (getTag P ts f) w := by
  intro fs
  induction fs with
  | nil => intro acc; simp
  | cons h t ih =>
    intro acc
    rw [List.foldl_cons, ih, S.sem_conj]
    simp only [List.mem_cons, forall_eq_or_imp]
    exact ⟨fun ⟨⟨a, b⟩, c⟩ => ⟨a, b, c⟩, fun ⟨a, b, c⟩ => ⟨⟨a, b⟩, c⟩⟩

theorem sem_conjTags (ts : Tags T) (w : W) (hw : S.ok w) (fs : List Fact) :
    S.sem (conjTags P ts fs) w ↔ ∀ f ∈ fs, S.sem (getTag P ts f) w := by
  unfold conjTags
  rw [sem_conjFold]
  exact ⟨fun h => h.2, fun h => ⟨S.sem_one w hw, h⟩⟩

/-! ### what one conclusion / one job / one round does to the state -/

/-- monotone growth of a round state (relative to the facts `known` at the start of the round) -/
structure Grow (known : List Fact) (st st' : RState T) : Prop where
  mono : ∀ g w, (g ∈ known ∨ g ∈ st.newFacts) → S.sem (getTag P st.tags g) w → S.sem (getTag P st'.tags g) w
  newSub : ∀ g, g ∈ st.newFacts → g ∈ st'.newFacts
  impSub : ∀ g, g ∈ st.improved → g ∈ st'.improved
  track : ∀ g, g ∈ known → g ∉ st'.improved → getTag P st'.tags g = getTag P st.tags g
  newFresh : (∀ g ∈ st.newFacts, g ∉ known) → ∀ g ∈ st'.newFacts, g ∉ known
  impKnown : (∀ g ∈ st.improved, g ∈ known) → ∀ g ∈ st'.improved, g ∈ known

theorem Grow.refl (known : List Fact) (st : RState T) : Grow S known st st :=
  ⟨fun _ _ _ h => h, fun _ h => h, fun _ h => h, fun _ _ _ => rfl, fun h => h, fun h => h⟩

theorem Grow.trans {known : List Fact} {a b c : RState T} (h1 : Grow S known a b) (h2 : Grow S known b c) :
    Grow S known a c where
  mono g w hg hs := h2.mono g w (hg.elim Or.inl (fun h => Or.inr (h1.newSub g h))) (h1.mono g w hg hs)
  newSub g h := h2.newSub g (h1.newSub g h)
  impSub g h := h2.impSub g (h1.impSub g h)
  track g hk hn := by
    rw [h2.track g hk hn, h1.track g hk (fun h => hn (h2.impSub g h))]
  newFresh h := h2.newFresh (h1.newFresh h)
  impKnown h := h2.impKnown (h1.impKnown h)

theorem processConcl_grow (known : List Fact) (ctag : T) (st : RState T) (c : Fact) :
    Grow S known st (processConcl P known ctag st c) := by
  unfold processConcl
  simp only
  split
  · rename_i hnew
    simp only [Bool.and_eq_true, Bool.not_eq_true', List.contains_eq_mem, decide_eq_false_iff_not] at hnew
    refine ⟨?_, ?_, fun _ h => h, ?_, ?_, fun h => h⟩
    · intro g w hg hs
      rw [getTag_setTag]
      split
      · rename_i hcg; subst hcg; exact absurd hg (by simp [hnew.1, hnew.2])
      · exact hs
    · intro g h; simp [h]
    · intro g hk _
      rw [getTag_setTag]
      split
      · rename_i hcg; subst hcg; exact absurd hk hnew.1
      · rfl
    · intro h g hg
      simp only [List.mem_append, List.mem_singleton] at hg
      rcases hg with hg | rfl
      · exact h g hg
      · exact hnew.1
  · split
    · exact Grow.refl S known st
    · rename_i hnew hsat
      refine ⟨?_, fun _ h => h, ?_, ?_, fun h => h, ?_⟩
      · intro g w _ hs
        rw [getTag_setTag]
        split
        · rename_i hcg; subst hcg; rw [S.sem_disj]; exact Or.inl hs
        · exact hs
      · intro g h; split <;> simp [h]
      · intro g hk hni
        rw [getTag_setTag]
        split
        · rename_i hcg; subst hcg
          exfalso; apply hni
          have : (!known.contains c) = false := by simp [List.contains_eq_mem, hk]
          simp only [this]
          simp
        · rfl
      · intro h g hg
        split at hg
        · exact h g hg
        · rename_i hk
          simp only [List.mem_append, List.mem_singleton] at hg
          rcases hg with hg | rfl
          · exact h g hg
          · simpa [List.contains_eq_mem] using hk

/-- after processing conclusion `c` with tag `ctag`, `c` is a fact of the round and its tag covers `ctag` -/
theorem processConcl_gain (known : List Fact) (ctag : T) (st : RState T) (c : Fact) :
    (c ∈ known ∨ c ∈ (processConcl P known ctag st c).newFacts) ∧
      ∀ w, S.sem ctag w → S.sem (getTag P (processConcl P known ctag st c).tags c) w := by
  unfold processConcl
  simp only
  split
  · exact ⟨Or.inr (by simp), fun w h => by rw [getTag_setTag]; simpa using h⟩
  · rename_i hnew
    have hmem : c ∈ known ∨ c ∈ st.newFacts := by
      simp only [Bool.and_eq_true, Bool.not_eq_true', List.contains_eq_mem, decide_eq_false_iff_not, not_and,
        Classical.not_not] at hnew
      by_cases hk : c ∈ known
      · exact Or.inl hk
      · exact Or.inr (hnew hk)
    split
    · rename_i hsat
      exact ⟨hmem, fun w h => (S.sem_sat _ _ w hsat).mp ((S.sem_disj _ _ w).mpr (Or.inr h))⟩
    · refine ⟨hmem, fun w h => ?_⟩
      rw [getTag_setTag]; simp only [if_true]
      exact (S.sem_disj _ _ w).mpr (Or.inr h)

theorem foldConcl_grow (known : List Fact) (ctag : T) : ∀ (cs : List Fact) (st : RState T),
    Grow S known st (cs.foldl (processConcl P known ctag) st) := by
  intro cs
  induction cs with
  | nil => intro st; exact Grow.refl S known st
  | cons h t ih => intro st; exact (processConcl_grow S known ctag st h).trans S (ih _)

theorem foldConcl_gain (known : List Fact) (ctag : T) : ∀ (cs : List Fact) (st : RState T), ∀ c ∈ cs,
    (c ∈ known ∨ c ∈ (cs.foldl (processConcl P known ctag) st).newFacts) ∧
      ∀ w, S.sem ctag w → S.sem (getTag P (cs.foldl (processConcl P known ctag) st).tags c) w := by
  intro cs
  induction cs with
  | nil => intro st c hc; cases hc
  | cons h t ih =>
    intro st c hc
    rw [List.foldl_cons]
    rcases List.mem_cons.mp hc with rfl | hc
    · obtain ⟨hm, hs⟩ := processConcl_gain S known ctag st c
      have hg := foldConcl_grow S known ctag t (processConcl P known ctag st c)
      exact ⟨hm.elim Or.inl (fun h => Or.inr (hg.newSub c h)), fun w hw => hg.mono c w hm (hs w hw)⟩
    · exact ih _ c hc

theorem processJob_grow (known : List Fact) (st : RState T) (j : Job) :
    Grow S known st (processJob P known st j) := by
  unfold processJob
  simp only
  split
  · exact Grow.refl S known st
  · exact foldConcl_grow S known _ _ st

theorem processJob_gain (known : List Fact) (st : RState T) (j : Job) : ∀ c ∈ j.concls, ∀ w, S.ok w →
    (∀ p ∈ j.prems, S.sem (getTag P st.tags p) w) →
    (c ∈ known ∨ c ∈ (processJob P known st j).newFacts) ∧ S.sem (getTag P (processJob P known st j).tags c) w := by
  intro c hc w hw hp
  have hct : S.sem (conjTags P st.tags j.prems) w := (sem_conjTags S st.tags w hw j.prems).mpr hp
  unfold processJob
  simp only
  split
  · rename_i hz; exact absurd hct (S.sem_zero _ w hw hz)
  · obtain ⟨h1, h2⟩ := foldConcl_gain S known (conjTags P st.tags j.prems) j.concls st c hc
    exact ⟨h1, h2 w hct⟩

/-- processed jobs: conclusions are facts of the round and their tags cover the premises' tags *at round start* -/
theorem foldJobs (known : List Fact) (st0 : RState T) : ∀ (js : List Job) (st : RState T),
    Grow S known st0 st → (∀ j ∈ js, ∀ p ∈ j.prems, p ∈ known) →
    Grow S known st0 (js.foldl (processJob P known) st) ∧
    ∀ j ∈ js, ∀ c ∈ j.concls, ∀ w, S.ok w → (∀ p ∈ j.prems, S.sem (getTag P st0.tags p) w) →
      (c ∈ known ∨ c ∈ (js.foldl (processJob P known) st).newFacts) ∧
        S.sem (getTag P (js.foldl (processJob P known) st).tags c) w := by
  intro js
  induction js with
  | nil => intro st hg _; exact ⟨hg, fun j hj => by cases hj⟩
  | cons h t ih =>
    intro st hg hk
    rw [List.foldl_cons]
    have hg1 : Grow S known st0 (processJob P known st h) := hg.trans S (processJob_grow S known st h)
    obtain ⟨hgE, hgain⟩ := ih (processJob P known st h) hg1 (fun j hj => hk j (List.mem_cons_of_mem _ hj))
    refine ⟨hgE, ?_⟩
    intro j hj c hc w hw hp
    rcases List.mem_cons.mp hj with rfl | hj
    · have hp' : ∀ p ∈ j.prems, S.sem (getTag P st.tags p) w :=
        fun p hpp => hg.mono p w (Or.inl (hk j List.mem_cons_self p hpp)) (hp p hpp)
      obtain ⟨h1, h2⟩ := processJob_gain S known st j c hc w hw hp'
      have hgt := (foldJobs_grow_aux t (processJob P known st j))
      exact ⟨h1.elim Or.inl (fun h => Or.inr (hgt.newSub c h)), hgt.mono c w h1 h2⟩
    · exact hgain j hj c hc w hw hp
where
  foldJobs_grow_aux : ∀ (js : List Job) (st : RState T), Grow S known st (js.foldl (processJob P known) st) := by
    intro js
    induction js with
    | nil => intro st; exact Grow.refl S known st
    | cons h t ih => intro st; exact (processJob_grow S known st h).trans S (ih _)

/-! ### soundness of a round -/

/-- every tag of a fact of the round is sound for `Der` -/
def SoundSt (Der : W → Fact → Prop) (known : List Fact) (st : RState T) : Prop :=
  ∀ g w, S.ok w → (g ∈ known ∨ g ∈ st.newFacts) → S.sem (getTag P st.tags g) w → Der w g

theorem processConcl_sound (Der : W → Fact → Prop) (known : List Fact) (ctag : T) (st : RState T) (c : Fact)
    (hs : SoundSt S Der known st) (hc : ∀ w, S.ok w → S.sem ctag w → Der w c) :
    SoundSt S Der known (processConcl P known ctag st c) := by
  unfold processConcl
  simp only
  split
  · intro g w hw hg hsem
    rw [getTag_setTag] at hsem
    split at hsem
    · rename_i hcg; subst hcg; exact hc w hw hsem
    · rename_i hcg
      simp only [List.mem_append, List.mem_singleton] at hg
      have : g ∈ known ∨ g ∈ st.newFacts := by
        rcases hg with hg | hg | hg
        · exact Or.inl hg
        · exact Or.inr hg
        · exact absurd hg.symm hcg
      exact hs g w hw this hsem
  · rename_i hnew
    have hmem : c ∈ known ∨ c ∈ st.newFacts := by
      simp only [Bool.and_eq_true, Bool.not_eq_true', List.contains_eq_mem, decide_eq_false_iff_not, not_and,
        Classical.not_not] at hnew
      by_cases hk : c ∈ known
      · exact Or.inl hk
      · exact Or.inr (hnew hk)
    split
    · exact hs
    · intro g w hw hg hsem
      rw [getTag_setTag] at hsem
      split at hsem
      · rename_i hcg; subst hcg
        rcases (S.sem_disj _ _ w).mp hsem with h | h
        · exact hs c w hw hmem h
        · exact hc w hw h
      · exact hs g w hw hg hsem

theorem processJob_sound (Der : W → Fact → Prop) (known : List Fact) (st : RState T) (j : Job)
    (hs : SoundSt S Der known st)
    (hj : ∀ w, S.ok w → (∀ p ∈ j.prems, Der w p) → ∀ c ∈ j.concls, Der w c)
    (hk : ∀ p ∈ j.prems, p ∈ known) :
    SoundSt S Der known (processJob P known st j) := by
  unfold processJob
  simp only
  split
  · exact hs
  · have hc : ∀ c ∈ j.concls, ∀ w, S.ok w → S.sem (conjTags P st.tags j.prems) w → Der w c := by
      intro c hc w hw hsem
      have := (sem_conjTags S st.tags w hw j.prems).mp hsem
      exact hj w hw (fun p hp => hs p w hw (Or.inl (hk p hp)) (this p hp)) c hc
    generalize conjTags P st.tags j.prems = ctag at hc
    have : ∀ (cs : List Fact) (st : RState T), (∀ c ∈ cs, c ∈ j.concls) → SoundSt S Der known st →
        SoundSt S Der known (cs.foldl (processConcl P known ctag) st) := by
      intro cs
      induction cs with
      | nil => intro st _ h; exact h
      | cons h t ih =>
        intro st hsub hst
        rw [List.foldl_cons]
        exact ih _ (fun c hc => hsub c (List.mem_cons_of_mem _ hc))
          (processConcl_sound S Der known ctag st h hst (hc h (hsub h List.mem_cons_self)))
    exact this j.concls st (fun _ h => h) hs

theorem foldJobs_sound (Der : W → Fact → Prop) (known : List Fact) : ∀ (js : List Job) (st : RState T),
    SoundSt S Der known st →
    (∀ j ∈ js, (∀ w, S.ok w → (∀ p ∈ j.prems, Der w p) → ∀ c ∈ j.concls, Der w c) ∧ ∀ p ∈ j.prems, p ∈ known) →
    SoundSt S Der known (js.foldl (processJob P known) st) := by
  intro js
  induction js with
  | nil => intro st h _; exact h
  | cons h t ih =>
    intro st hst hj
    rw [List.foldl_cons]
    exact ih _ (processJob_sound S Der known st h hst (hj h List.mem_cons_self).1 (hj h List.mem_cons_self).2)
      (fun j hjm => hj j (List.mem_cons_of_mem _ hjm))

/-! ### the invariant of the driver loop -/

/-- `Derivable` read in world `w`, with the input facts of that world -/
abbrev DerW (rules : List Rule) (inputs : W → Fact → Prop) : W → Fact → Prop := fun w => Derivable rules (inputs w)

theorem instance_derives {rules : List Rule} {inputs : W → Fact → Prop} {r : Rule} (hr : r ∈ rules)
    {σ : String → Nat} {j : Job} (hi : IsInstance r σ j) (w : W)
    (hp : ∀ p ∈ j.prems, DerW rules inputs w p) : ∀ c ∈ j.concls, DerW rules inputs w c := by
  intro c hc
  rw [hi.2, List.mem_map] at hc
  obtain ⟨cp, hcp, rfl⟩ := hc
  refine Derivable.rule hr ?_ hcp
  intro p hpm
  exact hp _ (by rw [hi.1]; exact List.mem_map_of_mem hpm)

/-- loop invariant of `iter` at a round boundary: `all` = facts so far, `delta` = effective delta of the next round -/
structure Inv (rules : List Rule) (inputs : W → Fact → Prop) (all delta : List Fact) (tags : Tags T) : Prop where
  sound : ∀ g ∈ all, ∀ w, S.ok w → S.sem (getTag P tags g) w → DerW rules inputs w g
  deltaSub : ∀ g ∈ delta, g ∈ all
  base : ∀ w, S.ok w → ∀ g, inputs w g → g ∈ all ∧ S.sem (getTag P tags g) w
  closed : ∀ r ∈ rules, ∀ σ : String → Nat, (∀ p ∈ r.prem, instV σ p ∈ all) →
    (∃ p ∈ r.prem, instV σ p ∈ delta) ∨
    (∀ w, S.ok w → (∀ p ∈ r.prem, S.sem (getTag P tags (instV σ p)) w) →
      ∀ c ∈ r.concl, instV σ c ∈ all ∧ S.sem (getTag P tags (instV σ c)) w)

theorem round_inv {rules : List Rule} {inputs : W → Fact → Prop} {all delta : List Fact} {tags : Tags T}
    (hsafe : ∀ r ∈ rules, safeRule r = true) (h : Inv S rules inputs all delta tags) :
    let st := round P rules all delta tags
    Inv S rules inputs (all ++ st.newFacts) (st.newFacts ++ st.improved) st.tags := by
  intro st
  have hjk : ∀ j ∈ jobs rules all delta, ∀ p ∈ j.prems, p ∈ all := by
    intro j hj
    obtain ⟨_, _, _, _, hk⟩ := jobs_sound h.deltaSub hj
    exact hk
  obtain ⟨hg, hgain⟩ := foldJobs S all ⟨tags, [], []⟩ (jobs rules all delta) ⟨tags, [], []⟩ (Grow.refl S all _) hjk
  have hsound : SoundSt S (DerW rules inputs) all st := by
    apply foldJobs_sound S (DerW rules inputs) all (jobs rules all delta) ⟨tags, [], []⟩
    · intro g w hw hgm hsem
      rcases hgm with hgm | hgm
      · exact h.sound g hgm w hw hsem
      · cases hgm
    · intro j hj
      obtain ⟨r, hr, σ, hi, hk⟩ := jobs_sound h.deltaSub hj
      exact ⟨fun w _ hp => instance_derives hr hi w hp, hk⟩
  have hfresh : ∀ g ∈ st.newFacts, g ∉ all := hg.newFresh (by intro g hgm; cases hgm)
  have himp : ∀ g ∈ st.improved, g ∈ all := hg.impKnown (by intro g hgm; cases hgm)
  refine ⟨?_, ?_, ?_, ?_⟩
  · intro g hgm w hw hsem
    exact hsound g w hw (List.mem_append.mp hgm) hsem
  · intro g hgm
    rcases List.mem_append.mp hgm with h1 | h1
    · exact List.mem_append.mpr (Or.inr h1)
    · exact List.mem_append.mpr (Or.inl (himp g h1))
  · intro w hw g hgi
    obtain ⟨h1, h2⟩ := h.base w hw g hgi
    exact ⟨List.mem_append.mpr (Or.inl h1), hg.mono g w (Or.inl h1) h2⟩
  · intro r hr σ hall
    by_cases hpend : ∃ p ∈ r.prem, instV σ p ∈ st.newFacts ++ st.improved
    · exact Or.inl hpend
    · right
      have hnp : ∀ p ∈ r.prem, instV σ p ∉ st.newFacts ∧ instV σ p ∉ st.improved := by
        intro p hp
        constructor
        · intro hc; exact hpend ⟨p, hp, List.mem_append.mpr (Or.inl hc)⟩
        · intro hc; exact hpend ⟨p, hp, List.mem_append.mpr (Or.inr hc)⟩
      have hall' : ∀ p ∈ r.prem, instV σ p ∈ all := by
        intro p hp
        rcases List.mem_append.mp (hall p hp) with h1 | h1
        · exact h1
        · exact absurd h1 (hnp p hp).1
      have hsame : ∀ p ∈ r.prem, getTag P st.tags (instV σ p) = getTag P tags (instV σ p) :=
        fun p hp => hg.track _ (hall' p hp) (hnp p hp).2
      intro w hw hsem c hc
      have hsem0 : ∀ p ∈ r.prem, S.sem (getTag P tags (instV σ p)) w := by
        intro p hp; rw [← hsame p hp]; exact hsem p hp
      rcases h.closed r hr σ hall' with hdel | hcl
      · have hjm := jobs_complete hr (hsafe r hr) h.deltaSub σ hall' hdel
        have := hgain _ hjm (instV σ c) (List.mem_map_of_mem hc) w hw (by
          intro p hp
          simp only [List.mem_map] at hp
          obtain ⟨q, hq, rfl⟩ := hp
          exact hsem0 q hq)
        exact ⟨List.mem_append.mpr this.1, this.2⟩
      · obtain ⟨h1, h2⟩ := hcl w hw hsem0 c hc
        exact ⟨List.mem_append.mpr (Or.inl h1), hg.mono _ w (Or.inl h1) h2⟩

/-- soundness and completeness of the result of `iter` (when it reports a fixpoint, i.e. does not run out of fuel) -/
theorem iter_exact {rules : List Rule} {inputs : W → Fact → Prop} (hsafe : ∀ r ∈ rules, safeRule r = true) :
    ∀ (fuel : Nat) (all delta : List Fact) (tags : Tags T) (all' : List Fact) (tags' : Tags T),
    Inv S rules inputs all delta tags → iter P rules fuel all delta tags = some (all', tags') →
    (∀ g ∈ all', ∀ w, S.ok w → S.sem (getTag P tags' g) w → DerW rules inputs w g) ∧
    (∀ w, S.ok w → ∀ g, DerW rules inputs w g → g ∈ all' ∧ S.sem (getTag P tags' g) w) ∧
    (∀ g ∈ all, g ∈ all') := by
  intro fuel
  induction fuel with
  | zero => intro all delta tags all' tags' _ h; cases h
  | succ n ih =>
    intro all delta tags all' tags' hinv h
    have hr := round_inv S hsafe hinv
    simp only [iter] at h
    split at h
    · rename_i hstop
      simp only [Bool.and_eq_true, List.isEmpty_iff] at hstop
      cases h
      simp only at hr
      rw [hstop.1, hstop.2, List.append_nil] at hr
      refine ⟨hr.sound, ?_, fun g h => h⟩
      intro w hw g hd
      induction hd with
      | base hb => exact hr.base w hw _ hb
      | rule hrm _ hc ihp =>
        rename_i r σ c _
        have hall : ∀ p ∈ r.prem, instV σ p ∈ all := fun p hp => (ihp p hp).1
        rcases hr.closed r hrm σ hall with ⟨_, _, hpm⟩ | hcl
        · cases hpm
        · exact hcl w hw (fun p hp => (ihp p hp).2) c hc
    · obtain ⟨h1, h2, h3⟩ := ih _ _ _ _ _ hr h
      exact ⟨h1, h2, fun g hg => h3 g (List.mem_append.mpr (Or.inl hg))⟩

/-- soundness alone holds for *every* reachable tag store, also mid-round and when fuel runs out: any prefix of the
    jobs of a round keeps all tags sound -/
theorem prefix_sound {rules : List Rule} {inputs : W → Fact → Prop} {all delta : List Fact} {tags : Tags T}
    (h : Inv S rules inputs all delta tags) (k : Nat) :
    SoundSt S (DerW rules inputs) all (((jobs rules all delta).take k).foldl (processJob P all) ⟨tags, [], []⟩) := by
  apply foldJobs_sound S (DerW rules inputs) all _ ⟨tags, [], []⟩
  · intro g w hw hgm hsem
    rcases hgm with hgm | hgm
    · exact h.sound g hgm w hw hsem
    · cases hgm
  · intro j hj
    obtain ⟨r, hr, σ, hi, hk⟩ := jobs_sound h.deltaSub (List.mem_of_mem_take hj)
    exact ⟨fun w _ hp => instance_derives hr hi w hp, hk⟩

end Kolibrie.Prov
