import Kolibrie.Model.Lines
import Kolibrie.Spec.RoundTrip
/-
Helper lemmas for C14 / C13: Rust-string helpers, `decode ∘ escape`, symbolic execution of the
`parse_ntriples_parts` state machine on generated segments.
-/
namespace Kolibrie.Lines
open Kolibrie.Extracted Kolibrie.RoundTrip

/-! ### tables -/

/-- one row of the escape table is well-formed w.r.t. the decoder: `c ↦ \e`, `e` is not `u`/`U`/newline, and `\e` decodes to `c` -/
def escRowOk (p : Char × List Char) : Bool :=
  match p.2 with
  | [b, e] => b == '\\' && e != 'u' && e != 'U' && e != '\n' && decodeTable.lookup e == some p.1
  | _ => false

theorem lookup_mem {β} (c : Char) (r : β) : ∀ (l : List (Char × β)), l.lookup c = some r → (c, r) ∈ l
  | [], h => by simp [List.lookup] at h
  | (k, v) :: l, h => by
      by_cases hk : c = k
      · subst hk; simp [List.lookup] at h; simp [h]
      · have : (c == k) = false := by simpa using hk
        simp [List.lookup, this] at h
        exact List.mem_cons_of_mem _ (lookup_mem c r l h)

/-! ### trim -/

theorem trimStart_cons {c : Char} {l : Str} (h : rustWs c = false) : trimStart (c :: l) = c :: l := by
  simp [trimStart, List.dropWhile, h]

theorem trimEnd_snoc {c : Char} {l : Str} (h : rustWs c = false) : trimEnd (l ++ [c]) = l ++ [c] := by
  simp [trimEnd, h]

theorem trimEnd_snoc_ws {c : Char} {l : Str} (h : rustWs c = true) : trimEnd (l ++ [c]) = trimEnd l := by
  simp [trimEnd, h]

/-- a token: at least two characters, first and last not whitespace, first not `#` -/
def Tok (X : Str) : Prop := ∃ a m b, X = a :: (m ++ [b]) ∧ rustWs a = false ∧ rustWs b = false ∧ a ≠ '#'

theorem trim_tok {X : Str} (h : Tok X) : trim X = X := by
  obtain ⟨a, m, b, rfl, ha, hb, _⟩ := h
  unfold trim
  rw [trimStart_cons ha]
  have : a :: (m ++ [b]) = (a :: m) ++ [b] := rfl
  rw [this, trimEnd_snoc hb]

theorem tok_join {A C : Str} (mid : Str) (hA : Tok A) (hC : Tok C) : Tok (A ++ mid ++ C) := by
  obtain ⟨a, m, b, rfl, ha, _, hn⟩ := hA
  obtain ⟨a', m', b', rfl, _, hb', _⟩ := hC
  exact ⟨a, m ++ [b] ++ mid ++ a' :: m', b', by simp, ha, hb', hn⟩

/-! ### `decode_ntriples_literal ∘ escape_ntriples_literal` -/

theorem escape_cons (c : Char) (s : Str) : escape (c :: s) = escapeChar c ++ escape s := by
  simp [escape, List.flatMap_cons]

theorem decodeGo_escape (hrows : ∀ p ∈ escapeTable, escRowOk p = true)
    (hq : (escapeTable.lookup '"').isSome = true) (hb : (escapeTable.lookup '\\').isSome = true) :
    ∀ (s rest acc : Str), decodeGo (escape s ++ '"' :: rest) .normal acc = some (acc.reverse ++ s, rest) := by
  intro s
  induction s with
  | nil => intro rest acc; simp [escape, decodeGo]
  | cons c s ih =>
    intro rest acc
    rw [escape_cons]
    unfold escapeChar
    cases hl : escapeTable.lookup c with
    | none =>
      have h1 : c ≠ '"' := by intro h; subst h; simp [hl] at hq
      have h2 : c ≠ '\\' := by intro h; subst h; simp [hl] at hb
      simp only [List.cons_append, List.nil_append, decodeGo, h1, h2, if_false]
      rw [ih]; simp
    | some r =>
      have hr := hrows _ (lookup_mem c r _ hl)
      unfold escRowOk at hr
      match r, hr with
      | [b, e], hr =>
        simp only [Bool.and_eq_true, beq_iff_eq, bne_iff_ne, ne_eq] at hr
        obtain ⟨⟨⟨⟨hb', hu⟩, hU⟩, _⟩, hd⟩ := hr
        subst hb'
        have e1 : ('\\' : Char) ≠ '"' := by decide
        simp only [List.cons_append, List.nil_append, decodeGo, e1, if_false, if_true, hu, hU, hd]
        rw [ih]; simp

/-! ### `parse_ntriples_parts` on generated segments -/

def idle (parts : List Str) : PS := ⟨parts, [], false, false, false, 0, .none⟩
def accSt (parts : List Str) (cur : Str) : PS := ⟨parts, cur, false, false, false, 0, .none⟩
def uriSt (parts : List Str) (cur : Str) : PS := ⟨parts, cur, true, false, false, 0, .none⟩
def litSt (parts : List Str) (cur : Str) : PS := ⟨parts, cur, false, true, false, 0, .none⟩

/-- a rendered term that the tokenizer cuts out exactly, in the middle of a line and at its end -/
structure Seg (X : Str) : Prop where
  sp : ∀ parts, (X ++ [' ']).foldl step (idle parts) = idle (parts ++ [X])
  eof : ∀ parts, finish (X.foldl step (idle parts)) = parts ++ [X]
  tok : Tok X
  nonl : ∀ c ∈ X, c ≠ '\n'

theorem iriChar_facts {c : Char} (h : iriChar c = true) :
    c ≠ '<' ∧ c ≠ '>' ∧ c ≠ '"' ∧ c ≠ '\\' ∧ rustWs c = false ∧ c ≠ '\n' := by
  simp only [iriChar, Bool.and_eq_true, bne_iff_ne, ne_eq, Bool.not_eq_true', decide_eq_true_eq] at h
  obtain ⟨⟨⟨⟨⟨⟨⟨⟨⟨⟨h0, hw⟩, h1⟩, h2⟩, h3⟩, _⟩, _⟩, _⟩, _⟩, _⟩, h4⟩ := h
  refine ⟨h1, h2, h3, h4, hw, ?_⟩
  rintro rfl; revert h0; decide

theorem uri_run (parts : List Str) : ∀ (s cur : Str), (s.all iriChar = true) →
    s.foldl step (uriSt parts cur) = uriSt parts (cur ++ s) := by
  intro s
  induction s with
  | nil => intro cur _; simp
  | cons c s ih =>
    intro cur h
    simp only [List.all_cons, Bool.and_eq_true] at h
    obtain ⟨h1, h2, h3, h4, _, _⟩ := iriChar_facts h.1
    simp only [List.foldl_cons]
    have : step (uriSt parts cur) c = uriSt parts (cur ++ [c]) := by
      simp [step, normal, uriSt, h1, h2, h3, h4, PS.push]
    rw [this, ih _ h.2]; simp

theorem seg_angle {s : Str} (hne : s ≠ []) (h : s.all iriChar = true) : Seg (angle s) := by
  have htok : Tok (angle s) := ⟨'<', s, '>', rfl, by decide, by decide, by decide⟩
  have run : ∀ parts, (angle s).foldl step (idle parts) = idle (parts ++ [angle s]) := by
    intro parts
    match s, hne, h with
    | c :: s', _, h =>
      have hall := h
      simp only [List.all_cons, Bool.and_eq_true] at h
      obtain ⟨h1, h2, h3, h4, _, _⟩ := iriChar_facts h.1
      have e0 : step (idle parts) '<' = { idle parts with pend := .lt } := by simp [step, normal, idle]
      have e1 : step { idle parts with pend := .lt } c = uriSt parts ['<', c] := by
        simp [step, resolveLt, normal, idle, uriSt, h1, h2, h3, h4, PS.push]
      have e2 : step (uriSt parts ('<' :: c :: s')) '>' = idle (parts ++ [trim (angle (c :: s'))]) := by
        simp [step, normal, uriSt, idle, PS.push, PS.emit0, PS.emit, angle]
      simp only [angle, List.cons_append, List.foldl_cons, List.foldl_append, List.foldl_nil, e0, e1]
      rw [uri_run parts s' _ h.2]
      have : ['<', c] ++ s' = '<' :: c :: s' := rfl
      rw [this, e2, trim_tok (by simpa [angle] using htok)]
      simp [angle]
  refine ⟨?_, ?_, htok, ?_⟩
  · intro parts
    rw [List.foldl_append, run]
    simp [step, normal, idle]
  · intro parts
    rw [run]; simp [finish, idle]
  · intro c hc
    simp only [angle, List.mem_cons, List.mem_append, List.not_mem_nil, or_false] at hc
    rcases hc with (rfl | hc) | rfl
    · decide
    · exact (iriChar_facts (List.all_eq_true.mp h c hc)).2.2.2.2.2
    · decide

theorem lit_run (hrows : ∀ p ∈ escapeTable, escRowOk p = true)
    (hq : (escapeTable.lookup '"').isSome = true) (hb : (escapeTable.lookup '\\').isSome = true)
    (parts : List Str) : ∀ (o cur : Str), (escape o).foldl step (litSt parts cur) = litSt parts (cur ++ escape o) := by
  intro o
  induction o with
  | nil => intro cur; simp [escape]
  | cons c o ih =>
    intro cur
    rw [escape_cons, List.foldl_append]
    have hc : (escapeChar c).foldl step (litSt parts cur) = litSt parts (cur ++ escapeChar c) := by
      unfold escapeChar
      cases hl : escapeTable.lookup c with
      | none =>
        have h1 : c ≠ '"' := by intro h; subst h; simp [hl] at hq
        have h2 : c ≠ '\\' := by intro h; subst h; simp [hl] at hb
        simp [step, normal, litSt, h1, h2, PS.push]
      | some r =>
        have hr := hrows _ (lookup_mem c r _ hl)
        unfold escRowOk at hr
        match r, hr with
        | [b, e], hr =>
          simp only [Bool.and_eq_true, beq_iff_eq, bne_iff_ne, ne_eq] at hr
          obtain ⟨⟨⟨⟨hb', _⟩, _⟩, _⟩, _⟩ := hr
          subst hb'
          simp [step, normal, litSt, PS.push]
    rw [hc, ih]; simp

theorem escape_nonl (hrows : ∀ p ∈ escapeTable, escRowOk p = true) (hn : (escapeTable.lookup '\n').isSome = true) :
    ∀ (o : Str), ∀ c ∈ escape o, c ≠ '\n' := by
  intro o
  induction o with
  | nil => intro c hc; simp [escape] at hc
  | cons a o ih =>
    intro c hc
    rw [escape_cons, List.mem_append] at hc
    rcases hc with hc | hc
    · unfold escapeChar at hc
      cases hl : escapeTable.lookup a with
      | none =>
        simp only [hl, List.mem_singleton] at hc
        subst hc; intro h; subst h; simp [hl] at hn
      | some r =>
        have hr := hrows _ (lookup_mem a r _ hl)
        unfold escRowOk at hr
        match r, hr with
        | [b, e], hr =>
          simp only [Bool.and_eq_true, beq_iff_eq, bne_iff_ne, ne_eq] at hr
          obtain ⟨⟨⟨⟨hb', _⟩, _⟩, hen⟩, _⟩ := hr
          simp only [hl, List.mem_cons, List.not_mem_nil, or_false] at hc
          rcases hc with rfl | rfl
          · subst hb'; decide
          · exact hen
    · exact ih c hc

theorem seg_quote (hrows : ∀ p ∈ escapeTable, escRowOk p = true)
    (hq : (escapeTable.lookup '"').isSome = true) (hb : (escapeTable.lookup '\\').isSome = true)
    (hn : (escapeTable.lookup '\n').isSome = true) (o : Str) : Seg (quote o) := by
  have htok : Tok (quote o) := ⟨'"', escape o, '"', rfl, by decide, by decide, by decide⟩
  have run : ∀ parts, (quote o).foldl step (idle parts) = ⟨parts, quote o, false, false, false, 0, .quote⟩ := by
    intro parts
    have e0 : step (idle parts) '"' = litSt parts ['"'] := by simp [step, normal, idle, litSt, PS.push]
    simp only [quote, List.cons_append, List.foldl_cons, List.foldl_append, List.foldl_nil, e0]
    rw [lit_run hrows hq hb]
    simp [step, normal, litSt, PS.push]
  refine ⟨?_, ?_, htok, ?_⟩
  · intro parts
    rw [List.foldl_append, run]
    simp [step, normal, idle, PS.emit0, PS.emit, trim_tok htok]
  · intro parts
    rw [run]; simp [finish, PS.emit0, PS.emit, trim_tok htok]
  · intro c hc
    simp only [quote, List.mem_cons, List.mem_append, List.not_mem_nil, or_false] at hc
    rcases hc with (rfl | hc) | rfl
    · decide
    · exact escape_nonl hrows hn o c hc
    · decide

/-- characters that the idle tokenizer simply accumulates -/
def plainCh (c : Char) : Prop :=
  c ≠ '<' ∧ c ≠ '>' ∧ c ≠ '"' ∧ c ≠ ' ' ∧ c ≠ '\t' ∧ c ≠ '\n' ∧ rustWs c = false

theorem plain_run (parts : List Str) : ∀ (X cur : Str), (∀ c ∈ X, plainCh c) →
    X.foldl step (accSt parts cur) = accSt parts (cur ++ X) := by
  intro X
  induction X with
  | nil => intro cur _; simp
  | cons c X ih =>
    intro cur h
    obtain ⟨h1, h2, h3, h4, h5, _, _⟩ := h c (by simp)
    have : step (accSt parts cur) c = accSt parts (cur ++ [c]) := by
      simp [step, normal, accSt, h1, h2, h3, h4, h5, PS.push]
    rw [List.foldl_cons, this, ih _ (fun c hc => h c (List.mem_cons_of_mem _ hc))]; simp

theorem seg_plain {X : Str} (htok : Tok X) (h : ∀ c ∈ X, plainCh c) : Seg X := by
  have hne : X ≠ [] := by obtain ⟨a, m, b, rfl, _⟩ := htok; simp
  have run : ∀ parts, X.foldl step (idle parts) = accSt parts X := by
    intro parts
    have := plain_run parts X [] h
    simpa [accSt, idle] using this
  refine ⟨?_, ?_, htok, fun c hc => (h c hc).2.2.2.2.2.1⟩
  · intro parts
    rw [List.foldl_append, run]
    simp [step, normal, accSt, idle, PS.emit, hne, trim_tok htok]
  · intro parts
    rw [run]; simp [finish, accSt, hne, trim_tok htok]

theorem labelChar_plain {c : Char} (h : labelChar c = true) : plainCh c := by
  have hn : ∀ d : Char, labelChar d = false → c ≠ d := by
    intro d hd e; subst e; rw [h] at hd; cases hd
  refine ⟨hn _ (by decide), hn _ (by decide), hn _ (by decide), hn _ (by decide), hn _ (by decide), hn _ (by decide), ?_⟩
  simp only [labelChar, Bool.or_eq_true, Bool.and_eq_true, decide_eq_true_eq, beq_iff_eq] at h
  simp only [rustWs, Bool.or_eq_false_iff, Bool.and_eq_false_iff, decide_eq_false_iff_not, beq_eq_false_iff_ne, ne_eq]
  omega

theorem validBlank_shape {b : Str} (h : validBlank b = true) :
    ∃ l, b = '_' :: ':' :: l ∧ ∀ c ∈ l, labelChar c = true := by
  unfold validBlank at h
  split at h
  · next l => exact ⟨l, rfl, by simpa [List.all_eq_true] using h⟩
  · cases h

theorem seg_blank {b : Str} (h : validBlank b = true) : Seg b := by
  obtain ⟨l, rfl, hl⟩ := validBlank_shape h
  have hp : ∀ c ∈ ('_' :: ':' :: l), plainCh c := by
    intro c hc
    simp only [List.mem_cons] at hc
    rcases hc with rfl | rfl | hc
    · exact ⟨by decide, by decide, by decide, by decide, by decide, by decide, by decide⟩
    · exact ⟨by decide, by decide, by decide, by decide, by decide, by decide, by decide⟩
    · exact labelChar_plain (hl c hc)
  have htok : Tok ('_' :: ':' :: l) := by
    rcases List.eq_nil_or_concat l with rfl | ⟨l', x, rfl⟩
    · exact ⟨'_', [], ':', rfl, by decide, by decide, by decide⟩
    · exact ⟨'_', ':' :: l', x, by simp, by decide, (labelChar_plain (hl x (by simp))).2.2.2.2.2.2, by decide⟩
  exact seg_plain htok hp

theorem Seg.nonlB {X : Str} (h : Seg X) : X.all (fun c => c != '\n') = true := by
  simpa [List.all_eq_true] using h.nonl

/-! ### whole lines -/

theorem parts3 {A B C : Str} (hA : Seg A) (hB : Seg B) (hC : Seg C) :
    partsLine (A ++ ' ' :: (B ++ ' ' :: C)) = [A, B, C] := by
  have e : A ++ ' ' :: (B ++ ' ' :: C) = (A ++ [' ']) ++ ((B ++ [' ']) ++ C) := by simp
  have i : PS.init = idle [] := rfl
  rw [partsLine, e, List.foldl_append, List.foldl_append, i, hA.sp, hB.sp, hC.eof]; rfl

theorem parts4 {A B C D : Str} (hA : Seg A) (hB : Seg B) (hC : Seg C) (hD : Seg D) :
    partsLine (A ++ ' ' :: (B ++ ' ' :: (C ++ ' ' :: D))) = [A, B, C, D] := by
  have e : A ++ ' ' :: (B ++ ' ' :: (C ++ ' ' :: D)) = (A ++ [' ']) ++ ((B ++ [' ']) ++ ((C ++ [' ']) ++ D)) := by simp
  have i : PS.init = idle [] := rfl
  rw [partsLine, e, List.foldl_append, List.foldl_append, List.foldl_append, i, hA.sp, hB.sp, hC.sp, hD.eof]; rfl

theorem stripDot_body {body : Str} (h : Tok body) : stripDot (body ++ [' ', '.']) = some body := by
  obtain ⟨a, m, b, rfl, ha, hb, hn⟩ := h
  have t1 : Tok (a :: (m ++ [b]) ++ [' ', '.']) := ⟨a, m ++ [b, ' '], '.', by simp, ha, by decide, hn⟩
  have hn' : ('#' == a) = false := by simpa using fun h => hn h.symm
  have d : (a :: (m ++ [b]) ++ [' ', '.']).dropLast = (a :: (m ++ [b])) ++ [' '] := by
    have : a :: (m ++ [b]) ++ [' ', '.'] = ((a :: (m ++ [b])) ++ [' ']) ++ ['.'] := by simp
    rw [this, List.dropLast_concat]
  have t2 : trim ((a :: (m ++ [b])) ++ [' ']) = a :: (m ++ [b]) := by
    unfold trim
    rw [List.cons_append, trimStart_cons ha]
    have : a :: (m ++ [b] ++ [' ']) = (a :: (m ++ [b])) ++ [' '] := rfl
    rw [this, trimEnd_snoc_ws (by decide)]
    have : a :: (m ++ [b]) = (a :: m) ++ [b] := rfl
    rw [this, trimEnd_snoc hb]
  unfold stripDot
  simp only [trim_tok t1]
  rw [d, t2]
  simp [startsWith, endsWith, List.isPrefixOf, hn', List.isSuffixOf]

theorem trim_nonws : ∀ {s : Str}, (∀ c ∈ s, rustWs c = false) → trim s = s := by
  intro s h
  rcases List.eq_nil_or_concat s with rfl | ⟨l, x, rfl⟩
  · rfl
  · simp only [List.concat_eq_append] at h ⊢
    unfold trim
    have hs : trimStart (l ++ [x]) = l ++ [x] := by
      cases l with
      | nil => exact trimStart_cons (h x (by simp))
      | cons a l => exact trimStart_cons (h a (by simp))
    rw [hs, trimEnd_snoc (h x (by simp))]

/-- `encode_term_star` stores a term unchanged when none of its re-cleaning rules applies -/
theorem encTerm_plain {t : Str} (h1 : trim t = t)
    (hA : (startsWith ['<', '<'] t && endsWith ['>', '>'] t) = false)
    (hB : (startsWith ['<'] t && endsWith ['>'] t) = false)
    (hC : startsWith ['"'] t = false) : encTerm t = .plain t := by
  simp [encTerm, encodeTermStar, h1, hA, hB, hC]

theorem sliceMid_angle (s : Str) : sliceMid (angle s) = s := by
  simp [sliceMid, angle]

theorem looksLike_head {v : Str} (h : looksLikeAbsoluteIri v = true) : ∃ f r, v = f :: r ∧ f.isAlpha = true := by
  cases v with
  | nil => simp [looksLikeAbsoluteIri] at h
  | cons c r =>
    refine ⟨c, r, rfl, ?_⟩
    simp only [looksLikeAbsoluteIri, Bool.and_eq_true] at h
    have h2 := h.2
    by_cases hc : (c != ':') = true
    · simp [List.takeWhile, hc] at h2; exact h2.1
    · simp [List.takeWhile, hc] at h2

theorem alpha_ne {f d : Char} (h : f.isAlpha = true) (hd : d.isAlpha = false) : f ≠ d := by
  intro e; subst e; rw [h] at hd; cases hd

/-- everything the line theorem needs about one rendered term `X` that should be read back as the stored string `v` -/
structure Good (X v : Str) : Prop where
  seg : Seg X
  clean : cleanNT X = v
  enc : encTerm v = .plain v

theorem good_angle_all {s : Str} (hne : s ≠ []) (hall : s.all iriChar = true) : Good (angle s) s := by
  match s, hne with
  | f :: r, _ =>
  have hc := iriChar_facts (List.all_eq_true.mp hall f (by simp))
  have hws : ∀ c ∈ f :: r, rustWs c = false := fun c hc' => (iriChar_facts (List.all_eq_true.mp hall c hc')).2.2.2.2.1
  have seg := seg_angle (by simp) hall
  have n1 : ('<' == f) = false := by simpa using fun h => hc.1 h.symm
  have n2 : ('"' == f) = false := by simpa using fun h => hc.2.2.1 h.symm
  refine ⟨seg, ?_, ?_⟩
  · unfold cleanNT
    simp only [trim_tok seg.tok]
    have a1 : startsWith ['<', '<'] (angle (f :: r)) = false := by
      simp [startsWith, angle, List.isPrefixOf, n1]
    have a2 : startsWith ['<'] (angle (f :: r)) = true := by simp [startsWith, angle, List.isPrefixOf]
    have a3 : endsWith ['>'] (angle (f :: r)) = true := by
      simp only [endsWith, angle, List.isSuffixOf_iff_suffix]
      exact ⟨'<' :: f :: r, by simp⟩
    simp [a1, a2, a3, sliceMid_angle]
  · exact encTerm_plain (trim_nonws hws) (by simp [startsWith, List.isPrefixOf, n1])
      (by simp [startsWith, List.isPrefixOf, n1]) (by simp [startsWith, List.isPrefixOf, n2])

theorem good_angle {s : Str} (h : validIri s = true) : Good (angle s) s := by
  simp only [validIri, Bool.and_eq_true] at h
  obtain ⟨f, r, rfl, _⟩ := looksLike_head h.1
  exact good_angle_all (by simp) h.2

theorem iriChar_of_label {c : Char} (h : labelChar c = true) : iriChar c = true := by
  have hn : ∀ d : Char, labelChar d = false → c ≠ d := by
    intro d hd e; subst e; rw [h] at hd; cases hd
  have hp := labelChar_plain h
  have h20 : c.toNat > 0x20 := by
    simp only [labelChar, Bool.or_eq_true, Bool.and_eq_true, decide_eq_true_eq, beq_iff_eq] at h
    omega
  simp only [iriChar, Bool.and_eq_true, bne_iff_ne, ne_eq, Bool.not_eq_true', decide_eq_true_eq]
  exact ⟨⟨⟨⟨⟨⟨⟨⟨⟨⟨h20, hp.2.2.2.2.2.2⟩, hp.1⟩, hp.2.1⟩, hp.2.2.1⟩, hn _ (by decide)⟩, hn _ (by decide)⟩, hn _ (by decide)⟩,
    hn _ (by decide)⟩, hn _ (by decide)⟩, hn _ (by decide)⟩

theorem blank_all_iriChar {b : Str} (h : validBlank b = true) : b ≠ [] ∧ b.all iriChar = true := by
  obtain ⟨l, rfl, hl⟩ := validBlank_shape h
  refine ⟨by simp, ?_⟩
  simp only [List.all_cons, Bool.and_eq_true, List.all_eq_true]
  exact ⟨by decide, by decide, fun c hc => iriChar_of_label (hl c hc)⟩

theorem isHttp_looksLike {o : Str} (h : isHttp o = true) : looksLikeAbsoluteIri o = true := by
  simp only [isHttp, startsWith, Bool.or_eq_true, List.isPrefixOf_iff_prefix] at h
  rcases h with ⟨r, rfl⟩ | ⟨r, rfl⟩ <;> simp [looksLikeAbsoluteIri, List.takeWhile] <;> decide

theorem good_blank {b : Str} (h : validBlank b = true) : Good b b := by
  have seg := seg_blank h
  obtain ⟨l, rfl, _⟩ := validBlank_shape h
  refine ⟨seg, ?_, ?_⟩
  · unfold cleanNT
    simp only [trim_tok seg.tok]
    simp [startsWith, List.isPrefixOf]
  · exact encTerm_plain (trim_tok seg.tok) (by simp [startsWith, List.isPrefixOf])
      (by simp [startsWith, List.isPrefixOf]) (by simp [startsWith, List.isPrefixOf])

theorem good_quote (hrows : ∀ p ∈ escapeTable, escRowOk p = true)
    (hq : (escapeTable.lookup '"').isSome = true) (hb : (escapeTable.lookup '\\').isSome = true)
    (hn : (escapeTable.lookup '\n').isSome = true) {o : Str}
    (h1 : startsWith ['<', '<'] o = false) (h2 : edgeShape o = false) : Good (quote o) o := by
  have seg := seg_quote hrows hq hb hn o
  simp only [edgeShape, Bool.or_eq_false_iff, bne_eq_false_iff_eq] at h2
  obtain ⟨⟨ht, hC⟩, hB⟩ := h2
  refine ⟨seg, ?_, ?_⟩
  · unfold cleanNT
    simp only [trim_tok seg.tok]
    have d : decodeLit (quote o) = some (o, []) := by
      simp [decodeLit, quote, decodeGo_escape hrows hq hb]
    have q1 : startsWith ['<', '<'] (quote o) = false := by simp [startsWith, quote, List.isPrefixOf]
    have q2 : startsWith ['<'] (quote o) = false := by simp [startsWith, quote, List.isPrefixOf]
    have q3 : startsWith ['"'] (quote o) = true := by simp [startsWith, quote, List.isPrefixOf]
    simp [q1, q2, q3, d]
  · exact encTerm_plain ht (by simp [h1]) hB hC

/-! ### documents -/

theorem linesGo_line : ∀ (l rest cur : Str), (∀ c ∈ l, c ≠ '\n') →
    linesGo (l ++ '\n' :: rest) cur = stripCr (cur.reverse ++ l) :: linesGo rest [] := by
  intro l
  induction l with
  | nil => intro rest cur _; simp [linesGo]
  | cons c l ih =>
    intro rest cur h
    have hc : c ≠ '\n' := h c (by simp)
    simp only [List.cons_append, linesGo, hc, if_false]
    rw [ih rest (c :: cur) (fun d hd => h d (List.mem_cons_of_mem _ hd))]
    simp

theorem stripCr_dot (x : Str) : stripCr (x ++ ['.']) = x ++ ['.'] := by
  simp [stripCr]

/-- a document made of `\n`-terminated lines, none containing `\n` and each ending in `.`, splits back into them -/
theorem lines_flatMap {α} (f : α → Str) (hnl : ∀ a, ∀ c ∈ f a, c ≠ '\n') (hdot : ∀ a, ∃ x, f a = x ++ ['.']) :
    ∀ (D : List α), lines (D.flatMap fun a => f a ++ ['\n']) = D.map f := by
  intro D
  induction D with
  | nil => simp [lines, linesGo]
  | cons a D ih =>
    simp only [List.flatMap_cons, List.map_cons]
    unfold lines at ih ⊢
    rw [List.append_assoc]
    have : ['\n'] ++ (D.flatMap fun a => f a ++ ['\n']) = '\n' :: (D.flatMap fun a => f a ++ ['\n']) := rfl
    rw [this, linesGo_line _ _ _ (hnl a), ih]
    obtain ⟨x, hx⟩ := hdot a
    simp [hx, stripCr_dot]

end Kolibrie.Lines
