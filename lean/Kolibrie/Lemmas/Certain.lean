import Kolibrie.Lemmas.InputIndep
/-! A decidable, syntactic sufficient condition for `Safe`: every FILTER variable is among the variables its
    input certainly binds (`planCertain`). (core Lean only) -/
namespace Kolibrie.Engine
open List

def termVar : Term → List Var
  | .var v => [v]
  | .const _ => []

/-- variables bound in every solution a plan produces (whatever comes in) -/
def planCertain : Plan → List Var
  | .unit => []
  | .empty => []
  | .scan pat => termVar pat.s ++ termVar pat.p ++ termVar pat.o
  | .star pats => pats.flatMap (fun pat => termVar pat.s ++ termVar pat.p ++ termVar pat.o)
  | .values _ _ => []
  | .subquery _ _ => []
  | .union l r => (planCertain l).filter (fun v => (planCertain r).contains v)
  | .bindJoin l r => planCertain l ++ planCertain r
  | .hashJoin l r => planCertain l ++ planCertain r
  | .nlJoin l r => planCertain l ++ planCertain r
  | .graph i _ => planCertain i
  | .filter i _ => planCertain i
  | .project _ _ => []
  | .bind _ _ _ => []

/-- the decidable side condition -/
def safeSyn : Plan → Bool
  | .unit => true
  | .empty => true
  | .scan _ => true
  | .star _ => true
  | .values _ _ => true
  | .subquery _ _ => true
  | .union l r => safeSyn l && safeSyn r
  | .bindJoin l r => safeSyn l && safeSyn r
  | .hashJoin l r => safeSyn l && safeSyn r
  | .nlJoin l r => safeSyn l && safeSyn r
  | .graph i _ => safeSyn i
  | .filter i c => safeSyn i && c.vars.all (fun v => (planCertain i).contains v)
  | .project _ _ => false
  | .bind _ _ _ => false

/-- `r'` binds everything `r` binds, to the same values -/
def Extends (r r' : Row) : Prop := ∀ v x, Row.get r v = some x → Row.get r' v = some x

theorem Extends.isSome {r r' : Row} (h : Extends r r') (v : Var) (hv : (Row.get r v).isSome = true) :
    (Row.get r' v).isSome = true := by
  cases hx : Row.get r v with
  | none => simp [hx] at hv
  | some x => rw [h v x hx]; rfl

theorem extends_refl (r : Row) : Extends r r := fun _ _ h => h
theorem extends_trans {a b c : Row} (h1 : Extends a b) (h2 : Extends b c) : Extends a c :=
  fun v x h => h2 v x (h1 v x h)

theorem matchTerm_extends (t : Term) (x : Val) (b b' : Row) (h : matchTerm t x b = some b') : Extends b b' :=
  fun v y hg => matchTerm_preserves t x b b' v y h hg

theorem matchTerm_binds (v : Var) (x : Val) (b b' : Row) (h : matchTerm (.var v) x b = some b') :
    (Row.get b' v).isSome = true := by
  cases hg : Row.get b v with
  | none =>
    rw [matchTerm_var_none v x b hg] at h; cases h
    rw [Row.get_insert_self]; rfl
  | some y =>
    rw [matchTerm_var_some v x y b hg] at h
    by_cases hyx : (y == x) = true
    · rw [if_pos hyx] at h; cases h; rw [hg]; rfl
    · rw [if_neg hyx] at h; cases h

theorem runChain_extends (ts : List (Term × Val)) (row b : Row) (h : runChain ts row = some b) : Extends row b := by
  induction ts generalizing row with
  | nil => simp [runChain] at h; subst h; exact extends_refl _
  | cons tx rest ih =>
    simp only [runChain, foldlM_cons, Option.bind_eq_bind] at h
    cases hm : matchTerm tx.1 tx.2 row with
    | none => rw [hm] at h; cases h
    | some r' =>
      rw [hm] at h
      exact extends_trans (matchTerm_extends _ _ _ _ hm) (ih r' h)

theorem runChain_binds (ts : List (Term × Val)) (row b : Row) (h : runChain ts row = some b)
    (v : Var) (x : Val) (hm : (Term.var v, x) ∈ ts) : (Row.get b v).isSome = true := by
  induction ts generalizing row with
  | nil => simp at hm
  | cons tx rest ih =>
    simp only [runChain, foldlM_cons, Option.bind_eq_bind] at h
    cases hmt : matchTerm tx.1 tx.2 row with
    | none => rw [hmt] at h; cases h
    | some r' =>
      rw [hmt] at h
      rcases mem_cons.1 hm with heq | hm'
      · have hb : (Row.get r' v).isSome = true := by
          rw [← heq] at hmt; exact matchTerm_binds v x row r' hmt
        exact (runChain_extends rest r' b h).isSome v hb
      · exact ih r' h hm'

theorem mem_termVar (t : Term) (v : Var) (h : v ∈ termVar t) : t = .var v := by
  cases t with
  | const c => simp [termVar] at h
  | var w => simp [termVar] at h; rw [h]

/-- every row of a scan extends its incoming row and binds the pattern's variables -/
theorem scanRow_facts (db : DB) (ctx : Ctx) (pat : QPat) (row : Row) :
    ∀ b ∈ scanRow db ctx pat row, Extends row b ∧
      ∀ v ∈ termVar pat.s ++ termVar pat.p ++ termVar pat.o, (Row.get b v).isSome = true := by
  have chainFacts : ∀ (ts : List (Term × Val)) (s p o : Val) (b : Row),
      runChain (ts ++ [(pat.s, s), (pat.p, p), (pat.o, o)]) row = some b →
      Extends row b ∧ ∀ v ∈ termVar pat.s ++ termVar pat.p ++ termVar pat.o, (Row.get b v).isSome = true := by
    intro ts s p o b hb
    refine ⟨runChain_extends _ row b hb, ?_⟩
    intro v hv
    simp only [mem_append] at hv
    rcases hv with (hv | hv) | hv
    · exact runChain_binds _ row b hb v s (by rw [mem_termVar _ _ hv] at *; simp)
    · exact runChain_binds _ row b hb v p (by rw [mem_termVar _ _ hv] at *; simp)
    · exact runChain_binds _ row b hb v o (by rw [mem_termVar _ _ hv] at *; simp)
  have oneGraph : ∀ g gb, ∀ b ∈ scanOneGraph db pat g gb row, Extends row b ∧
      ∀ v ∈ termVar pat.s ++ termVar pat.p ++ termVar pat.o, (Row.get b v).isSome = true := by
    intro g gb b hb
    rw [scanOneGraph_eq] at hb
    obtain ⟨q, _, hq⟩ := mem_filterMap.1 hb
    unfold quadChain at hq
    exact chainFacts _ q.s q.p q.o b hq
  intro b hb
  unfold scanRow at hb
  cases hg : pat.g with
  | dflt =>
    rw [hg] at hb; simp only at hb
    cases ha : ctx.active with
    | none =>
      rw [ha] at hb; simp only at hb
      rw [scanDefault_eq] at hb
      obtain ⟨t, _, ht⟩ := mem_filterMap.1 hb
      rw [matchTriple_eq_chain] at ht
      exact chainFacts [] t.1 t.2.1 t.2.2 b (by simpa [runChain] using ht)
    | some g => rw [ha] at hb; exact oneGraph _ _ b hb
  | named g =>
    rw [hg] at hb; simp only at hb
    split at hb
    · exact oneGraph _ _ b hb
    · simp at hb
  | var v =>
    rw [hg] at hb; simp only at hb
    cases hv : Row.get row v with
    | none =>
      rw [hv] at hb; simp only at hb
      obtain ⟨g, _, hb'⟩ := mem_flatMap.1 hb
      exact oneGraph _ _ b hb'
    | some g =>
      rw [hv] at hb; simp only at hb
      split at hb
      · exact oneGraph _ _ b hb
      · simp at hb

theorem mergeRows_extends (a b m : Row) (ha : Row.WF a) (h : mergeRows a b = some m) : Extends a m ∧ Extends b m := by
  classical
  by_cases hc : compat a b
  · rw [mergeRows_some a b ha hc] at h; cases h
    constructor
    · intro v x hv; rw [get_unionRows, hv]
    · intro v y hv; rw [get_unionRows]; cases hx : Row.get a v with
      | none => exact hv
      | some x => rw [hc v x y hx hv]
  · rw [mergeRows_none a b ha hc] at h; cases h

/-- what every row of `exec p ctx inc` satisfies: it extends some incoming row and binds `planCertain p`
    (on plans without projection; BIND included) -/
theorem exec_facts (db : DB) (p : Plan) (hs : safeSyn p = true) :
    ∀ (ctx : Ctx) (inc : List Row), AllWF inc → ∀ b ∈ exec db p ctx inc,
      (∃ i ∈ inc, Extends i b) ∧ ∀ v ∈ planCertain p, (Row.get b v).isSome = true := by
  induction p with
  | unit =>
    intro ctx inc _ b hb
    rw [exec_unit] at hb
    exact ⟨⟨b, hb, extends_refl b⟩, fun v hv => by simp [planCertain] at hv⟩
  | empty => intro ctx inc _ b hb; rw [exec_empty] at hb; simp at hb
  | scan pat =>
    intro ctx inc _ b hb
    rw [exec_scan] at hb
    unfold scan at hb
    obtain ⟨row, hrow, hb'⟩ := mem_flatMap.1 hb
    obtain ⟨h1, h2⟩ := scanRow_facts db ctx pat row b hb'
    exact ⟨⟨row, hrow, h1⟩, h2⟩
  | star pats =>
    intro ctx inc hi b hb
    rw [exec_star] at hb
    induction pats generalizing inc with
    | nil => exact ⟨⟨b, by simpa using hb, extends_refl b⟩, fun v hv => by simp [planCertain] at hv⟩
    | cons p ps ih =>
      simp only [foldl_cons] at hb
      obtain ⟨⟨i, hi', hext⟩, hc⟩ := ih (by simp [safeSyn]) (scan db ctx { p with g := .dflt } inc) (scan_wf db ctx _ inc hi) hb
      unfold scan at hi'
      obtain ⟨row, hrow, hi''⟩ := mem_flatMap.1 hi'
      obtain ⟨h1, h2⟩ := scanRow_facts db ctx { p with g := .dflt } row i hi''
      refine ⟨⟨row, hrow, extends_trans h1 hext⟩, ?_⟩
      intro v hv
      simp only [planCertain, flatMap_cons, mem_append] at hv
      rcases hv with hv | hv
      · exact hext.isSome v (h2 v (by simpa [mem_append, or_assoc] using hv))
      · exact hc v (by simpa [planCertain] using hv)
  | values vars rows =>
    intro ctx inc hi b hb
    rw [exec_values] at hb
    unfold nlJoin at hb
    obtain ⟨i, hi', hb'⟩ := mem_flatMap.1 hb
    obtain ⟨r, _, hm⟩ := mem_filterMap.1 hb'
    exact ⟨⟨i, hi', (mergeRows_extends i r b (hi i hi') hm).1⟩, fun v hv => by simp [planCertain] at hv⟩
  | subquery inner spec _ =>
    intro ctx inc hi b hb
    rw [exec_subquery] at hb
    unfold nlJoin at hb
    obtain ⟨i, hi', hb'⟩ := mem_flatMap.1 hb
    obtain ⟨r, _, hm⟩ := mem_filterMap.1 hb'
    exact ⟨⟨i, hi', (mergeRows_extends i r b (hi i hi') hm).1⟩, fun v hv => by simp [planCertain] at hv⟩
  | project i vs _ => simp [safeSyn] at hs
  | bind i args out _ => simp [safeSyn] at hs
  | union l r ihl ihr =>
    intro ctx inc hi b hb
    simp only [safeSyn, Bool.and_eq_true] at hs
    rw [exec_union] at hb
    rcases mem_append.1 hb with hb | hb
    · obtain ⟨h1, h2⟩ := ihl hs.1 ctx inc hi b hb
      exact ⟨h1, fun v hv => h2 v (by simp [planCertain] at hv; exact hv.1)⟩
    · obtain ⟨h1, h2⟩ := ihr hs.2 ctx inc hi b hb
      exact ⟨h1, fun v hv => h2 v (by simp [planCertain] at hv; exact hv.2)⟩
  | graph i g ih =>
    intro ctx inc hi b hb
    simp only [safeSyn] at hs
    rw [exec_graph] at hb
    cases g with
    | dflt => exact ih hs _ inc hi b hb
    | named gn =>
      simp only at hb
      split at hb
      · exact ih hs _ inc hi b hb
      · simp at hb
    | var v =>
      simp only at hb
      obtain ⟨row, hrow, hb'⟩ := mem_flatMap.1 hb
      unfold graphVarRow at hb'
      cases hg : Row.get row v with
      | none =>
        rw [hg] at hb'; simp only at hb'
        obtain ⟨g, _, hb''⟩ := mem_flatMap.1 hb'
        have hw : AllWF [Row.insert row v g] := fun r hr => by
          simp at hr; subst hr; exact Row.wf_insert row v g (hi row hrow)
        obtain ⟨⟨i', hi', hext⟩, hc⟩ := ih hs _ _ hw b hb''
        simp at hi'; subst hi'
        refine ⟨⟨row, hrow, ?_⟩, hc⟩
        intro w x hw'
        apply hext
        by_cases hwv : w = v
        · subst hwv; rw [hg] at hw'; cases hw'
        · rw [Row.get_insert_ne _ _ _ _ hwv]; exact hw'
      | some g =>
        rw [hg] at hb'; simp only at hb'
        split at hb'
        · have hw : AllWF [row] := fun r hr => by simp at hr; rw [hr]; exact hi row hrow
          obtain ⟨⟨i', hi', hext⟩, hc⟩ := ih hs _ _ hw b hb'
          simp at hi'; subst hi'
          exact ⟨⟨i', hrow, hext⟩, hc⟩
        · simp at hb'
  | filter i c ih =>
    intro ctx inc hi b hb
    simp only [safeSyn, Bool.and_eq_true] at hs
    rw [exec_filter] at hb
    exact ih hs.1 ctx inc hi b (mem_filter.1 hb).1
  | bindJoin l r ihl ihr =>
    intro ctx inc hi b hb
    simp only [safeSyn, Bool.and_eq_true] at hs
    rw [exec_bindJoin] at hb
    obtain ⟨⟨m, hm, hext⟩, hc⟩ := ihr hs.2 ctx _ (exec_wf db l ctx inc hi) b hb
    obtain ⟨⟨i, hi', hext'⟩, hc'⟩ := ihl hs.1 ctx inc hi m hm
    refine ⟨⟨i, hi', extends_trans hext' hext⟩, ?_⟩
    intro v hv
    simp only [planCertain, mem_append] at hv
    rcases hv with hv | hv
    · exact hext.isSome v (hc' v hv)
    · exact hc v hv
  | hashJoin l r ihl ihr =>
    intro ctx inc hi b hb
    simp only [safeSyn, Bool.and_eq_true] at hs
    rw [exec_hashJoin] at hb
    have hb2 : b ∈ nlJoin (exec db l ctx inc) (exec db r ctx [[]]) :=
      (guarded_hash_perm _ _).subset hb
    unfold nlJoin at hb2
    obtain ⟨m, hm, hb'⟩ := mem_flatMap.1 hb2
    obtain ⟨n, hn, hmn⟩ := mem_filterMap.1 hb'
    obtain ⟨⟨i, hi', hext'⟩, hc'⟩ := ihl hs.1 ctx inc hi m hm
    obtain ⟨_, hcr⟩ := ihr hs.2 ctx [[]] allWF_unit n hn
    obtain ⟨e1, e2⟩ := mergeRows_extends m n b (exec_wf db l ctx inc hi m hm) hmn
    refine ⟨⟨i, hi', extends_trans hext' e1⟩, ?_⟩
    intro v hv
    simp only [planCertain, mem_append] at hv
    rcases hv with hv | hv
    · exact e1.isSome v (hc' v hv)
    · exact e2.isSome v (hcr v hv)
  | nlJoin l r ihl ihr =>
    intro ctx inc hi b hb
    simp only [safeSyn, Bool.and_eq_true] at hs
    rw [exec_nlJoin, hash_or_nl_empty] at hb
    unfold nlJoin at hb
    obtain ⟨m, hm, hb'⟩ := mem_flatMap.1 hb
    obtain ⟨n, hn, hmn⟩ := mem_filterMap.1 hb'
    obtain ⟨⟨i, hi', hext'⟩, hc'⟩ := ihl hs.1 ctx inc hi m hm
    obtain ⟨_, hcr⟩ := ihr hs.2 ctx [[]] allWF_unit n hn
    obtain ⟨e1, e2⟩ := mergeRows_extends m n b (exec_wf db l ctx inc hi m hm) hmn
    refine ⟨⟨i, hi', extends_trans hext' e1⟩, ?_⟩
    intro v hv
    simp only [planCertain, mem_append] at hv
    rcases hv with hv | hv
    · exact e1.isSome v (hc' v hv)
    · exact e2.isSome v (hcr v hv)

/-- **the decidable condition implies the semantic one** -/
theorem safe_of_safeSyn (db : DB) (p : Plan) (hs : safeSyn p = true) : Safe db p := by
  induction p with
  | unit => trivial
  | empty => trivial
  | scan _ => trivial
  | star _ => trivial
  | values _ _ => trivial
  | subquery _ _ _ => trivial
  | project _ _ _ => simp [safeSyn] at hs
  | bind _ _ _ _ => simp [safeSyn] at hs
  | union l r ihl ihr => simp only [safeSyn, Bool.and_eq_true] at hs; exact ⟨ihl hs.1, ihr hs.2⟩
  | bindJoin l r ihl ihr => simp only [safeSyn, Bool.and_eq_true] at hs; exact ⟨ihl hs.1, ihr hs.2⟩
  | hashJoin l r ihl ihr => simp only [safeSyn, Bool.and_eq_true] at hs; exact ⟨ihl hs.1, ihr hs.2⟩
  | nlJoin l r ihl ihr => simp only [safeSyn, Bool.and_eq_true] at hs; exact ⟨ihl hs.1, ihr hs.2⟩
  | graph i g ih => simp only [safeSyn] at hs; exact ih hs
  | filter i c ih =>
    simp only [safeSyn, Bool.and_eq_true] at hs
    refine ⟨ih hs.1, ?_⟩
    intro ctx _ r hr v hv
    have hc := (exec_facts db i hs.1 ctx [[]] allWF_unit r hr).2
    apply hc
    have := (List.all_eq_true.1 hs.2) v hv
    simpa using this

end Kolibrie.Engine
