import Kolibrie.Model.Load
/-
Helper lemmas for C13: chunking, the dictionary invariant under `encode`, sequential encoding, `or_insert` merge.
-/
namespace Kolibrie.Load
open Kolibrie.Lines

/-! ### chunks -/

theorem chunksF_flatten {α} (n : Nat) (hn : 0 < n) : ∀ (f : Nat) (l : List α), l.length ≤ f → (chunksF f n l).flatten = l := by
  intro f
  induction f with
  | zero => intro l h; have : l = [] := List.length_eq_zero_iff.mp (Nat.le_zero.mp h); subst this; rfl
  | succ f ih =>
    intro l h
    unfold chunksF
    cases l with
    | nil => rfl
    | cons a l =>
      simp only [List.isEmpty_cons, Bool.false_eq_true, if_false, List.flatten_cons]
      rw [ih]
      · exact List.take_append_drop n (a :: l)
      · simp only [List.length_drop, List.length_cons] at h ⊢; omega

theorem chunks_flatten {α} (n : Nat) (hn : 0 < n) (l : List α) : (chunks n l).flatten = l :=
  chunksF_flatten n hn l.length l (Nat.le_refl _)

theorem flatMap_filterMap_flatten {α β} (g : α → Option β) : ∀ (L : List (List α)),
    L.flatMap (fun c => c.filterMap g) = L.flatten.filterMap g := by
  intro L
  induction L with
  | nil => rfl
  | cons c L ih => simp [List.flatMap_cons, List.filterMap_append, ih]

theorem chunksF_single {α} (n : Nat) : ∀ (f : Nat) (l : List α), l ≠ [] → l.length ≤ n → 0 < f → chunksF f n l = [l] := by
  intro f l hne hl hf
  cases f with
  | zero => omega
  | succ f =>
    unfold chunksF
    have : l.isEmpty = false := by cases l <;> simp_all
    simp only [this, Bool.false_eq_true, if_false, List.take_of_length_le hl, List.drop_of_length_le hl]
    cases f <;> simp [chunksF]

/-! ### dictionary invariant -/

/-- the two maps agree and every allocated id is below the counter -/
structure DictInv (d : Dict) : Prop where
  fwd : ∀ s i, d.s2i.lookup s = some i → d.i2s.lookup i = some s
  bound : ∀ i s, d.i2s.lookup i = some s → i < d.next

theorem DictInv.empty : DictInv Dict.empty := ⟨by intro s i h; simp [Dict.empty, List.lookup] at h, by intro i s h; simp [Dict.empty, List.lookup] at h⟩

theorem lookup_cons_ne {κ β} [BEq κ] [LawfulBEq κ] {k k' : κ} {v : β} {l : List (κ × β)} (h : k ≠ k') :
    ((k', v) :: l).lookup k = l.lookup k := by
  have : (k == k') = false := by simpa using h
  simp [List.lookup, this]

theorem lookup_cons_self {κ β} [BEq κ] [LawfulBEq κ] {k : κ} {v : β} {l : List (κ × β)} :
    ((k, v) :: l).lookup k = some v := by
  simp [List.lookup]

theorem encode_inv {d : Dict} (h : DictInv d) (s : Str) : DictInv (d.encode s).1 := by
  unfold Dict.encode
  cases hl : d.s2i.lookup s with
  | some i => exact h
  | none =>
    refine ⟨?_, ?_⟩
    · intro t i ht
      by_cases hts : t = s
      · subst hts
        simp only [lookup_cons_self, Option.some.injEq] at ht
        subst ht; exact lookup_cons_self
      · simp only [lookup_cons_ne hts] at ht
        have := h.fwd t i ht
        have hi : i ≠ d.next := fun e => Nat.lt_irrefl _ (e ▸ h.bound i t this)
        simp only [lookup_cons_ne hi]; exact this
    · intro i t ht
      by_cases hi : i = d.next
      · subst hi; exact Nat.lt_succ_self _
      · simp only [lookup_cons_ne hi] at ht
        exact Nat.lt_succ_of_lt (h.bound i t ht)

theorem encode_mono {d : Dict} (h : DictInv d) (s : Str) {i : Nat} {t : Str} (hd : d.decode i = some t) :
    (d.encode s).1.decode i = some t := by
  unfold Dict.encode
  cases hl : d.s2i.lookup s with
  | some j => exact hd
  | none =>
    have hi : i ≠ d.next := fun e => Nat.lt_irrefl _ (e ▸ h.bound i t hd)
    simp only [Dict.decode, lookup_cons_ne hi]; exact hd

theorem encode_decode {d : Dict} (h : DictInv d) (s : Str) : (d.encode s).1.decode (d.encode s).2 = some s := by
  unfold Dict.encode
  cases hl : d.s2i.lookup s with
  | some j => exact h.fwd s j hl
  | none => simp only [Dict.decode]; exact lookup_cons_self

/-! ### lexical terms through the dictionary -/

/-- `d'` extends `d`: invariant kept, every decodable id keeps its string -/
structure Ext (d d' : Dict) : Prop where
  inv : DictInv d'
  mono : ∀ i t, d.decode i = some t → d'.decode i = some t

theorem Ext.refl {d : Dict} (h : DictInv d) : Ext d d := ⟨h, fun _ _ h => h⟩
theorem Ext.trans {a b c : Dict} (h1 : Ext a b) (h2 : Ext b c) : Ext a c :=
  ⟨h2.inv, fun i t h => h2.mono i t (h1.mono i t h)⟩

theorem lexI_mono {d d' : Dict} (h : Ext d d') : ∀ (t : ITerm) (x : LTerm), lexI d t = some x → lexI d' t = some x := by
  intro t
  induction t with
  | leaf i =>
    intro x hx
    simp only [lexI, Option.map_eq_some_iff] at hx ⊢
    obtain ⟨s, hs, rfl⟩ := hx
    exact ⟨s, h.mono i s hs, rfl⟩
  | quoted a b c iha ihb ihc =>
    intro x hx
    simp only [lexI] at hx ⊢
    cases ha : lexI d a with
    | none => simp [ha] at hx
    | some xa =>
      cases hb : lexI d b with
      | none => simp [ha, hb] at hx
      | some xb =>
        cases hc : lexI d c with
        | none => simp [ha, hb, hc] at hx
        | some xc =>
          simp only [ha, hb, hc, Option.some.injEq] at hx
          simp [iha xa ha, ihb xb hb, ihc xc hc, hx]

theorem encodeL_spec : ∀ (t : LTerm) (d : Dict), DictInv d →
    Ext d (encodeL d t).1 ∧ lexI (encodeL d t).1 (encodeL d t).2 = some t := by
  intro t
  induction t with
  | plain s =>
    intro d h
    exact ⟨⟨encode_inv h s, fun i t hd => encode_mono h s hd⟩, by simp [encodeL, lexI, encode_decode h s]⟩
  | quoted a b c iha ihb ihc =>
    intro d h
    obtain ⟨ea, la⟩ := iha d h
    obtain ⟨eb, lb⟩ := ihb _ ea.inv
    obtain ⟨ec, lc⟩ := ihc _ eb.inv
    refine ⟨ea.trans (eb.trans ec), ?_⟩
    simp only [encodeL, lexI]
    rw [lexI_mono (eb.trans ec) _ _ la, lexI_mono ec _ _ lb, lc]

theorem lexQuad_mono {d d' : Dict} (h : Ext d d') (q : IQuad) (x : LQuad) (hx : lexQuad d q = some x) :
    lexQuad d' q = some x := by
  unfold lexQuad at hx ⊢
  cases hs : lexI d q.s with
  | none => simp [hs] at hx
  | some s =>
    cases hp : lexI d q.p with
    | none => simp [hs, hp] at hx
    | some p =>
      cases ho : lexI d q.o with
      | none => simp [hs, hp, ho] at hx
      | some o =>
        simp only [hs, hp, ho] at hx
        simp only [lexI_mono h _ _ hs, lexI_mono h _ _ hp, lexI_mono h _ _ ho]
        cases hg : q.g with
        | none => simpa [hg] using hx
        | some g =>
          simp only [hg, Option.map_eq_some_iff] at hx ⊢
          obtain ⟨gl, hgl, rfl⟩ := hx
          exact ⟨gl, lexI_mono h _ _ hgl, rfl⟩

/-- a database whose dictionary is consistent and whose quads are all decodable -/
structure WellDB (db : DB) : Prop where
  inv : DictInv db.dict
  dec : ∀ q ∈ db.quads, ∃ x, lexQuad db.dict q = some x

theorem lex_mono {d d' : Dict} (h : Ext d d') (qs : List IQuad) (hq : ∀ q ∈ qs, ∃ x, lexQuad d q = some x) :
    qs.map (lexQuad d') = qs.map (lexQuad d) := by
  apply List.map_congr_left
  intro q hqm
  obtain ⟨x, hx⟩ := hq q hqm
  rw [hx, lexQuad_mono h q x hx]

theorem addL_spec (db : DB) (h : WellDB db) (q : LQuad) :
    WellDB (addL db q) ∧ lex (addL db q) = lex db ++ [some q] := by
  obtain ⟨s, p, o, g⟩ := q
  obtain ⟨es, ls⟩ := encodeL_spec s db.dict h.inv
  obtain ⟨ep, lp⟩ := encodeL_spec p _ es.inv
  obtain ⟨eo, lo⟩ := encodeL_spec o _ ep.inv
  cases g with
  | none =>
    have ext : Ext db.dict (encodeL (encodeL (encodeL db.dict s).1 p).1 o).1 := es.trans (ep.trans eo)
    have hnew : lexQuad (encodeL (encodeL (encodeL db.dict s).1 p).1 o).1
        ⟨(encodeL db.dict s).2, (encodeL (encodeL db.dict s).1 p).2, (encodeL (encodeL (encodeL db.dict s).1 p).1 o).2, none⟩ =
        some ⟨s, p, o, none⟩ := by
      simp only [lexQuad]
      rw [lexI_mono (ep.trans eo) _ _ ls, lexI_mono eo _ _ lp, lo]
    refine ⟨⟨ext.inv, ?_⟩, ?_⟩
    · intro q hq
      simp only [addL, List.mem_append, List.mem_singleton] at hq
      rcases hq with hq | rfl
      · obtain ⟨x, hx⟩ := h.dec q hq
        exact ⟨x, lexQuad_mono ext q x hx⟩
      · exact ⟨_, hnew⟩
    · simp only [lex, addL, List.map_append, List.map_cons, List.map_nil]
      rw [lex_mono ext _ h.dec, hnew]
  | some g =>
    obtain ⟨eg, lg⟩ := encodeL_spec g _ eo.inv
    have ext : Ext db.dict (encodeL (encodeL (encodeL (encodeL db.dict s).1 p).1 o).1 g).1 := es.trans (ep.trans (eo.trans eg))
    have hnew : lexQuad (encodeL (encodeL (encodeL (encodeL db.dict s).1 p).1 o).1 g).1
        ⟨(encodeL db.dict s).2, (encodeL (encodeL db.dict s).1 p).2, (encodeL (encodeL (encodeL db.dict s).1 p).1 o).2,
          some (encodeL (encodeL (encodeL (encodeL db.dict s).1 p).1 o).1 g).2⟩ = some ⟨s, p, o, some g⟩ := by
      simp only [lexQuad]
      rw [lexI_mono (ep.trans (eo.trans eg)) _ _ ls, lexI_mono (eo.trans eg) _ _ lp, lexI_mono eg _ _ lo, lg]
      rfl
    refine ⟨⟨ext.inv, ?_⟩, ?_⟩
    · intro q hq
      simp only [addL, List.mem_append, List.mem_singleton] at hq
      rcases hq with hq | rfl
      · obtain ⟨x, hx⟩ := h.dec q hq
        exact ⟨x, lexQuad_mono ext q x hx⟩
      · exact ⟨_, hnew⟩
    · simp only [lex, addL, List.map_append, List.map_cons, List.map_nil]
      rw [lex_mono ext _ h.dec, hnew]

theorem encodeSeq_spec : ∀ (qs : List LQuad) (db : DB), WellDB db →
    WellDB (encodeSeq db qs) ∧ lex (encodeSeq db qs) = lex db ++ qs.map some := by
  intro qs
  induction qs with
  | nil => intro db h; exact ⟨h, by simp [encodeSeq]⟩
  | cons q qs ih =>
    intro db h
    obtain ⟨h1, l1⟩ := addL_spec db h q
    obtain ⟨h2, l2⟩ := ih (addL db q) h1
    refine ⟨h2, ?_⟩
    have : encodeSeq db (q :: qs) = encodeSeq (addL db q) qs := rfl
    rw [this, l2, l1]; simp

theorem WellDB.empty : WellDB DB.empty := ⟨DictInv.empty, by intro q hq; simp [DB.empty] at hq⟩

end Kolibrie.Load

namespace Kolibrie.Load
open Kolibrie.Lines

/-! ### `or_insert` merge into an empty dictionary -/

theorem lookup_orInsert {κ β} [BEq κ] [LawfulBEq κ] (m : List (κ × β)) (k k' : κ) (v : β) :
    (orInsert m k' v).lookup k = (m.lookup k).or (if k == k' then some v else none) := by
  unfold orInsert
  cases hk' : m.lookup k' with
  | some x =>
    by_cases e : k = k'
    · subst e; simp [hk']
    · have : (k == k') = false := by simpa using e
      simp [this]
  | none =>
    simp only [List.lookup_append]
    congr 1
    by_cases e : k = k'
    · subst e; simp [List.lookup]
    · have : (k == k') = false := by simpa using e
      simp [List.lookup, this]

theorem lookup_foldl_orInsert {κ β} [BEq κ] [LawfulBEq κ] (k : κ) : ∀ (l m : List (κ × β)),
    (l.foldl (fun m kv => orInsert m kv.1 kv.2) m).lookup k = (m.lookup k).or (l.lookup k) := by
  intro l
  induction l with
  | nil => intro m; simp [List.lookup]
  | cons kv l ih =>
    intro m
    obtain ⟨k', v⟩ := kv
    simp only [List.foldl_cons]
    rw [ih, lookup_orInsert]
    by_cases e : k = k'
    · subst e; cases m.lookup k <;> simp [List.lookup]
    · have : (k == k') = false := by simpa using e
      cases m.lookup k <;> simp [List.lookup, this]

theorem merge_empty_decode (d : Dict) (i : Nat) : (Dict.empty.merge d).decode i = d.decode i := by
  simp [Dict.merge, Dict.decode, Dict.empty, lookup_foldl_orInsert, List.lookup]

theorem lexI_congr {d d' : Dict} (h : ∀ i, d.decode i = d'.decode i) : ∀ t, lexI d t = lexI d' t := by
  intro t
  induction t with
  | leaf i => simp [lexI, h]
  | quoted a b c iha ihb ihc => simp [lexI, iha, ihb, ihc]

theorem lexQuad_congr {d d' : Dict} (h : ∀ i, d.decode i = d'.decode i) (q : IQuad) : lexQuad d q = lexQuad d' q := by
  unfold lexQuad
  rw [lexI_congr h q.s, lexI_congr h q.p, lexI_congr h q.o]
  cases q.g with
  | none => rfl
  | some g => simp [lexI_congr h g]

end Kolibrie.Load
