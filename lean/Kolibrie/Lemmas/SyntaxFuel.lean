import Kolibrie.Lemmas.SyntaxNested
/-! The generous fuel of `parseTok` (64 per token) always covers the requirement of the round-trip theorem. -/
namespace Kolibrie.Syntax

theorem fuelF_le : ∀ e : FExpr, fuelF e ≤ 4 * (toksF e).length
  | .cmp _ _ _ => by simp [fuelF, toksF]
  | .and a b => by have := fuelF_le a; have := fuelF_le b; simp [fuelF, toksF]; omega
  | .or a b => by have := fuelF_le a; have := fuelF_le b; simp [fuelF, toksF]; omega
  | .not a => by have := fuelF_le a; simp [fuelF, toksF]; omega

theorem len_toksPos : ∀ pos : List (Lexeme × Lexeme), pos.length ≤ (toksPos pos).length
  | [] => by simp [toksPos]
  | [(p, o)] => by simp [toksPos]
  | (p, o) :: q :: r => by have := len_toksPos (q :: r); rw [toksPos_cons2]; simp at this ⊢; omega

theorem braced_ge_item (d : Dots) (p : Pat) : (toksItem d p).length ≤ (toksBraced d p).length := by
  cases p <;> simp [toksItem, toksBraced] <;> omega

mutual
theorem boundP (d : Dots) : ∀ p : Pat, wfP p = true → fuelP p + 40 ≤ 64 * (toksItem d p).length
  | .unit, _ => by simp [fuelP, toksItem]
  | .bgp s pos, _ => by have := len_toksPos pos; simp [fuelP, toksItem]; omega
  | .join ps, h => by
    simp only [wfP, Bool.and_eq_true] at h
    have := boundL d ps h.2
    simp [fuelP, toksItem]; omega
  | .union ps, h => by
    simp only [wfP, Bool.and_eq_true, decide_eq_true_eq] at h
    have := boundA d ps h.2
    simp [fuelP, toksItem]; omega
  | .graph n q, h => by
    have := boundP d q (by simpa [wfP] using h)
    have := braced_ge_item d q
    simp [fuelP, toksItem]; omega
  | .filter e, _ => by have := fuelF_le e; simp [fuelP, toksItem]; omega
  | .sub q, h => by
    have := boundS d q (by simpa [wfP] using h)
    simp [fuelP, toksItem]; omega
theorem boundL (d : Dots) : ∀ ps : PatList, wfL ps = true → fuelL ps ≤ 64 * (toksItems d ps).length + 2
  | .nil, _ => by simp [fuelL]
  | .cons p ps, h => by
    simp only [wfL, Bool.and_eq_true] at h
    have h1 := boundP d p h.1
    have h2 := boundL d ps h.2
    have hlen : (toksItem d p).length + (toksItems d ps).length ≤ (toksItems d (.cons p ps)).length := by
      have := toksItems_cons d p ps []
      simp only [List.append_nil] at this
      rw [this]; simp only [List.length_append]; omega
    simp only [fuelL]; omega
theorem boundA (d : Dots) : ∀ ps : PatList, wfL ps = true →
    fuelL ps + 28 * ps.length ≤ 64 * (toksAlts d ps).length + 2
  | .nil, _ => by simp [fuelL, PatList.length]
  | .cons p ps, h => by
    simp only [wfL, Bool.and_eq_true] at h
    have h1 := boundP d p h.1
    have h2 := boundA d ps h.2
    have h3 := braced_ge_item d p
    have hlen : (toksBraced d p).length + (toksAlts d ps).length ≤ (toksAlts d (.cons p ps)).length := by
      cases ps <;> simp [toksAlts] <;> omega
    simp only [fuelL, PatList.length]; omega
theorem boundS (d : Dots) : ∀ q : Sel, wfS q = true → fuelS q + 40 ≤ 64 * (toksSel d q).length
  | .mk dist vars pat gb ob lim, h => by
    simp only [wfS, Bool.and_eq_true] at h
    have h1 := boundP d pat h.1.1.2
    have h2 := braced_ge_item d pat
    have hlen : 2 + (toksBraced d pat).length ≤ (toksSel d (.mk dist vars pat gb ob lim)).length := by
      simp only [toksSel, List.length_cons, List.length_append]; omega
    simp only [fuelS]; omega
end

theorem fuel_enough (d : Dots) (q : Sel) (h : wfS q = true) : fuelS q ≤ 64 * (toksSel d q).length + 64 := by
  have := boundS d q h; omega

end Kolibrie.Syntax
