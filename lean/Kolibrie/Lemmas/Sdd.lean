import Kolibrie.Model.Sdd
import Kolibrie.Spec.TruthTable
/-!
Helper lemmas for C07, part 1: denotation over the arena, the semantic invariant `Inv`, the extension order
`Pre`, and the Hoare-style rule `Post.bind` used to execute the monadic model symbolically.
-/
namespace Kolibrie.Sdd

/-! ### evaluation of the arena -/

def evalFrom (σ : Asg) (acc : List Bool) (nodes : List Node) : List Bool :=
  nodes.foldl (fun acc nd => acc ++ [evalNode σ acc nd]) acc

theorem evalAll_eq (σ : Asg) (ns : List Node) : evalAll σ ns = evalFrom σ [] ns := rfl

theorem evalFrom_append (σ : Asg) (acc : List Bool) (a b : List Node) :
    evalFrom σ acc (a ++ b) = evalFrom σ (evalFrom σ acc a) b := by
  simp [evalFrom, List.foldl_append]

theorem evalFrom_prefix (σ : Asg) (ns : List Node) :
    ∀ acc, ∃ t, evalFrom σ acc ns = acc ++ t ∧ t.length = ns.length := by
  induction ns with
  | nil => intro acc; exact ⟨[], by simp [evalFrom]⟩
  | cons n ns ih =>
    intro acc
    obtain ⟨t, ht, hl⟩ := ih (acc ++ [evalNode σ acc n])
    refine ⟨evalNode σ acc n :: t, ?_, by simp [hl]⟩
    simp only [evalFrom, List.foldl_cons] at ht ⊢
    rw [ht]; simp

theorem evalAll_length (σ : Asg) (ns : List Node) : (evalAll σ ns).length = ns.length := by
  obtain ⟨t, ht, hl⟩ := evalFrom_prefix σ ns []
  rw [evalAll_eq, ht]; simpa using hl

theorem evalAll_append_getD (σ : Asg) (a b : List Node) (i : Nat) (h : i < a.length) :
    (evalAll σ (a ++ b)).getD i false = (evalAll σ a).getD i false := by
  rw [evalAll_eq, evalFrom_append]
  obtain ⟨t, ht, _⟩ := evalFrom_prefix σ b (evalFrom σ [] a)
  rw [ht]
  have : i < (evalFrom σ [] a).length := by rw [← evalAll_eq, evalAll_length]; exact h
  simp [List.getD_eq_getElem?_getD, List.getElem?_append_left this, evalAll_eq]

theorem evalAll_snoc (σ : Asg) (a : List Node) (n : Node) :
    evalAll σ (a ++ [n]) = evalAll σ a ++ [evalNode σ (evalAll σ a) n] := by
  simp [evalAll, List.foldl_append]

theorem evalAll_snoc_getD_last (σ : Asg) (a : List Node) (n : Node) :
    (evalAll σ (a ++ [n])).getD a.length false = evalNode σ (evalAll σ a) n := by
  rw [evalAll_snoc]
  have : (evalAll σ a).length = a.length := evalAll_length σ a
  simp [List.getD_eq_getElem?_getD, ← this]

theorem any_congr_mem {α} {l : List α} {p q : α → Bool} (h : ∀ a ∈ l, p a = q a) : l.any p = l.any q := by
  induction l with
  | nil => rfl
  | cons x xs ih =>
    simp only [List.any_cons]
    rw [h x (by simp), ih (fun a ha => h a (by simp [ha]))]

/-! ### basic predicates -/

def valid (m : Mgr) (id : Id) : Prop := id < m.nodes.length

def anyD (m : Mgr) (σ : Asg) (els : List Elem) : Bool := els.any (fun e => den m e.1 σ && den m e.2 σ)
def cntP (m : Mgr) (σ : Asg) (els : List Elem) : Nat := els.countP (fun e => den m e.1 σ)
def ValidEls (m : Mgr) (els : List Elem) : Prop := ∀ e ∈ els, e.1 < m.nodes.length ∧ e.2 < m.nodes.length

/-- handle `id` is valid in `m` and denotes `f` -/
def Sem (m : Mgr) (id : Id) (f : Fn) : Prop := id < m.nodes.length ∧ ∀ σ, den m id σ = f σ

/-- the semantic invariant of the manager -/
structure MInv (m : Mgr) : Prop where
  hd : ∃ rest, m.nodes = .ff :: .tt :: rest
  closed : ∀ (i vt : Nat) (els : List Elem), m.nodes[i]? = some (Node.dec vt els) → ∀ e ∈ els, e.1 < i ∧ e.2 < i
  part : ∀ (i vt : Nat) (els : List Elem), m.nodes[i]? = some (Node.dec vt els) → ∀ σ, cntP m σ els = 1
  uniq : ∀ (k : Node) (id : Nat), alookup k m.unique = some id → m.nodes[id]? = some k
  acache : ∀ a c op r, alookup (a, c, op) m.applyCache = some r →
    valid m a ∧ valid m c ∧ valid m r ∧ ∀ σ, den m r σ = Fn.op op (den m a) (den m c) σ
  ncache : ∀ a r, alookup a m.negCache = some r → valid m a ∧ valid m r ∧ ∀ σ, den m r σ = !den m a σ

/-- `m'` extends `m`: the arena grew at the end, the vtree and the weights are untouched -/
structure Pre (m m' : Mgr) : Prop where
  nodes : ∃ extra, m'.nodes = m.nodes ++ extra
  vnodes : m'.vnodes = m.vnodes
  vroot : m'.vroot = m.vroot
  var2vt : m'.var2vt = m.var2vt
  posW : m'.posW = m.posW
  negW : m'.negW = m.negW
  kinds : m'.kinds = m.kinds

theorem Pre.refl (m : Mgr) : Pre m m := ⟨⟨[], by simp⟩, rfl, rfl, rfl, rfl, rfl, rfl⟩

theorem Pre.trans {a b c : Mgr} (h1 : Pre a b) (h2 : Pre b c) : Pre a c := by
  obtain ⟨⟨e1, h1n⟩, h1a, h1b, h1c, h1d, h1e, h1f⟩ := h1
  obtain ⟨⟨e2, h2n⟩, h2a, h2b, h2c, h2d, h2e, h2f⟩ := h2
  exact ⟨⟨e1 ++ e2, by rw [h2n, h1n, List.append_assoc]⟩, h2a.trans h1a, h2b.trans h1b, h2c.trans h1c,
    h2d.trans h1d, h2e.trans h1e, h2f.trans h1f⟩

theorem Pre.len_le {m m' : Mgr} (h : Pre m m') : m.nodes.length ≤ m'.nodes.length := by
  obtain ⟨e, he⟩ := h.nodes; rw [he]; simp

theorem Pre.valid {m m' : Mgr} (h : Pre m m') {i : Id} (hv : valid m i) : valid m' i :=
  Nat.lt_of_lt_of_le hv h.len_le

theorem Pre.getElem? {m m' : Mgr} (h : Pre m m') {i : Nat} {nd : Node} (hn : m.nodes[i]? = some nd) :
    m'.nodes[i]? = some nd := by
  obtain ⟨e, he⟩ := h.nodes
  have hi : i < m.nodes.length := by
    rcases Nat.lt_or_ge i m.nodes.length with h | h
    · exact h
    · rw [List.getElem?_eq_none h] at hn; cases hn
  rw [he, List.getElem?_append_left hi]; exact hn

theorem den_pre {m m' : Mgr} (h : Pre m m') {i : Id} (hv : valid m i) (σ : Asg) : den m' i σ = den m i σ := by
  obtain ⟨e, he⟩ := h.nodes
  unfold den; rw [he]; exact evalAll_append_getD σ _ _ _ hv

theorem Sem.mono {m m' : Mgr} (h : Pre m m') {i : Id} {f : Fn} (hs : Sem m i f) : Sem m' i f :=
  ⟨h.valid hs.1, fun σ => by rw [den_pre h hs.1]; exact hs.2 σ⟩

theorem ValidEls.mono {m m' : Mgr} (h : Pre m m') {els : List Elem} (hv : ValidEls m els) : ValidEls m' els :=
  fun e he => ⟨h.valid (hv e he).1, h.valid (hv e he).2⟩

theorem anyD_pre {m m' : Mgr} (h : Pre m m') {els : List Elem} (hv : ValidEls m els) (σ : Asg) :
    anyD m' σ els = anyD m σ els := by
  unfold anyD
  apply any_congr_mem
  intro e he
  rw [den_pre h (hv e he).1, den_pre h (hv e he).2]

theorem cntP_pre {m m' : Mgr} (h : Pre m m') {els : List Elem} (hv : ValidEls m els) (σ : Asg) :
    cntP m' σ els = cntP m σ els := by
  unfold cntP
  apply List.countP_congr
  intro e he
  rw [den_pre h (hv e he).1]

/-! ### unfolding the denotation of a node -/

theorem getD_take_evalAll (σ : Asg) (ns : List Node) (i j : Nat) (hj : j < i) (hi : i ≤ ns.length) :
    (evalAll σ (ns.take i)).getD j false = (evalAll σ ns).getD j false := by
  have : ns = ns.take i ++ ns.drop i := (List.take_append_drop i ns).symm
  conv => rhs; rw [this]
  rw [evalAll_append_getD]
  simp; omega

theorem evalAll_getD_node (σ : Asg) (ns : List Node) (i : Nat) (nd : Node) (h : ns[i]? = some nd) :
    (evalAll σ ns).getD i false = evalNode σ (evalAll σ (ns.take i)) nd := by
  have hi : i < ns.length := by
    rcases Nat.lt_or_ge i ns.length with h' | h'
    · exact h'
    · rw [List.getElem?_eq_none h'] at h; cases h
  have hnd : ns[i] = nd := by
    rw [List.getElem?_eq_getElem hi] at h; exact Option.some.inj h
  have hsplit : ns = (ns.take i ++ [nd]) ++ ns.drop (i + 1) := by
    rw [← hnd]; simp
  have hl : (ns.take i).length = i := by simp; omega
  conv => lhs; rw [hsplit]
  rw [evalAll_append_getD _ _ _ _ (by simp; omega)]
  have := evalAll_snoc_getD_last σ (ns.take i) nd
  rw [hl] at this; exact this

theorem den_ff {m : Mgr} (h : MInv m) (σ : Asg) : den m FALSE σ = false := by
  obtain ⟨rest, hr⟩ := h.hd
  unfold den FALSE Kolibrie.Extracted.sddFalseId
  rw [evalAll_getD_node σ m.nodes 0 .ff (by rw [hr]; rfl)]; rfl

theorem den_tt {m : Mgr} (h : MInv m) (σ : Asg) : den m TRUE σ = true := by
  obtain ⟨rest, hr⟩ := h.hd
  unfold den TRUE Kolibrie.Extracted.sddTrueId
  rw [evalAll_getD_node σ m.nodes 1 .tt (by rw [hr]; rfl)]; rfl

theorem valid_ff {m : Mgr} (h : MInv m) : valid m FALSE := by
  obtain ⟨rest, hr⟩ := h.hd; unfold valid FALSE Kolibrie.Extracted.sddFalseId; rw [hr]; simp

theorem valid_tt {m : Mgr} (h : MInv m) : valid m TRUE := by
  obtain ⟨rest, hr⟩ := h.hd; unfold valid TRUE Kolibrie.Extracted.sddTrueId; rw [hr]; simp

theorem sem_ff {m : Mgr} (h : MInv m) : Sem m FALSE Fn.false := ⟨valid_ff h, fun σ => den_ff h σ⟩
theorem sem_tt {m : Mgr} (h : MInv m) : Sem m TRUE Fn.true := ⟨valid_tt h, fun σ => den_tt h σ⟩

theorem den_lit {m : Mgr} {i v : Nat} {pol : Bool} (hn : m.nodes[i]? = some (Node.lit v pol)) (σ : Asg) :
    den m i σ = (σ v == pol) := by
  unfold den; rw [evalAll_getD_node σ m.nodes i _ hn]; rfl

theorem lt_of_getElem? {α} {l : List α} {i : Nat} {x : α} (h : l[i]? = some x) : i < l.length := by
  rcases Nat.lt_or_ge i l.length with h' | h'
  · exact h'
  · rw [List.getElem?_eq_none h'] at h; cases h

theorem den_dec {m : Mgr} (h : MInv m) {i vt : Nat} {els : List Elem} (hn : m.nodes[i]? = some (Node.dec vt els))
    (σ : Asg) : den m i σ = anyD m σ els := by
  have hi := lt_of_getElem? hn
  unfold den anyD; rw [evalAll_getD_node σ m.nodes i _ hn]
  simp only [evalNode]
  apply any_congr_mem
  intro e he
  obtain ⟨h1, h2⟩ := h.closed i vt els hn e he
  unfold den
  rw [getD_take_evalAll σ m.nodes i e.1 h1 (Nat.le_of_lt hi), getD_take_evalAll σ m.nodes i e.2 h2 (Nat.le_of_lt hi)]

theorem node_of_getElem? {m : Mgr} {i : Nat} {nd : Node} (h : m.nodes[i]? = some nd) : node m i = nd := by
  unfold node; simp [List.getD_eq_getElem?_getD, h]

theorem getElem?_of_valid {m : Mgr} {i : Nat} (h : valid m i) : m.nodes[i]? = some (node m i) := by
  unfold node valid at *
  simp [List.getD_eq_getElem?_getD, List.getElem?_eq_getElem h]

/-! ### pure list facts about partitions -/
section lists
variable {α β : Type}

theorem any_zero {l : List α} {p q : α → Bool} (h : l.countP p = 0) : l.any (fun e => p e && q e) = false := by
  induction l with
  | nil => rfl
  | cons x xs ih =>
    simp only [List.countP_cons] at h
    have hx : p x = false := by cases hp : p x <;> simp_all
    have := ih (by simpa [hx] using h)
    simp [List.any_cons, hx, this]

theorem any_neg {l : List α} {p q : α → Bool} (h : l.countP p = 1) :
    l.any (fun e => p e && !q e) = !(l.any (fun e => p e && q e)) := by
  induction l with
  | nil => simp at h
  | cons x xs ih =>
    simp only [List.countP_cons] at h
    cases hp : p x
    · simp [hp] at h
      simp [List.any_cons, hp, ih h]
    · have h : List.countP p xs = 0 := by rw [hp] at h; simpa using h
      have h1 := any_zero (q := q) h
      have h2 := any_zero (q := fun e => !q e) h
      simp only [List.any_cons, hp, h1, h2]
      simp

theorem any_of_cnt {l : List α} {p : α → Bool} (h : l.countP p = 1) : l.any p = true := by
  rw [List.any_eq_true]
  have : 0 < l.countP p := by omega
  rw [List.countP_pos_iff] at this
  exact this

theorem any_and_const {l : List α} {p q : α → Bool} {c : Bool} :
    l.any (fun e => p e && (c && q e)) = (c && l.any (fun e => p e && q e)) := by
  cases c <;> simp

theorem any_or_const {l : List α} {p q : α → Bool} {c : Bool} (h : l.any p = true) :
    l.any (fun e => p e && (c || q e)) = (c || l.any (fun e => p e && q e)) := by
  cases c
  · simp
  · simpa using h

theorem any_or_right {l : List α} {p q : α → Bool} {c : Bool} (h : l.any p = true) :
    l.any (fun e => p e && (q e || c)) = (l.any (fun e => p e && q e) || c) := by
  cases c
  · simp
  · simpa using h

theorem any_and_right {l : List α} {f : α → Bool} {k : Bool} :
    l.any (fun a => f a && k) = (l.any f && k) := by
  cases k <;> simp

theorem cross_and {la : List α} {lb : List β} {pa sa : α → Bool} {pb sb : β → Bool} :
    la.any (fun a => pa a && lb.any (fun e => pb e && (sa a && sb e))) =
      (la.any (fun a => pa a && sa a) && lb.any (fun e => pb e && sb e)) := by
  simp only [any_and_const]
  induction la with
  | nil => simp
  | cons x xs ih => simp only [List.any_cons, ih]; cases pa x <;> cases sa x <;> simp

theorem cross_or {la : List α} {lb : List β} {pa sa : α → Bool} {pb sb : β → Bool}
    (ha : la.countP pa = 1) (hb : lb.countP pb = 1) :
    la.any (fun a => pa a && lb.any (fun e => pb e && (sa a || sb e))) =
      (la.any (fun a => pa a && sa a) || lb.any (fun e => pb e && sb e)) := by
  have hb' := any_of_cnt hb
  have ha' := any_of_cnt ha
  simp only [any_or_const hb']
  rw [any_or_right ha']

end lists

end Kolibrie.Sdd
