import Kolibrie.Lemmas.Sld
import Std.Data.String.ToNat
/-! Helper lemmas for C18, part 2: generated names are fresh (the point of the fix), renaming invariants. -/
namespace Kolibrie.Sld
open Kolibrie.Terms Kolibrie.SldSpec

theorem genName_inj {a b : Nat} (h : genName a = genName b) : a = b := by
  unfold genName at h
  exact Nat.repr_injective ((String.append_right_inj "v").1 h)

/-- names the computation may already contain when the counter is `c`: the goal's variables and earlier generated names -/
def Known (reserved : List String) (c : Nat) (x : String) : Prop :=
  x ∈ reserved ∨ ∃ k, k < c ∧ x = genName k

theorem Known.mono {reserved c c' x} (h : c ≤ c') (hk : Known reserved c x) : Known reserved c' x := by
  rcases hk with h1 | ⟨k, hk, rfl⟩
  · exact Or.inl h1
  · exact Or.inr ⟨k, by omega, rfl⟩

/-- a run of the skipping loop either ends on a non-reserved name or saw `fuel` reserved names in a row -/
theorem freshName_cases (reserved : List String) : ∀ (fuel c : Nat),
    ((freshName reserved fuel c).1 ∉ reserved ∧
      ∃ k, c ≤ k ∧ (freshName reserved fuel c).1 = genName k ∧ (freshName reserved fuel c).2 = k + 1) ∨
    (∀ j, j < fuel → genName (c + j) ∈ reserved) := by
  intro fuel
  induction fuel with
  | zero => intro c; exact Or.inr (by intro j hj; omega)
  | succ n ih =>
    intro c
    simp only [freshName]
    by_cases hc : genName c ∈ reserved
    · rw [if_pos hc]
      rcases ih (c + 1) with ⟨h1, k, hk, h2, h3⟩ | h
      · exact Or.inl ⟨h1, k, by omega, h2, h3⟩
      · refine Or.inr ?_
        intro j hj
        cases j with
        | zero => simpa using hc
        | succ j =>
          have := h j (by omega)
          have e : c + 1 + j = c + (j + 1) := by omega
          rwa [e] at this
    · rw [if_neg hc]
      exact Or.inl ⟨hc, c, Nat.le_refl _, rfl, rfl⟩

/-- with more fuel than reserved names the loop always ends on a fresh name (pigeonhole) -/
theorem freshName_spec (reserved : List String) (fuel c : Nat) (hf : reserved.length < fuel) :
    (freshName reserved fuel c).1 ∉ reserved ∧
      ∃ k, c ≤ k ∧ (freshName reserved fuel c).1 = genName k ∧ (freshName reserved fuel c).2 = k + 1 := by
  rcases freshName_cases reserved fuel c with h | h
  · exact h
  · exfalso
    have hnd : ((List.range fuel).map fun j => genName (c + j)).Nodup := by
      refine List.Pairwise.map _ ?_ (List.nodup_range (n := fuel))
      intro a b hab heq
      have := genName_inj heq
      omega
    have hsub : ((List.range fuel).map fun j => genName (c + j)) ⊆ reserved := by
      intro x hx
      obtain ⟨j, hj, rfl⟩ := List.mem_map.1 hx
      exact h j (List.mem_range.1 hj)
    have := hnd.length_le_of_subset hsub
    simp at this
    omega

end Kolibrie.Sld
