import Kolibrie.Lemmas.Rsp
import Kolibrie.Spec.RspMulti
/-
Helper lemmas for C11 (core Lean only).
-/
namespace Kolibrie.Rsp
open List

/-! ### rows -/

theorem lookup_append (a b : Row) (k : Nat) :
    lookup (a ++ b) k = match lookup a k with | some v => some v | none => lookup b k := by
  induction a with
  | nil => simp [lookup]
  | cons kv a ih =>
    obtain ⟨k', v'⟩ := kv
    simp only [cons_append, lookup]
    by_cases h : k' = k
    · simp [h]
    · simp [h, ih]

theorem mem_of_lookup {a : Row} {k v : Nat} (h : lookup a k = some v) : (k, v) ∈ a := by
  induction a with
  | nil => simp [lookup] at h
  | cons kv a ih =>
    obtain ⟨k', v'⟩ := kv
    simp only [lookup] at h
    by_cases hk : k' = k
    · simp only [hk, if_true, Option.some.injEq] at h
      subst hk; subst h; exact mem_cons_self
    · simp only [hk, if_false] at h
      exact mem_cons_of_mem _ (ih h)

theorem lookup_filter_fresh (a b : Row) (k : Nat) (hk : lookup a k = none) :
    lookup (b.filter fun kv => (lookup a kv.1).isNone) k = lookup b k := by
  induction b with
  | nil => rfl
  | cons kv b ih =>
    obtain ⟨k', v'⟩ := kv
    by_cases h : k' = k
    · subst h
      simp [filter, hk, lookup]
    · by_cases hf : (lookup a k').isNone = true
      · simp [filter, hf, lookup, h, ih]
      · simp [filter, hf, lookup, h, ih]

theorem sub_refl (a : Row) : Sub a a := fun _ _ h => h

theorem sub_trans {a b c : Row} (h1 : Sub a b) (h2 : Sub b c) : Sub a c := fun k v h => h2 k v (h1 k v h)

theorem sub_merge_left (a b : Row) : Sub a (mergeRow a b) := by
  intro k v h
  simp [mergeRow, lookup_append, h]

theorem sub_merge_right {a b : Row} (hc : compatible a b = true) : Sub b (mergeRow a b) := by
  intro k v h
  simp only [mergeRow, lookup_append]
  cases ha : lookup a k with
  | none => simp only; rw [lookup_filter_fresh a b k ha]; exact h
  | some v' =>
    simp only
    have hm := mem_of_lookup ha
    simp only [compatible, all_eq_true] at hc
    have := hc _ hm
    simp only [h] at this
    simp at this
    rw [this]

/-- every row of a natural join extends a row of each side -/
theorem naturalJoin_proj {l s : List Row} {r : Row} (h : r ∈ naturalJoin l s) :
    ∃ a, a ∈ l ∧ ∃ b, b ∈ s ∧ Sub a r ∧ Sub b r := by
  simp only [naturalJoin, mem_flatMap, mem_filterMap] at h
  obtain ⟨a, ha, b, hb, hab⟩ := h
  by_cases hc : compatible a b = true
  · simp only [hc, if_true, Option.some.injEq] at hab
    subst hab
    exact ⟨a, ha, b, hb, sub_merge_left a b, sub_merge_right hc⟩
  · simp [hc] at hab

theorem foldl_join_proj : ∀ (rest : List (List Row)) (acc : List Row) (r : Row),
    r ∈ rest.foldl naturalJoin acc → (∃ a, a ∈ acc ∧ Sub a r) ∧ ∀ x, x ∈ rest → ∃ b, b ∈ x ∧ Sub b r
  | [], acc, r, h => ⟨⟨r, h, sub_refl r⟩, by simp⟩
  | y :: rest, acc, r, h => by
    simp only [foldl_cons] at h
    obtain ⟨⟨a, ha, har⟩, hrest⟩ := foldl_join_proj rest _ r h
    obtain ⟨a0, ha0, b0, hb0, s0, s1⟩ := naturalJoin_proj ha
    refine ⟨⟨a0, ha0, sub_trans s0 har⟩, ?_⟩
    intro x hx
    rcases mem_cons.mp hx with rfl | hx
    · exact ⟨b0, hb0, sub_trans s1 har⟩
    · exact hrest x hx

theorem joinAll_proj {rs : List (List Row)} {r : Row} (h : r ∈ joinAll rs) :
    ∀ x, x ∈ rs → ∃ a, a ∈ x ∧ Sub a r := by
  cases rs with
  | nil => simp [joinAll] at h
  | cons first rest =>
    simp only [joinAll] at h
    obtain ⟨h1, h2⟩ := foldl_join_proj rest first r h
    intro x hx
    rcases mem_cons.mp hx with rfl | hx
    · exact h1
    · exact h2 x hx

/-- every emitted row extends a row of every entry of `last_materialized` and, if there is a static plan, a static row -/
theorem emitRows_proj {cfg : MCfg} {lm : List (Nat × List Row)} {r : Row} (h : r ∈ emitRows cfg lm) :
    (∀ e, e ∈ lm → ∃ a, a ∈ e.2 ∧ Sub a r) ∧
    (cfg.staticPlan.isEmpty = false → ∃ b, b ∈ staticRows cfg ∧ Sub b r) := by
  unfold emitRows at h
  by_cases hs : cfg.staticPlan.isEmpty = true
  · simp only [hs, if_true] at h
    refine ⟨?_, by simp [hs]⟩
    intro e he
    exact joinAll_proj h e.2 (mem_map.mpr ⟨e, he, rfl⟩)
  · simp only [hs] at h
    obtain ⟨a, ha, b, hb, s0, s1⟩ := naturalJoin_proj h
    refine ⟨?_, fun _ => ⟨b, hb, s1⟩⟩
    intro e he
    obtain ⟨a', ha', s'⟩ := joinAll_proj ha e.2 (mem_map.mpr ⟨e, he, rfl⟩)
    exact ⟨a', ha', sub_trans s' s0⟩

/-! ### coordinator bookkeeping -/

/-- every row stored for window `w` satisfies `P w` -/
def AllRows (P : Nat → Row → Prop) (m : List (Nat × List Row)) : Prop := ∀ e, e ∈ m → ∀ a, a ∈ e.2 → P e.1 a

theorem allRows_extendAt {P : Nat → Row → Prop} : ∀ (m : List (Nat × List Row)) (w : Nat) (rows : List Row),
    AllRows P m → (∀ a, a ∈ rows → P w a) → AllRows P (extendAt m w rows)
  | [], w, rows, _, hr => by
    intro e he a ha
    simp only [extendAt, mem_singleton] at he
    subst he; exact hr a ha
  | (k, old) :: rest, w, rows, hm, hr => by
    intro e he a ha
    by_cases hk : k = w
    · simp only [extendAt, hk, if_true, mem_cons] at he
      rcases he with rfl | he
      · rcases mem_append.mp ha with h | h
        · have := hm (k, old) mem_cons_self a h
          simpa [hk] using this
        · exact hr a h
      · exact hm e (mem_cons_of_mem _ he) a ha
    · simp only [extendAt, hk, if_false, mem_cons] at he
      rcases he with rfl | he
      · exact hm (k, old) mem_cons_self a ha
      · exact allRows_extendAt rest w rows (fun e he => hm e (mem_cons_of_mem _ he)) hr e he a ha

theorem allRows_drain {P : Nat → Row → Prop} : ∀ (chan m : List (Nat × List Row)),
    AllRows P m → AllRows P chan → AllRows P (drain m chan)
  | [], _, hm, _ => hm
  | e :: chan, m, hm, hc => by
    simp only [drain, foldl_cons]
    exact allRows_drain chan _ (allRows_extendAt m e.1 e.2 hm (fun a ha => hc e mem_cons_self a ha))
      (fun e' he' => hc e' (mem_cons_of_mem _ he'))

theorem keys_extendAt : ∀ (m : List (Nat × List Row)) (w : Nat) (rows : List Row),
    (m.map (·.1)).Nodup → ((extendAt m w rows).map (·.1)).Nodup ∧
      ∀ k, k ∈ (extendAt m w rows).map (·.1) ↔ k ∈ m.map (·.1) ∨ k = w
  | [], w, rows, _ => by simp [extendAt]
  | (k, old) :: rest, w, rows, hm => by
    simp only [map_cons, nodup_cons] at hm
    by_cases hk : k = w
    · simp only [extendAt, hk, if_true, map_cons, nodup_cons]
      refine ⟨⟨by simpa [hk] using hm.1, hm.2⟩, ?_⟩
      intro x; simp only [mem_cons]
      constructor
      · intro h; exact Or.inl h
      · rintro (h | rfl)
        · exact h
        · exact Or.inl rfl
    · obtain ⟨ih1, ih2⟩ := keys_extendAt rest w rows hm.2
      simp only [extendAt, hk, if_false, map_cons, nodup_cons]
      refine ⟨⟨?_, ih1⟩, ?_⟩
      · intro h
        rcases (ih2 k).mp h with h | h
        · exact hm.1 h
        · exact hk h
      · intro x; simp only [mem_cons, ih2]
        constructor
        · rintro (h | h | h)
          · exact Or.inl (Or.inl h)
          · exact Or.inl (Or.inr h)
          · exact Or.inr h
        · rintro ((h | h) | h)
          · exact Or.inl h
          · exact Or.inr (Or.inl h)
          · exact Or.inr (Or.inr h)

theorem keys_drain : ∀ (chan m : List (Nat × List Row)), (m.map (·.1)).Nodup → ((drain m chan).map (·.1)).Nodup
  | [], _, hm => hm
  | e :: chan, m, hm => by
    simp only [drain, foldl_cons]
    exact keys_drain chan _ (keys_extendAt m e.1 e.2 hm).1

/-! ### stores -/

theorem getD_set_self {α} {l : List α} {k : Nat} {v d : α} (h : k < l.length) : (l.set k v).getD k d = v := by
  simp [getD_eq_getElem?_getD, getElem?_set_self h]

theorem getD_set_ne {α} {l : List α} {k j : Nat} {v d : α} (h : k ≠ j) : (l.set k v).getD j d = l.getD j d := by
  simp [getD_eq_getElem?_getD, getElem?_set_ne h]

theorem mem_reported {w : Nat} {c : List Triple} : ∀ {evs : List MEv}, c ∈ reported w evs ↔ MEv.fire w c ∈ evs
  | [] => by simp [reported]
  | .poll :: es => by simp [reported, @mem_reported w c es]
  | .fire w' c' :: es => by
    by_cases h : w' = w
    · subst h
      simp only [reported, if_true, mem_cons, @mem_reported w' c es, MEv.fire.injEq, true_and]
    · simp only [reported, h, if_false, mem_cons, @mem_reported w c es, MEv.fire.injEq]
      constructor
      · exact Or.inr
      · rintro (⟨h', _⟩ | h')
        · exact absurd h'.symm h
        · exact h'

/-- the store a window loads its content into holds exactly that content afterwards, if it held exactly the
    previous content before -/
theorem load_exact {store prev c : List Triple} (hn : store.Nodup) (hm : ∀ x, x ∈ store ↔ x ∈ prev) :
    (c.foldl insertT (prev.foldl eraseT store)).Nodup ∧
    ∀ x, x ∈ c.foldl insertT (prev.foldl eraseT store) ↔ x ∈ c := by
  refine ⟨nodup_foldl_insertT _ _ (nodup_foldl_eraseT _ _ hn), ?_⟩
  intro x
  rw [mem_foldl_insertT, mem_foldl_eraseT, hm]
  constructor
  · rintro (⟨h, hn⟩ | h)
    · exact absurd h hn
    · exact h
  · exact Or.inr

/-- what window `w`'s block may answer: its plan over a content this very window reported in `all` -/
def BlockAns (cfg : MCfg) (all : List MEv) (w : Nat) (a : Row) : Prop :=
  ∃ c, MEv.fire w c ∈ all ∧ a ∈ evalBGP (dedup c) (cfg.plans.getD w [])

/-- invariant of the per-window-store engine -/
structure IsoInv (cfg : MCfg) (all : List MEv) (st : MSt) : Prop where
  store_eq : ∀ w, (st.stores.getD w []).Nodup ∧ ∀ x, x ∈ st.stores.getD w [] ↔ x ∈ st.prevRaws.getD w []
  same_len : st.stores.length = st.prevRaws.length
  chanOK : AllRows (BlockAns cfg all) st.chan
  lmOK : AllRows (BlockAns cfg all) st.lastMat
  lmKeys : (st.lastMat.map (·.1)).Nodup

theorem isoInv_init (cfg : MCfg) (all : List MEv) (n : Nat) : IsoInv cfg all (MSt.init n) := by
  refine ⟨?_, by simp [MSt.init], ?_, ?_, by simp [MSt.init]⟩
  · intro w
    simp only [MSt.init, getD_eq_getElem?_getD, getElem?_replicate]
    split <;> simp
  · intro e he; simp [MSt.init] at he
  · intro e he; simp [MSt.init] at he

theorem isoInv_fire {cfg : MCfg} (hs : cfg.shared = false) {all : List MEv} {st : MSt} (hi : IsoInv cfg all st)
    (w : Nat) (c : List Triple) (hmem : MEv.fire w c ∈ all) : IsoInv cfg all (fireW cfg st w c) := by
  have hk : cfg.slot w = w := by simp [MCfg.slot, hs]
  obtain ⟨hn, hm⟩ := load_exact (c := c) (hi.store_eq w).1 (hi.store_eq w).2
  simp only [fireW, hk]
  refine ⟨?_, by simp [hi.same_len], ?_, hi.lmOK, hi.lmKeys⟩
  · intro j
    by_cases hj : w = j
    · subst hj
      by_cases hlt : w < st.stores.length
      · have hlt' : w < st.prevRaws.length := hi.same_len ▸ hlt
        rw [getD_set_self hlt, getD_set_self hlt']
        exact ⟨hn, hm⟩
      · have h1 : st.stores.length ≤ w := Nat.le_of_not_lt hlt
        have h2 : st.prevRaws.length ≤ w := hi.same_len ▸ h1
        rw [set_eq_of_length_le h1, set_eq_of_length_le h2]
        exact hi.store_eq w
    · rw [getD_set_ne hj, getD_set_ne hj]
      exact hi.store_eq j
  · intro e he a ha
    rcases mem_append.mp he with he | he
    · exact hi.chanOK e he a ha
    · simp only [mem_singleton] at he
      subst he
      refine ⟨c, hmem, ?_⟩
      have hp : (c.foldl insertT ((st.prevRaws.getD w []).foldl eraseT (st.stores.getD w []))).Perm (dedup c) :=
        perm_of_nodup_of_mem hn (nodup_dedup _) (fun x => by rw [hm, mem_dedup])
      exact (evalBGP_perm _ hp).mem_iff.mp ha

/-- what the property demands of one emission -/
def GoodEmission (cfg : MCfg) (all : List MEv) (e : Emission) : Prop :=
  e.lm.length = cfg.plans.length ∧ (e.lm.map (·.1)).Nodup ∧
  ∀ r, r ∈ e.rows →
    (∀ ent, ent ∈ e.lm → ∃ c, c ∈ reported ent.1 all ∧ ∃ a, a ∈ evalBGP (dedup c) (cfg.plans.getD ent.1 []) ∧ Sub a r) ∧
    (cfg.staticPlan.isEmpty = false → ∃ b, b ∈ evalBGP (dedup cfg.staticData) cfg.staticPlan ∧ Sub b r)

theorem isoInv_poll {cfg : MCfg} {all : List MEv} {st : MSt} (hi : IsoInv cfg all st) :
    IsoInv cfg all (poll cfg st).1 ∧ ∀ e, (poll cfg st).2 = some e → GoodEmission cfg all e := by
  unfold poll
  by_cases hc : st.chan.isEmpty = true
  · simp only [hc, if_true]
    exact ⟨hi, by simp⟩
  · simp only [hc]
    have hlm : AllRows (BlockAns cfg all) (drain st.lastMat st.chan) := allRows_drain _ _ hi.lmOK hi.chanOK
    have hkeys : ((drain st.lastMat st.chan).map (·.1)).Nodup := keys_drain _ _ hi.lmKeys
    have hempty : AllRows (BlockAns cfg all) [] := by intro e he; simp at he
    by_cases hl : ((drain st.lastMat st.chan).length == cfg.plans.length) = true
    · simp only [hl, if_true]
      constructor
      · cases cfg.policy with
        | wait => exact ⟨hi.store_eq, hi.same_len, hempty, hempty, by simp⟩
        | steal => exact ⟨hi.store_eq, hi.same_len, hempty, hlm, hkeys⟩
      · intro e he
        have he' := Option.some.inj he
        subst he'
        refine ⟨by simpa using hl, hkeys, ?_⟩
        intro r hr
        obtain ⟨h1, h2⟩ := emitRows_proj hr
        refine ⟨?_, h2⟩
        intro ent hent
        obtain ⟨a, ha, hsub⟩ := h1 ent hent
        obtain ⟨c, hc1, hc2⟩ := hlm ent hent a ha
        exact ⟨c, mem_reported.mpr hc1, a, hc2, hsub⟩
    · simp only [hl]
      exact ⟨⟨hi.store_eq, hi.same_len, hempty, hlm, hkeys⟩, by simp⟩

theorem mrunFrom_iso {cfg : MCfg} (hs : cfg.shared = false) (all : List MEv) : ∀ (evs : List MEv) (st : MSt),
    (∀ e, e ∈ evs → e ∈ all) → IsoInv cfg all st → ∀ em, em ∈ mrunFrom cfg st evs → GoodEmission cfg all em
  | [], _, _, _, em, h => by simp [mrunFrom] at h
  | ev :: evs, st, hsub, hi, em, h => by
    have hsub' : ∀ e, e ∈ evs → e ∈ all := fun e he => hsub e (mem_cons_of_mem _ he)
    cases ev with
    | fire w c =>
      simp only [mrunFrom, mstep] at h
      exact mrunFrom_iso hs all evs _ hsub' (isoInv_fire hs hi w c (hsub _ mem_cons_self)) em h
    | poll =>
      obtain ⟨hi', hgood⟩ := isoInv_poll (cfg := cfg) (all := all) hi
      simp only [mrunFrom, mstep] at h
      cases hp : (poll cfg st).2 with
      | none =>
        have : poll cfg st = ((poll cfg st).1, none) := by rw [← hp]
        rw [this] at h
        exact mrunFrom_iso hs all evs _ hsub' hi' em h
      | some out =>
        have : poll cfg st = ((poll cfg st).1, some out) := by rw [← hp]
        rw [this] at h
        simp only [mem_cons] at h
        rcases h with rfl | h
        · exact hgood _ hp
        · exact mrunFrom_iso hs all evs _ hsub' hi' em h

/-! ### window stores only ever contain stream items -/

def StreamItem (all : List MEv) (t : Triple) : Prop := ∃ w c, MEv.fire w c ∈ all ∧ t ∈ c

def StoresFromStreams (all : List MEv) (st : MSt) : Prop := ∀ s, s ∈ st.stores → ∀ t, t ∈ s → StreamItem all t

theorem storesFromStreams_step {cfg : MCfg} {all : List MEv} {st : MSt} (hi : StoresFromStreams all st)
    (ev : MEv) (hev : ev ∈ all) : StoresFromStreams all (mstep cfg st ev).1 := by
  cases ev with
  | poll =>
    simp only [mstep, poll]
    split
    · exact hi
    · split <;> exact hi
  | fire w c =>
    simp only [mstep, fireW]
    intro s hs t ht
    rcases mem_or_eq_of_mem_set hs with h | h
    · exact hi s h t ht
    · subst h
      rcases (mem_foldl_insertT _ _).mp ht with h | h
      · have h' := ((mem_foldl_eraseT _ _).mp h).1
        by_cases hlt : cfg.slot w < st.stores.length
        · have : st.stores.getD (cfg.slot w) [] ∈ st.stores := by
            simp only [getD_eq_getElem?_getD, getElem?_eq_getElem hlt, Option.getD_some]
            exact getElem_mem hlt
          exact hi _ this t h'
        · have : st.stores.getD (cfg.slot w) [] = [] := by
            simp [getD_eq_getElem?_getD, getElem?_eq_none (Nat.le_of_not_lt hlt)]
          rw [this] at h'; simp at h'
      · exact ⟨w, c, hev, h⟩

theorem storesFromStreams_run {cfg : MCfg} (all : List MEv) : ∀ (evs : List MEv) (st : MSt),
    (∀ e, e ∈ evs → e ∈ all) → StoresFromStreams all st → StoresFromStreams all (mstateFrom cfg st evs)
  | [], _, _, h => h
  | ev :: evs, st, hsub, h => by
    simp only [mstateFrom, foldl_cons]
    exact storesFromStreams_run all evs _ (fun e he => hsub e (mem_cons_of_mem _ he))
      (storesFromStreams_step h ev (hsub _ mem_cons_self))

theorem poll_rows {cfg : MCfg} {st : MSt} {e : Emission} (h : (poll cfg st).2 = some e) :
    e.rows = emitRows cfg e.lm := by
  unfold poll at h
  by_cases hc : st.chan.isEmpty = true
  · simp [hc] at h
  · by_cases hl : ((drain st.lastMat st.chan).length == cfg.plans.length) = true
    · simp only [hc, hl, if_true] at h
      have := Option.some.inj h
      subst this; rfl
    · simp [hc, hl] at h

theorem mrunFrom_rows {cfg : MCfg} : ∀ (evs : List MEv) (st : MSt) (e : Emission),
    e ∈ mrunFrom cfg st evs → e.rows = emitRows cfg e.lm
  | [], _, e, h => by simp [mrunFrom] at h
  | ev :: evs, st, e, h => by
    cases ev with
    | fire w c =>
      simp only [mrunFrom, mstep] at h
      exact mrunFrom_rows evs _ e h
    | poll =>
      simp only [mrunFrom, mstep] at h
      cases hp : (poll cfg st).2 with
      | none =>
        have : poll cfg st = ((poll cfg st).1, none) := by rw [← hp]
        rw [this] at h
        exact mrunFrom_rows evs _ e h
      | some out =>
        have : poll cfg st = ((poll cfg st).1, some out) := by rw [← hp]
        rw [this] at h
        simp only [mem_cons] at h
        rcases h with rfl | h
        · exact poll_rows hp
        · exact mrunFrom_rows evs _ e h

/-! ### every window takes part in an emission (pigeonhole on the keys of `last_materialized`) -/

theorem length_le_filter_ne_succ (a : Nat) : ∀ (l : List Nat), l.Nodup → l.length ≤ (l.filter fun x => !decide (x = a)).length + 1
  | [], _ => by simp
  | x :: l, h => by
    have hn := nodup_cons.mp h
    by_cases hx : x = a
    · subst hx
      have : l.filter (fun y => !decide (y = x)) = l := by
        apply filter_eq_self.mpr
        intro y hy
        have : y ≠ x := fun e => hn.1 (e ▸ hy)
        simp [this]
      simp [filter, this]
    · have ih := length_le_filter_ne_succ a l hn.2
      simp only [filter, hx, decide_false, Bool.not_false, length_cons]
      omega

theorem nodup_bounded_length : ∀ (n : Nat) (l : List Nat), l.Nodup → (∀ x, x ∈ l → x < n) → l.length ≤ n
  | 0, l, _, hb => by
    cases l with
    | nil => simp
    | cons x l => exact absurd (hb x mem_cons_self) (Nat.not_lt_zero _)
  | n + 1, l, hn, hb => by
    have h1 := length_le_filter_ne_succ n l hn
    have h2 := nodup_bounded_length n (l.filter fun x => !decide (x = n)) (nodup_filter _ hn) (by
      intro x hx
      have hm := mem_filter.mp hx
      have hne : x ≠ n := by simpa using hm.2
      have := hb x hm.1
      omega)
    omega

/-- a duplicate-free list of `n` numbers below `n` contains every number below `n` -/
theorem mem_of_nodup_full {n : Nat} {l : List Nat} (hn : l.Nodup) (hb : ∀ x, x ∈ l → x < n) (hl : l.length = n)
    {w : Nat} (hw : w < n) : w ∈ l := by
  apply Classical.byContradiction
  intro hnot
  have h := nodup_bounded_length n (w :: l) (nodup_cons.mpr ⟨hnot, hn⟩) (by
    intro x hx
    rcases mem_cons.mp hx with rfl | hx
    · exact hw
    · exact hb x hx)
  simp only [length_cons] at h
  omega

theorem keys_drain_mem : ∀ (chan m : List (Nat × List Row)), (m.map (·.1)).Nodup →
    ∀ k, k ∈ (drain m chan).map (·.1) → k ∈ m.map (·.1) ∨ k ∈ chan.map (·.1)
  | [], _, _, k, h => Or.inl h
  | e :: chan, m, hm, k, h => by
    simp only [drain, foldl_cons] at h
    have hk := keys_extendAt m e.1 e.2 hm
    rcases keys_drain_mem chan _ hk.1 k h with h | h
    · rcases (hk.2 k).mp h with h | h
      · exact Or.inl h
      · exact Or.inr (by simp [h])
    · exact Or.inr (by simp only [map_cons, mem_cons]; exact Or.inr h)

/-- keys of the channel and of `last_materialized` are window indices -/
def KeysBounded (n : Nat) (st : MSt) : Prop :=
  (∀ k, k ∈ st.chan.map (·.1) → k < n) ∧ (∀ k, k ∈ st.lastMat.map (·.1) → k < n)

theorem mrunFrom_keys {cfg : MCfg} : ∀ (evs : List MEv) (st : MSt), WellFormed cfg evs = true →
    KeysBounded cfg.plans.length st → (st.lastMat.map (·.1)).Nodup →
    ∀ em, em ∈ mrunFrom cfg st evs → ∀ k, k ∈ em.lm.map (·.1) → k < cfg.plans.length
  | [], _, _, _, _, em, h => by simp [mrunFrom] at h
  | ev :: evs, st, hwf, hk, hnd, em, h => by
    simp only [WellFormed, all_cons, Bool.and_eq_true] at hwf
    have hwf' : WellFormed cfg evs = true := hwf.2
    cases ev with
    | fire w c =>
      have hw : w < cfg.plans.length := by simpa using hwf.1
      simp only [mrunFrom, mstep] at h
      have hk' : KeysBounded cfg.plans.length (fireW cfg st w c) := by
        refine ⟨?_, hk.2⟩
        intro k hkm
        have hkm' : k ∈ st.chan.map (·.1) ∨ k = w := by
          simpa [fireW] using hkm
        rcases hkm' with hkm' | rfl
        · exact hk.1 k hkm'
        · exact hw
      exact mrunFrom_keys evs (fireW cfg st w c) hwf' hk' hnd em h
    | poll =>
      have hdk : ∀ k, k ∈ (drain st.lastMat st.chan).map (·.1) → k < cfg.plans.length := by
        intro k hkm
        rcases keys_drain_mem _ _ hnd k hkm with h' | h'
        · exact hk.2 k h'
        · exact hk.1 k h'
      have hdn := keys_drain st.chan st.lastMat hnd
      simp only [mrunFrom, mstep, poll] at h
      by_cases hc : st.chan.isEmpty = true
      · rw [if_pos hc] at h
        exact mrunFrom_keys evs _ hwf' hk hnd em h
      · by_cases hl : ((drain st.lastMat st.chan).length == cfg.plans.length) = true
        · rw [if_neg hc, if_pos hl] at h
          simp only [mem_cons] at h
          rcases h with rfl | h
          · exact hdk
          · refine mrunFrom_keys evs _ hwf' ?_ ?_ em h
            · cases cfg.policy with
              | wait => exact ⟨by simp, by simp⟩
              | steal => exact ⟨by simp, hdk⟩
            · cases cfg.policy with
              | wait => simp
              | steal => exact hdn
        · rw [if_neg hc, if_neg hl] at h
          exact mrunFrom_keys evs _ hwf' ⟨by simp, hdk⟩ hdn em h

/-! ### shared store = per-window stores when vocabularies are disjoint -/

theorem matchTerm_compat {t : Term} {x : Nat} {r r' : Row} (h : matchTerm t x r = some r') : termCompat t x = true := by
  cases t with
  | var v => rfl
  | const c =>
    simp only [matchTerm] at h
    by_cases hc : c = x
    · simp [termCompat, hc]
    · simp [hc] at h

theorem matchPat_compat {p : Pat} {r r' : Row} {t : Triple} (h : matchPat p r t = some r') : patCompat p t = true := by
  simp only [matchPat, Option.bind_eq_some_iff] at h
  obtain ⟨r1, h1, r2, h2, h3⟩ := h
  simp [patCompat, matchTerm_compat h1, matchTerm_compat h2, matchTerm_compat h3]

theorem filterMap_filter_of_none {α β} (f : α → Option β) (p : α → Bool) (hf : ∀ x, p x = false → f x = none) :
    ∀ (l : List α), (l.filter p).filterMap f = l.filterMap f
  | [] => rfl
  | x :: l => by
    have ih := filterMap_filter_of_none f p hf l
    by_cases hp : p x = true
    · simp [filter, hp, filterMap_cons, ih]
    · have hp' : p x = false := by simpa using hp
      simp [filter, hp', hf x hp', ih]

theorem joinPat_filter (pats : List Pat) (s : List Triple) (rows : List Row) (pat : Pat) (hp : pat ∈ pats) :
    joinPat (s.filter (relevant pats)) rows pat = joinPat s rows pat := by
  unfold joinPat
  congr 1
  funext r
  apply filterMap_filter_of_none
  intro t ht
  cases hm : matchPat pat r t with
  | none => rfl
  | some r' =>
    have hc := matchPat_compat hm
    have : relevant pats t = true := by
      simp only [relevant, any_eq_true]
      exact ⟨pat, hp, hc⟩
    rw [this] at ht; cases ht

theorem evalBGP_filter_aux (pats : List Pat) (s : List Triple) : ∀ (ps : List Pat) (rows : List Row),
    (∀ p, p ∈ ps → p ∈ pats) →
    ps.foldl (joinPat (s.filter (relevant pats))) rows = ps.foldl (joinPat s) rows
  | [], _, _ => rfl
  | p :: ps, rows, h => by
    simp only [foldl_cons]
    rw [joinPat_filter pats s rows p (h p mem_cons_self)]
    exact evalBGP_filter_aux pats s ps _ (fun q hq => h q (mem_cons_of_mem _ hq))

/-- a BGP only looks at the triples relevant to it -/
theorem evalBGP_filter_relevant (pats : List Pat) (s : List Triple) :
    evalBGP (s.filter (relevant pats)) pats = evalBGP s pats :=
  evalBGP_filter_aux pats s pats _ (fun _ h => h)

theorem filter_insertT (p : Triple → Bool) (s : List Triple) (t : Triple) :
    (insertT s t).filter p = if p t then insertT (s.filter p) t else s.filter p := by
  unfold insertT
  by_cases hts : t ∈ s
  · by_cases hp : p t = true
    · have : t ∈ s.filter p := mem_filter.mpr ⟨hts, hp⟩
      simp [hts, hp, this]
    · simp [hts, hp]
  · by_cases hp : p t = true
    · have : t ∉ s.filter p := fun h => hts (mem_filter.mp h).1
      simp [hts, hp, this, filter_append]
    · simp [hts, hp, filter_append]

theorem filter_eraseT (p : Triple → Bool) (s : List Triple) (t : Triple) :
    (eraseT s t).filter p = eraseT (s.filter p) t := by
  unfold eraseT
  rw [filter_filter, filter_filter]
  apply filter_congr
  intro x _
  exact Bool.and_comm _ _

theorem filter_foldl_eraseT (p : Triple → Bool) : ∀ (l s : List Triple),
    (l.foldl eraseT s).filter p = l.foldl eraseT (s.filter p)
  | [], _ => rfl
  | t :: l, s => by simp only [foldl_cons]; rw [filter_foldl_eraseT p l, filter_eraseT]

theorem filter_foldl_insertT (p : Triple → Bool) : ∀ (c s : List Triple),
    (c.foldl insertT s).filter p = (c.filter p).foldl insertT (s.filter p)
  | [], _ => rfl
  | t :: c, s => by
    simp only [foldl_cons]
    rw [filter_foldl_insertT p c, filter_insertT]
    by_cases hp : p t = true
    · simp [filter, hp]
    · simp [filter, hp]

theorem eraseT_of_not_mem {s : List Triple} {t : Triple} (h : t ∉ s) : eraseT s t = s := by
  unfold eraseT
  apply filter_eq_self.mpr
  intro x hx
  have : x ≠ t := fun e => h (e ▸ hx)
  simp [this]

theorem foldl_eraseT_irrelevant (p : Triple → Bool) : ∀ (l s : List Triple), (∀ t, t ∈ l → p t = false) →
    l.foldl eraseT (s.filter p) = s.filter p
  | [], _, _ => rfl
  | t :: l, s, h => by
    simp only [foldl_cons]
    have : t ∉ s.filter p := by
      intro hm
      have := (mem_filter.mp hm).2
      rw [h t mem_cons_self] at this; cases this
    rw [eraseT_of_not_mem this]
    exact foldl_eraseT_irrelevant p l s (fun x hx => h x (mem_cons_of_mem _ hx))

/-- window `j`'s view of a store -/
def view (cfg : MCfg) (j : Nat) (s : List Triple) : List Triple := s.filter (relevant (cfg.plans.getD j []))

/-- the shared-store state `a` and the per-window-store state `b` look the same to every window -/
structure Sim (cfg : MCfg) (a b : MSt) : Prop where
  chan : a.chan = b.chan
  lm : a.lastMat = b.lastMat
  raws : a.prevRaws = b.prevRaws
  alen : a.stores.length = cfg.plans.length
  blen : b.stores.length = cfg.plans.length
  rlen : b.prevRaws.length = cfg.plans.length
  views : ∀ j, j < cfg.plans.length → view cfg j (a.stores.getD 0 []) = view cfg j (b.stores.getD j [])
  disj : ∀ w j, j < cfg.plans.length → j ≠ w → ∀ t, t ∈ b.prevRaws.getD w [] → relevant (cfg.plans.getD j []) t = false

theorem sim_init (cfg : MCfg) : Sim cfg (MSt.init cfg.plans.length) (MSt.init cfg.plans.length) := by
  refine ⟨rfl, rfl, rfl, by simp [MSt.init], by simp [MSt.init], by simp [MSt.init], ?_, ?_⟩
  · intro j hj
    have h0 : 0 < cfg.plans.length := Nat.lt_of_le_of_lt (Nat.zero_le _) hj
    simp [MSt.init, getD_eq_getElem?_getD, hj, h0]
  · intro w j _ _ t ht
    simp only [MSt.init, getD_eq_getElem?_getD, getElem?_replicate] at ht
    split at ht <;> simp at ht

theorem sim_fire {cfg : MCfg} {a b : MSt} (hs : Sim cfg a b) (w : Nat) (c : List Triple)
    (hw : w < cfg.plans.length)
    (hd : ∀ t, t ∈ c → ∀ j, j < cfg.plans.length → j ≠ w → relevant (cfg.plans.getD j []) t = false) :
    Sim cfg (fireW (cfg.withShared true) a w c) (fireW (cfg.withShared false) b w c) := by
  have h0 : 0 < cfg.plans.length := Nat.lt_of_le_of_lt (Nat.zero_le _) hw
  have hka : (cfg.withShared true).slot w = 0 := by simp [MCfg.slot, MCfg.withShared]
  have hkb : (cfg.withShared false).slot w = w := by simp [MCfg.slot, MCfg.withShared]
  have hplans (b' : Bool) : (cfg.withShared b').plans = cfg.plans := rfl
  -- the two freshly loaded stores, seen by window j
  have hview : ∀ j, j < cfg.plans.length →
      view cfg j (c.foldl insertT ((a.prevRaws.getD w []).foldl eraseT (a.stores.getD 0 []))) =
      view cfg j (if j = w then c.foldl insertT ((b.prevRaws.getD w []).foldl eraseT (b.stores.getD w []))
                  else b.stores.getD j []) := by
    intro j hj
    unfold view
    rw [filter_foldl_insertT, filter_foldl_eraseT, hs.raws]
    by_cases hjw : j = w
    · subst hjw
      simp only [if_true]
      rw [filter_foldl_insertT, filter_foldl_eraseT]
      have := hs.views j hj
      unfold view at this
      rw [this]
    · simp only [hjw, if_false]
      have hc : c.filter (relevant (cfg.plans.getD j [])) = [] := by
        apply filter_eq_nil_iff.mpr
        intro t ht
        rw [hd t ht j hj hjw]; simp
      rw [hc]
      simp only [foldl_nil]
      rw [foldl_eraseT_irrelevant _ _ _ (hs.disj w j hj hjw)]
      have := hs.views j hj
      unfold view at this
      exact this
  have hrows : evalBGP (c.foldl insertT ((a.prevRaws.getD w []).foldl eraseT (a.stores.getD 0 []))) (cfg.plans.getD w []) =
      evalBGP (c.foldl insertT ((b.prevRaws.getD w []).foldl eraseT (b.stores.getD w []))) (cfg.plans.getD w []) := by
    rw [← evalBGP_filter_relevant, ← evalBGP_filter_relevant (s := c.foldl insertT _)]
    have := hview w hw
    simp only [view, if_true] at this
    rw [this]
  simp only [fireW, hka, hkb, hplans]
  refine ⟨by rw [hs.chan, hrows], hs.lm, by rw [hs.raws], by simp [hs.alen], by simp [hs.blen], by simp [hs.rlen], ?_, ?_⟩
  · intro j hj
    rw [getD_set_self (hs.alen ▸ h0)]
    by_cases hjw : j = w
    · subst hjw
      rw [getD_set_self (hs.blen ▸ hj)]
      have := hview j hj
      simpa using this
    · rw [getD_set_ne (fun e => hjw e.symm)]
      have := hview j hj
      simpa [hjw] using this
  · intro w' j hj hjw t ht
    by_cases hww : w = w'
    · subst hww
      rw [getD_set_self (hs.rlen ▸ hw)] at ht
      exact hd t ht j hj hjw
    · rw [getD_set_ne hww] at ht
      exact hs.disj w' j hj hjw t ht

theorem sim_poll {cfg : MCfg} {a b : MSt} (hs : Sim cfg a b) :
    Sim cfg (poll (cfg.withShared true) a).1 (poll (cfg.withShared false) b).1 ∧
    (poll (cfg.withShared true) a).2 = (poll (cfg.withShared false) b).2 := by
  have hemit : ∀ lm, emitRows (cfg.withShared true) lm = emitRows (cfg.withShared false) lm := fun _ => rfl
  simp only [poll, hs.chan, hs.lm, hemit]
  have hp (b' : Bool) : (cfg.withShared b').plans = cfg.plans := rfl
  have hpol (b' : Bool) : (cfg.withShared b').policy = cfg.policy := rfl
  simp only [hp, hpol]
  split
  · exact ⟨hs, rfl⟩
  · split
    · refine ⟨⟨rfl, rfl, hs.raws, hs.alen, hs.blen, hs.rlen, hs.views, hs.disj⟩, rfl⟩
    · refine ⟨⟨rfl, rfl, hs.raws, hs.alen, hs.blen, hs.rlen, hs.views, hs.disj⟩, rfl⟩

theorem mrunFrom_sim {cfg : MCfg} : ∀ (evs : List MEv) (a b : MSt), Sim cfg a b →
    WellFormed cfg evs = true → VocabDisjoint cfg evs = true →
    mrunFrom (cfg.withShared true) a evs = mrunFrom (cfg.withShared false) b evs
  | [], _, _, _, _, _ => rfl
  | ev :: evs, a, b, hs, hwf, hvd => by
    simp only [WellFormed, all_cons, Bool.and_eq_true] at hwf
    simp only [VocabDisjoint, all_cons, Bool.and_eq_true] at hvd
    have hwf' : WellFormed cfg evs = true := hwf.2
    have hvd' : VocabDisjoint cfg evs = true := hvd.2
    cases ev with
    | fire w c =>
      have hw : w < cfg.plans.length := by simpa using hwf.1
      have hd : ∀ t, t ∈ c → ∀ j, j < cfg.plans.length → j ≠ w → relevant (cfg.plans.getD j []) t = false := by
        intro t ht j hj hjw
        have h1 := hvd.1
        simp only [all_eq_true] at h1
        have h2 := h1 t ht j (mem_range.mpr hj)
        simp only [Bool.or_eq_true, beq_iff_eq, Bool.not_eq_true'] at h2
        rcases h2 with h2 | h2
        · exact absurd h2 hjw
        · exact h2
      simp only [mrunFrom, mstep]
      exact mrunFrom_sim evs _ _ (sim_fire hs w c hw hd) hwf' hvd'
    | poll =>
      obtain ⟨hs', hout⟩ := sim_poll hs
      simp only [mrunFrom, mstep]
      have ha : poll (cfg.withShared true) a = ((poll (cfg.withShared true) a).1, (poll (cfg.withShared true) a).2) := rfl
      have hb : poll (cfg.withShared false) b = ((poll (cfg.withShared false) b).1, (poll (cfg.withShared false) b).2) := rfl
      rw [ha, hb, hout]
      cases (poll (cfg.withShared false) b).2 with
      | none => exact mrunFrom_sim evs _ _ hs' hwf' hvd'
      | some out => simp only; rw [mrunFrom_sim evs _ _ hs' hwf' hvd']

end Kolibrie.Rsp
