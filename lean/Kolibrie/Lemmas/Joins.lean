import Kolibrie.Lemmas.Rows
import Kolibrie.Lemmas.Engine
/-! The algebra of `nlJoin` on canonical rows: associativity, commutativity (as multisets), unit,
    distribution over `++` (core Lean only). -/
namespace Kolibrie.Engine
open List

def AllWF (l : List Row) : Prop := ∀ r ∈ l, Row.WF r

theorem allWF_nil : AllWF [] := fun _ h => by simp at h
theorem allWF_unit : AllWF [[]] := fun r h => by simp at h; subst h; exact Row.wf_nil
theorem allWF_append {a b : List Row} (ha : AllWF a) (hb : AllWF b) : AllWF (a ++ b) :=
  fun r h => by rcases mem_append.1 h with h | h; exact ha r h; exact hb r h
theorem allWF_of_perm {a b : List Row} (h : a ~ b) (ha : AllWF a) : AllWF b :=
  fun r hr => ha r (h.symm.subset hr)
theorem allWF_filter {a : List Row} (p : Row → Bool) (ha : AllWF a) : AllWF (a.filter p) :=
  fun r hr => ha r (mem_filter.1 hr).1
theorem allWF_flatMap {α} (l : List α) (f : α → List Row) (h : ∀ a ∈ l, AllWF (f a)) : AllWF (l.flatMap f) := by
  intro r hr
  obtain ⟨a, ha, hra⟩ := mem_flatMap.1 hr
  exact h a ha r hra

theorem nlJoin_wf (a b : List Row) (ha : AllWF a) : AllWF (nlJoin a b) := by
  intro r hr
  unfold nlJoin at hr
  obtain ⟨x, hx, hr⟩ := mem_flatMap.1 hr
  obtain ⟨y, _, hm⟩ := mem_filterMap.1 hr
  exact mergeRows_wf x y r (ha x hx) hm

theorem filterMap_flatMap_eq {α β γ} (l : List α) (f : α → Option β) (g : β → List γ) :
    (l.filterMap f).flatMap g = l.flatMap (fun a => match f a with | some b => g b | none => []) := by
  induction l with
  | nil => rfl
  | cons a l ih =>
    simp only [filterMap_cons, flatMap_cons]
    cases f a with
    | none => simpa using ih
    | some b => simp [ih]

theorem flatMap_filterMap_eq {α β γ} (l : List α) (g : α → List β) (f : β → Option γ) :
    (l.flatMap g).filterMap f = l.flatMap (fun a => (g a).filterMap f) := by
  induction l with
  | nil => rfl
  | cons a l ih => simp [filterMap_append, ih]

theorem flatMap_congr' {α β} (l : List α) (f g : α → List β) (h : ∀ a ∈ l, f a = g a) :
    l.flatMap f = l.flatMap g := by
  induction l with
  | nil => rfl
  | cons a l ih =>
    simp only [flatMap_cons]
    rw [h a (by simp), ih (fun b hb => h b (by simp [hb]))]

theorem filterMap_congr' {α β} (l : List α) (f g : α → Option β) (h : ∀ a ∈ l, f a = g a) :
    l.filterMap f = l.filterMap g := by
  induction l with
  | nil => rfl
  | cons a l ih =>
    simp only [filterMap_cons]
    rw [h a (by simp), ih (fun b hb => h b (by simp [hb]))]

/-- **associativity** of the nested-loop join on canonical rows (same enumeration order) -/
theorem nlJoin_assoc (a b c : List Row) (ha : AllWF a) (hb : AllWF b) :
    nlJoin (nlJoin a b) c = nlJoin a (nlJoin b c) := by
  unfold nlJoin
  rw [flatMap_assoc]
  apply flatMap_congr'
  intro x hx
  rw [filterMap_flatMap_eq, flatMap_filterMap_eq]
  apply flatMap_congr'
  intro y hy
  rw [filterMap_filterMap]
  have hassoc := fun z => mergeRows_assoc x y z (ha x hx) (hb y hy)
  cases hxy : mergeRows x y with
  | none =>
    simp only
    symm
    apply filterMap_eq_nil_of_forall
    intro z _
    have := hassoc z
    rw [hxy] at this
    simpa using this.symm
  | some m =>
    simp only
    apply filterMap_congr'
    intro z _
    have := hassoc z
    rw [hxy] at this
    simpa using this

theorem nlJoin_unit_left (b : List Row) (hb : AllWF b) : nlJoin [[]] b = b := by
  unfold nlJoin
  simp only [flatMap_cons, flatMap_nil, append_nil]
  induction b with
  | nil => rfl
  | cons y ys ih =>
    rw [filterMap_cons, mergeRows_nil_left' y (hb y (by simp))]
    simp only
    rw [ih (fun r hr => hb r (by simp [hr]))]

/-- swapping two nested loops is a permutation -/
theorem flatMap_filterMap_swap {α β γ} (l : List α) (r : List β) (f : α → β → Option γ) :
    l.flatMap (fun x => r.filterMap (f x)) ~ r.flatMap (fun y => l.filterMap (fun x => f x y)) := by
  induction l with
  | nil =>
    simp only [flatMap_nil, filterMap_nil]
    induction r with
    | nil => simp
    | cons y ys ih => simpa using ih
  | cons x xs ih =>
    simp only [flatMap_cons]
    refine (Perm.append_left _ ih).trans ?_
    clear ih
    induction r with
    | nil => simp
    | cons y ys ihr =>
      simp only [filterMap_cons, flatMap_cons]
      cases hxy : f x y with
      | none =>
        simp only
        refine Perm.trans ?_ (Perm.append_left _ ihr)
        rw [← append_assoc, ← append_assoc]
        exact Perm.append_right _ perm_append_comm
      | some m =>
        simp only [cons_append]
        refine Perm.cons _ ?_
        refine Perm.trans ?_ (Perm.append_left _ ihr)
        rw [← append_assoc, ← append_assoc]
        exact Perm.append_right _ perm_append_comm

/-- **commutativity** of the join as a multiset, on canonical rows -/
theorem nlJoin_comm (a b : List Row) (ha : AllWF a) (hb : AllWF b) : nlJoin a b ~ nlJoin b a := by
  unfold nlJoin
  refine (flatMap_filterMap_swap a b (fun x y => mergeRows x y)).trans ?_
  apply Perm.of_eq
  apply flatMap_congr'
  intro y hy
  apply filterMap_congr'
  intro x hx
  exact mergeRows_comm x y (ha x hx) (hb y hy)

theorem nlJoin_perm_right (a : List Row) {b c : List Row} (h : b ~ c) : nlJoin a b ~ nlJoin a c := by
  unfold nlJoin
  exact perm_flatMap_congr a _ _ (fun x _ => h.filterMap _)

theorem nlJoin_append_right (a b c : List Row) : nlJoin a (b ++ c) ~ nlJoin a b ++ nlJoin a c := by
  unfold nlJoin
  induction a with
  | nil => simp
  | cons x xs ih =>
    simp only [flatMap_cons]
    rw [filterMap_append]
    refine ((Perm.refl _).append ih).trans ?_
    simp only [append_assoc]
    refine Perm.append_left _ ?_
    rw [← append_assoc, ← append_assoc]
    exact Perm.append_right _ perm_append_comm

theorem nlJoin_nil_right (a : List Row) : nlJoin a [] = [] := by
  unfold nlJoin; induction a with
  | nil => rfl
  | cons x xs ih => simpa using ih

theorem nlJoin_flatMap_right {α} (a : List Row) (l : List α) (f : α → List Row) :
    nlJoin a (l.flatMap f) ~ l.flatMap (fun x => nlJoin a (f x)) := by
  induction l with
  | nil => simp [nlJoin_nil_right]
  | cons x xs ih =>
    simp only [flatMap_cons]
    exact (nlJoin_append_right a _ _).trans ((Perm.refl _).append ih)

end Kolibrie.Engine
