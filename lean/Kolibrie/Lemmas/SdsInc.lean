import Kolibrie.Lemmas.ProvInfer
import Kolibrie.Spec.Sds
/-
C12: the state carried between evaluations satisfies the engine's loop invariant with the new / renewed facts as
delta, hence one incremental step from an exact state yields an exact state.
-/
namespace Kolibrie.Prov

/-- threshold reading of `ExpirationProvenance` for evaluations at time `now`: "the expiry is at least τ" -/
def expSem (now : Nat) : Sem Nat Nat expProv where
  ok := fun τ => now < τ ∧ τ ≤ u64Max
  sem := fun t τ => τ ≤ t
  sem_zero := by intro t w hw hz; simp only [expProv, beq_iff_eq] at hz; omega
  sem_one := fun w hw => hw.2
  sem_disj := by intro a b w; simp only [expProv, Extracted.expDisj]; omega
  sem_conj := by intro a b w; simp only [expProv, Extracted.expConj]; omega
  sem_sat := by intro a b w hs; simp only [expProv, beq_iff_eq] at hs; rw [hs]

/-- Boolean reading of `BooleanProvenance` -/
def boolSemL : Sem Bool Unit boolProv where
  ok := fun _ => True
  sem := fun t _ => t = true
  sem_zero := by intro t w _ hz; simp only [boolProv, beq_iff_eq] at hz; simp [hz]
  sem_one := fun _ _ => rfl
  sem_disj := by intro a b w; simp [boolProv, Extracted.boolDisj]
  sem_conj := by intro a b w; simp [boolProv, Extracted.boolConj]
  sem_sat := by intro a b w hs; simp only [boolProv, beq_iff_eq] at hs; rw [hs]

/-- the alive base facts whose expiry is at least `τ` -/
def inputsB (base : List (Fact × Nat)) (τ : Nat) (f : Fact) : Prop := ∃ e, (f, e) ∈ base ∧ τ ≤ e

def Functional (l : List (Fact × Nat)) : Prop := ∀ g e e', (g, e) ∈ l → (g, e') ∈ l → e = e'

/-- a state is exact for evaluation time `t` over the alive facts `base`: for every threshold above `t` a fact is
    kept with expiry ≥ τ exactly when it is derivable from the base facts of expiry ≥ τ -/
structure ExactAt (rules : List Rule) (base : List (Fact × Nat)) (t : Nat) (state : List (Fact × Nat)) : Prop where
  functional : Functional state
  exact : ∀ τ, t < τ → τ ≤ u64Max → ∀ g, (∃ e, (g, e) ∈ state ∧ τ ≤ e) ↔ Derivable rules (inputsB base τ) g

theorem functionalB_iff {l : List (Fact × Nat)} : functionalB l = true ↔ Functional l := by
  simp only [functionalB, List.all_eq_true, Bool.or_eq_true, Bool.not_eq_true', beq_eq_false_iff_ne, beq_iff_eq]
  constructor
  · intro h g e e' h1 h2
    rcases h _ h1 _ h2 with h3 | h3
    · exact absurd rfl h3
    · exact h3
  · intro h a ha b hb
    by_cases hab : a.1 = b.1
    · right
      obtain ⟨g, e⟩ := a; obtain ⟨g', e'⟩ := b
      simp only at hab; subst hab
      exact h g e e' ha hb
    · exact Or.inl hab

/-! ### the initial tag store of `incremental_sds_plus` -/

def initStep (ts : Tags Nat) (e : Fact × Nat) : Tags Nat := if e.2 < u64Max then setTag ts e.1 e.2 else ts

theorem initTags_eq (l : List (Fact × Nat)) : initTags l = l.foldl initStep [] := rfl

theorem lookup_init_none (g : Fact) : ∀ (l : List (Fact × Nat)) (acc : Tags Nat),
    (∀ e ∈ l, e.1 = g → ¬ e.2 < u64Max) → lookupTag (l.foldl initStep acc) g = lookupTag acc g := by
  intro l
  induction l with
  | nil => intro acc _; rfl
  | cons h t ih =>
    intro acc hn
    rw [List.foldl_cons, ih _ (fun e he => hn e (List.mem_cons_of_mem _ he))]
    unfold initStep
    split
    · rename_i hlt
      simp only [setTag, lookupTag]
      rw [if_neg]
      intro heq; exact hn h List.mem_cons_self heq hlt
    · rfl

theorem lookup_init_some (g : Fact) (x : Nat) (hx : x < u64Max) : ∀ (l : List (Fact × Nat)) (acc : Tags Nat),
    (g, x) ∈ l → (∀ e', (g, e') ∈ l → e' = x) → lookupTag (l.foldl initStep acc) g = some x := by
  intro l
  induction l with
  | nil => intro acc h; cases h
  | cons h t ih =>
    intro acc hm hf
    rw [List.foldl_cons]
    by_cases ht : (g, x) ∈ t
    · exact ih _ ht (fun e' he' => hf e' (List.mem_cons_of_mem _ he'))
    · have hh : h = (g, x) := by
        rcases List.mem_cons.mp hm with h1 | h1
        · exact h1.symm
        · exact absurd h1 ht
      rw [lookup_init_none g t _ ?_]
      · subst hh; simp [initStep, hx, setTag, lookupTag]
      · intro e he heg _
        apply ht
        obtain ⟨g', e'⟩ := e
        simp only at heg; subst heg
        have := hf e' (List.mem_cons_of_mem _ he)
        subst this; exact he

theorem getTag_init_append_none (A B : List (Fact × Nat)) (g : Fact)
    (h : ∀ e ∈ B, e.1 = g → ¬ e.2 < u64Max) :
    getTag expProv (initTags (A ++ B)) g = getTag expProv (initTags A) g := by
  simp only [getTag, initTags_eq, List.foldl_append]
  rw [lookup_init_none g B _ h]

theorem getTag_init_append_some (A B : List (Fact × Nat)) (g : Fact) (x : Nat) (hx : x < u64Max)
    (hm : (g, x) ∈ B) (hf : ∀ e', (g, e') ∈ B → e' = x) :
    getTag expProv (initTags (A ++ B)) g = x := by
  simp only [getTag, initTags_eq, List.foldl_append]
  rw [lookup_init_some g x hx B _ hm hf]; rfl

/-- tag of a fact in a functional list: its expiry, capped at `u64::MAX` (entries ≥ MAX are not stored) -/
theorem getTag_init_functional (A : List (Fact × Nat)) (hf : Functional A) (g : Fact) :
    (∀ x, (g, x) ∈ A → x < u64Max → getTag expProv (initTags A) g = x) ∧
    ((∀ x, (g, x) ∈ A → ¬ x < u64Max) → getTag expProv (initTags A) g = u64Max) := by
  constructor
  · intro x hm hx
    have := getTag_init_append_some [] A g x hx hm (fun e' he' => hf g e' x he' hm)
    simpa using this
  · intro h
    have := getTag_init_append_none [] A g (by
      intro e he heg
      obtain ⟨g', e'⟩ := e
      simp only at heg; subst heg
      exact h e' he)
    simp only [List.nil_append] at this
    rw [this]; rfl

theorem le_getTag_init (A : List (Fact × Nat)) (hf : Functional A) (g : Fact) (x τ : Nat) (hm : (g, x) ∈ A)
    (hτ : τ ≤ u64Max) : τ ≤ getTag expProv (initTags A) g ↔ τ ≤ x := by
  obtain ⟨h1, h2⟩ := getTag_init_functional A hf g
  by_cases hx : x < u64Max
  · rw [h1 x hm hx]
  · rw [h2 (fun y hy => by rw [hf g y x hy hm]; exact hx)]
    omega

/-! ### `d_old_map` -/

theorem oldExpiry_none (l : List (Fact × Nat)) (g : Fact) (h : ∀ e ∈ l, e.1 ≠ g) : oldExpiry l g = none := by
  unfold oldExpiry
  have : l.filter (fun e => e.1 == g) = [] := by
    apply List.filter_eq_nil_iff.mpr
    intro e he; simpa using h e he
  rw [this]; rfl

theorem oldExpiry_some (l : List (Fact × Nat)) (hf : Functional l) (g : Fact) (x : Nat) (hm : (g, x) ∈ l) :
    oldExpiry l g = some x := by
  unfold oldExpiry
  have hall : ∀ e ∈ l.filter (fun e => e.1 == g), e.2 = x := by
    intro e he
    rw [List.mem_filter] at he
    obtain ⟨g', e'⟩ := e
    simp only [beq_iff_eq] at he
    obtain ⟨h1, h2⟩ := he
    subst h2
    exact hf g' e' x h1 hm
  have hne : (g, x) ∈ l.filter (fun e => e.1 == g) := by simp [List.mem_filter, hm]
  generalize l.filter (fun e => e.1 == g) = L at hall hne
  have key : ∀ (L : List (Fact × Nat)), (∀ e ∈ L, e.2 = x) → ∀ acc, (acc = none ∨ acc = some x) →
      (L ≠ [] ∨ acc = some x) →
      L.foldl (fun acc e => match acc with | none => some e.2 | some a => some (max a e.2)) acc = some x := by
    intro L
    induction L with
    | nil => intro _ acc _ h2; rcases h2 with h2 | h2; exact absurd rfl h2; exact h2
    | cons a t ih =>
      intro hall acc hacc _
      rw [List.foldl_cons]
      apply ih (fun e he => hall e (List.mem_cons_of_mem _ he))
      · right
        rcases hacc with rfl | rfl
        · simp [hall a List.mem_cons_self]
        · simp [hall a List.mem_cons_self]
      · right
        rcases hacc with rfl | rfl
        · simp [hall a List.mem_cons_self]
        · simp [hall a List.mem_cons_self]
  exact key L hall none (Or.inl rfl) (Or.inl (by intro h; rw [h] at hne; cases hne))

/-! ### one incremental step -/

theorem no_inputs_no_derivation (rules : List Rule) (hne : ∀ r ∈ rules, r.prem ≠ []) (g : Fact) :
    ¬ Derivable rules (fun _ => False) g := by
  intro h
  induction h with
  | base hb => exact hb
  | @rule r σ c hr _ _ ih =>
    cases hp : r.prem with
    | nil => exact hne r hr hp
    | cons p t => exact ih p (by rw [hp]; exact List.mem_cons_self)

/-- the empty state is exact over the empty base -/
theorem exactAt_nil (rules : List Rule) (hne : ∀ r ∈ rules, r.prem ≠ []) (t : Nat) : ExactAt rules [] t [] := by
  constructor
  · intro g e e' h; cases h
  intro τ _ _ g
  constructor
  · rintro ⟨e, h, _⟩; cases h
  · intro h
    exfalso
    apply no_inputs_no_derivation rules hne g
    exact Derivable.congr (fun f hf => by obtain ⟨e, h, _⟩ := hf; cases h) h

/-- hypotheses relating two consecutive evaluations -/
structure StepHyp (rules : List Rule) (keep : Fact → Bool) (basePrev base prev : List (Fact × Nat))
    (tPrev now : Nat) : Prop where
  pos : ∀ r ∈ rules, r.neg = []
  safe : ∀ r ∈ rules, safeRule r = true
  nonempty : ∀ r ∈ rules, r.prem ≠ []
  time : tPrev ≤ now
  cons : consistentStep basePrev base now = true
  /-- static facts were already static at the previous evaluation (static graphs do not change) -/
  static : ∀ g, (g, u64Max) ∈ base → prev = [] ∨ (g, u64Max) ∈ basePrev
  keepP : ∀ f f' : Fact, f.p = f'.p → keep f = keep f'
  keepBase : ∀ e ∈ base, keep e.1 = true
  keepHeads : ∀ r ∈ rules, ∀ c ∈ r.concl, ∃ p, c.p = Term.const p ∧ keep ⟨0, p, 0⟩ = true

theorem consistentStep_iff {basePrev base : List (Fact × Nat)} {now : Nat} :
    consistentStep basePrev base now = true ↔
      Functional base ∧ (∀ e ∈ base, now < e.2 ∧ e.2 ≤ u64Max) ∧
      (∀ e ∈ basePrev, now < e.2 → ∃ e' ∈ base, e'.1 = e.1 ∧ e.2 ≤ e'.2) := by
  simp only [consistentStep, Bool.and_eq_true, functionalB_iff, List.all_eq_true, decide_eq_true_eq,
    Bool.or_eq_true, List.any_eq_true, beq_iff_eq]
  constructor
  · rintro ⟨⟨h1, h2⟩, h3⟩
    refine ⟨h1, h2, ?_⟩
    intro e he hlt
    rcases h3 e he with h | h
    · omega
    · exact h
  · rintro ⟨h1, h2, h3⟩
    refine ⟨⟨h1, h2⟩, ?_⟩
    intro e he
    by_cases hlt : now < e.2
    · exact Or.inr (h3 e he hlt)
    · exact Or.inl (by omega)

theorem incStep_exact (rules : List Rule) (keep : Fact → Bool) (basePrev base prev : List (Fact × Nat))
    (tPrev now fuel : Nat) (out : List (Fact × Nat))
    (hyp : StepHyp rules keep basePrev base prev tPrev now)
    (hprev : ExactAt rules basePrev tPrev prev)
    (h : incStep rules keep base prev now fuel = some out) :
    ExactAt rules base now out ∧ ∀ e ∈ out, keep e.1 = true := by
  obtain ⟨hfb, halive, hcarry⟩ := consistentStep_iff.mp hyp.cons
  obtain ⟨hf1, _⟩ := filter_pos_eq rules hyp.pos
  -- names for the pieces of `incStep`
  unfold incStep at h
  simp only [hf1] at h
  generalize hdOld : prev.filter (fun e => decide (e.2 > now)) = dOld at h
  generalize hdNew : base.filter (fun e => match oldExpiry dOld e.1 with
    | none => true
    | some eo => decide (eo < e.2)) = dNew at h
  have hOldMem : ∀ g e, (g, e) ∈ dOld ↔ (g, e) ∈ prev ∧ now < e := by
    intro g e; rw [← hdOld, List.mem_filter]; simp
  have hfOld : Functional dOld := fun g e e' h1 h2 =>
    hprev.functional g e e' ((hOldMem g e).mp h1).1 ((hOldMem g e').mp h2).1
  have hNewMem : ∀ g e, (g, e) ∈ dNew ↔ (g, e) ∈ base ∧ ((∀ eo, (g, eo) ∉ dOld) ∨ ∃ eo, (g, eo) ∈ dOld ∧ eo < e) := by
    intro g e
    rw [← hdNew, List.mem_filter]
    constructor
    · rintro ⟨hb, hc⟩
      refine ⟨hb, ?_⟩
      by_cases hex : ∃ eo, (g, eo) ∈ dOld
      · obtain ⟨eo, heo⟩ := hex
        simp only [oldExpiry_some dOld hfOld g eo heo, decide_eq_true_eq] at hc
        exact Or.inr ⟨eo, heo, hc⟩
      · exact Or.inl (fun eo heo => hex ⟨eo, heo⟩)
    · rintro ⟨hb, hc⟩
      refine ⟨hb, ?_⟩
      rcases hc with hc | ⟨eo, heo, hlt⟩
      · rw [oldExpiry_none dOld g (by
          intro e' he' heq
          obtain ⟨g', x⟩ := e'
          simp only at heq; subst heq
          exact hc x he')]
      · simp only [oldExpiry_some dOld hfOld g eo heo, decide_eq_true_eq]; exact hlt
  have hfNew : Functional dNew := fun g e e' h1 h2 => hfb g e e' ((hNewMem g e).mp h1).1 ((hNewMem g e').mp h2).1
  -- the initial tags
  have htagNewFin : ∀ g e, (g, e) ∈ dNew → e < u64Max → getTag expProv (initTags (dOld ++ dNew)) g = e :=
    fun g e hm hx => getTag_init_append_some dOld dNew g e hx hm (fun e' he' => hfNew g e' e he' hm)
  have htagNoFin : ∀ g, (∀ e, (g, e) ∈ dNew → ¬ e < u64Max) →
      getTag expProv (initTags (dOld ++ dNew)) g = getTag expProv (initTags dOld) g := by
    intro g hno
    apply getTag_init_append_none
    intro e he heg
    obtain ⟨g', x⟩ := e
    simp only at heg; subst heg
    exact hno x he
  have htagOldOnly : ∀ g eo τ, (g, eo) ∈ dOld → (∀ e, (g, e) ∈ dNew → ¬ e < u64Max) → τ ≤ u64Max →
      (τ ≤ getTag expProv (initTags (dOld ++ dNew)) g ↔ τ ≤ eo) := by
    intro g eo τ hm hno hτ
    rw [htagNoFin g hno]
    exact le_getTag_init dOld hfOld g eo τ hm hτ
  -- previous derivations carry over to the current base, for thresholds above `now`
  have hcarryD : ∀ τ, now < τ → ∀ g, Derivable rules (inputsB basePrev τ) g → Derivable rules (inputsB base τ) g := by
    intro τ hτ g hd
    apply Derivable.congr _ hd
    rintro f ⟨e, he, hle⟩
    obtain ⟨e', he', h1, h2⟩ := hcarry (f, e) he (by simp only; omega)
    obtain ⟨f', x⟩ := e'
    simp only at h1 h2; subst h1
    exact ⟨x, he', by omega⟩
  -- the loop invariant
  generalize hfacts : (dOld.map (·.1) ++ dNew.map (·.1)).eraseDups = facts at h
  have hfactsMem : ∀ g, g ∈ facts ↔ (∃ e, (g, e) ∈ dOld) ∨ (∃ e, (g, e) ∈ dNew) := by
    intro g
    rw [← hfacts, List.mem_eraseDups, List.mem_append, List.mem_map, List.mem_map]
    constructor
    · rintro (⟨⟨g', e⟩, hm, rfl⟩ | ⟨⟨g', e⟩, hm, rfl⟩)
      · exact Or.inl ⟨e, hm⟩
      · exact Or.inr ⟨e, hm⟩
    · rintro (⟨e, hm⟩ | ⟨e, hm⟩)
      · exact Or.inl ⟨(g, e), hm, rfl⟩
      · exact Or.inr ⟨(g, e), hm, rfl⟩
  have hinv : Inv (expSem now) rules (inputsB base) facts (dNew.map (·.1)) (initTags (dOld ++ dNew)) := by
    refine ⟨?_, ?_, ?_, ?_⟩
    · -- sound
      intro g hg τ hτ hsem
      have hsem' : τ ≤ getTag expProv (initTags (dOld ++ dNew)) g := hsem
      by_cases hnew : ∃ e, (g, e) ∈ dNew
      · obtain ⟨e, he⟩ := hnew
        have hb := ((hNewMem g e).mp he).1
        by_cases hx : e < u64Max
        · rw [htagNewFin g e he hx] at hsem'
          exact Derivable.base ⟨e, hb, hsem'⟩
        · exact Derivable.base ⟨e, hb, by have := hτ.2; omega⟩
      · have hold : ∃ eo, (g, eo) ∈ dOld := by
          rcases (hfactsMem g).mp hg with h1 | h1
          · exact h1
          · exact absurd h1 hnew
        obtain ⟨eo, heo⟩ := hold
        have hle := (htagOldOnly g eo τ heo (fun e he => absurd ⟨e, he⟩ hnew) hτ.2).mp hsem'
        have hp := (hOldMem g eo).mp heo
        have := (hprev.exact τ (by have := hyp.time; have := hτ.1; omega) hτ.2 g).mp ⟨eo, hp.1, hle⟩
        exact hcarryD τ hτ.1 g this
    · -- deltaSub
      intro g hg
      rw [List.mem_map] at hg
      obtain ⟨⟨g', e⟩, hm, rfl⟩ := hg
      exact (hfactsMem _).mpr (Or.inr ⟨e, hm⟩)
    · -- base
      rintro τ hτ g ⟨e, hb, hle⟩
      by_cases hnew : (g, e) ∈ dNew
      · refine ⟨(hfactsMem g).mpr (Or.inr ⟨e, hnew⟩), ?_⟩
        show τ ≤ _
        by_cases hx : e < u64Max
        · rw [htagNewFin g e hnew hx]; exact hle
        · have hno : ∀ e', (g, e') ∈ dNew → ¬ e' < u64Max := fun e' he' => by rw [hfNew g e' e he' hnew]; exact hx
          rw [htagNoFin g hno]
          by_cases hold : ∃ eo, (g, eo) ∈ dOld
          · obtain ⟨eo, heo⟩ := hold
            rw [le_getTag_init dOld hfOld g eo τ heo hτ.2]
            have he : e = u64Max := by have := (halive (g, e) hb).2; simp only at this; omega
            subst he
            rcases hyp.static g hb with hnil | hst
            · rw [hnil] at hdOld; simp only [List.filter_nil] at hdOld
              rw [← hdOld] at heo; cases heo
            · have hmax : tPrev < u64Max := by
                have := (halive (g, u64Max) hb).1; have := hyp.time; simp only at *; omega
              obtain ⟨e', he', hle'⟩ := (hprev.exact u64Max hmax (Nat.le_refl _) g).mpr
                (Derivable.base ⟨u64Max, hst, Nat.le_refl _⟩)
              have := hprev.functional g eo e' ((hOldMem g eo).mp heo).1 he'
              omega
          · have : ∀ x, (g, x) ∈ dOld → ¬ x < u64Max := fun x hx' => absurd ⟨x, hx'⟩ hold
            rw [(getTag_init_functional dOld hfOld g).2 this]; exact hτ.2
      · have : ∃ eo, (g, eo) ∈ dOld ∧ ¬ eo < e := by
          apply Classical.byContradiction
          intro hcon
          apply hnew
          rw [hNewMem]
          refine ⟨hb, ?_⟩
          by_cases hex : ∃ eo, (g, eo) ∈ dOld
          · obtain ⟨eo, heo⟩ := hex
            right; refine ⟨eo, heo, ?_⟩
            apply Classical.byContradiction
            intro hnlt; exact hcon ⟨eo, heo, hnlt⟩
          · exact Or.inl (fun eo heo => hex ⟨eo, heo⟩)
        obtain ⟨eo, heo, hge⟩ := this
        refine ⟨(hfactsMem g).mpr (Or.inl ⟨eo, heo⟩), ?_⟩
        show τ ≤ _
        have hno : ∀ e', (g, e') ∈ dNew → ¬ e' < u64Max := by
          intro e' he'
          have := hfb g e' e ((hNewMem g e').mp he').1 hb
          subst this; exact absurd he' hnew
        rw [htagOldOnly g eo τ heo hno hτ.2]; omega
    · -- closed
      intro r hr σ hall
      by_cases hpend : ∃ p ∈ r.prem, instV σ p ∈ dNew.map (·.1)
      · exact Or.inl hpend
      · right
        intro τ hτ hsem c hc
        have hτprev : tPrev < τ := by have := hyp.time; have := hτ.1; omega
        have hprem : ∀ p ∈ r.prem, Derivable rules (inputsB basePrev τ) (instV σ p) := by
          intro p hp
          have hnn : ∀ e, (instV σ p, e) ∉ dNew := by
            intro e he; exact hpend ⟨p, hp, List.mem_map.mpr ⟨(instV σ p, e), he, rfl⟩⟩
          have hold : ∃ eo, (instV σ p, eo) ∈ dOld := by
            rcases (hfactsMem _).mp (hall p hp) with h1 | ⟨e, he⟩
            · exact h1
            · exact absurd he (hnn e)
          obtain ⟨eo, heo⟩ := hold
          have hle := (htagOldOnly _ eo τ heo (fun e he => absurd he (hnn e)) hτ.2).mp (hsem p hp)
          exact (hprev.exact τ hτprev hτ.2 _).mp ⟨eo, ((hOldMem _ eo).mp heo).1, hle⟩
        have hhead : Derivable rules (inputsB basePrev τ) (instV σ c) := Derivable.rule hr hprem hc
        obtain ⟨e, he, hle⟩ := (hprev.exact τ hτprev hτ.2 _).mpr hhead
        have heo : (instV σ c, e) ∈ dOld := (hOldMem _ e).mpr ⟨he, by have := hτ.1; omega⟩
        refine ⟨(hfactsMem _).mpr (Or.inl ⟨e, heo⟩), ?_⟩
        show τ ≤ _
        by_cases hfin : ∃ en, (instV σ c, en) ∈ dNew ∧ en < u64Max
        · obtain ⟨en, hen, hx⟩ := hfin
          rw [htagNewFin _ en hen hx]
          rcases ((hNewMem _ en).mp hen).2 with hno | ⟨eo', heo', hlt⟩
          · exact absurd heo (hno e)
          · have := hfOld _ eo' e heo' heo; omega
        · have hno : ∀ e', (instV σ c, e') ∈ dNew → ¬ e' < u64Max :=
            fun e' he' hx => hfin ⟨e', he', hx⟩
          rw [htagOldOnly _ e τ heo hno hτ.2]; exact hle
  -- run the engine
  split at h
  · cases h
  · rename_i all tags hit
    simp only [Option.some.injEq] at h
    subst h
    obtain ⟨hsound, hcomp, hsub⟩ := iter_exact (expSem now) hyp.safe fuel facts _ _ all tags hinv hit
    have hkeepD : ∀ τ, ∀ g, Derivable rules (inputsB base τ) g → keep g = true := by
      intro τ g hd
      cases hd with
      | base hb => obtain ⟨e, he, _⟩ := hb; exact hyp.keepBase _ he
      | @rule r σ c hr _ hc =>
        obtain ⟨p, hp, hk⟩ := hyp.keepHeads r hr c hc
        rw [hyp.keepP (instV σ c) ⟨0, p, 0⟩ (by simp [instV, hp, instTermV])]; exact hk
    have houtMem : ∀ g e, (g, e) ∈ (all.eraseDups.filter keep).map (fun g => (g, getTag expProv tags g)) ↔
        g ∈ all ∧ keep g = true ∧ e = getTag expProv tags g := by
      intro g e
      simp only [List.mem_map, List.mem_filter, List.mem_eraseDups, Prod.mk.injEq]
      constructor
      · rintro ⟨g', ⟨h1, h2⟩, rfl, rfl⟩; exact ⟨h1, h2, rfl⟩
      · rintro ⟨h1, h2, rfl⟩; exact ⟨g, ⟨h1, h2⟩, rfl, rfl⟩
    refine ⟨⟨?_, ?_⟩, ?_⟩
    · intro g e e' h1 h2
      rw [((houtMem g e).mp h1).2.2, ((houtMem g e').mp h2).2.2]
    · intro τ hτ1 hτ2 g
      constructor
      · rintro ⟨e, hm, hle⟩
        obtain ⟨hga, _, rfl⟩ := (houtMem g e).mp hm
        exact hsound g hga τ ⟨hτ1, hτ2⟩ hle
      · intro hd
        obtain ⟨hga, hs⟩ := hcomp τ ⟨hτ1, hτ2⟩ g hd
        exact ⟨_, (houtMem g _).mpr ⟨hga, hkeepD τ g hd, rfl⟩, hs⟩
    · intro e he
      obtain ⟨g, x⟩ := e
      exact ((houtMem g x).mp he).2.1

end Kolibrie.Prov
