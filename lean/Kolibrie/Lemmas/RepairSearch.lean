import Kolibrie.Lemmas.Repairs
/-! Correctness of the work-list search of `compute_repairs` followed by the final maximality filter (C19). -/
namespace Kolibrie.Repairs
open Kolibrie.Terms Kolibrie.RepairSpec

section
variable {α : Type} [DecidableEq α]

theorem sup_iff {a b : List α} : sup a b = true ↔ b ⊆ a := by
  simp [sup, List.subset_def]

theorem setEq_iff {a b : List α} : setEq a b = true ↔ b ⊆ a ∧ a ⊆ b := by
  simp [setEq, sup_iff]

/-- `S` is represented in the list `R` (as a set) -/
def Repr' (R : List (List α)) (S : List α) : Prop := ∃ r ∈ R, S ⊆ r ∧ r ⊆ S

/-- coverage of a repair `S` below a processed set `T` -/
def Cov (st : St α) (S T : List α) : Prop :=
  Repr' st.repairs S ∨ ∃ T' ∈ st.queue, S ⊆ T' ∧ T' ⊆ T ∧ T' ∉ st.seen

structure Inv (viol : List α → Bool) (F : List α) (st : St α) : Prop where
  rep_sub : ∀ r ∈ st.repairs, r ⊆ F ∧ viol r = false
  q_sub : ∀ q ∈ st.queue, q ⊆ F ∧ q.Nodup
  cov : ∀ S, IsRepair viol F S → ∀ T, (T = F ∨ T ∈ st.seen) → S ⊆ T → Cov st S T

omit [DecidableEq α] in
theorem inv_init (viol : List α → Bool) (F : List α) (hF : F.Nodup) : Inv viol F ⟨[], [F], []⟩ := by
  refine ⟨by simp, by simp [hF], ?_⟩
  intro S _ T hT hST
  rcases hT with rfl | hT
  · exact Or.inr ⟨T, by simp, hST, List.Subset.refl _, by simp⟩
  · simp at hT

theorem inv_step {viol : List α → Bool} {F : List α} (hv : SetInv viol) {st : St α} {cur : List α}
    {rest : List (List α)} (hq : st.queue = cur :: rest) (inv : Inv viol F st) :
    Inv viol F (searchStep viol cur rest st) := by
  obtain ⟨hrep, hqs, hcov⟩ := inv
  have hcurF : cur ⊆ F ∧ cur.Nodup := hqs cur (by simp [hq])
  have hrestq : ∀ q ∈ rest, q ∈ st.queue := fun q h => by simp [hq, h]
  unfold searchStep
  by_cases hseen : cur ∈ st.seen
  · -- already processed
    simp only [hseen, ↓reduceIte]
    refine ⟨hrep, fun q h => hqs q (hrestq q h), ?_⟩
    intro S hS T hT hST
    rcases hcov S hS T hT hST with h | ⟨T', hT', h1, h2, h3⟩
    · exact Or.inl h
    · refine Or.inr ⟨T', ?_, h1, h2, h3⟩
      rw [hq] at hT'
      rcases List.mem_cons.1 hT' with rfl | h
      · exact absurd hseen h3
      · exact h
  · simp only [hseen, ↓reduceIte]
    by_cases hviol : viol cur = true
    · -- inconsistent: expand
      simp only [hviol, Bool.not_true, Bool.false_eq_true, ↓reduceIte]
      have key : ∀ S, IsRepair viol F S → S ⊆ cur → ∀ T, cur ⊆ T →
          Cov ⟨st.repairs, ((cur.map fun f => cur.erase f).filter fun s => decide (s ∉ cur :: st.seen)).reverse ++ rest,
            cur :: st.seen⟩ S T := by
        intro S hS hScur T hcurT
        have hnot : ¬ cur ⊆ S := by
          intro h
          have := hv cur S (fun x => ⟨fun hx => h hx, fun hx => hScur hx⟩)
          rw [hS.2.1] at this; rw [this] at hviol; cases hviol
        have : ∃ f, f ∈ cur ∧ f ∉ S := by
          apply Classical.byContradiction
          intro hno
          apply hnot
          intro x hx
          apply Classical.byContradiction
          intro hxS
          exact hno ⟨x, hx, hxS⟩
        obtain ⟨f, hfc, hfS⟩ := this
        have hSchild : S ⊆ cur.erase f := by
          intro x hx
          have hne : x ≠ f := fun h => hfS (h ▸ hx)
          exact (List.mem_erase_of_ne hne).2 (hScur hx)
        have hchildcur : cur.erase f ⊆ cur := List.erase_subset
        have hfchild : f ∉ cur.erase f := fun h => (hcurF.2.mem_erase_iff.1 h).1 rfl
        have hchildne : cur.erase f ≠ cur := fun h => hfchild (by rw [h]; exact hfc)
        by_cases hcs : cur.erase f ∈ cur :: st.seen
        · have hcs' : cur.erase f ∈ st.seen := by
            rcases List.mem_cons.1 hcs with h | h
            · exact absurd h hchildne
            · exact h
          rcases hcov S hS (cur.erase f) (Or.inr hcs') hSchild with h | ⟨T', hT', h1, h2, h3⟩
          · exact Or.inl h
          · rw [hq] at hT'
            have hT'ne : T' ≠ cur := fun h => hfchild (h2 (h ▸ hfc))
            have hT'rest : T' ∈ rest := by
              rcases List.mem_cons.1 hT' with h | h
              · exact absurd h hT'ne
              · exact h
            refine Or.inr ⟨T', by simp [hT'rest], h1, fun x hx => hcurT (hchildcur (h2 hx)), ?_⟩
            simp [hT'ne, h3]
        · refine Or.inr ⟨cur.erase f, ?_, hSchild, fun x hx => hcurT (hchildcur hx), hcs⟩
          simp only [List.mem_append, List.mem_reverse, List.mem_filter, List.mem_map, decide_eq_true_eq]
          exact Or.inl ⟨⟨f, hfc, rfl⟩, hcs⟩
      refine ⟨hrep, ?_, ?_⟩
      · intro q hqm
        simp only [List.mem_append, List.mem_reverse, List.mem_filter, List.mem_map] at hqm
        rcases hqm with ⟨⟨f, _, rfl⟩, _⟩ | h
        · exact ⟨fun x hx => hcurF.1 (List.erase_subset hx), hcurF.2.erase f⟩
        · exact hqs q (hrestq q h)
      · intro S hS T hT hST
        by_cases hTo : T = F ∨ T ∈ st.seen
        · rcases hcov S hS T hTo hST with h | ⟨T', hT', h1, h2, h3⟩
          · exact Or.inl h
          · rw [hq] at hT'
            by_cases hEq : T' = cur
            · subst hEq; exact key S hS h1 T h2
            · have h : T' ∈ rest := by
                rcases List.mem_cons.1 hT' with h | h
                · exact absurd h hEq
                · exact h
              exact Or.inr ⟨T', by simp [h], h1, h2, by simp [hEq, h3]⟩
        · have hTc : T = cur := by
            rcases hT with h | h
            · exact absurd (Or.inl h) hTo
            · rcases List.mem_cons.1 h with h | h
              · exact h
              · exact absurd (Or.inr h) hTo
          subst hTc
          exact key S hS hST T (List.Subset.refl _)
    · -- consistent
      have hcons : viol cur = false := by simpa using hviol
      simp only [hcons, Bool.not_false, ↓reduceIte]
      have key : ∀ S, IsRepair viol F S → S ⊆ cur →
          Repr' (if (st.repairs.all fun r => !(sup r cur) || setEq r cur) = true then st.repairs ++ [cur] else st.repairs) S := by
        intro S hS hScur
        have hcurS : cur ⊆ S := hS.2.2 cur hcurF.1 hScur hcons
        cases hmax : (st.repairs.all fun r => !(sup r cur) || setEq r cur) with
        | true =>
          simp only [↓reduceIte]
          exact ⟨cur, by simp, hScur, hcurS⟩
        | false =>
          simp only [Bool.false_eq_true, ↓reduceIte]
          obtain ⟨r, hr, hnot⟩ := List.all_eq_false.1 hmax
          have hsup : cur ⊆ r := by
            apply sup_iff.1
            cases h : sup r cur
            · simp [h] at hnot
            · rfl
          have hSr : S ⊆ r := fun x hx => hsup (hScur hx)
          exact ⟨r, hr, hSr, hS.2.2 r (hrep r hr).1 hSr (hrep r hr).2⟩
      have mono : ∀ S, Repr' st.repairs S →
          Repr' (if (st.repairs.all fun r => !(sup r cur) || setEq r cur) = true then st.repairs ++ [cur] else st.repairs) S := by
        rintro S ⟨r, hr, h⟩
        refine ⟨r, ?_, h⟩
        split <;> simp [hr]
      refine ⟨?_, fun q h => hqs q (hrestq q h), ?_⟩
      · intro r hr
        split at hr
        · rcases List.mem_append.1 hr with h | h
          · exact hrep r h
          · simp at h; subst h; exact ⟨hcurF.1, hcons⟩
        · exact hrep r hr
      · intro S hS T hT hST
        by_cases hTo : T = F ∨ T ∈ st.seen
        · rcases hcov S hS T hTo hST with h | ⟨T', hT', h1, h2, h3⟩
          · exact Or.inl (mono S h)
          · rw [hq] at hT'
            by_cases hEq : T' = cur
            · subst hEq; exact Or.inl (key S hS h1)
            · have h : T' ∈ rest := by
                rcases List.mem_cons.1 hT' with h | h
                · exact absurd h hEq
                · exact h
              exact Or.inr ⟨T', h, h1, h2, by simp [hEq, h3]⟩
        · have hTc : T = cur := by
            rcases hT with h | h
            · exact absurd (Or.inl h) hTo
            · rcases List.mem_cons.1 h with h | h
              · exact h
              · exact absurd (Or.inr h) hTo
          subst hTc
          exact Or.inl (key S hS hST)

theorem searchLoop_spec {viol : List α → Bool} {F : List α} (hv : SetInv viol) :
    ∀ (fuel : Nat) (st : St α) (R : List (List α)), Inv viol F st → searchLoop viol fuel st = some R →
      (∀ r ∈ R, r ⊆ F ∧ viol r = false) ∧ ∀ S, IsRepair viol F S → Repr' R S := by
  intro fuel
  induction fuel with
  | zero => intro st R _ h; simp [searchLoop] at h
  | succ n ih =>
    intro st R inv h
    simp only [searchLoop] at h
    split at h
    · rename_i hq
      cases h
      refine ⟨inv.rep_sub, ?_⟩
      intro S hS
      rcases inv.cov S hS F (Or.inl rfl) hS.1 with h | ⟨T', hT', _⟩
      · exact h
      · rw [hq] at hT'; simp at hT'
    · rename_i cur rest hq
      exact ih _ R (inv_step hv hq inv) h

theorem filter_len_mono {β : Type} {p q : β → Bool} (h : ∀ a, p a = true → q a = true) :
    ∀ l : List β, (l.filter p).length ≤ (l.filter q).length := by
  intro l
  induction l with
  | nil => simp
  | cons a l ih =>
    simp only [List.filter_cons]
    cases hp : p a <;> cases hq : q a <;> simp <;> try omega
    exact absurd (h a hp) (by simp [hq])

theorem filter_len_lt {β : Type} {p q : β → Bool} (h : ∀ a, p a = true → q a = true) {x : β} :
    ∀ {l : List β}, x ∈ l → q x = true → p x = false → (l.filter p).length < (l.filter q).length := by
  intro l
  induction l with
  | nil => intro hx; simp at hx
  | cons a l ih =>
    intro hx hqx hpx
    have hm := filter_len_mono h l
    simp only [List.filter_cons]
    rcases List.mem_cons.1 hx with rfl | hx
    · simp [hqx, hpx]; omega
    · have := ih hx hqx hpx
      cases hp : p a <;> cases hq : q a <;> simp <;> try omega
      exact absurd (h a hp) (by simp [hq])

/-- every consistent subset extends to a repair -/
theorem exists_repair_above {viol : List α → Bool} {F : List α} :
    ∀ (n : Nat) (T : List α), (F.filter fun x => decide (x ∉ T)).length ≤ n → T ⊆ F → viol T = false →
      ∃ S, IsRepair viol F S ∧ T ⊆ S := by
  intro n
  induction n with
  | zero =>
    intro T hlen hTF hT
    refine ⟨T, ⟨hTF, hT, ?_⟩, List.Subset.refl _⟩
    intro T' hT'F _ _ x hx
    have hnil : (F.filter fun x => decide (x ∉ T)) = [] := List.length_eq_zero_iff.1 (by omega)
    apply Classical.byContradiction
    intro hxT
    have : x ∈ F.filter fun x => decide (x ∉ T) := by simp [hT'F hx, hxT]
    rw [hnil] at this; simp at this
  | succ n ih =>
    intro T hlen hTF hT
    by_cases hex : ∃ T', T' ⊆ F ∧ T ⊆ T' ∧ viol T' = false ∧ ¬ T' ⊆ T
    · obtain ⟨T', hT'F, hTT', hT', hnot⟩ := hex
      have : ∃ x, x ∈ T' ∧ x ∉ T := by
        apply Classical.byContradiction
        intro hno
        apply hnot
        intro x hx
        apply Classical.byContradiction
        intro hxT
        exact hno ⟨x, hx, hxT⟩
      obtain ⟨x, hxT', hxT⟩ := this
      have hlt : (F.filter fun y => decide (y ∉ T')).length < (F.filter fun y => decide (y ∉ T)).length :=
        filter_len_lt (fun a ha => by
          simp only [decide_eq_true_eq] at ha ⊢
          exact fun h => ha (hTT' h)) (hT'F hxT') (by simpa using hxT) (by simpa using hxT')
      obtain ⟨S, hS, hT'S⟩ := ih T' (by omega) hT'F hT'
      exact ⟨S, hS, fun y hy => hT'S (hTT' hy)⟩
    · refine ⟨T, ⟨hTF, hT, ?_⟩, List.Subset.refl _⟩
      intro T' hT'F hTT' hT'
      apply Classical.byContradiction
      intro hnot
      exact hex ⟨T', hT'F, hTT', hT', hnot⟩

theorem exists_repair {viol : List α → Bool} {F : List α} (h0 : viol [] = false) :
    ∃ S, IsRepair viol F S :=
  let ⟨S, hS, _⟩ := exists_repair_above (viol := viol) (F := F) _ [] (Nat.le_refl _) (by simp) h0
  ⟨S, hS⟩

/-- the final filter turns a sound list that represents every repair into exactly the repairs -/
theorem maximalOnly_spec {viol : List α → Bool} {F : List α} {R : List (List α)}
    (hs : ∀ r ∈ R, r ⊆ F ∧ viol r = false) (hc : ∀ S, IsRepair viol F S → Repr' R S) :
    (∀ r ∈ maximalOnly R, IsRepair viol F r) ∧ ∀ S, IsRepair viol F S → Repr' (maximalOnly R) S := by
  constructor
  · intro r hr
    simp only [maximalOnly, List.mem_filter, Bool.not_eq_true', List.any_eq_false, Bool.and_eq_true,
      not_and, Bool.not_eq_false] at hr
    obtain ⟨hrR, hflt⟩ := hr
    refine ⟨(hs r hrR).1, (hs r hrR).2, ?_⟩
    intro T hTF hrT hT
    obtain ⟨S, hS, hTS⟩ := exists_repair_above _ T (Nat.le_refl _) hTF hT
    obtain ⟨r', hr', hSr', hr'S⟩ := hc S hS
    have h1 : sup r' r = true := sup_iff.2 fun x hx => hSr' (hTS (hrT hx))
    have h2 := sup_iff.1 (hflt r' hr' h1)
    exact fun x hx => h2 (hSr' (hTS hx))
  · intro S hS
    obtain ⟨r, hr, hSr, hrS⟩ := hc S hS
    refine ⟨r, ?_, hSr, hrS⟩
    simp only [maximalOnly, List.mem_filter, Bool.not_eq_true', List.any_eq_false, Bool.and_eq_true,
      not_and, Bool.not_eq_false]
    refine ⟨hr, ?_⟩
    intro o ho hsup
    have hro : r ⊆ o := sup_iff.1 hsup
    have : o ⊆ S := hS.2.2 o (hs o ho).1 (fun x hx => hro (hSr hx)) (hs o ho).2
    exact sup_iff.2 fun x hx => hSr (this hx)

end

/-- `compute_repairs` (with the fix): sound and complete for the repairs, for every order of `F` -/
theorem computeRepairs_spec {viol : List Fact → Bool} {F : List Fact} {fuel : Nat} {R : List (List Fact)}
    (hv : SetInv viol) (hF : F.Nodup) (h : computeRepairs viol fuel F = some R) :
    (∀ r ∈ R, IsRepair viol F r) ∧ ∀ S, IsRepair viol F S → Repr' R S := by
  simp only [computeRepairs, Option.map_eq_some_iff] at h
  obtain ⟨R0, h0, rfl⟩ := h
  obtain ⟨hs, hc⟩ := searchLoop_spec hv fuel _ R0 (inv_init viol F hF) h0
  obtain ⟨h1, h2⟩ := maximalOnly_spec hs hc
  constructor
  · intro r hr; exact h1 r (List.mem_mergeSort.1 hr)
  · intro S hS
    obtain ⟨r, hr, h⟩ := h2 S hS
    exact ⟨r, List.mem_mergeSort.2 hr, h⟩

end Kolibrie.Repairs
