import Kolibrie.Model.Prov
import Kolibrie.Spec.Prov
/-
Matching and join lemmas: the jobs examined in a round are exactly the rule instances whose premises lie in
`all` with at least one premise in `delta`.
-/
namespace Kolibrie.Prov

/-- valuation `σ` agrees with binding `b` -/
def Ext (σ : String → Nat) (b : Binding) : Prop := ∀ v x, bget b v = some x → σ v = x

/-- binding `b'` extends `b` -/
def BExt (b b' : Binding) : Prop := ∀ v x, bget b v = some x → bget b' v = some x

theorem BExt.refl (b : Binding) : BExt b b := fun _ _ h => h
theorem BExt.trans {a b c : Binding} (h1 : BExt a b) (h2 : BExt b c) : BExt a c := fun v x h => h2 v x (h1 v x h)

theorem bget_cons (v : String) (x : Nat) (b : Binding) (u : String) :
    bget ((v, x) :: b) u = if v = u then some x else bget b u := rfl

theorem ext_valOf (b : Binding) : Ext (valOf b) b := by
  intro v x h; simp [valOf, h]

/-! ### soundness of matching -/

theorem matchTerm_sound {t : Term} {x : Nat} {b b' : Binding} (h : matchTerm t x b = some b') :
    BExt b b' ∧ instTermB b' t = some x := by
  cases t with
  | const c =>
    simp only [matchTerm] at h
    split at h
    · rename_i hc; cases h; exact ⟨BExt.refl _, by simp [instTermB, hc]⟩
    · cases h
  | var v =>
    simp only [matchTerm] at h
    split at h
    · rename_i y hy
      split at h
      · rename_i hyx; cases h; subst hyx; exact ⟨BExt.refl _, by simp [instTermB, hy]⟩
      · cases h
    · rename_i hn
      cases h
      refine ⟨?_, by simp [instTermB, bget_cons]⟩
      intro u z hu
      rw [bget_cons]
      split
      · rename_i hvu; subst hvu; rw [hn] at hu; cases hu
      · exact hu

theorem instTermB_mono {t : Term} {x : Nat} {b b' : Binding} (hb : BExt b b') (h : instTermB b t = some x) :
    instTermB b' t = some x := by
  cases t with
  | const c => exact h
  | var v => exact hb v x h

theorem instPatB_some {b : Binding} {p : Pat} {f : Fact} :
    instPatB b p = some f ↔ instTermB b p.s = some f.s ∧ instTermB b p.p = some f.p ∧ instTermB b p.o = some f.o := by
  unfold instPatB
  cases hs : instTermB b p.s <;> cases hp : instTermB b p.p <;> cases ho : instTermB b p.o <;>
    simp [Option.bind, Option.map] <;> (try (intro h; cases h; simp)) <;> (try (cases f; simp)) <;>
    (try (intro a b c; cases f; simp_all))

theorem instPatB_mono {p : Pat} {f : Fact} {b b' : Binding} (hb : BExt b b') (h : instPatB b p = some f) :
    instPatB b' p = some f := by
  rw [instPatB_some] at *
  exact ⟨instTermB_mono hb h.1, instTermB_mono hb h.2.1, instTermB_mono hb h.2.2⟩

theorem matchPat_sound {p : Pat} {f : Fact} {b b' : Binding} (h : matchPat p f b = some b') :
    BExt b b' ∧ instPatB b' p = some f := by
  unfold matchPat at h
  cases h1 : matchTerm p.s f.s b with
  | none => simp [h1] at h
  | some b1 =>
    cases h2 : matchTerm p.p f.p b1 with
    | none => simp [h1, h2] at h
    | some b2 =>
      simp only [h1, h2, Option.bind_some] at h
      obtain ⟨e1, i1⟩ := matchTerm_sound h1
      obtain ⟨e2, i2⟩ := matchTerm_sound h2
      obtain ⟨e3, i3⟩ := matchTerm_sound h
      refine ⟨e1.trans (e2.trans e3), ?_⟩
      rw [instPatB_some]
      exact ⟨instTermB_mono (e2.trans e3) i1, instTermB_mono e3 i2, i3⟩

theorem mem_joinPrem {p : Pat} {facts : List Fact} {bs : List Binding} {b' : Binding} :
    b' ∈ joinPrem p facts bs ↔ ∃ b ∈ bs, ∃ f ∈ facts, matchPat p f b = some b' := by
  simp [joinPrem, List.mem_flatMap, List.mem_filterMap]

theorem joinAll_sound {ps : List Pat} {facts : List Fact} : ∀ {bs : List Binding} {b' : Binding},
    b' ∈ joinAll ps facts bs → ∃ b ∈ bs, BExt b b' ∧ ∀ p ∈ ps, ∃ f ∈ facts, instPatB b' p = some f := by
  induction ps with
  | nil => intro bs b' h; exact ⟨b', h, BExt.refl _, by simp⟩
  | cons q qs ih =>
    intro bs b' h
    simp only [joinAll, List.foldl_cons] at h
    obtain ⟨b1, hb1, e1, hall⟩ := ih (bs := joinPrem q facts bs) h
    obtain ⟨b, hb, f, hf, hm⟩ := mem_joinPrem.mp hb1
    obtain ⟨e0, i0⟩ := matchPat_sound hm
    refine ⟨b, hb, e0.trans e1, ?_⟩
    intro p hp
    rcases List.mem_cons.mp hp with rfl | hp
    · exact ⟨f, hf, instPatB_mono e1 i0⟩
    · exact hall p hp

theorem mem_or_mem_eraseIdx {α} {l : List α} : ∀ {i : Nat} {a x : α}, l[i]? = some a → x ∈ l →
    x = a ∨ x ∈ l.eraseIdx i := by
  induction l with
  | nil => intro i a x _ hx; cases hx
  | cons h t ih =>
    intro i a x hi hx
    cases i with
    | zero =>
      simp only [List.getElem?_cons_zero, Option.some.injEq] at hi
      subst hi
      rcases List.mem_cons.mp hx with rfl | hx
      · exact Or.inl rfl
      · exact Or.inr (by simpa using hx)
    | succ i =>
      simp only [List.getElem?_cons_succ] at hi
      rcases List.mem_cons.mp hx with rfl | hx
      · exact Or.inr (by simp)
      · rcases ih hi hx with h1 | h1
        · exact Or.inl h1
        · exact Or.inr (by simp [h1])

theorem solutionsAt_sound {r : Rule} {all delta : List Fact} {i : Nat} {b : Binding}
    (hd : ∀ f ∈ delta, f ∈ all) (h : b ∈ solutionsAt r all delta i) :
    ∀ p ∈ r.prem, ∃ f ∈ all, instPatB b p = some f := by
  unfold solutionsAt at h
  split at h
  · cases h
  · rename_i pi hpi
    obtain ⟨b1, hb1, e1, hall⟩ := joinAll_sound h
    obtain ⟨b0, _, f, hf, hm⟩ := mem_joinPrem.mp hb1
    obtain ⟨_, i0⟩ := matchPat_sound hm
    intro p hp
    rcases mem_or_mem_eraseIdx hpi hp with rfl | hp
    · exact ⟨f, hd f hf, instPatB_mono e1 i0⟩
    · exact hall p hp

theorem instTermB_valOf {b : Binding} {t : Term} {x : Nat} (h : instTermB b t = some x) :
    instTermV (valOf b) t = x := by
  cases t with
  | const c => simpa [instTermB, instTermV] using h
  | var v => simp only [instTermB] at h; simp [instTermV, valOf, h]

theorem instPatB_valOf {b : Binding} {p : Pat} {f : Fact} (h : instPatB b p = some f) : instV (valOf b) p = f := by
  rw [instPatB_some] at h
  cases f
  simp only [instV, Fact.mk.injEq]
  exact ⟨instTermB_valOf h.1, instTermB_valOf h.2.1, instTermB_valOf h.2.2⟩

theorem filterMap_eq_map {α β} (l : List α) (f : α → Option β) (g : α → β) (h : ∀ a ∈ l, f a = some (g a)) :
    l.filterMap f = l.map g := by
  induction l with
  | nil => rfl
  | cons a t ih =>
    rw [List.filterMap_cons, h a List.mem_cons_self, List.map_cons, ih (fun x hx => h x (List.mem_cons_of_mem _ hx))]

/-- a job is an instance of `r` under valuation `σ` -/
def IsInstance (r : Rule) (σ : String → Nat) (j : Job) : Prop :=
  j.prems = r.prem.map (instV σ) ∧ j.concls = r.concl.map (instV σ)

theorem mem_solutions {r : Rule} {all delta : List Fact} {b : Binding} :
    b ∈ solutions r all delta ↔ ∃ i, i < r.prem.length ∧ b ∈ solutionsAt r all delta i := by
  simp [solutions, List.mem_flatMap]

theorem mem_jobs {rules : List Rule} {all delta : List Fact} {j : Job} :
    j ∈ jobs rules all delta ↔ ∃ r ∈ rules, ∃ b ∈ solutions r all delta, jobOf r b = j := by
  simp [jobs, List.mem_flatMap, List.mem_eraseDups]

/-- every job of a round is a rule instance with all premises among the known facts -/
theorem jobs_sound {rules : List Rule} {all delta : List Fact} (hd : ∀ f ∈ delta, f ∈ all) {j : Job}
    (h : j ∈ jobs rules all delta) :
    ∃ r ∈ rules, ∃ σ, IsInstance r σ j ∧ ∀ f ∈ j.prems, f ∈ all := by
  obtain ⟨r, hr, b, hb, rfl⟩ := mem_jobs.mp h
  obtain ⟨i, _, hbi⟩ := mem_solutions.mp hb
  have hs := solutionsAt_sound hd hbi
  have hpre : r.prem.filterMap (instPatB b) = r.prem.map (instV (valOf b)) := by
    apply filterMap_eq_map
    intro p hp
    obtain ⟨f, _, hf⟩ := hs p hp
    rw [hf, instPatB_valOf hf]
  refine ⟨r, hr, valOf b, ⟨hpre, rfl⟩, ?_⟩
  intro f hf
  simp only [jobOf] at hf
  rw [hpre, List.mem_map] at hf
  obtain ⟨p, hp, rfl⟩ := hf
  obtain ⟨f', hf', hi⟩ := hs p hp
  rw [instPatB_valOf hi]; exact hf'

/-! ### completeness of matching -/

theorem matchTerm_complete {σ : String → Nat} {t : Term} {x : Nat} {b : Binding} (he : Ext σ b)
    (hi : instTermV σ t = x) : ∃ b', matchTerm t x b = some b' ∧ Ext σ b' := by
  cases t with
  | const c => simp only [instTermV] at hi; exact ⟨b, by simp [matchTerm, hi], he⟩
  | var v =>
    simp only [instTermV] at hi
    cases hb : bget b v with
    | some y =>
      have := he v y hb
      exact ⟨b, by simp [matchTerm, hb, ← this, hi], he⟩
    | none =>
      refine ⟨(v, x) :: b, by simp [matchTerm, hb], ?_⟩
      intro u z hu
      rw [bget_cons] at hu
      split at hu
      · rename_i hvu; cases hu; rw [← hvu]; exact hi
      · exact he u z hu

theorem matchPat_complete {σ : String → Nat} {p : Pat} {f : Fact} {b : Binding} (he : Ext σ b)
    (hi : instV σ p = f) : ∃ b', matchPat p f b = some b' ∧ Ext σ b' := by
  subst hi
  obtain ⟨b1, h1, e1⟩ := matchTerm_complete (t := p.s) (x := instTermV σ p.s) he rfl
  obtain ⟨b2, h2, e2⟩ := matchTerm_complete (t := p.p) (x := instTermV σ p.p) e1 rfl
  obtain ⟨b3, h3, e3⟩ := matchTerm_complete (t := p.o) (x := instTermV σ p.o) e2 rfl
  exact ⟨b3, by simp [matchPat, instV, h1, h2, h3], e3⟩

theorem joinAll_complete {σ : String → Nat} {ps : List Pat} {facts : List Fact} : ∀ {bs : List Binding} {b : Binding},
    b ∈ bs → Ext σ b → (∀ p ∈ ps, instV σ p ∈ facts) → ∃ b' ∈ joinAll ps facts bs, Ext σ b' := by
  induction ps with
  | nil => intro bs b hb he _; exact ⟨b, hb, he⟩
  | cons q qs ih =>
    intro bs b hb he hall
    obtain ⟨b1, hm, e1⟩ := matchPat_complete (p := q) (f := instV σ q) he rfl
    have hb1 : b1 ∈ joinPrem q facts bs := mem_joinPrem.mpr ⟨b, hb, _, hall q List.mem_cons_self, hm⟩
    simp only [joinAll, List.foldl_cons]
    exact ih hb1 e1 (fun p hp => hall p (List.mem_cons_of_mem _ hp))

theorem solutionsAt_complete {σ : String → Nat} {r : Rule} {all delta : List Fact} {i : Nat} {pi : Pat}
    (hpi : r.prem[i]? = some pi) (hdel : instV σ pi ∈ delta) (hall : ∀ p ∈ r.prem, instV σ p ∈ all) :
    ∃ b ∈ solutionsAt r all delta i, Ext σ b := by
  unfold solutionsAt
  rw [hpi]
  obtain ⟨b1, hm, e1⟩ := matchPat_complete (p := pi) (f := instV σ pi) (b := []) (by intro v x h; cases h) rfl
  have hb1 : b1 ∈ joinPrem pi delta [[]] := mem_joinPrem.mpr ⟨[], by simp, _, hdel, hm⟩
  exact joinAll_complete hb1 e1 (fun p hp => hall p (List.mem_of_mem_eraseIdx hp))

theorem instTermB_ext {σ : String → Nat} {b : Binding} {t : Term} {x : Nat} (he : Ext σ b)
    (h : instTermB b t = some x) : instTermV σ t = x := by
  cases t with
  | const c => simpa [instTermB, instTermV] using h
  | var v => exact he v x h

theorem instPatB_ext {σ : String → Nat} {b : Binding} {p : Pat} {f : Fact} (he : Ext σ b)
    (h : instPatB b p = some f) : instV σ p = f := by
  rw [instPatB_some] at h
  cases f
  simp only [instV, Fact.mk.injEq]
  exact ⟨instTermB_ext he h.1, instTermB_ext he h.2.1, instTermB_ext he h.2.2⟩

theorem bound_of_instTermB {b : Binding} {t : Term} {x : Nat} (h : instTermB b t = some x) :
    ∀ v ∈ termVars t, (bget b v).isSome := by
  cases t with
  | const c => intro v hv; cases hv
  | var u => intro v hv; simp only [termVars, List.mem_singleton] at hv; subst hv; simp only [instTermB] at h; simp [h]

theorem bound_of_instPatB {b : Binding} {p : Pat} {f : Fact} (h : instPatB b p = some f) :
    ∀ v ∈ patVars p, (bget b v).isSome := by
  rw [instPatB_some] at h
  intro v hv
  simp only [patVars, List.mem_append] at hv
  rcases hv with (hv | hv) | hv
  · exact bound_of_instTermB h.1 v hv
  · exact bound_of_instTermB h.2.1 v hv
  · exact bound_of_instTermB h.2.2 v hv

theorem instTermV_congr {σ τ : String → Nat} {t : Term} (h : ∀ v ∈ termVars t, σ v = τ v) :
    instTermV σ t = instTermV τ t := by
  cases t with
  | const c => rfl
  | var v => exact h v (by simp [termVars])

theorem instV_congr {σ τ : String → Nat} {p : Pat} (h : ∀ v ∈ patVars p, σ v = τ v) : instV σ p = instV τ p := by
  simp only [instV, Fact.mk.injEq]
  refine ⟨instTermV_congr ?_, instTermV_congr ?_, instTermV_congr ?_⟩ <;> intro v hv <;> apply h <;>
    simp [patVars, hv]

theorem safeRule_iff {r : Rule} : safeRule r = true ↔
    ∀ c ∈ r.concl, ∀ v ∈ patVars c, ∃ p ∈ r.prem, v ∈ patVars p := by
  simp [safeRule, List.all_eq_true, List.any_eq_true]

/-- every instance of a safe rule with premises in `all`, one of them in `delta`, is among the jobs -/
theorem jobs_complete {rules : List Rule} {all delta : List Fact} {r : Rule} (hr : r ∈ rules)
    (hsafe : safeRule r = true) (hd : ∀ f ∈ delta, f ∈ all) (σ : String → Nat)
    (hall : ∀ p ∈ r.prem, instV σ p ∈ all) (hdel : ∃ p ∈ r.prem, instV σ p ∈ delta) :
    ⟨r.prem.map (instV σ), r.concl.map (instV σ)⟩ ∈ jobs rules all delta := by
  obtain ⟨pi, hpi, hpd⟩ := hdel
  obtain ⟨i, hi, hget⟩ := List.mem_iff_getElem.mp hpi
  have hget' : r.prem[i]? = some pi := by rw [List.getElem?_eq_getElem hi, hget]
  obtain ⟨b, hb, he⟩ := solutionsAt_complete hget' hpd hall
  rw [mem_jobs]
  refine ⟨r, hr, b, mem_solutions.mpr ⟨i, hi, hb⟩, ?_⟩
  have hs := solutionsAt_sound hd hb
  simp only [jobOf, Job.mk.injEq]
  constructor
  · apply filterMap_eq_map
    intro p hp
    obtain ⟨f, _, hf⟩ := hs p hp
    rw [hf, instPatB_ext he hf]
  · apply List.map_congr_left
    intro c hc
    apply instV_congr
    intro v hv
    obtain ⟨p, hp, hvp⟩ := safeRule_iff.mp hsafe c hc v hv
    obtain ⟨f, _, hf⟩ := hs p hp
    have hbound := bound_of_instPatB hf v hvp
    cases hbv : bget b v with
    | none => simp [hbv] at hbound
    | some x => rw [he v x hbv]; simp [valOf, hbv]

end Kolibrie.Prov
