import Kolibrie.Model.Sld
import Kolibrie.Spec.Sld
/-! Helper lemmas for C18, part 1: semantic soundness of unification, renaming and the SLD helper. -/
namespace Kolibrie.Sld
open Kolibrie.Terms Kolibrie.SldSpec

/-- a ground valuation satisfies a set of bindings -/
def Sat (σ : String → Nat) (b : Subst) : Prop := ∀ v t, (v, t) ∈ b → σ v = t.eval σ

theorem sat_nil (σ : String → Nat) : Sat σ [] := by intro v t h; simp at h

theorem sat_cons {σ v t b} : Sat σ ((v, t) :: b) ↔ σ v = t.eval σ ∧ Sat σ b := by
  constructor
  · intro h; exact ⟨h v t (by simp), fun w u hw => h w u (by simp [hw])⟩
  · rintro ⟨h1, h2⟩ w u hw
    rcases List.mem_cons.1 hw with h | h
    · cases h; exact h1
    · exact h2 w u h

theorem lookupT_mem {v t} : ∀ {b : Subst}, lookupT v b = some t → (v, t) ∈ b := by
  intro b
  induction b with
  | nil => intro h; simp [lookupT] at h
  | cons e b ih =>
    obtain ⟨w, u⟩ := e
    intro h
    simp only [lookupT] at h
    split at h
    · cases h; subst_vars; simp
    · exact List.mem_cons_of_mem _ (ih h)

theorem resolve_eval {σ b} (hs : Sat σ b) : ∀ (n : Nat) (t : Term), (resolve n b t).eval σ = t.eval σ := by
  intro n
  induction n with
  | zero => intro t; rfl
  | succ n ih =>
    intro t
    cases t with
    | const c => rfl
    | var v =>
      simp only [resolve]
      split
      · rename_i u hu
        rw [ih u, ← hs v u (lookupT_mem hu)]; rfl
      · rfl

theorem resolveT_eval {σ b} (hs : Sat σ b) (t : Term) : (resolveT b t).eval σ = t.eval σ :=
  resolve_eval hs _ t

theorem substitute_inst {σ b} (hs : Sat σ b) (q : Pattern) : (substitute b q).inst σ = q.inst σ := by
  simp [substitute, Pattern.inst, resolveT_eval hs]

theorem unifyTerms_sound {σ t1 t2 b b'} (h : unifyTerms t1 t2 b = some b') (hs : Sat σ b') :
    Sat σ b ∧ t1.eval σ = t2.eval σ := by
  unfold unifyTerms at h
  split at h
  · rename_i c1 c2 h1 h2
    split at h
    · cases h
      refine ⟨hs, ?_⟩
      rw [← resolveT_eval hs t1, ← resolveT_eval hs t2, h1, h2]; subst_vars; rfl
    · cases h
  · rename_i v c h1 h2
    cases h
    obtain ⟨hv, hb⟩ := sat_cons.1 hs
    refine ⟨hb, ?_⟩
    rw [← resolveT_eval hb t1, ← resolveT_eval hb t2, h1, h2]; exact hv
  · rename_i c v h1 h2
    cases h
    obtain ⟨hv, hb⟩ := sat_cons.1 hs
    refine ⟨hb, ?_⟩
    rw [← resolveT_eval hb t1, ← resolveT_eval hb t2, h1, h2]; exact hv.symm
  · rename_i v1 v2 h1 h2
    split at h
    · cases h
      obtain ⟨hv, hb⟩ := sat_cons.1 hs
      refine ⟨hb, ?_⟩
      rw [← resolveT_eval hb t1, ← resolveT_eval hb t2, h1, h2]; exact hv
    · rename_i heq
      cases h
      refine ⟨hs, ?_⟩
      have : v1 = v2 := by simpa using heq
      rw [← resolveT_eval hs t1, ← resolveT_eval hs t2, h1, h2, this]

theorem unifyPatterns_sound {σ p1 p2 b b'} (h : unifyPatterns p1 p2 b = some b') (hs : Sat σ b') :
    Sat σ b ∧ p1.inst σ = p2.inst σ := by
  unfold unifyPatterns at h
  split at h
  · cases h
  · rename_i b1 h1
    split at h
    · cases h
    · rename_i b2 h2
      obtain ⟨s2, e3⟩ := unifyTerms_sound h hs
      obtain ⟨s1, e2⟩ := unifyTerms_sound h2 s2
      obtain ⟨s0, e1⟩ := unifyTerms_sound h1 s1
      exact ⟨s0, by simp [Pattern.inst, e1, e2, e3]⟩

/-! ### renaming = applying one variable map -/

def applyMapT (m : VarMap) : Term → Term
  | .const c => .const c
  | .var v => .var ((lookupV v m).getD v)

def applyMapP (m : VarMap) (q : Pattern) : Pattern := ⟨applyMapT m q.s, applyMapT m q.p, applyMapT m q.o⟩

/-- `m'` extends `m` -/
def Ext (m m' : VarMap) : Prop := ∀ v n, lookupV v m = some n → lookupV v m' = some n

theorem Ext.refl (m : VarMap) : Ext m m := fun _ _ h => h
theorem Ext.trans {a b c : VarMap} (h1 : Ext a b) (h2 : Ext b c) : Ext a c := fun v n h => h2 v n (h1 v n h)

theorem renameTerm_ext {reserved t st} :
    Ext st.map (renameTerm reserved t st).2.map ∧
    ∀ m, Ext (renameTerm reserved t st).2.map m → (renameTerm reserved t st).1 = applyMapT m t := by
  cases t with
  | const c => exact ⟨Ext.refl _, fun _ _ => rfl⟩
  | var v =>
    simp only [renameTerm]
    split
    · rename_i nv hnv
      refine ⟨Ext.refl _, ?_⟩
      intro m hm
      simp [applyMapT, hm v nv hnv]
    · rename_i hnone
      refine ⟨?_, ?_⟩
      · intro w n hw
        simp only [lookupV]
        split
        · subst_vars; rw [hnone] at hw; cases hw
        · exact hw
      · intro m hm
        have := hm v (freshName reserved (reserved.length + 1) st.counter).1 (by simp [lookupV])
        simp [applyMapT, this]

theorem renamePat_ext {reserved q st} :
    Ext st.map (renamePat reserved q st).2.map ∧
    ∀ m, Ext (renamePat reserved q st).2.map m → (renamePat reserved q st).1 = applyMapP m q := by
  simp only [renamePat]
  have h1 := @renameTerm_ext reserved q.s st
  have h2 := @renameTerm_ext reserved q.p (renameTerm reserved q.s st).2
  have h3 := @renameTerm_ext reserved q.o (renameTerm reserved q.p (renameTerm reserved q.s st).2).2
  refine ⟨h1.1.trans (h2.1.trans h3.1), ?_⟩
  intro m hm
  simp only [applyMapP]
  rw [h1.2 m (h2.1.trans (h3.1.trans hm)), h2.2 m (h3.1.trans hm), h3.2 m hm]

theorem renamePats_ext {reserved} : ∀ (qs : List Pattern) (st : RState),
    Ext st.map (renamePats reserved qs st).2.map ∧
    ∀ m, Ext (renamePats reserved qs st).2.map m → (renamePats reserved qs st).1 = qs.map (applyMapP m) := by
  intro qs
  induction qs with
  | nil => intro st; exact ⟨Ext.refl _, fun _ _ => rfl⟩
  | cons q qs ih =>
    intro st
    simp only [renamePats]
    have h1 := @renamePat_ext reserved q st
    have h2 := ih (renamePat reserved q st).2
    refine ⟨h1.1.trans h2.1, ?_⟩
    intro m hm
    simp only [List.map_cons]
    rw [h1.2 m (h2.1.trans hm), h2.2 m hm]

/-- the renamed rule is the original rule under one variable map -/
theorem renameRule_map (reserved : List String) (r : Rule) (c : Nat) :
    ∃ m : VarMap, (renameRule reserved r c).1.premise = r.premise.map (applyMapP m) ∧
      (renameRule reserved r c).1.conclusion = r.conclusion.map (applyMapP m) := by
  simp only [renameRule]
  have h1 := renamePats_ext (reserved := reserved) r.premise ⟨[], c⟩
  have h2 := renamePats_ext (reserved := reserved) r.conclusion (renamePats reserved r.premise ⟨[], c⟩).2
  exact ⟨_, h1.2 _ h2.1, h2.2 _ (Ext.refl _)⟩

theorem applyMapT_eval (σ : String → Nat) (m : VarMap) (t : Term) :
    (applyMapT m t).eval σ = t.eval (fun v => σ ((lookupV v m).getD v)) := by
  cases t <;> rfl

theorem applyMapP_inst (σ : String → Nat) (m : VarMap) (q : Pattern) :
    (applyMapP m q).inst σ = q.inst (fun v => σ ((lookupV v m).getD v)) := by
  simp [applyMapP, Pattern.inst, applyMapT_eval]

/-! ### the helper -/

/-- every answer of the recursive call only has models that satisfy the input bindings and make the query derivable -/
def RecSound (F : List Fact) (P : List Rule) (rec : Rec) : Prop :=
  ∀ q b c b', b' ∈ (rec q b c).1 → ∀ σ, Sat σ b' → Sat σ b ∧ Derivable F P (q.inst σ)

theorem solveEach_sound {F P rec} (hr : RecSound F P rec) (p : Pattern) :
    ∀ (bs : List Subst) (c : Nat) (b' : Subst), b' ∈ (solveEach rec p bs c).1 → ∀ σ, Sat σ b' →
      ∃ b ∈ bs, Sat σ b ∧ Derivable F P (p.inst σ) := by
  intro bs
  induction bs with
  | nil => intro c b' h; simp [solveEach] at h
  | cons b bs ih =>
    intro c b' h σ hs
    simp only [solveEach, List.mem_append] at h
    rcases h with h | h
    · obtain ⟨h1, h2⟩ := hr p b c b' h σ hs
      exact ⟨b, by simp, h1, h2⟩
    · obtain ⟨b0, hb0, h1, h2⟩ := ih _ b' h σ hs
      exact ⟨b0, by simp [hb0], h1, h2⟩

theorem solvePremises_sound {F P rec} (hr : RecSound F P rec) :
    ∀ (ps : List Pattern) (bs : List Subst) (c : Nat) (b' : Subst), b' ∈ (solvePremises rec ps bs c).1 →
      ∀ σ, Sat σ b' → ∃ b ∈ bs, Sat σ b ∧ ∀ p ∈ ps, Derivable F P (p.inst σ) := by
  intro ps
  induction ps with
  | nil => intro bs c b' h σ hs; exact ⟨b', by simpa [solvePremises] using h, hs, by simp⟩
  | cons p ps ih =>
    intro bs c b' h σ hs
    simp only [solvePremises] at h
    obtain ⟨b1, hb1, hs1, hrest⟩ := ih _ _ b' h σ hs
    obtain ⟨b0, hb0, hs0, hp⟩ := solveEach_sound hr p bs c b1 hb1 σ hs1
    refine ⟨b0, hb0, hs0, ?_⟩
    intro p' hp'
    rcases List.mem_cons.1 hp' with rfl | hp'
    · exact hp
    · exact hrest p' hp'

theorem tryConclusions_sound {F P rec} (hr : RecSound F P rec) (sub : Pattern) (b : Subst) (prems : List Pattern) :
    ∀ (cs : List Pattern) (c : Nat) (b' : Subst), b' ∈ (tryConclusions rec sub b prems cs c).1 →
      ∀ σ, Sat σ b' → Sat σ b ∧ ∃ concl ∈ cs, concl.inst σ = sub.inst σ ∧ ∀ p ∈ prems, Derivable F P (p.inst σ) := by
  intro cs
  induction cs with
  | nil => intro c b' h; simp [tryConclusions] at h
  | cons concl cs ih =>
    intro c b' h σ hs
    simp only [tryConclusions] at h
    split at h
    · obtain ⟨h1, c0, hc0, h2⟩ := ih c b' h σ hs
      exact ⟨h1, c0, by simp [hc0], h2⟩
    · rename_i rb hrb
      simp only [List.mem_append] at h
      rcases h with h | h
      · obtain ⟨b0, hb0, hs0, hall⟩ := solvePremises_sound hr prems [rb] c b' h σ hs
        simp only [List.mem_singleton] at hb0
        subst hb0
        obtain ⟨hsb, heq⟩ := unifyPatterns_sound hrb hs0
        exact ⟨hsb, concl, by simp, heq, hall⟩
      · obtain ⟨h1, c0, hc0, h2⟩ := ih _ b' h σ hs
        exact ⟨h1, c0, by simp [hc0], h2⟩

theorem tryRules_sound {F P rec} (hr : RecSound F P rec) (reserved : List String) (sub : Pattern) (b : Subst) :
    ∀ (rs : List Rule), (∀ r ∈ rs, r ∈ P) → ∀ (c : Nat) (b' : Subst),
      b' ∈ (tryRules rec reserved sub b rs c).1 → ∀ σ, Sat σ b' → Sat σ b ∧ Derivable F P (sub.inst σ) := by
  intro rs
  induction rs with
  | nil => intro _ c b' h; simp [tryRules] at h
  | cons r rs ih =>
    intro hP c b' h σ hs
    simp only [tryRules, List.mem_append] at h
    rcases h with h | h
    · obtain ⟨m, hprem, hconcl⟩ := renameRule_map reserved r c
      obtain ⟨hsb, concl, hc, heq, hall⟩ := tryConclusions_sound hr sub b _ _ _ b' h σ hs
      refine ⟨hsb, ?_⟩
      rw [hconcl] at hc
      obtain ⟨c0, hc0, rfl⟩ := List.mem_map.1 hc
      rw [← heq, applyMapP_inst]
      refine Derivable.rule _ (hP r (by simp)) hc0 ?_
      intro p hp
      have := hall (applyMapP m p) (by rw [hprem]; exact List.mem_map.2 ⟨p, hp, rfl⟩)
      rwa [applyMapP_inst] at this
    · exact ih (fun r hr => hP r (by simp [hr])) _ b' h σ hs

theorem bcStep_sound {F P rec} (hr : RecSound F P rec) (reserved : List String) :
    RecSound F P (bcStep reserved F P rec) := by
  intro q b c b' h σ hs
  simp only [bcStep, List.mem_append, List.mem_filterMap] at h
  rcases h with ⟨f, hf, hu⟩ | h
  · obtain ⟨hsb, heq⟩ := unifyPatterns_sound hu hs
    refine ⟨hsb, ?_⟩
    rw [← substitute_inst hsb q, heq]
    have : f.toPattern.inst σ = f := by cases f; rfl
    rw [this]; exact Derivable.fact hf
  · obtain ⟨hsb, hd⟩ := tryRules_sound hr reserved _ b P (fun _ h => h) c b' h σ hs
    exact ⟨hsb, by rwa [substitute_inst hsb q] at hd⟩

theorem bcAux_sound (F : List Fact) (P : List Rule) (reserved : List String) :
    ∀ n, RecSound F P (bcAux reserved F P n) := by
  intro n
  induction n with
  | zero => intro q b c b' h; simp [bcAux] at h
  | succ n ih => exact bcStep_sound ih reserved

end Kolibrie.Sld
