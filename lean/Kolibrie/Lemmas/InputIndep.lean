import Kolibrie.Lemmas.Scan
/-! The executor is input-independent on the safe fragment: `exec p inc ≃ inc ⋈ exec p [∅]`.
    Consequences: the three join algorithms agree. (core Lean only) -/
namespace Kolibrie.Engine
open List

/-- well-formedness of a context: the visible named graphs are a set (`HashSet<GraphId>`) -/
def Ctx.WF (ctx : Ctx) : Prop := ctx.view.named.Nodup

/-- the fragment on which input independence is proved: everything the lowering produces except BIND;
    a FILTER's variables must be bound in every solution of its own input (`certainVars` semantically) -/
def Safe (db : DB) : Plan → Prop
  | .unit => True
  | .empty => True
  | .scan _ => True
  | .star _ => True
  | .values _ _ => True
  | .subquery _ _ => True
  | .union l r => Safe db l ∧ Safe db r
  | .bindJoin l r => Safe db l ∧ Safe db r
  | .hashJoin l r => Safe db l ∧ Safe db r
  | .nlJoin l r => Safe db l ∧ Safe db r
  | .graph i _ => Safe db i
  | .filter i c => Safe db i ∧
      ∀ ctx : Ctx, ctx.WF → ∀ r ∈ exec db i ctx [[]], ∀ v ∈ c.vars, (Row.get r v).isSome = true
  | .project _ _ => False
  | .bind _ _ _ => False

/-! ### rows stay canonical -/

theorem wf_restrict (r : Row) (vs : List Var) (h : Row.WF r) : Row.WF (Row.restrict r vs) :=
  List.Pairwise.filter _ h

theorem wf_erase (r : Row) (v : Var) (h : Row.WF r) : Row.WF (Row.erase r v) :=
  List.Pairwise.filter _ h

theorem hashJoin_wf (a b : List Row) (ha : AllWF a) : AllWF (hashJoin a b) :=
  allWF_of_perm (hashJoin_perm_nlJoin a b).symm (nlJoin_wf a b ha)

theorem star_wf (db : DB) (ctx : Ctx) (pats : List QPat) (inc : List Row) (hi : AllWF inc) :
    AllWF (pats.foldl (fun acc p => scan db ctx { p with g := .dflt } acc) inc) := by
  induction pats generalizing inc with
  | nil => exact hi
  | cons p ps ih => exact ih _ (scan_wf db ctx _ inc hi)

theorem exec_wf (db : DB) (p : Plan) : ∀ (ctx : Ctx) (inc : List Row), AllWF inc → AllWF (exec db p ctx inc) := by
  induction p with
  | unit => intro ctx inc hi; rw [exec_unit]; exact hi
  | empty => intro ctx inc _; rw [exec_empty]; exact allWF_nil
  | scan pat => intro ctx inc hi; rw [exec_scan]; exact scan_wf db ctx pat inc hi
  | union l r ihl ihr => intro ctx inc hi; rw [exec_union]; exact allWF_append (ihl ctx inc hi) (ihr ctx inc hi)
  | graph i g ih =>
    intro ctx inc hi
    rw [exec_graph]
    cases g with
    | dflt => exact ih _ inc hi
    | named gn =>
      simp only
      split
      · exact ih _ inc hi
      · exact allWF_nil
    | var v =>
      simp only
      apply allWF_flatMap
      intro row hrow
      unfold graphVarRow
      cases hg : Row.get row v with
      | none =>
        simp only
        apply allWF_flatMap
        intro g _
        apply ih
        intro r hr; simp at hr; subst hr
        exact Row.wf_insert row v g (hi row hrow)
      | some g =>
        simp only
        split
        · apply ih; intro r hr; simp at hr; rw [hr]; exact hi row hrow
        · exact allWF_nil
  | filter i c ih => intro ctx inc hi; rw [exec_filter]; exact allWF_filter _ (ih ctx inc hi)
  | project i vs ih =>
    intro ctx inc hi; rw [exec_project]
    intro r hr
    obtain ⟨r', hr', rfl⟩ := mem_map.1 hr
    exact wf_restrict r' vs (ih ctx inc hi r' hr')
  | bindJoin l r ihl ihr => intro ctx inc hi; rw [exec_bindJoin]; exact ihr ctx _ (ihl ctx inc hi)
  | hashJoin l r ihl _ =>
    intro ctx inc hi; rw [exec_hashJoin]
    split
    · exact allWF_nil
    · exact hashJoin_wf _ _ (ihl ctx inc hi)
  | nlJoin l r ihl _ =>
    intro ctx inc hi; rw [exec_nlJoin]
    split
    · exact allWF_nil
    · exact nlJoin_wf _ _ (ihl ctx inc hi)
  | star pats => intro ctx inc hi; rw [exec_star]; exact star_wf db ctx pats inc hi
  | values vars rows => intro ctx inc hi; rw [exec_values]; exact nlJoin_wf _ _ hi
  | subquery i spec _ => intro ctx inc hi; rw [exec_subquery]; exact nlJoin_wf _ _ hi
  | bind i args out ih =>
    intro ctx inc hi; rw [exec_bind]
    intro r hr
    obtain ⟨r', hr', rfl⟩ := mem_map.1 hr
    exact Row.wf_insert r' out _ (ih ctx inc hi r' hr')

/-! ### helper facts -/

theorem nlJoin_single_flat (inc e : List Row) : nlJoin inc e = inc.flatMap (fun row => nlJoin [row] e) := by
  unfold nlJoin; simp

/-- a filter expression only looks at its own variables -/
theorem eval_congr (c : Cond) (a b : Row) (h : ∀ v ∈ c.vars, Row.get a v = Row.get b v) : c.eval a = c.eval b := by
  induction c with
  | cmp v op rhs =>
    cases rhs with
    | var w =>
      have hv := h v (by simp [Cond.vars])
      have hw := h w (by simp [Cond.vars])
      simp [Cond.eval, hv, hw]
    | const r =>
      have hv := h v (by simp [Cond.vars])
      simp [Cond.eval, hv]
  | and x y ihx ihy =>
    simp only [Cond.eval]
    rw [ihx (fun v hv => h v (by simp [Cond.vars, hv])), ihy (fun v hv => h v (by simp [Cond.vars, hv]))]
  | or x y ihx ihy =>
    simp only [Cond.eval]
    rw [ihx (fun v hv => h v (by simp [Cond.vars, hv])), ihy (fun v hv => h v (by simp [Cond.vars, hv]))]
  | not x ih =>
    simp only [Cond.eval]
    rw [ih (fun v hv => h v (by simpa [Cond.vars] using hv))]

/-- merging a row in front does not change the verdict of a filter whose variables the right row binds -/
theorem eval_merge (c : Cond) (row r m : Row) (hr : Row.WF row) (hm : mergeRows row r = some m)
    (hb : ∀ v ∈ c.vars, (Row.get r v).isSome = true) : c.eval m = c.eval r := by
  classical
  apply eval_congr
  intro v hv
  by_cases hc : compat row r
  · rw [mergeRows_some row r hr hc] at hm
    cases hm
    rw [get_unionRows]
    cases hx : Row.get row v with
    | none => rfl
    | some x =>
      have := hb v hv
      cases hy : Row.get r v with
      | none => simp [hy] at this
      | some y => simp [hc v x y hx hy]
  · rw [mergeRows_none row r hr hc] at hm; cases hm

theorem filterMap_filter_comm {α β} (l : List α) (f : α → Option β) (p : β → Bool) (p' : α → Bool)
    (h : ∀ a ∈ l, ∀ b, f a = some b → p b = p' a) : (l.filterMap f).filter p = (l.filter p').filterMap f := by
  induction l with
  | nil => rfl
  | cons a l ih =>
    have ih' := ih (fun x hx => h x (by simp [hx]))
    cases hfa : f a with
    | none =>
      by_cases hp : p' a = true
      · simp [filterMap_cons, hfa, filter_cons, hp, ih']
      · have hp' : p' a = false := by simpa using hp
        simp [filterMap_cons, hfa, filter_cons, hp', ih']
    | some b =>
      have hb := h a (by simp) b hfa
      by_cases hp : p' a = true
      · simp [filterMap_cons, hfa, filter_cons, hp, hb, ih']
      · have hp' : p' a = false := by simpa using hp
        simp [filterMap_cons, hfa, filter_cons, hp', hb, ih']

theorem filter_nlJoin (c : Cond) (inc e : List Row) (hi : AllWF inc)
    (hb : ∀ r ∈ e, ∀ v ∈ c.vars, (Row.get r v).isSome = true) :
    (nlJoin inc e).filter c.eval = nlJoin inc (e.filter c.eval) := by
  unfold nlJoin
  rw [filter_flatMap']
  apply flatMap_congr'
  intro row hrow
  apply filterMap_filter_comm
  intro r hr m hm
  exact eval_merge c row r m (hi row hrow) hm (hb r hr)

theorem nlJoin_single_merge (row b : Row) :
    nlJoin [row] [b] = (mergeRows row b).toList := by
  unfold nlJoin; cases h : mergeRows row b <;> simp [h]


/-! ### the main theorem -/

theorem star_input_join (db : DB) (ctx : Ctx) (hc : ctx.WF) (pats : List QPat) :
    ∀ inc, AllWF inc →
      pats.foldl (fun acc p => scan db ctx { p with g := .dflt } acc) inc ~
      nlJoin inc (pats.foldl (fun acc p => scan db ctx { p with g := .dflt } acc) [[]]) := by
  induction pats with
  | nil => intro inc _; simp [nlJoin_unit_right]
  | cons p ps ih =>
    intro inc hi
    simp only [foldl_cons]
    have hS : AllWF (scan db ctx { p with g := .dflt } [[]]) := scan_wf db ctx _ _ allWF_unit
    have h1 := ih (scan db ctx { p with g := .dflt } inc) (scan_wf db ctx _ inc hi)
    rw [scan_seed db ctx _ inc hi hc] at h1
    rw [nlJoin_assoc inc _ _ hi hS] at h1
    have h2 := ih (scan db ctx { p with g := .dflt } [[]]) hS
    rw [scan_seed db ctx _ inc hi hc]
    exact h1.trans (nlJoin_perm_right inc h2.symm)

theorem graphVar_unbound (row : Row) (v : Var) (g : Val) (hr : Row.WF row) (h : Row.get row v = none) :
    nlJoin [row] [[(v, g)]] = [Row.insert row v g] := by
  rw [nlJoin_single_merge]
  have := matchTerm_seed (.var v) g row hr
  rw [matchTerm_nil] at this
  simp only [Option.bind_some] at this
  rw [← this, matchTerm_var_none v g row h]; rfl

theorem graphVar_bound (row : Row) (v : Var) (g g0 : Val) (hr : Row.WF row) (h : Row.get row v = some g0) :
    nlJoin [row] [[(v, g)]] = if g0 == g then [row] else [] := by
  rw [nlJoin_single_merge]
  have := matchTerm_seed (.var v) g row hr
  rw [matchTerm_nil] at this
  simp only [Option.bind_some] at this
  rw [← this, matchTerm_var_some v g g0 row h]
  by_cases hg : (g0 == g) = true <;> simp [hg]

/-- **Input independence.**  On the safe fragment, executing a plan with incoming solutions gives the same
    multiset as joining the incoming solutions with the plan's own solutions. -/
theorem exec_input_join (db : DB) (p : Plan) (hs : Safe db p) :
    ∀ (ctx : Ctx), ctx.WF → ∀ inc, AllWF inc → exec db p ctx inc ~ nlJoin inc (exec db p ctx [[]]) := by
  induction p with
  | unit => intro ctx _ inc _; simp [exec_unit, nlJoin_unit_right]
  | empty => intro ctx _ inc _; simp [exec_empty, nlJoin_nil_right]
  | scan pat => intro ctx hc inc hi; rw [exec_scan, exec_scan, scan_seed db ctx pat inc hi hc]
  | star pats => intro ctx hc inc hi; rw [exec_star, exec_star]; exact star_input_join db ctx hc pats inc hi
  | values vars rows =>
    intro ctx _ inc hi
    rw [exec_values, exec_values, ← nlJoin_assoc inc [[]] _ hi allWF_unit, nlJoin_unit_right]
  | subquery i spec _ =>
    intro ctx _ inc hi
    rw [exec_subquery, exec_subquery, ← nlJoin_assoc inc [[]] _ hi allWF_unit, nlJoin_unit_right]
  | project i vs _ => exact absurd hs (by simp [Safe])
  | bind i args out _ => exact absurd hs (by simp [Safe])
  | union l r ihl ihr =>
    intro ctx hc inc hi
    obtain ⟨hl, hr⟩ := hs
    rw [exec_union, exec_union]
    exact ((ihl hl ctx hc inc hi).append (ihr hr ctx hc inc hi)).trans (nlJoin_append_right inc _ _).symm
  | filter i c ih =>
    intro ctx hc inc hi
    obtain ⟨hsi, hb⟩ := hs
    rw [exec_filter, exec_filter]
    have h1 := (ih hsi ctx hc inc hi).filter c.eval
    rw [filter_nlJoin c inc _ hi (hb ctx hc)] at h1
    exact h1
  | bindJoin l r ihl ihr =>
    intro ctx hc inc hi
    obtain ⟨hl, hr⟩ := hs
    rw [exec_bindJoin, exec_bindJoin]
    have hL : AllWF (exec db l ctx [[]]) := exec_wf db l ctx _ allWF_unit
    have h1 := ihr hr ctx hc (exec db l ctx inc) (exec_wf db l ctx inc hi)
    have h2 := nlJoin_perm_left (exec db r ctx [[]]) (ihl hl ctx hc inc hi)
    rw [nlJoin_assoc inc _ _ hi hL] at h2
    have h3 := ihr hr ctx hc (exec db l ctx [[]]) hL
    exact h1.trans (h2.trans (nlJoin_perm_right inc h3.symm))
  | hashJoin l r ihl _ =>
    intro ctx hc inc hi
    obtain ⟨hl, _⟩ := hs
    rw [exec_hashJoin, exec_hashJoin]
    have hL : AllWF (exec db l ctx [[]]) := exec_wf db l ctx _ allWF_unit
    have h1 := guarded_hash_perm (exec db l ctx inc) (exec db r ctx [[]])
    have h2 := nlJoin_perm_left (exec db r ctx [[]]) (ihl hl ctx hc inc hi)
    rw [nlJoin_assoc inc _ _ hi hL] at h2
    have h3 := guarded_hash_perm (exec db l ctx [[]]) (exec db r ctx [[]])
    exact h1.trans (h2.trans (nlJoin_perm_right inc h3.symm))
  | nlJoin l r ihl _ =>
    intro ctx hc inc hi
    obtain ⟨hl, _⟩ := hs
    rw [exec_nlJoin, exec_nlJoin, hash_or_nl_empty, hash_or_nl_empty]
    have hL : AllWF (exec db l ctx [[]]) := exec_wf db l ctx _ allWF_unit
    have h2 := nlJoin_perm_left (exec db r ctx [[]]) (ihl hl ctx hc inc hi)
    rw [nlJoin_assoc inc _ _ hi hL] at h2
    exact h2
  | graph i g ih =>
    intro ctx hc inc hi
    have hsi : Safe db i := hs
    rw [exec_graph, exec_graph]
    cases g with
    | dflt =>
      have hc' : ({ ctx with active := none } : Ctx).WF := hc
      exact ih hsi { ctx with active := none } hc' inc hi
    | named gn =>
      simp only
      by_cases hv : visibleNamed db ctx gn = true
      · have hc' : ({ ctx with active := some gn } : Ctx).WF := hc
        rw [if_pos hv, if_pos hv]; exact ih hsi { ctx with active := some gn } hc' inc hi
      · rw [if_neg hv, if_neg hv]; simp [nlJoin_nil_right]
    | var v =>
      simp only
      -- the plan's own solutions: one block per visible graph
      have hE : graphVarRow db ctx v (fun c i' => exec db i c i') [] =
          (ctx.view.named.filter (fun g => db.graphExists g)).flatMap
            (fun g => exec db i { ctx with active := some g } [[(v, g)]]) := by
        simp [graphVarRow, Row.get_nil, Row.insert]
      simp only [flatMap_cons, flatMap_nil, append_nil, hE]
      rw [nlJoin_single_flat]
      apply perm_flatMap_congr
      intro row hrow
      have hrw : Row.WF row := hi row hrow
      have hcg : ∀ g, ({ ctx with active := some g } : Ctx).WF := fun _ => hc
      -- right-hand side, block by block
      have hR : nlJoin [row] ((ctx.view.named.filter (fun g => db.graphExists g)).flatMap
            (fun g => exec db i { ctx with active := some g } [[(v, g)]])) ~
          (ctx.view.named.filter (fun g => db.graphExists g)).flatMap
            (fun g => nlJoin (nlJoin [row] [[(v, g)]]) (exec db i { ctx with active := some g } [[]])) := by
        refine (nlJoin_flatMap_right [row] _ _).trans ?_
        apply perm_flatMap_congr
        intro g _
        have hwg : AllWF [[(v, g)]] := fun r hr => by simp at hr; subst hr; exact wf_single v g
        have h1 := ih hsi { ctx with active := some g } (hcg g) [[(v, g)]] hwg
        have hrow1 : AllWF [row] := fun r hr => by simp at hr; rw [hr]; exact hrw
        rw [nlJoin_assoc [row] _ _ hrow1 hwg]
        exact nlJoin_perm_right [row] h1
      refine Perm.trans ?_ hR.symm
      unfold graphVarRow
      cases hg : Row.get row v with
      | none =>
        simp only
        apply perm_flatMap_congr
        intro g _
        rw [graphVar_unbound row v g hrw hg]
        have hw1 : AllWF [Row.insert row v g] := fun r hr => by
          simp at hr; subst hr; exact Row.wf_insert row v g hrw
        exact ih hsi { ctx with active := some g } (hcg g) _ hw1
      | some g0 =>
        simp only
        have hL : (ctx.view.named.filter (fun g => db.graphExists g)).Nodup := nodup_filter' _ hc
        rw [flatMap_single_of_nodup _ hL g0 _ (fun g' _ hne => by
          rw [graphVar_bound row v g' g0 hrw hg]
          have : (g0 == g') = false := beq_false_of_ne (fun e => hne e.symm)
          simp [this, nlJoin])]
        have hvis : visibleNamed db ctx g0 = true ↔ g0 ∈ ctx.view.named.filter (fun g => db.graphExists g) := by
          simp [visibleNamed, mem_filter]
        by_cases hm : g0 ∈ ctx.view.named.filter (fun g => db.graphExists g)
        · rw [if_pos hm, if_pos (hvis.2 hm), graphVar_bound row v g0 g0 hrw hg]
          simp only [beq_self_eq_true, if_true]
          have hrow1 : AllWF [row] := fun r hr => by simp at hr; rw [hr]; exact hrw
          exact ih hsi { ctx with active := some g0 } (hcg g0) [row] hrow1
        · rw [if_neg hm, if_neg (fun x => hm (hvis.1 x))]

/-- on the safe fragment the three join executors return the same multiset, and it is the join of the
    operands' own solutions -/
theorem joins_agree_safe (db : DB) (l r : Plan) (hl : Safe db l) (hr : Safe db r) (ctx : Ctx) (hc : ctx.WF) :
    exec db (.bindJoin l r) ctx [[]] ~ nlJoin (exec db l ctx [[]]) (exec db r ctx [[]]) ∧
    exec db (.hashJoin l r) ctx [[]] ~ nlJoin (exec db l ctx [[]]) (exec db r ctx [[]]) ∧
    exec db (.nlJoin l r) ctx [[]] ~ nlJoin (exec db l ctx [[]]) (exec db r ctx [[]]) := by
  refine ⟨?_, ?_, ?_⟩
  · rw [exec_bindJoin]
    exact exec_input_join db r hr ctx hc _ (exec_wf db l ctx _ allWF_unit)
  · rw [exec_hashJoin]; exact guarded_hash_perm _ _
  · rw [exec_nlJoin, hash_or_nl_empty]

end Kolibrie.Engine
