import Kolibrie.Lemmas.Repairs
import Kolibrie.Spec.Sld
/-! The executable least-model rounds of `Spec/Sld.lean` only produce facts of the stated derivation height (C18). -/
namespace Kolibrie.SldSpec
open Kolibrie.Terms Kolibrie.Repairs

theorem derivableD_mono {F P} : ∀ {n : Nat} {f : Fact}, DerivableD F P n f → DerivableD F P (n + 1) f := by
  intro n f h
  induction h with
  | fact hf => exact DerivableD.fact hf
  | rule θ hr hc _ ih => exact DerivableD.rule θ hr hc ih

theorem mem_addNew : ∀ {fs : List Fact} {S : List Fact} {f : Fact}, f ∈ addNew S fs → f ∈ S ∨ f ∈ fs := by
  intro fs
  induction fs with
  | nil => intro S f h; exact Or.inl (by simpa [addNew] using h)
  | cons a fs ih =>
    intro S f h
    simp only [addNew] at h
    split at h
    · rcases ih h with h | h
      · exact Or.inl h
      · exact Or.inr (by simp [h])
    · rcases ih h with h | h
      · rcases List.mem_append.1 h with h | h
        · exact Or.inl h
        · simp at h; exact Or.inr (by simp [h])
      · exact Or.inr (by simp [h])

theorem instB_eq (c : Pattern) (b : Binding) : instB c b = c.inst (valOf b) := by
  have : ∀ t, termId b t = t.eval (valOf b) := by intro t; cases t <;> rfl
  simp [instB, Pattern.inst, this]

theorem solveAll_sound (S : List Fact) : ∀ (ps : List Pattern) (b b' : Binding), b' ∈ solveAll S ps b →
    ∀ σ, Agrees σ b' → Agrees σ b ∧ ∀ p ∈ ps, p.inst σ ∈ S := by
  intro ps
  induction ps with
  | nil => intro b b' h σ ha; simp [solveAll] at h; subst h; exact ⟨ha, by simp⟩
  | cons p ps ih =>
    intro b b' h σ ha
    simp only [solveAll, List.mem_flatMap] at h
    obtain ⟨f, hf, h⟩ := h
    split at h
    · rename_i b1 hm
      obtain ⟨ha1, hall⟩ := ih b1 b' h σ ha
      obtain ⟨ha0, hi⟩ := matchPat_sound hm ha1
      refine ⟨ha0, ?_⟩
      intro p' hp'
      rcases List.mem_cons.1 hp' with rfl | hp'
      · rw [hi]; exact hf
      · exact hall p' hp'
    · simp at h

/-- every fact of round `n` has a derivation of height ≤ `n` -/
theorem levels_sound (F : List Fact) (P : List Rule) : ∀ (n : Nat) (f : Fact), f ∈ levels F P n → DerivableD F P n f := by
  intro n
  induction n with
  | zero =>
    intro f h
    rcases mem_addNew (S := []) h with h | h
    · simp at h
    · exact DerivableD.fact h
  | succ n ih =>
    intro f h
    rcases mem_addNew h with h | h
    · exact derivableD_mono (ih f h)
    · simp only [consequences, List.mem_flatMap, List.mem_map] at h
      obtain ⟨r, hr, b, hb, c, hc, rfl⟩ := h
      rw [instB_eq]
      refine DerivableD.rule _ hr hc ?_
      intro p hp
      exact ih _ ((solveAll_sound _ r.premise [] b hb (valOf b) (agrees_valOf b)).2 p hp)

end Kolibrie.SldSpec
