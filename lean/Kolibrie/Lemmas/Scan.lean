import Kolibrie.Lemmas.Joins
/-! Scans are input-independent: scanning with incoming bindings = joining the incoming bindings with the
    scan's own solutions (core Lean only). -/
namespace Kolibrie.Engine
open List

theorem unionRows_single_some (seed : Row) (v : Var) (x y : Val) (h : Row.get seed v = some y) :
    unionRows seed [(v, x)] = seed := by
  simp [unionRows, h]

theorem unionRows_single_none (seed : Row) (v : Var) (x : Val) (h : Row.get seed v = none) :
    unionRows seed [(v, x)] = Row.insert seed v x := by
  simp [unionRows, h]

theorem matchTerm_var_none (v : Var) (x : Val) (b : Row) (h : Row.get b v = none) :
    matchTerm (.var v) x b = some (Row.insert b v x) := by
  simp [matchTerm, h]

theorem matchTerm_var_some (v : Var) (x y : Val) (b : Row) (h : Row.get b v = some y) :
    matchTerm (.var v) x b = if y == x then some b else none := by
  simp [matchTerm, h]

theorem wf_single (v : Var) (x : Val) : Row.WF [(v, x)] := by simp [Row.WF]

theorem matchTerm_nil (t : Term) (x : Val) :
    matchTerm t x [] = match t with
      | .const c => if c == x then some [] else none
      | .var v => some [(v, x)] := by
  cases t <;> simp [matchTerm, Row.get, Row.insert]

/-- matching a term against a seed = matching it alone and merging the seed in front -/
theorem matchTerm_seed (t : Term) (x : Val) (seed : Row) (hs : Row.WF seed) :
    matchTerm t x seed = (matchTerm t x []).bind (fun m => mergeRows seed m) := by
  cases t with
  | const c =>
    simp only [matchTerm]
    by_cases h : (c == x) = true
    · simp [h, mergeRows_nil_right]
    · simp [h]
  | var v =>
    rw [matchTerm_nil]
    simp only [Option.bind_some]
    cases hg : Row.get seed v with
    | none =>
      have hc : compat seed [(v, x)] := by
        intro w a b ha hb
        by_cases hw : v = w
        · subst hw; rw [hg] at ha; cases ha
        · simp [Row.get_cons, hw, Row.get_nil] at hb
      rw [mergeRows_some seed _ hs hc, unionRows_single_none seed v x hg, matchTerm_var_none v x seed hg]
    | some y =>
      rw [matchTerm_var_some v x y seed hg]
      by_cases hyx : y = x
      · subst hyx
        have hc : compat seed [(v, y)] := by
          intro w a b ha hb
          by_cases hw : v = w
          · subst hw; rw [hg] at ha; cases ha
            simp [Row.get_cons] at hb; exact hb
          · simp [Row.get_cons, hw, Row.get_nil] at hb
        rw [mergeRows_some seed _ hs hc, unionRows_single_some seed v y y hg]
        simp
      · have hc : ¬ compat seed [(v, x)] := by
          intro h
          exact hyx (h v y x hg (by simp [Row.get_cons]))
        rw [mergeRows_none seed _ hs hc]
        simp [hyx]

theorem matchTerm_wf (t : Term) (x : Val) (b b' : Row) (hb : Row.WF b) (h : matchTerm t x b = some b') :
    Row.WF b' := by
  cases t with
  | const c =>
    simp only [matchTerm] at h
    split at h
    · cases h; exact hb
    · cases h
  | var v =>
    cases hg : Row.get b v with
    | none =>
      rw [matchTerm_var_none v x b hg] at h; cases h; exact Row.wf_insert b v x hb
    | some y =>
      rw [matchTerm_var_some v x y b hg] at h
      by_cases hyx : (y == x) = true
      · rw [if_pos hyx] at h; cases h; exact hb
      · rw [if_neg hyx] at h; cases h

/-- matching commutes with merging a seed in front -/
theorem matchTerm_step (t : Term) (x : Val) (seed a : Row) (hs : Row.WF seed) (ha : Row.WF a) :
    (mergeRows seed a).bind (matchTerm t x) = (matchTerm t x a).bind (mergeRows seed) := by
  rw [matchTerm_seed t x a ha]
  cases hm : matchTerm t x [] with
  | none =>
    simp only [Option.bind_none]
    cases hsa : mergeRows seed a with
    | none => rfl
    | some sa =>
      simp only [Option.bind_some]
      rw [matchTerm_seed t x sa (mergeRows_wf seed a sa hs hsa), hm]; rfl
  | some m =>
    simp only [Option.bind_some]
    have := mergeRows_assoc seed a m hs ha
    rw [← this]
    cases hsa : mergeRows seed a with
    | none => rfl
    | some sa =>
      simp only [Option.bind_some]
      rw [matchTerm_seed t x sa (mergeRows_wf seed a sa hs hsa), hm]; rfl

/-- a chain of term matches commutes with merging a seed in front -/
theorem matchChain_step (ts : List (Term × Val)) (seed a : Row) (hs : Row.WF seed) (ha : Row.WF a) :
    (mergeRows seed a).bind (fun b => ts.foldlM (fun acc tx => matchTerm tx.1 tx.2 acc) b) =
    (ts.foldlM (fun acc tx => matchTerm tx.1 tx.2 acc) a).bind (mergeRows seed) := by
  induction ts generalizing a with
  | nil =>
    simp only [foldlM_nil, Option.pure_def, Option.bind_some]
    cases mergeRows seed a <;> rfl
  | cons tx rest ih =>
    simp only [foldlM_cons, Option.bind_eq_bind]
    rw [← Option.bind_assoc, matchTerm_step tx.1 tx.2 seed a hs ha, Option.bind_assoc]
    cases hm : matchTerm tx.1 tx.2 a with
    | none => rfl
    | some a' =>
      simp only [Option.bind_some]
      rw [ih a' (matchTerm_wf _ _ a a' ha hm)]

theorem matchTriple_eq_chain (pat : QPat) (s p o : Val) (seed : Row) :
    matchTriple pat s p o seed =
      [(pat.s, s), (pat.p, p), (pat.o, o)].foldlM (fun acc tx => matchTerm tx.1 tx.2 acc) seed := by
  simp only [matchTriple, foldlM_cons, foldlM_nil, Option.bind_eq_bind, Option.pure_def]
  cases matchTerm pat.s s seed with
  | none => rfl
  | some b1 =>
    simp only [Option.bind_some]
    cases matchTerm pat.p p b1 with
    | none => rfl
    | some b2 =>
      simp only [Option.bind_some]
      cases matchTerm pat.o o b2 <;> rfl

/-- the scan seed (`scan_one_graph`'s handling of the graph variable) is itself a term match -/
def seedOf (gbind : Option (Var × Val)) (row : Row) : Option Row :=
  match gbind with
  | none => some row
  | some (v, gv) => matchTerm (.var v) gv row

/-- the per-quad work of a scan as one match chain -/
def quadChain (pat : QPat) (gbind : Option (Var × Val)) (q : Quad) : List (Term × Val) :=
  (match gbind with | none => [] | some (v, gv) => [(Term.var v, gv)]) ++ [(pat.s, q.s), (pat.p, q.p), (pat.o, q.o)]

def runChain (ts : List (Term × Val)) (row : Row) : Option Row :=
  ts.foldlM (fun acc tx => matchTerm tx.1 tx.2 acc) row

theorem runChain_seed (ts : List (Term × Val)) (row : Row) (hr : Row.WF row) :
    runChain ts row = (runChain ts []).bind (mergeRows row) := by
  have := matchChain_step ts row [] hr Row.wf_nil
  rw [mergeRows_nil_right] at this
  simpa [runChain] using this

theorem runChain_wf (ts : List (Term × Val)) (row b : Row) (hr : Row.WF row) (h : runChain ts row = some b) :
    Row.WF b := by
  induction ts generalizing row with
  | nil => simp [runChain] at h; subst h; exact hr
  | cons tx rest ih =>
    simp only [runChain, foldlM_cons, Option.bind_eq_bind] at h
    cases hm : matchTerm tx.1 tx.2 row with
    | none => rw [hm] at h; cases h
    | some r' =>
      rw [hm] at h
      exact ih r' (matchTerm_wf _ _ row r' hr hm) h


/-! ### the index lookup of a scan is only an optimisation -/

theorem matchTerm_preserves (t : Term) (x : Val) (b b' : Row) (v : Var) (y : Val)
    (h : matchTerm t x b = some b') (hv : Row.get b v = some y) : Row.get b' v = some y := by
  cases t with
  | const c =>
    simp only [matchTerm] at h
    by_cases hc : (c == x) = true
    · rw [if_pos hc] at h; cases h; exact hv
    · rw [if_neg hc] at h; cases h
  | var w =>
    cases hg : Row.get b w with
    | none =>
      rw [matchTerm_var_none w x b hg] at h; cases h
      have : v ≠ w := fun e => by subst e; rw [hg] at hv; cases hv
      rw [Row.get_insert_ne _ _ _ _ this]; exact hv
    | some z =>
      rw [matchTerm_var_some w x z b hg] at h
      by_cases hzx : (z == x) = true
      · rw [if_pos hzx] at h; cases h; exact hv
      · rw [if_neg hzx] at h; cases h

theorem boundOf_preserved (t' : Term) (x' : Val) (b b' : Row) (t : Term) (y : Val)
    (h : matchTerm t' x' b = some b') (hb : boundOf t b = some y) : boundOf t b' = some y := by
  cases t with
  | const c => exact hb
  | var v => exact matchTerm_preserves t' x' b b' v y h hb

theorem matchTerm_none_of_bound (t : Term) (x y : Val) (b : Row) (hb : boundOf t b = some y) (hne : y ≠ x) :
    matchTerm t x b = none := by
  cases t with
  | const c =>
    simp only [boundOf] at hb; cases hb
    simp [matchTerm, hne]
  | var v =>
    simp only [boundOf] at hb
    rw [matchTerm_var_some v x y b hb]
    simp [hne]

/-- a chain fails as soon as one of its terms is already bound (or constant) to a different value -/
theorem runChain_none_of_bound (ts : List (Term × Val)) (row : Row) (t : Term) (x y : Val)
    (hm : (t, x) ∈ ts) (hb : boundOf t row = some y) (hne : y ≠ x) : runChain ts row = none := by
  induction ts generalizing row with
  | nil => simp at hm
  | cons tx rest ih =>
    simp only [runChain, foldlM_cons, Option.bind_eq_bind]
    rcases mem_cons.1 hm with heq | hm'
    · subst heq
      rw [matchTerm_none_of_bound t x y row hb hne]; rfl
    · cases hmt : matchTerm tx.1 tx.2 row with
      | none => rfl
      | some row' =>
        simp only [Option.bind_some]
        exact ih row' hm' (boundOf_preserved tx.1 tx.2 row row' t y hmt hb)

theorem keyOk_false (k : Option Val) (x : Val) (h : keyOk k x = false) : ∃ y, k = some y ∧ y ≠ x := by
  cases k with
  | none => simp [keyOk] at h
  | some y => exact ⟨y, rfl, by simpa [keyOk] using h⟩

theorem filterMap_filter_and {α β} (l : List α) (p k : α → Bool) (f : α → Option β)
    (h : ∀ a, p a = true → k a = false → f a = none) :
    (l.filter (fun a => p a && k a)).filterMap f = (l.filter p).filterMap f := by
  induction l with
  | nil => rfl
  | cons a l ih =>
    by_cases hp : p a = true
    · by_cases hk : k a = true
      · simp only [filter_cons, hp, hk, Bool.and_self, if_true, filterMap_cons, ih]
      · have hk' : k a = false := by simpa using hk
        simp only [filter_cons, hp, hk', Bool.and_false, Bool.false_eq_true, if_false, if_true,
          filterMap_cons, h a hp hk', ih]
    · have hp' : p a = false := by simpa using hp
      simp only [filter_cons, hp', Bool.false_and, Bool.false_eq_true, if_false, ih]

/-- the quads a scan really has to look at: those of the graph (the key constraints only prune) -/
theorem scanOneGraph_eq (db : DB) (pat : QPat) (g : Option Val) (gb : Option (Var × Val)) (row : Row) :
    scanOneGraph db pat g gb row =
      (db.quads.filter (fun q => q.g == g)).filterMap (fun q => runChain (quadChain pat gb q) row) := by
  have hA : scanOneGraph db pat g gb row =
      (queryGraph db g pat row).filterMap (fun q => runChain (quadChain pat gb q) row) := by
    unfold scanOneGraph
    apply filterMap_congr'
    intro q _
    cases gb with
    | none =>
      simp only [graphSeed, quadChain, nil_append, runChain, Option.bind_some]
      exact matchTriple_eq_chain pat q.s q.p q.o row
    | some vg =>
      obtain ⟨v, gv⟩ := vg
      simp only [quadChain, runChain, singleton_append, foldlM_cons, Option.bind_eq_bind]
      have hseed : graphSeed (some (v, gv)) row = matchTerm (.var v) gv row := by
        cases hg : Row.get row v <;> simp [graphSeed, matchTerm, hg]
      rw [hseed]
      cases matchTerm (.var v) gv row with
      | none => rfl
      | some sd => simp only [Option.bind_some]; exact matchTriple_eq_chain pat q.s q.p q.o sd
  rw [hA]
  unfold queryGraph
  have e : (fun q : Quad => q.g == g && keyOk (boundOf pat.s row) q.s && keyOk (boundOf pat.p row) q.p &&
        keyOk (boundOf pat.o row) q.o) =
      (fun q : Quad => q.g == g && (keyOk (boundOf pat.s row) q.s && keyOk (boundOf pat.p row) q.p &&
        keyOk (boundOf pat.o row) q.o)) := by
    funext q; simp [Bool.and_assoc]
  rw [e]
  apply filterMap_filter_and
  intro q _ hk
  have hmem : ∀ tx, tx ∈ [(pat.s, q.s), (pat.p, q.p), (pat.o, q.o)] → tx ∈ quadChain pat gb q := by
    intro tx h; unfold quadChain; exact mem_append_right _ h
  simp only [Bool.and_eq_false_iff] at hk
  rcases hk with (hk | hk) | hk
  · obtain ⟨y, hy, hne⟩ := keyOk_false _ _ hk
    exact runChain_none_of_bound _ row pat.s q.s y (hmem _ (by simp)) hy hne
  · obtain ⟨y, hy, hne⟩ := keyOk_false _ _ hk
    exact runChain_none_of_bound _ row pat.p q.p y (hmem _ (by simp)) hy hne
  · obtain ⟨y, hy, hne⟩ := keyOk_false _ _ hk
    exact runChain_none_of_bound _ row pat.o q.o y (hmem _ (by simp)) hy hne

/-- **one-graph scans are input-independent** -/
theorem scanOneGraph_seed (db : DB) (pat : QPat) (g : Option Val) (gb : Option (Var × Val)) (row : Row)
    (hr : Row.WF row) :
    scanOneGraph db pat g gb row = (scanOneGraph db pat g gb []).filterMap (mergeRows row) := by
  rw [scanOneGraph_eq db pat g gb row, scanOneGraph_eq db pat g gb [], filterMap_filterMap]
  apply filterMap_congr'
  intro q _
  exact runChain_seed _ row hr

theorem scanOneGraph_wf (db : DB) (pat : QPat) (g : Option Val) (gb : Option (Var × Val)) (row : Row)
    (hr : Row.WF row) : AllWF (scanOneGraph db pat g gb row) := by
  rw [scanOneGraph_eq]
  intro r hr'
  obtain ⟨q, _, hq⟩ := mem_filterMap.1 hr'
  exact runChain_wf _ row r hr hq


/-! ### the merged default graph -/

theorem nodup_filter' {α} (p : α → Bool) {l : List α} (h : l.Nodup) : (l.filter p).Nodup :=
  List.Pairwise.filter _ h

theorem eraseDups_filter {α} [BEq α] [LawfulBEq α] (l : List α) (p : α → Bool) :
    (l.filter p).eraseDups = l.eraseDups.filter p := by
  generalize hn : l.length = n
  induction n using Nat.strongRecOn generalizing l with
  | _ n ih =>
    cases l with
    | nil => simp
    | cons a as =>
      have hlen : (as.filter fun b => !b == a).length < n := by
        subst hn; simp only [length_cons]; exact Nat.lt_succ_of_le (length_filter_le _ _)
      rw [eraseDups_cons]
      by_cases hp : p a = true
      · rw [filter_cons, if_pos hp, eraseDups_cons, filter_cons, if_pos hp]
        congr 1
        rw [← ih _ hlen _ rfl, filter_filter, filter_filter]
        congr 1
        apply filter_congr
        intro x _
        exact Bool.and_comm _ _
      · rw [filter_cons, if_neg hp, filter_cons, if_neg hp, ← ih _ hlen _ rfl, filter_filter]
        congr 1
        apply filter_congr
        intro x _
        by_cases hx : p x = true
        · have : (x == a) = false := by
            apply beq_false_of_ne; intro e; subst e; exact hp hx
          simp [hx, this]
        · have hx' : p x = false := by simpa using hx
          simp [hx']

theorem filter_flatMap' {α β} (l : List α) (f : α → List β) (p : β → Bool) :
    (l.flatMap f).filter p = l.flatMap (fun a => (f a).filter p) := by
  induction l with
  | nil => rfl
  | cons a l ih => simp [filter_append, ih]

abbrev Triple := Val × Val × Val
def tr (q : Quad) : Triple := (q.s, q.p, q.o)

/-- key constraints of a scan, on triples -/
def keysOk (pat : QPat) (row : Row) (t : Triple) : Bool :=
  keyOk (boundOf pat.s row) t.1 && keyOk (boundOf pat.p row) t.2.1 && keyOk (boundOf pat.o row) t.2.2

/-- the distinct triples of the merged default graph -/
def defaultTriples (db : DB) (view : View) : List Triple :=
  (view.dflt.flatMap (fun g => (db.quads.filter (fun q => q.g == g)).map tr)).eraseDups

theorem matchTriple_none_of_keys (pat : QPat) (row : Row) (t : Triple) (h : keysOk pat row t = false) :
    matchTriple pat t.1 t.2.1 t.2.2 row = none := by
  rw [matchTriple_eq_chain]
  simp only [keysOk, Bool.and_eq_false_iff] at h
  rcases h with (h | h) | h
  · obtain ⟨y, hy, hne⟩ := keyOk_false _ _ h
    exact runChain_none_of_bound _ row pat.s t.1 y (by simp) hy hne
  · obtain ⟨y, hy, hne⟩ := keyOk_false _ _ h
    exact runChain_none_of_bound _ row pat.p t.2.1 y (by simp) hy hne
  · obtain ⟨y, hy, hne⟩ := keyOk_false _ _ h
    exact runChain_none_of_bound _ row pat.o t.2.2 y (by simp) hy hne

theorem filterMap_filter_drop {α β} (l : List α) (k : α → Bool) (f : α → Option β)
    (h : ∀ a, k a = false → f a = none) : (l.filter k).filterMap f = l.filterMap f := by
  induction l with
  | nil => rfl
  | cons a l ih =>
    by_cases hk : k a = true
    · simp only [filter_cons, hk, if_true, filterMap_cons, ih]
    · have hk' : k a = false := by simpa using hk
      simp only [filter_cons, hk', Bool.false_eq_true, if_false, filterMap_cons, h a hk', ih]

theorem scanDefault_eq (db : DB) (pat : QPat) (view : View) (row : Row) :
    scanDefault db pat view row =
      (defaultTriples db view).filterMap (fun t => matchTriple pat t.1 t.2.1 t.2.2 row) := by
  unfold scanDefault defaultTriples
  have h1 : ∀ g, (queryGraph db g pat row).map (fun q => (q.s, q.p, q.o)) =
      ((db.quads.filter (fun q => q.g == g)).map tr).filter (keysOk pat row) := by
    intro g
    unfold queryGraph
    rw [filter_map, filter_filter]
    congr 1
    apply filter_congr
    intro q _
    simp [keysOk, tr, Function.comp, Bool.and_assoc, Bool.and_comm]
  have h2 : (view.dflt.flatMap (fun g => (queryGraph db g pat row).map (fun q => (q.s, q.p, q.o)))) =
      (view.dflt.flatMap (fun g => (db.quads.filter (fun q => q.g == g)).map tr)).filter (keysOk pat row) := by
    rw [filter_flatMap']
    apply flatMap_congr'
    intro g _
    exact h1 g
  simp only
  rw [h2, eraseDups_filter]
  have h3 := filterMap_filter_drop
    ((view.dflt.flatMap (fun g => (db.quads.filter (fun q => q.g == g)).map tr)).eraseDups)
    (keysOk pat row) (fun t => matchTriple pat t.1 t.2.1 t.2.2 row) (matchTriple_none_of_keys pat row)
  rw [← h3]

theorem matchTriple_seed (pat : QPat) (s p o : Val) (row : Row) (hr : Row.WF row) :
    matchTriple pat s p o row = (matchTriple pat s p o []).bind (mergeRows row) := by
  rw [matchTriple_eq_chain, matchTriple_eq_chain]
  exact runChain_seed _ row hr

/-- **default-graph scans are input-independent** -/
theorem scanDefault_seed (db : DB) (pat : QPat) (view : View) (row : Row) (hr : Row.WF row) :
    scanDefault db pat view row = (scanDefault db pat view []).filterMap (mergeRows row) := by
  rw [scanDefault_eq db pat view row, scanDefault_eq db pat view [], filterMap_filterMap]
  apply filterMap_congr'
  intro t _
  exact matchTriple_seed pat t.1 t.2.1 t.2.2 row hr

theorem scanDefault_wf (db : DB) (pat : QPat) (view : View) (row : Row) (hr : Row.WF row) :
    AllWF (scanDefault db pat view row) := by
  rw [scanDefault_eq]
  intro r hr'
  obtain ⟨t, _, ht⟩ := mem_filterMap.1 hr'
  rw [matchTriple_eq_chain] at ht
  exact runChain_wf _ row r hr ht


/-! ### scans over a graph variable, and the scan operator -/

theorem flatMap_single_of_nodup {α β} [DecidableEq α] (L : List α) (hnd : L.Nodup) (g : α) (f : α → List β)
    (h : ∀ g' ∈ L, g' ≠ g → f g' = []) : L.flatMap f = if g ∈ L then f g else [] := by
  induction L with
  | nil => simp
  | cons a L ih =>
    have hnd' := (nodup_cons.1 hnd)
    simp only [flatMap_cons]
    by_cases hag : a = g
    · subst hag
      have : L.flatMap f = [] := by
        rw [ih hnd'.2 (fun g' hg' hne => h g' (by simp [hg']) hne), if_neg hnd'.1]
      simp [this]
    · rw [h a (by simp) hag, ih hnd'.2 (fun g' hg' hne => h g' (by simp [hg']) hne)]
      have : (g ∈ a :: L) ↔ g ∈ L := by
        simp only [mem_cons]
        constructor
        · rintro (e | e)
          · exact absurd e.symm hag
          · exact e
        · exact Or.inr
      simp only [nil_append]
      by_cases hm : g ∈ L
      · rw [if_pos hm, if_pos (this.2 hm)]
      · rw [if_neg hm, if_neg (fun x => hm (this.1 x))]

theorem scanOneGraph_other_graph (db : DB) (pat : QPat) (g' g : Val) (v : Var) (row : Row)
    (hv : Row.get row v = some g) (hne : g' ≠ g) : scanOneGraph db pat (some g') (some (v, g')) row = [] := by
  rw [scanOneGraph_eq]
  apply filterMap_eq_nil_of_forall
  intro q _
  apply runChain_none_of_bound _ row (.var v) g' g
  · simp [quadChain]
  · exact hv
  · exact fun e => hne e.symm

/-- **scanning with an incoming row = merging the row into the scan's own solutions** -/
theorem scanRow_seed (db : DB) (ctx : Ctx) (pat : QPat) (row : Row) (hr : Row.WF row)
    (hn : ctx.view.named.Nodup) :
    scanRow db ctx pat row = (scanRow db ctx pat []).filterMap (mergeRows row) := by
  unfold scanRow
  cases hg : pat.g with
  | dflt =>
    simp only
    cases ctx.active with
    | none => exact scanDefault_seed db pat ctx.view row hr
    | some g => exact scanOneGraph_seed db pat (some g) none row hr
  | named g =>
    simp only
    by_cases hvis : visibleNamed db ctx g = true
    · rw [if_pos hvis, if_pos hvis]; exact scanOneGraph_seed db pat (some g) none row hr
    · rw [if_neg hvis, if_neg hvis]; rfl
  | var v =>
    simp only [Row.get_nil]
    rw [flatMap_filterMap_eq]
    cases hv : Row.get row v with
    | none =>
      simp only
      apply flatMap_congr'
      intro g _
      exact scanOneGraph_seed db pat (some g) (some (v, g)) row hr
    | some g =>
      simp only
      have hL : (ctx.view.named.filter (fun g => db.graphExists g)).Nodup := nodup_filter' _ hn
      have hflat : (ctx.view.named.filter (fun g => db.graphExists g)).flatMap
            (fun g' => (scanOneGraph db pat (some g') (some (v, g')) []).filterMap (mergeRows row)) =
          (ctx.view.named.filter (fun g => db.graphExists g)).flatMap
            (fun g' => scanOneGraph db pat (some g') (some (v, g')) row) := by
        apply flatMap_congr'
        intro g' _
        exact (scanOneGraph_seed db pat (some g') (some (v, g')) row hr).symm
      rw [hflat, flatMap_single_of_nodup _ hL g _
        (fun g' _ hne => scanOneGraph_other_graph db pat g' g v row hv hne)]
      have hvis : visibleNamed db ctx g = true ↔ g ∈ ctx.view.named.filter (fun g => db.graphExists g) := by
        simp [visibleNamed, mem_filter]
      by_cases hm : g ∈ ctx.view.named.filter (fun g => db.graphExists g)
      · rw [if_pos hm, if_pos (hvis.2 hm)]
      · rw [if_neg hm, if_neg (fun x => hm (hvis.1 x))]

theorem scanRow_wf (db : DB) (ctx : Ctx) (pat : QPat) (row : Row) (hr : Row.WF row) :
    AllWF (scanRow db ctx pat row) := by
  unfold scanRow
  cases pat.g with
  | dflt =>
    simp only
    cases ctx.active with
    | none => exact scanDefault_wf db pat ctx.view row hr
    | some g => exact scanOneGraph_wf db pat (some g) none row hr
  | named g =>
    simp only
    split
    · exact scanOneGraph_wf db pat (some g) none row hr
    · exact allWF_nil
  | var v =>
    simp only
    cases Row.get row v with
    | none =>
      simp only
      exact allWF_flatMap _ _ (fun g _ => scanOneGraph_wf db pat (some g) (some (v, g)) row hr)
    | some g =>
      simp only
      split
      · exact scanOneGraph_wf db pat (some g) (some (v, g)) row hr
      · exact allWF_nil

/-- **the scan operator is input-independent** (as lists, not only as multisets) -/
theorem scan_seed (db : DB) (ctx : Ctx) (pat : QPat) (inc : List Row) (hi : AllWF inc)
    (hn : ctx.view.named.Nodup) :
    scan db ctx pat inc = nlJoin inc (scan db ctx pat [[]]) := by
  unfold scan nlJoin
  simp only [flatMap_cons, flatMap_nil, append_nil]
  apply flatMap_congr'
  intro row hrow
  exact scanRow_seed db ctx pat row (hi row hrow) hn

theorem scan_wf (db : DB) (ctx : Ctx) (pat : QPat) (inc : List Row) (hi : AllWF inc) :
    AllWF (scan db ctx pat inc) := by
  unfold scan
  exact allWF_flatMap _ _ (fun row hrow => scanRow_wf db ctx pat row (hi row hrow))

end Kolibrie.Engine
