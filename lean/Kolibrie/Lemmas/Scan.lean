import Kolibrie.Lemmas.Joins
/-! Scans are input-independent: scanning with incoming bindings = joining the incoming bindings with the
    scan's own solutions (core Lean only). -/
namespace Kolibrie.Engine
open List

theorem unionRows_single (seed : Row) (v : Var) (x : Val) :
    unionRows seed [(v, x)] = match Row.get seed v with | some _ => seed | none => Row.insert seed v x := by
  simp [unionRows]

theorem wf_single (v : Var) (x : Val) : Row.WF [(v, x)] := by simp [Row.WF]

theorem matchTerm_nil (t : Term) (x : Val) :
    matchTerm t x [] = match t with
      | .const c => if c == x then some [] else none
      | .var v => some [(v, x)] := by
  cases t <;> simp [matchTerm, Row.get, Row.insert]

/-- matching a term against a seed = matching it alone and merging the seed in front -/
theorem matchTerm_seed (t : Term) (x : Val) (seed : Row) (hs : Row.WF seed) :
    matchTerm t x seed = (matchTerm t x []).bind (fun m => mergeRows seed m) := by
  cases t with
  | const c =>
    simp only [matchTerm]
    by_cases h : (c == x) = true
    · simp [h, mergeRows_nil_right]
    · simp [h]
  | var v =>
    rw [matchTerm_nil]
    simp only [Option.bind_some]
    unfold matchTerm
    cases hg : Row.get seed v with
    | none =>
      have hc : compat seed [(v, x)] := by
        intro w a b ha hb
        by_cases hw : v = w
        · subst hw; rw [hg] at ha; cases ha
        · simp [Row.get_cons, hw, Row.get_nil] at hb
      rw [mergeRows_some seed _ hs hc, unionRows_single, hg]
    | some y =>
      by_cases hyx : y = x
      · subst hyx
        have hc : compat seed [(v, y)] := by
          intro w a b ha hb
          by_cases hw : v = w
          · subst hw; rw [hg] at ha; cases ha
            simp [Row.get_cons] at hb; exact hb
          · simp [Row.get_cons, hw, Row.get_nil] at hb
        rw [mergeRows_some seed _ hs hc, unionRows_single, hg]
        simp
      · have hc : ¬ compat seed [(v, x)] := by
          intro h
          exact hyx (h v y x hg (by simp [Row.get_cons]))
        rw [mergeRows_none seed _ hs hc]
        simp [hyx]

theorem matchTerm_wf (t : Term) (x : Val) (b b' : Row) (hb : Row.WF b) (h : matchTerm t x b = some b') :
    Row.WF b' := by
  cases t with
  | const c =>
    simp only [matchTerm] at h
    split at h
    · cases h; exact hb
    · cases h
  | var v =>
    simp only [matchTerm] at h
    cases hg : Row.get b v with
    | none => rw [hg] at h; cases h; exact Row.wf_insert b v x hb
    | some y =>
      rw [hg] at h
      split at h
      · cases h; exact hb
      · cases h

/-- matching commutes with merging a seed in front -/
theorem matchTerm_step (t : Term) (x : Val) (seed a : Row) (hs : Row.WF seed) (ha : Row.WF a) :
    (mergeRows seed a).bind (matchTerm t x) = (matchTerm t x a).bind (mergeRows seed) := by
  rw [matchTerm_seed t x a ha]
  cases hm : matchTerm t x [] with
  | none =>
    simp only [Option.bind_none]
    cases hsa : mergeRows seed a with
    | none => rfl
    | some sa =>
      simp only [Option.bind_some]
      rw [matchTerm_seed t x sa (mergeRows_wf seed a sa hs hsa), hm]; rfl
  | some m =>
    simp only [Option.bind_some]
    have := mergeRows_assoc seed a m hs ha
    rw [← this]
    cases hsa : mergeRows seed a with
    | none => rfl
    | some sa =>
      simp only [Option.bind_some]
      rw [matchTerm_seed t x sa (mergeRows_wf seed a sa hs hsa), hm]; rfl

/-- a chain of term matches commutes with merging a seed in front -/
theorem matchChain_step (ts : List (Term × Val)) (seed a : Row) (hs : Row.WF seed) (ha : Row.WF a) :
    (mergeRows seed a).bind (fun b => ts.foldlM (fun acc tx => matchTerm tx.1 tx.2 acc) b) =
    (ts.foldlM (fun acc tx => matchTerm tx.1 tx.2 acc) a).bind (mergeRows seed) := by
  induction ts generalizing a with
  | nil =>
    simp only [foldlM_nil, Option.pure_def, Option.bind_some]
    cases mergeRows seed a <;> rfl
  | cons tx rest ih =>
    simp only [foldlM_cons, Option.bind_eq_bind]
    rw [← Option.bind_assoc, matchTerm_step tx.1 tx.2 seed a hs ha, Option.bind_assoc]
    cases hm : matchTerm tx.1 tx.2 a with
    | none => rfl
    | some a' =>
      simp only [Option.bind_some]
      rw [ih a' (matchTerm_wf _ _ a a' ha hm)]

theorem matchTriple_eq_chain (pat : QPat) (s p o : Val) (seed : Row) :
    matchTriple pat s p o seed =
      [(pat.s, s), (pat.p, p), (pat.o, o)].foldlM (fun acc tx => matchTerm tx.1 tx.2 acc) seed := by
  simp only [matchTriple, foldlM_cons, foldlM_nil, Option.bind_eq_bind, Option.pure_def]
  cases matchTerm pat.s s seed with
  | none => rfl
  | some b1 =>
    simp only [Option.bind_some]
    cases matchTerm pat.p p b1 with
    | none => rfl
    | some b2 =>
      simp only [Option.bind_some]
      cases matchTerm pat.o o b2 <;> rfl

/-- the scan seed (`scan_one_graph`'s handling of the graph variable) is itself a term match -/
def seedOf (gbind : Option (Var × Val)) (row : Row) : Option Row :=
  match gbind with
  | none => some row
  | some (v, gv) => matchTerm (.var v) gv row

/-- the per-quad work of a scan as one match chain -/
def quadChain (pat : QPat) (gbind : Option (Var × Val)) (q : Quad) : List (Term × Val) :=
  (match gbind with | none => [] | some (v, gv) => [(Term.var v, gv)]) ++ [(pat.s, q.s), (pat.p, q.p), (pat.o, q.o)]

def runChain (ts : List (Term × Val)) (row : Row) : Option Row :=
  ts.foldlM (fun acc tx => matchTerm tx.1 tx.2 acc) row

theorem runChain_seed (ts : List (Term × Val)) (row : Row) (hr : Row.WF row) :
    runChain ts row = (runChain ts []).bind (mergeRows row) := by
  have := matchChain_step ts row [] hr Row.wf_nil
  rw [mergeRows_nil_right] at this
  simpa [runChain] using this

theorem runChain_wf (ts : List (Term × Val)) (row b : Row) (hr : Row.WF row) (h : runChain ts row = some b) :
    Row.WF b := by
  induction ts generalizing row with
  | nil => simp [runChain] at h; subst h; exact hr
  | cons tx rest ih =>
    simp only [runChain, foldlM_cons, Option.bind_eq_bind] at h
    cases hm : matchTerm tx.1 tx.2 row with
    | none => rw [hm] at h; cases h
    | some r' =>
      rw [hm] at h
      exact ih r' (matchTerm_wf _ _ row r' hr hm) h

end Kolibrie.Engine
