import Kolibrie.Lemmas.Implement
/-! Filter / BIND agreement lemmas between the implementation's two-valued evaluation and the algebra's
    three-valued evaluation (used by Props/C01 and by the lowering-soundness proof). -/
namespace Kolibrie.Engine
open List

def boundIn (row : Row) (vs : List Var) : Prop := ∀ v ∈ vs, (Row.get row v).isSome = true

/-- on rows that bind every variable of the expression, `evaluate_filter_with_ids` is SPARQL evaluation -/
theorem filter_agrees' (c : Cond) (row : Row) (h : boundIn row c.vars) :
    c.eval3 row = some (c.eval row) := by
  induction c with
  | cmp v op rhs =>
    cases rhs with
    | var w =>
      have hv := h v (by simp [Cond.vars])
      have hw := h w (by simp [Cond.vars])
      cases hx : Row.get row v with
      | none => simp [hx] at hv
      | some x =>
        cases hy : Row.get row w with
        | none => simp [hy] at hw
        | some y => simp [Cond.eval3, Cond.eval, hx, hy]
    | const r =>
      have hv := h v (by simp [Cond.vars])
      cases hx : Row.get row v with
      | none => simp [hx] at hv
      | some x => simp [Cond.eval3, Cond.eval, hx]
  | and a b iha ihb =>
    have ha := iha (fun v hv => h v (by simp [Cond.vars, hv]))
    have hb := ihb (fun v hv => h v (by simp [Cond.vars, hv]))
    simp only [Cond.eval3, Cond.eval, ha, hb]
    cases a.eval row <;> cases b.eval row <;> rfl
  | or a b iha ihb =>
    have ha := iha (fun v hv => h v (by simp [Cond.vars, hv]))
    have hb := ihb (fun v hv => h v (by simp [Cond.vars, hv]))
    simp only [Cond.eval3, Cond.eval, ha, hb]
    cases a.eval row <;> cases b.eval row <;> rfl
  | not a ih =>
    have ha := ih (fun v hv => h v (by simpa [Cond.vars] using hv))
    simp [Cond.eval3, Cond.eval, ha]

theorem keeps_eq_eval' (c : Cond) (row : Row) (h : boundIn row c.vars) : keeps c row = c.eval row := by
  unfold keeps; rw [filter_agrees' c row h]; cases c.eval row <;> rfl

/-- the hypothesis of `filter_agrees` is forced: negation over an unbound variable -/
theorem filter_clash' : ∃ (c : Cond) (row : Row), keeps c row = false ∧ c.eval row = true :=
  ⟨.not (.cmp 0 "=" (.const "7")), [], by decide, by decide⟩

/-- BIND = `Extend` when the arguments are bound and the target is unbound -/
theorem bind_agrees' (args : List Operand) (out : Var) (row : Row)
    (hargs : boundIn row (args.flatMap Operand.vars)) (hout : Row.get row out = none) :
    extendRow args out row = Row.insert row out (concatArgs args row) := by
  unfold extendRow
  simp only
  split
  · rfl
  · rename_i hc
    exfalso; apply hc
    simp only [Bool.and_eq_true, hout, Option.isNone_none, and_true]
    rw [List.all_eq_true]
    intro a ha
    cases a with
    | var v => exact hargs v (by simp only [mem_flatMap]; exact ⟨_, ha, by simp [Operand.vars]⟩)
    | const c => rfl

/-- … and deviates on an unbound argument (the implementation concatenates the empty string) -/
theorem bind_clash' : ∃ (args : List Operand) (out : Var) (row : Row),
    extendRow args out row ≠ Row.insert row out (concatArgs args row) :=
  ⟨[.var 0, .const "a"], 1, [], by decide⟩

/-- the executor's plan for the deferred filters of a group is a sequence of `Cond.eval` selections -/
def implFilters (rows : List Row) : List Pat → List Row
  | [] => rows
  | .filter c :: rest => implFilters (rows.filter c.eval) rest
  | _ :: rest => implFilters rows rest

theorem lowerFilters_exec' (db : DB) (ctx : Ctx) (inc : List Row) (algs : List JoinAlg) (plan : Logical)
    (elems : List Pat) :
    exec db (implement algs (lowerFilters plan elems)).1 ctx inc =
      implFilters (exec db (implement algs plan).1 ctx inc) elems := by
  induction elems generalizing plan with
  | nil => simp [lowerFilters, implFilters]
  | cons e rest ih =>
    cases e <;> simp only [lowerFilters, implFilters, ih, implement, exec_filter]

/-- **group-scoped FILTER**: on solutions that bind the filters' variables the deferred selections keep
    exactly what the algebra's filters keep -/
theorem group_filters_agree' (rows : List Row) (elems : List Pat)
    (h : ∀ c, Pat.filter c ∈ elems → ∀ r ∈ rows, boundIn r c.vars) :
    implFilters rows elems = semFilters rows elems := by
  induction elems generalizing rows with
  | nil => simp [implFilters, semFilters]
  | cons e rest ih =>
    cases e with
    | filter c =>
      simp only [implFilters, semFilters]
      have hc : rows.filter c.eval = rows.filter (keeps c) := by
        apply List.filter_congr
        intro r hr
        exact (keeps_eq_eval' c r (h c (by simp) r hr)).symm
      rw [hc]
      apply ih
      intro c' hc' r hr
      exact h c' (by simp [hc']) r (List.mem_filter.1 hr).1
    | _ =>
      simp only [implFilters, semFilters]
      apply ih
      intro c' hc' r hr
      exact h c' (by simp [hc']) r hr


end Kolibrie.Engine
