import Kolibrie.Lemmas.Update
import Kolibrie.Lemmas.LowerSound
/-! C03 with the WHERE clause evaluated by a real physical plan (any join-algorithm oracle) instead of the algebra. -/
namespace Kolibrie.Update
open Kolibrie.Engine List

def QT.free (t : QT) : Bool :=
  !t.hasBnode && (match t.g with | some gt => !gt.isBnode | none => true)

/-- templates without blank nodes (their instantiation does not depend on the solution index) -/
def bnodeFree (ts : List QT) : Bool := ts.all QT.free

/-- `execute_modify` with the WHERE clause run by the executor on the plan the optimizer chose (`algs`) -/
def modifyExec (db : DB) (del ins : Option (List QT)) (w : Pat) (base : Nat) (algs : List JoinAlg) : DB × Summary :=
  let rows := exec db (implement algs (lower .dflt w)).1 ⟨View.fromDb db, none⟩ [[]]
  let dels := match del with | some ts => instTemplates db ts rows base | none => []
  let inss := match ins with | some ts => instTemplates db ts rows base | none => []
  applyMutations db dels inss

theorem instTerm_k (t : TTerm) (row : Row) (k k' : Nat) (h : t.isBnode = false) : instTerm t row k = instTerm t row k' := by
  cases t <;> simp_all [instTerm, TTerm.isBnode]

theorem instQuad_k (db : DB) (t : QT) (row : Row) (k k' : Nat) (h : t.free = true) :
    instQuad db t row k = instQuad db t row k' := by
  simp only [QT.free, Bool.and_eq_true, Bool.not_eq_eq_eq_not, Bool.not_true, QT.hasBnode, Bool.or_eq_false_iff] at h
  obtain ⟨⟨⟨hs, hp⟩, ho⟩, hg⟩ := h
  unfold instQuad
  rw [instTerm_k t.s row k k' hs, instTerm_k t.p row k k' hp, instTerm_k t.o row k k' ho]
  cases hgt : t.g with
  | none => rfl
  | some gt =>
    rw [hgt] at hg
    have hgb : gt.isBnode = false := by simpa using hg
    simp only [instTerm_k gt row k k' hgb]

theorem mem_zipIdx_fst {α} (l : List α) (k : Nat) (x : α × Nat) (h : x ∈ l.zipIdx k) : x.1 ∈ l := by
  induction l generalizing k with
  | nil => simp at h
  | cons a l ih =>
    rw [zipIdx_cons] at h
    rcases mem_cons.1 h with rfl | h
    · simp
    · exact mem_cons_of_mem _ (ih (k + 1) h)

theorem exists_mem_zipIdx {α} (l : List α) (k : Nat) (a : α) (h : a ∈ l) : ∃ i, (a, i) ∈ l.zipIdx k := by
  induction l generalizing k with
  | nil => simp at h
  | cons b l ih =>
    rw [zipIdx_cons]
    rcases mem_cons.1 h with rfl | h
    · exact ⟨k, by simp⟩
    · obtain ⟨i, hi⟩ := ih (k + 1) h
      exact ⟨i, mem_cons_of_mem _ hi⟩

theorem mem_instTemplates (db : DB) (ts : List QT) (rows : List Row) (base : Nat) (hb : bnodeFree ts = true)
    (q : Quad) :
    q ∈ instTemplates db ts rows base ↔ ∃ row ∈ rows, ∃ t ∈ ts, instQuad db t row 0 = some q := by
  unfold instTemplates
  rw [mem_eraseDups]
  simp only [mem_flatMap, mem_filterMap]
  have hfree : ∀ t ∈ ts, t.free = true := by
    intro t ht
    exact (List.all_eq_true.1 hb) t ht
  constructor
  · rintro ⟨⟨row, i⟩, hri, t, ht, hq⟩
    refine ⟨row, mem_zipIdx_fst rows 0 (row, i) hri, t, ht, ?_⟩
    rw [instQuad_k db t row 0 (base + i) (hfree t ht)]; exact hq
  · rintro ⟨row, hrow, t, ht, hq⟩
    obtain ⟨i, hi⟩ := exists_mem_zipIdx rows 0 row hrow
    refine ⟨(row, i), hi, t, ht, ?_⟩
    rw [instQuad_k db t row (base + i) 0 (hfree t ht)]; exact hq

theorem instTemplates_perm (db : DB) (ts : List QT) (rows rows' : List Row) (base : Nat)
    (hb : bnodeFree ts = true) (h : rows ~ rows') (q : Quad) :
    q ∈ instTemplates db ts rows base ↔ q ∈ instTemplates db ts rows' base := by
  rw [mem_instTemplates db ts rows base hb, mem_instTemplates db ts rows' base hb]
  constructor
  · rintro ⟨row, hr, rest⟩; exact ⟨row, h.subset hr, rest⟩
  · rintro ⟨row, hr, rest⟩; exact ⟨row, h.symm.subset hr, rest⟩

theorem length_eq_of_nodup_ext {α} [DecidableEq α] {a b : List α} (ha : a.Nodup) (hb : b.Nodup)
    (h : ∀ x, x ∈ a ↔ x ∈ b) : a.length = b.length :=
  ((perm_ext_iff_of_nodup ha hb).2 h).length_eq

theorem mem_touchAll (gs : List Val) (inss : List Quad) (g : Val) :
    g ∈ touchAll gs inss ↔ g ∈ gs ∨ ∃ q ∈ inss, q.g = some g := by
  unfold touchAll
  induction inss generalizing gs with
  | nil => simp
  | cons i is ih =>
    simp only [foldl_cons, ih, mem_cons, exists_eq_or_imp]
    unfold touchOne
    cases hg : i.g with
    | none => simp
    | some n =>
      by_cases hc : gs.contains n = true
      · simp only [hc, if_true]
        constructor
        · rintro (h | h)
          · exact Or.inl h
          · exact Or.inr (Or.inr h)
        · rintro (h | h | h)
          · exact Or.inl h
          · cases h; exact Or.inl (by simpa using hc)
          · exact Or.inr h
      · simp only [hc, Bool.false_eq_true, if_false, mem_append, mem_singleton]
        constructor
        · rintro ((h | h) | h)
          · exact Or.inl h
          · subst h; exact Or.inr (Or.inl rfl)
          · exact Or.inr (Or.inr h)
        · rintro (h | h | h)
          · exact Or.inl (Or.inl h)
          · cases h; exact Or.inl (Or.inr rfl)
          · exact Or.inr h

/-- the standard effect only depends on the *sets* of deletions and insertions -/
theorem specApply_congr (db : DB) (dels dels' inss inss' : List Quad)
    (hd : ∀ q, q ∈ dels ↔ q ∈ dels') (hi : ∀ q, q ∈ inss ↔ q ∈ inss') :
    (∀ q, q ∈ (specApply db dels inss).1.quads ↔ q ∈ (specApply db dels' inss').1.quads) ∧
    (∀ g, g ∈ (specApply db dels inss).1.graphs ↔ g ∈ (specApply db dels' inss').1.graphs) ∧
    (specApply db dels inss).2 = (specApply db dels' inss').2 := by
  have hkept : db.quads.filter (fun q => !dels.contains q) = db.quads.filter (fun q => !dels'.contains q) := by
    apply filter_congr
    intro q _
    have := hd q
    by_cases h : q ∈ dels
    · simp [h, this.1 h]
    · have h' : q ∉ dels' := fun x => h (this.2 x)
      simp [h, h']
  refine ⟨?_, ?_, ?_⟩
  · intro q
    simp only [specApply, hkept, mem_append, mem_eraseDups, mem_filter, hi]
  · intro g
    have hg1 : (specApply db dels inss).1.graphs = touchAll db.graphs inss := rfl
    have hg2 : (specApply db dels' inss').1.graphs = touchAll db.graphs inss' := rfl
    rw [hg1, hg2, mem_touchAll, mem_touchAll]
    constructor
    · rintro (h | ⟨q, hq, hg⟩)
      · exact Or.inl h
      · exact Or.inr ⟨q, (hi q).1 hq, hg⟩
    · rintro (h | ⟨q, hq, hg⟩)
      · exact Or.inl h
      · exact Or.inr ⟨q, (hi q).2 hq, hg⟩
  · simp only [specApply, hkept]
    congr 1
    · apply length_eq_of_nodup_ext (nodup_eraseDups _) (nodup_eraseDups _)
      intro q; simp only [mem_eraseDups, mem_filter, hi]
    · apply length_eq_of_nodup_ext (nodup_eraseDups _) (nodup_eraseDups _)
      intro q; simp only [mem_eraseDups, mem_filter, hd]

end Kolibrie.Update
